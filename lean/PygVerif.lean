import PygVerif.Generated
import PygVerif.Model.Str
import PygVerif.Model.Escape
import PygVerif.Model.Selector
import PygVerif.Lemmas.Str
import PygVerif.Lemmas.Selector
import PygVerif.Props.C01
