import PygVerif.Model.Tal
import PygVerif.Model.Metal
import PygVerif.Model.Include
/-!
Token-stream codec for templates, values and programs (used by Driver.lean).
Tokens are separated by single spaces; strings are dotted hex (`-` = empty).
-/
open Pyg Pyg.Tal

namespace TalIO

def hexValC (c : Char) : Nat :=
  if c.isDigit then c.toNat - 48
  else if 'a' ≤ c ∧ c ≤ 'f' then c.toNat - 87
  else if 'A' ≤ c ∧ c ≤ 'F' then c.toNat - 55 else 0

def decStr (s : String) : Str :=
  if s == "-" || s.isEmpty then [] else (s.splitOn ".").map fun t => t.foldl (fun a c => a * 16 + hexValC c) 0

def encStr (s : Str) : String :=
  if s.isEmpty then "-" else ".".intercalate (s.map fun n => String.ofList (Nat.toDigits 16 n))

abbrev P := StateM (List String)

def tok : P String := do
  let s ← get
  match s with
  | [] => pure ""
  | t :: r => set r; pure t

def pStr : P Str := do return decStr (← tok)
def pNat : P Nat := do return (← tok).toNat!
def pBool : P Bool := do return (← tok) == "T"

def pRep {α : Type} (n : Nat) (p : P α) : P (List α) := do
  let mut acc := []
  for _ in [0:n] do
    acc := acc ++ [← p]
  return acc

def pPairs : P (List (Str × Str)) := do
  let n ← pNat
  pRep n (do let k ← pStr; let v ← pStr; pure (k, v))

partial def pVal : P Val := do
  let t ← tok
  match t with
  | "n" => pure .none
  | "d" => pure .default
  | "i" => do let s ← tok; pure (.int s.toInt!)
  | "s" => do pure (.str (← pStr))
  | "l" => do let n ← pNat; pure (.list (← pRep n pVal))
  | "m" => do
    let n ← pNat
    pure (.map (← pRep n (do let k ← pStr; let v ← pVal; pure (k, v))))
  | _ => pure .none

def pOpt {α : Type} (p : P α) : P (Option α) := do
  let t ← tok
  if t == "-" then pure none else do
    return some (← p)

def pCmds : P Cmds := do
  let define ← pOpt (do
    let n ← pNat
    pRep n (do let l ← pBool; let nm ← pStr; let e ← pStr; pure (⟨l, nm, e⟩ : DefineArg)))
  let condition ← pOpt pStr
  let repeat_ ← pOpt (do let v ← pStr; let e ← pStr; pure (v, e))
  let content ← pOpt (do let r ← pBool; let s ← pBool; let e ← pStr; pure (r, s, e))
  let attributes ← pOpt pPairs
  let omitTag ← pOpt pStr
  pure { define, condition, repeat_, content, attributes, omitTag }

instance : Inhabited Node := ⟨.data []⟩

partial def pNode : P Node := do
  let t ← tok
  match t with
  | "D" => do pure (.data (← pStr))
  | _ => do
    let tag ← pStr
    let atts ← pPairs
    let orig ← pPairs
    let cmds ← pCmds
    let singleton ← pBool
    let noEnd ← pBool
    let n ← pNat
    let kids ← pRep n pNode
    pure (.elem tag atts orig cmds singleton noEnd kids)

def pNodes : P (List Node) := do
  let n ← pNat
  pRep n pNode

instance : Inhabited MNode := ⟨.data []⟩

partial def pMNode : P MNode := do
  let t ← tok
  match t with
  | "D" => do pure (.data (← pStr))
  | _ => do
    let tag ← pStr
    let atts ← pPairs
    let orig ← pPairs
    let cmds ← pCmds
    let singleton ← pBool
    let noEnd ← pBool
    let um ← pOpt pStr
    let ds ← pOpt pStr
    let fs ← pOpt pStr
    let n ← pNat
    let kids ← pRep n pMNode
    pure (.elem tag atts orig cmds singleton noEnd um ds fs kids)

def pMNodes : P (List MNode) := do
  let n ← pNat
  pRep n pMNode

def pMacros : P (List (Str × MNode)) := do
  let n ← pNat
  pRep n (do let k ← pStr; let m ← pMNode; pure (k, m))

def parseMNodes (s : String) : List MNode := (pMNodes.run (s.splitOn " ")).1
def parseMacros (s : String) : List (Str × MNode) := (pMacros.run (s.splitOn " ")).1

def parseNodes (s : String) : List Node := (pNodes.run (s.splitOn " ")).1

/-- a table of named templates: count, then (name, nodes) -/
def pTpls : P (List (Str × List Node)) := do
  let n ← pNat
  pRep n (do let k ← pStr; let t ← pNodes; pure (k, t))
def parseTpls (s : String) : List (Str × List Node) := (pTpls.run (s.splitOn " ")).1
def parseVal (s : String) : Val := (pVal.run (s.splitOn " ")).1

partial def encVal : Val → String
  | .none => "n"
  | .default => "d"
  | .int i => "i " ++ toString i
  | .str s => "s " ++ encStr s
  | .list l => "l " ++ toString l.length ++ (l.foldl (fun a v => a ++ " " ++ encVal v) "")
  | .map m => "m " ++ toString m.length ++ (m.foldl (fun a kv => a ++ " " ++ encStr kv.1 ++ " " ++ encVal kv.2) "")

def encPairs (l : List (Str × Str)) : String :=
  toString l.length ++ l.foldl (fun a kv => a ++ " " ++ encStr kv.1 ++ " " ++ encStr kv.2) ""

def encB (b : Bool) : String := if b then "T" else "F"

def encCmd : Cmd → String
  | .startScope o c => "SCOPE " ++ encPairs o ++ " " ++ encPairs c
  | .define a => "DEFINE " ++ toString a.length ++ a.foldl (fun s x => s ++ " " ++ encB x.isLocal ++ " " ++ encStr x.name ++ " " ++ encStr x.expr) ""
  | .cond e t => "COND " ++ encStr e ++ " " ++ toString t
  | .rep v e t => "REPEAT " ++ encStr v ++ " " ++ encStr e ++ " " ++ toString t
  | .content r s e t => "CONTENT " ++ encB r ++ " " ++ encB s ++ " " ++ encStr e ++ " " ++ toString t
  | .attributes a => "ATTRS " ++ encPairs a
  | .omitTag e => "OMIT " ++ encStr e
  | .startTag t s => "STARTTAG " ++ encStr t ++ " " ++ encB s
  | .output s => "OUT " ++ encStr s
  | .endTag t o s => "ENDTAG " ++ encStr t ++ " " ++ encB o ++ " " ++ encB s

def encVars (v : Vars) : String := encVal (.map v)

end TalIO
