import PygVerif.Model.ZipTree
/-!
# Lemmas/ZipTree — the index's look-up is path resolution in the tree it stands for
-/
namespace Pyg.Zip
open Pyg

/-- `_getcacheinode`, one component at a time -/
theorem walk_cons (ix : Index) (p : Path) (c : Str) (cs : Path) :
    walk ix p (c :: cs) = if ix.kind? p = some .dir then (child ix p c).bind (fun t => walk ix t cs) else none := by
  rw [walk]; unfold child
  by_cases hk : ix.kind? p = some Kind.dir
  · simp only [hk, bne_self_eq_false, Bool.false_eq_true, if_false, if_true]
    cases ix.alias? (p ++ [c]) with
    | some t => simp
    | none =>
      by_cases h2 : (ix.kind? (p ++ [c])).isSome = true
      · simp [h2]
      · simp [h2]
  · have : (ix.kind? p != some Kind.dir) = true := by simpa using hk
    simp [this, hk]

theorem mem_names_of_node (ix : Index) (p : Path) (c : Str) (k : Kind) (h : (p ++ [c], k) ∈ ix.nodes) :
    c ∈ names ix p := by
  unfold names
  rw [List.mem_eraseDups]
  refine List.mem_append_left _ ?_
  rw [List.mem_filterMap]
  exact ⟨(p ++ [c], k), h, by simp⟩

theorem mem_names_of_alias (ix : Index) (p : Path) (c : Str) (t : Path) (h : (p ++ [c], t) ∈ ix.aliases) :
    c ∈ names ix p := by
  unfold names
  rw [List.mem_eraseDups]
  have hl : c ∈ ix.aliases.filterMap fun (q, _) => if q.dropLast = p ∧ q ≠ [] then q.getLast? else none := by
    rw [List.mem_filterMap]
    exact ⟨(p ++ [c], t), h, by simp⟩
  by_cases hk : c ∈ ix.nodes.filterMap fun (q, _) => if q.dropLast = p ∧ q ≠ [] then q.getLast? else none
  · exact List.mem_append_left _ hk
  · refine List.mem_append_right _ ?_
    rw [List.mem_filter]
    exact ⟨hl, by simpa using hk⟩

theorem find?_map_some {α β : Type} (l : List (α × β)) (q : α → Bool) (b : β)
    (h : (l.find? (fun x => q x.1)).map (·.2) = some b) : ∃ a, (a, b) ∈ l ∧ q a = true := by
  cases hf : l.find? (fun x => q x.1) with
  | none => rw [hf] at h; simp at h
  | some x =>
    rw [hf] at h
    simp at h
    have hm := List.mem_of_find?_eq_some hf
    have hq := List.find?_some hf
    exact ⟨x.1, by rw [← h]; exact hm, hq⟩

/-- a name that leads somewhere is among the directory's names -/
theorem child_mem_names (ix : Index) (p : Path) (c : Str) (t : Path) (h : child ix p c = some t) :
    c ∈ names ix p := by
  unfold child at h
  cases ha : ix.alias? (p ++ [c]) with
  | some t' =>
    unfold Index.alias? at ha
    obtain ⟨a, hm, hq⟩ := find?_map_some ix.aliases (fun q => decide (q = p ++ [c])) t' ha
    have : a = p ++ [c] := by simpa using hq
    subst this
    exact mem_names_of_alias ix p c t' hm
  | none =>
    rw [ha] at h
    simp only at h
    by_cases hk : (ix.kind? (p ++ [c])).isSome = true
    · unfold Index.kind? at hk
      have hne : p ++ [c] ≠ [] := by simp
      simp only [hne, if_false] at hk
      cases hkk : (ix.nodes.find? (fun x => decide (x.1 = p ++ [c]))).map (·.2) with
      | none => rw [hkk] at hk; simp at hk
      | some k =>
        obtain ⟨a, hm, hq⟩ := find?_map_some ix.nodes (fun q => decide (q = p ++ [c])) k hkk
        have : a = p ++ [c] := by simpa using hq
        subst this
        exact mem_names_of_node ix p c k hm
    · simp [hk] at h

/-- looking a name up among members built from a list of names by a function of the name -/
theorem kidLookup_filterMap (l : List Str) (h : Str → Option Path) (g : Path → Node) (c : Str) :
    kidLookup (l.filterMap fun n => (h n).map fun t => (n, g t)) c = if c ∈ l then (h c).map g else none := by
  induction l with
  | nil => simp [kidLookup]
  | cons n ns ih =>
    simp only [List.filterMap_cons]
    cases hn : h n with
    | none =>
      simp only [Option.map_none]
      rw [ih]
      by_cases hc : c = n
      · subst hc; simp [hn]
      · simp [hc]
    | some t =>
      simp only [Option.map_some, kidLookup]
      by_cases hc : n = c
      · subst hc; simp [hn]
      · have hc' : c ≠ n := fun e => hc e.symm
        simp [hc, hc', ih]

/-- **The index's look-up is path resolution in the tree it stands for.**  For a path whose
    components are neither empty nor `.` (the kernel skips those, the index does not know them)
    and a tree unfolded deeper than the path is long, descending in `toTree` from the node `p`
    reaches the tree of exactly the node `_getcacheinode` reaches — through directories,
    through resolved links (to their destinations), failing below files and at unknown names. -/
theorem lwalk_toTree (ix : Index) (data : Str → Bytes) : ∀ (cs : Path) (fuel : Nat) (p : Path),
    cs.length < fuel → (∀ c ∈ cs, c ≠ [] ∧ c ≠ [46]) →
    lwalk (toTree ix data fuel p) cs = (walk ix p cs).map (toTree ix data (fuel - cs.length)) := by
  intro cs
  induction cs with
  | nil => intro fuel p _ _; simp [lwalk, walk]
  | cons c cs ih =>
    intro fuel p hlen hclean
    cases fuel with
    | zero => simp at hlen
    | succ f =>
      have hc := hclean c (by simp)
      have hcs : ∀ x ∈ cs, x ≠ [] ∧ x ≠ [46] := fun x hx => hclean x (by simp [hx])
      have hlen' : cs.length < f := by simp at hlen; omega
      rw [walk_cons]
      have hfuel : f + 1 - (c :: cs).length = f - cs.length := by simp
      rw [hfuel]
      unfold toTree
      cases hk : ix.kind? p with
      | none => simp [lwalk]
      | some k =>
        cases k with
        | file o => simp [lwalk]
        | dir =>
          simp only [lwalk, hc.1, hc.2, or_self, if_false, if_true]
          rw [kidLookup_filterMap]
          cases hch : child ix p c with
          | none => simp
          | some t =>
            have hm := child_mem_names ix p c t hch
            simp only [hm, if_true, Option.map_some, Option.bind_some]
            exact ih f t hlen' hcs

end Pyg.Zip
