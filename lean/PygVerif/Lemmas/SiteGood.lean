import PygVerif.Lemmas.SiteCongr
/-!
# Lemmas/SiteGood — the site functions only ask about well-formed paths

`Good p`: an absolute path made of one or more proper components (`/a/b/c`: no empty component,
no `.`, no `..`, no trailing slash).  Every path `dispatch`, `popAt`, `entryAt`, `childOf`, the
plain directory listing and `serve` hand to the file-system view for a good selector is good
again (members, sidecars, `.cap` files, the `gophermap` probe), so these functions agree on
views that agree on good paths — which is all a view with its own path syntax (an archive, which
knows neither empty components nor `.`) can promise.
-/
namespace Pyg

/-- a name that can be one component of a path -/
def Proper (n : Str) : Prop := n ≠ [] ∧ 47 ∉ n ∧ n ≠ [46] ∧ n ≠ [46, 46]

def Good (p : Str) : Prop :=
  p.head? = some 47 ∧ p.getLast? ≠ some 47 ∧ ∀ c ∈ (splitOn 47 p).tail, c ≠ [] ∧ c ≠ [46] ∧ c ≠ [46, 46]

def AgreeG (st st' : StatFn) : Prop := ∀ p, Good p → st p = st' p

theorem proper_of_validName {n : Str} (h : validName n = true) : Proper n := by
  simp only [validName, Bool.and_eq_true, Bool.not_eq_true', bne_iff_ne, ne_eq] at h
  refine ⟨?_, ?_, h.1.2, h.2⟩
  · intro e; subst e; simp at h
  · intro hm
    have := h.1.1.1.2
    simp [List.contains_iff_mem] at this
    exact this hm

theorem proper_of_extOk {e : Str} (h : ExtOk e) : Proper e := by
  refine ⟨?_, h.1, ?_, ?_⟩ <;> (intro x; have := h.2; rw [x] at this; simp at this)

theorem getLast?_append_cons (a : Str) (x : Nat) (b : Str) : (a ++ x :: b).getLast? = (x :: b).getLast? := by
  rw [List.getLast?_append]
  cases h : (x :: b).getLast? with
  | none => simp at h
  | some y => simp

theorem good_head {p : Str} (h : Good p) : p.head? = some 47 := h.1

/-- a proper name appended as a new component -/
theorem good_member {p n : Str} (hp : Good p) (hn : Proper n) : Good (p ++ 47 :: n) := by
  refine ⟨head_append_of_head _ _ hp.1, ?_, ?_⟩
  · rw [getLast?_append_cons]
    obtain ⟨h1, h2, _, _⟩ := hn
    cases n with
    | nil => exact absurd rfl h1
    | cons x xs =>
      intro hl
      have : (x :: xs).getLast? = some 47 := by simpa using hl
      have hm := List.mem_of_getLast? this
      exact h2 hm
  · rw [splitOn_append_sep, splitOn_no_sep' n hn.2.1]
    intro c hc
    have hne := splitOn_ne_nil 47 p
    cases hs : splitOn 47 p with
    | nil => exact absurd hs hne
    | cons x xs =>
      rw [hs] at hc
      simp only [List.cons_append, List.tail_cons, List.mem_append, List.mem_singleton] at hc
      rcases hc with hc | hc
      · exact hp.2.2 c (by rw [hs]; simpa using hc)
      · subst hc; exact ⟨hn.1, hn.2.2.1, hn.2.2.2⟩

/-- text without a separator, at least three characters, appended to the last component -/
theorem good_extend {p e : Str} (hp : Good p) (he : ExtOk e) : Good (p ++ e) := by
  have hene : e ≠ [] := by intro x; have := he.2; rw [x] at this; simp at this
  refine ⟨head_append_of_head _ _ hp.1, ?_, ?_⟩
  · rw [List.getLast?_append]
    cases hl : e.getLast? with
    | none => exact absurd (List.getLast?_eq_none_iff.mp hl) hene
    | some x =>
      simp only [Option.some_or]
      intro hx
      have hx' : x = 47 := by simpa using hx
      subst hx'
      exact he.1 (List.mem_of_getLast? hl)
  · obtain ⟨init, last, h1, h2⟩ := splitOn_append_nosep p e he.1
    rw [h2]
    intro c hc
    have hmem : c ∈ (init ++ [last]).tail ∨ c = last ++ e := by
      cases init with
      | nil => simp at hc
      | cons x xs =>
        simp only [List.cons_append, List.tail_cons, List.mem_append, List.mem_singleton] at hc ⊢
        rcases hc with hc | hc
        · exact Or.inl (Or.inl hc)
        · exact Or.inr hc
    rcases hmem with hm | hm
    · exact hp.2.2 c (by rw [h1]; exact hm)
    · subst hm
      have hlen : 3 ≤ (last ++ e).length := by simp; have := he.2; omega
      refine ⟨?_, ?_, ?_⟩ <;> (intro x; rw [x] at hlen; simp at hlen)

theorem stripSlash_good {p : Str} (h : Good p) : stripSlash p = p := by
  unfold stripSlash; simp [h.2.1]

theorem good_ne_nil {p : Str} (h : Good p) : p ≠ [] := by
  intro e; have := h.1; rw [e] at this; simp at this

theorem good_ne_root {p : Str} (h : Good p) : p ≠ [47] := by
  intro e; have := h.2.1; rw [e] at this; simp at this

theorem good_gophermap {p : Str} (h : Good p) : Good (p ++ lit "/gophermap") := by
  have e1 : lit "/gophermap" = 47 :: lit "gophermap" := by decide
  rw [e1]; exact good_member h (by refine ⟨by decide, by decide, by decide, by decide⟩)

theorem good_cap {p n : Str} (h : Good p) (hn : Proper n) : Good (p ++ lit "/.cap/" ++ n) := by
  have e1 : p ++ lit "/.cap/" ++ n = (p ++ 47 :: lit ".cap") ++ 47 :: n := by
    have : lit "/.cap/" = 47 :: lit ".cap" ++ [47] := by decide
    rw [this]; simp [List.append_assoc]
  rw [e1]
  exact good_member (good_member h (by refine ⟨by decide, by decide, by decide, by decide⟩)) hn

/-! ## congruence on good paths -/

theorem readAtG {st st' : StatFn} (h : AgreeG st st') (p : Str) (hp : Good p) : readAt st p = readAt st' p := by
  unfold readAt; rw [h p hp]

theorem sidecarsAtG {st st' : StatFn} (h : AgreeG st st') (c : SiteCfg) (hext : ∀ e ∈ c.eaexts, ExtOk e.1)
    (sel : Str) (hs : Good sel) (isDir : Bool) : sidecarsAt c st sel isDir = sidecarsAt c st' sel isDir := by
  unfold sidecarsAt
  rw [stripSlash_good hs]
  have key : ∀ l : List (Str × Str), (∀ e ∈ l, ExtOk e.1) →
      (l.filterMap fun (x : Str × Str) =>
        (readAt st ((if isDir then sel ++ [47] else sel) ++ x.1)).map fun d => (x.1, textLines d)) =
      (l.filterMap fun (x : Str × Str) =>
        (readAt st' ((if isDir then sel ++ [47] else sel) ++ x.1)).map fun d => (x.1, textLines d)) := by
    intro l
    induction l with
    | nil => intro _; rfl
    | cons e r ih =>
      intro hl
      have hg : Good ((if isDir then sel ++ [47] else sel) ++ e.1) := by
        cases isDir with
        | true =>
          simp only [if_true, List.append_assoc, List.singleton_append]
          exact good_member hs (proper_of_extOk (hl e (by simp)))
        | false =>
          simp only [Bool.false_eq_true, if_false]
          exact good_extend hs (hl e (by simp))
      simp only [List.filterMap_cons]
      rw [readAtG h _ hg, ih (fun x hx => hl x (by simp [hx]))]
  exact key c.eaexts hext

theorem popAtG {st st' : StatFn} (h : AgreeG st st') (c : SiteCfg) (hext : ∀ e ∈ c.eaexts, ExtOk e.1)
    (sel : Str) (hs : Good sel) : popAt c st sel = popAt c st' sel := by
  unfold popAt
  rw [← h sel hs]
  cases hst : st sel with
  | none => rfl
  | some n =>
    cases n with
    | dir kids => simp only; rw [sidecarsAtG h c hext sel hs true]
    | file d => simp only; rw [sidecarsAtG h c hext sel hs false]
    | other => simp only; rw [sidecarsAtG h c hext sel hs false]

theorem dispatchG {st st' : StatFn} (h : AgreeG st st') (c : SiteCfg) (sel : Str) (hs : Good sel) :
    dispatch c st sel = dispatch c st' sel := by
  unfold dispatch
  rw [h sel hs, h _ (good_gophermap hs)]

theorem entryAtG {st st' : StatFn} (h : AgreeG st st') (c : SiteCfg) (hext : ∀ e ∈ c.eaexts, ExtOk e.1)
    (sel : Str) (hs : Good sel) : entryAt c st sel = entryAt c st' sel := by
  unfold entryAt
  rw [popAtG h c hext sel hs, dispatchG h c sel hs]

theorem childOfG {st st' : StatFn} (h : AgreeG st st') (c : SiteCfg) (hext : ∀ e ∈ c.eaexts, ExtOk e.1)
    (base n : Str) (k : Node) (hb : Good base) (hn : validName n = true) :
    childOf c st base n k = childOf c st' base n k := by
  have hpn := proper_of_validName hn
  have hin : Good (base ++ [47] ++ n) := by
    rw [List.append_assoc]; exact good_member hb hpn
  unfold childOf
  simp only
  rw [dispatchG h c _ hin, entryAtG h c hext _ hin, readAtG h _ (good_cap hb hpn)]

/-- **Plain directory listings and documents agree on views that agree on good paths.** -/
theorem dirEntriesG {st st' : StatFn} (h : AgreeG st st') (c : SiteCfg) (hext : ∀ e ∈ c.eaexts, ExtOk e.1)
    (hnames : ∀ p ks, st p = some (.dir ks) → ∀ nk ∈ ks, validName nk.1 = true)
    (sel : Str) (hs : Good sel) (hd : dispatch c st sel = .dir) : siteEntries c st sel = siteEntries c st' sel := by
  unfold siteEntries
  rw [← dispatchG h c sel hs, hd]
  simp only [good_ne_root hs, if_false]
  unfold kidsAt
  rw [← h sel hs]
  cases hst : st sel with
  | none => rfl
  | some nd =>
    cases nd with
    | file d => rfl
    | other => rfl
    | dir kids =>
      simp only [Option.bind_some]
      congr 1
      apply List.map_congr_left
      intro nk hnk
      obtain ⟨n, k⟩ := nk
      exact childOfG h c hext _ n k hs (hnames sel kids hst (n, k) hnk)

theorem serveG {st st' : StatFn} (h : AgreeG st st') (c : SiteCfg) (sel : Str) (hs : Good sel) :
    serve c st sel = serve c st' sel := by
  unfold serve
  rw [dispatchG h c sel hs, h sel hs]

end Pyg
