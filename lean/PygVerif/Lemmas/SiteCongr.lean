import PygVerif.Lemmas.Site
/-!
# Lemmas/SiteCongr — the site functions only ask the file system about paths below the root

`Agree st st'`: two views of the file system give the same object for every absolute path
without a `..` component.  The lemmas show that every path `dispatch`, `popAt`, `childOf`,
`siteEntries` hand to `st` is such a path (for a selector that passes the filter, member names
a directory can hold, and sidecar extensions without a separator), hence the functions agree
on agreeing views.
-/
namespace Pyg

/-- no `..` component (before the trailing-slash strip) -/
def Raw (p : Str) : Prop := ∀ c ∈ splitOn 47 p, c ≠ [46, 46]

/-- an absolute path below the root as the server writes it -/
def Inside (p : Str) : Prop := p.head? = some 47 ∧ Raw p

def Agree (st st' : StatFn) : Prop := ∀ p, Inside p → st p = st' p

/-- a sidecar extension: no separator, at least three characters (`.abstract`, `.3d`, …) -/
def ExtOk (ext : Str) : Prop := 47 ∉ ext ∧ 3 ≤ ext.length

theorem raw_append_sep (a b : Str) : Raw (a ++ 47 :: b) ↔ Raw a ∧ Raw b := by
  unfold Raw
  rw [splitOn_append_sep]
  constructor
  · intro h
    exact ⟨fun c hc => h c (List.mem_append_left _ hc), fun c hc => h c (List.mem_append_right _ hc)⟩
  · intro ⟨ha, hb⟩ c hc
    rcases List.mem_append.mp hc with hc | hc
    · exact ha c hc
    · exact hb c hc

theorem splitOn_no_sep' (s : Str) (h : 47 ∉ s) : splitOn 47 s = [s] := by
  induction s with
  | nil => rfl
  | cons c cs ih =>
    have hc : c ≠ 47 := fun e => h (by simp [e])
    have := ih (fun hm => h (by simp [hm]))
    simp [splitOn, hc, this]

theorem raw_nosep (n : Str) (h : 47 ∉ n) (hn : n ≠ [46, 46]) : Raw n := by
  intro c hc
  rw [splitOn_no_sep' n h] at hc
  simp at hc
  rw [hc]; exact hn

theorem raw_of_secure {fb : List Str} {s : Str} (hs : secureB fb s = true) (hdd : [46,46] ∈ fb) (hnul : [0] ∈ fb) :
    Raw s := fun c hc => (secure_components hs hdd hnul c hc).1

/-- appending text without a separator only lengthens the last component -/
theorem splitOn_append_nosep (a b : Str) (hb : 47 ∉ b) :
    ∃ init last, splitOn 47 a = init ++ [last] ∧ splitOn 47 (a ++ b) = init ++ [last ++ b] := by
  induction a with
  | nil => exact ⟨[], [], by simp [splitOn], by simp [splitOn_no_sep' b hb]⟩
  | cons x xs ih =>
    obtain ⟨init, last, h1, h2⟩ := ih
    by_cases hx : x = 47
    · subst hx
      exact ⟨[] :: init, last, by simp [splitOn, h1], by simp [splitOn, h2]⟩
    · cases init with
      | nil =>
        refine ⟨[], x :: last, ?_, ?_⟩
        · simp [splitOn, hx, h1]
        · simp [splitOn, hx, h2]
      | cons i is =>
        refine ⟨(x :: i) :: is, last, ?_, ?_⟩
        · simp [splitOn, hx, h1]
        · simp [splitOn, hx, h2]

theorem raw_append_nosep (a b : Str) (ha : Raw a) (hb : 47 ∉ b) (hl : 3 ≤ b.length) : Raw (a ++ b) := by
  obtain ⟨init, last, h1, h2⟩ := splitOn_append_nosep a b hb
  intro c hc
  rw [h2] at hc
  rcases List.mem_append.mp hc with hc | hc
  · exact ha c (by rw [h1]; exact List.mem_append_left _ hc)
  · simp at hc
    intro e
    have : (last ++ b).length = 2 := by rw [← hc, e]; rfl
    simp at this; omega

theorem raw_stripSlash (a : Str) (ha : Raw a) : Raw (stripSlash a) := by
  unfold stripSlash
  split
  · rename_i hl
    intro c hc
    apply ha c
    have : a = a.dropLast ++ [47] := by
      have hne : a ≠ [] := by intro e; simp [e] at hl
      have := List.dropLast_concat_getLast hne
      rw [List.getLast?_eq_some_getLast hne] at hl
      simp at hl
      rw [hl] at this
      exact this.symm
    rw [this, splitOn_append_sep]
    exact List.mem_append_left _ hc
  · exact ha

theorem noClimb_of_raw (p : Str) (h : Raw p) : NoClimb p := raw_stripSlash p h

theorem raw_nil : Raw [] := by intro c hc; simp [splitOn] at hc; rw [hc]; decide

/-! ## congruence of the site functions -/

theorem readAt_congr {st st' : StatFn} (h : Agree st st') (p : Str) (hp : Inside p) : readAt st p = readAt st' p := by
  unfold readAt; rw [h p hp]

/-- the root is not a regular file (it is the document root directory, or the view has no answer) -/
def RootNotFile (st : StatFn) : Prop := ∀ d, st [47] ≠ some (.file d) ∧ st [47] ≠ some .other

theorem stripSlash_eq_nil (s : Str) (hh : s.head? = some 47) (h : stripSlash s = []) : s = [47] := by
  cases s with
  | nil => simp at hh
  | cons c t =>
    simp at hh; subst hh
    unfold stripSlash at h
    split at h
    · cases t with
      | nil => rfl
      | cons x xs => simp [List.dropLast] at h
    · cases h

theorem head_append_of_head (a b : Str) (h : a.head? = some 47) : (a ++ b).head? = some 47 := by
  cases a with
  | nil => simp at h
  | cons c t => simpa using h

theorem sidecar_inside (sel ext : Str) (hs : Inside sel) (he : ExtOk ext) (isDir : Bool)
    (hroot : isDir = false → stripSlash sel ≠ []) :
    Inside ((if isDir then stripSlash sel ++ [47] else stripSlash sel) ++ ext) := by
  have hraw : Raw (stripSlash sel) := raw_stripSlash sel hs.2
  have hext : Raw ext := raw_nosep ext he.1 (by intro e; have := he.2; rw [e] at this; simp at this)
  cases isDir with
  | true =>
    simp only [if_true]
    constructor
    · rcases stripSlash_of_head_slash sel hs.1 with h0 | ⟨t, ht⟩
      · rw [h0]; rfl
      · rw [ht]; rfl
    · rw [List.append_assoc]
      exact (raw_append_sep _ _).mpr ⟨hraw, hext⟩
  | false =>
    simp only [Bool.false_eq_true, if_false]
    constructor
    · rcases stripSlash_of_head_slash sel hs.1 with h0 | ⟨t, ht⟩
      · exact absurd h0 (hroot rfl)
      · rw [ht]; rfl
    · exact raw_append_nosep _ _ hraw he.1 he.2

theorem sidecarsAt_congr {st st' : StatFn} (h : Agree st st') (c : SiteCfg) (hext : ∀ e ∈ c.eaexts, ExtOk e.1)
    (sel : Str) (hs : Inside sel) (isDir : Bool) (hroot : isDir = false → stripSlash sel ≠ []) :
    sidecarsAt c st sel isDir = sidecarsAt c st' sel isDir := by
  unfold sidecarsAt
  have key : ∀ l : List (Str × Str), (∀ e ∈ l, ExtOk e.1) →
      (l.filterMap fun (x : Str × Str) =>
        (readAt st ((if isDir then stripSlash sel ++ [47] else stripSlash sel) ++ x.1)).map fun d => (x.1, textLines d)) =
      (l.filterMap fun (x : Str × Str) =>
        (readAt st' ((if isDir then stripSlash sel ++ [47] else stripSlash sel) ++ x.1)).map fun d => (x.1, textLines d)) := by
    intro l
    induction l with
    | nil => intro _; rfl
    | cons e r ih =>
      intro hl
      simp only [List.filterMap_cons]
      rw [readAt_congr h _ (sidecar_inside sel e.1 hs (hl e (by simp)) isDir hroot), ih (fun x hx => hl x (by simp [hx]))]
  exact key c.eaexts hext

theorem popAt_congr {st st' : StatFn} (h : Agree st st') (hr : RootNotFile st) (c : SiteCfg)
    (hext : ∀ e ∈ c.eaexts, ExtOk e.1) (sel : Str) (hs : Inside sel) :
    popAt c st sel = popAt c st' sel := by
  unfold popAt
  rw [← h sel hs]
  cases hst : st sel with
  | none => rfl
  | some n =>
    cases n with
    | dir kids => simp only; rw [sidecarsAt_congr h c hext sel hs true (by intro e; cases e)]
    | file d =>
      have hne : stripSlash sel ≠ [] := by
        intro e
        have := stripSlash_eq_nil sel hs.1 e
        rw [this] at hst
        exact (hr d).1 hst
      simp only; rw [sidecarsAt_congr h c hext sel hs false (fun _ => hne)]
    | other =>
      have hne : stripSlash sel ≠ [] := by
        intro e
        have := stripSlash_eq_nil sel hs.1 e
        rw [this] at hst
        exact (hr []).2 hst
      simp only; rw [sidecarsAt_congr h c hext sel hs false (fun _ => hne)]

theorem gophermap_inside (sel : Str) (hs : Inside sel) : Inside (sel ++ lit "/gophermap") := by
  have e1 : lit "/gophermap" = 47 :: lit "gophermap" := by decide
  refine ⟨head_append_of_head _ _ hs.1, ?_⟩
  rw [e1]
  exact (raw_append_sep _ _).mpr ⟨hs.2, raw_nosep _ (by decide) (by decide)⟩

theorem dispatch_congr {st st' : StatFn} (h : Agree st st') (c : SiteCfg) (hdd : [46,46] ∈ c.forbidden) (hnul : [0] ∈ c.forbidden)
    (sel : Str) (hh : sel.head? = some 47) : dispatch c st sel = dispatch c st' sel := by
  unfold dispatch
  by_cases hs : secureB c.forbidden sel = true
  · have hin : Inside sel := ⟨hh, raw_of_secure hs hdd hnul⟩
    rw [h sel hin, h _ (gophermap_inside sel hin)]
  · have : secureB c.forbidden sel = false := by simpa using hs
    simp [this]

theorem entryAt_congr {st st' : StatFn} (h : Agree st st') (hr : RootNotFile st) (c : SiteCfg)
    (hdd : [46,46] ∈ c.forbidden) (hnul : [0] ∈ c.forbidden) (hext : ∀ e ∈ c.eaexts, ExtOk e.1)
    (sel : Str) (hs : Inside sel) : entryAt c st sel = entryAt c st' sel := by
  unfold entryAt
  rw [popAt_congr h hr c hext sel hs, dispatch_congr h c hdd hnul sel hs.1]

/-- the selector of a directory member: inside, provided the directory selector is and the name is one a directory can hold -/
theorem member_inside (base n : Str) (hb : base = [] ∨ Inside base) (hn : validName n = true) : Inside (base ++ [47] ++ n) := by
  have hv : 47 ∉ n ∧ n ≠ [46, 46] := by
    simp only [validName, Bool.and_eq_true, Bool.not_eq_true', bne_iff_ne, ne_eq] at hn
    refine ⟨?_, hn.2⟩
    intro hm
    have := hn.1.1.1.2
    simp [List.contains_iff_mem] at this
    exact this hm
  rcases hb with hb | hb
  · subst hb
    refine ⟨rfl, ?_⟩
    simp only [List.nil_append, List.cons_append]
    exact (raw_append_sep [] n).mpr ⟨raw_nil, raw_nosep n hv.1 hv.2⟩
  · refine ⟨?_, ?_⟩
    · rw [List.append_assoc]; exact head_append_of_head _ _ hb.1
    · rw [List.append_assoc]
      exact (raw_append_sep base n).mpr ⟨hb.2, raw_nosep n hv.1 hv.2⟩

theorem cap_inside (base n : Str) (hb : base = [] ∨ Inside base) (hn : validName n = true) :
    Inside (base ++ lit "/.cap/" ++ n) := by
  have e1 : lit "/.cap/" = [47] ++ lit ".cap" ++ [47] := by decide
  have hcap : validName (lit ".cap") = true := by decide
  have h1 := member_inside base (lit ".cap") hb hcap
  have h2 := member_inside (base ++ [47] ++ lit ".cap") n (Or.inr h1) hn
  have : base ++ lit "/.cap/" ++ n = base ++ [47] ++ lit ".cap" ++ [47] ++ n := by
    rw [e1]; simp [List.append_assoc]
  rw [this]; exact h2

theorem childOf_congr {st st' : StatFn} (h : Agree st st') (hr : RootNotFile st) (c : SiteCfg)
    (hdd : [46,46] ∈ c.forbidden) (hnul : [0] ∈ c.forbidden) (hext : ∀ e ∈ c.eaexts, ExtOk e.1)
    (base n : Str) (k : Node) (hb : base = [] ∨ Inside base) (hn : validName n = true) :
    childOf c st base n k = childOf c st' base n k := by
  have hin := member_inside base n hb hn
  unfold childOf
  simp only
  rw [dispatch_congr h c hdd hnul _ hin.1, entryAt_congr h hr c hdd hnul hext _ hin, readAt_congr h _ (cap_inside base n hb hn)]

theorem gmPopulate_congr (fb : List Str) (ea : List (Str × Str)) (dm : Str) (pop pop' : Str → Option PopInfo)
    (hp : ∀ s, s.head? = some 47 → secureB fb s = true → pop s = pop' s) (e : Entry) :
    gmPopulate fb ea dm pop e = gmPopulate fb ea dm pop' e := by
  unfold gmPopulate
  split
  · rename_i hc
    simp only [Bool.and_eq_true, beq_iff_eq] at hc
    rw [hp e.selector hc.1.2 hc.2]
  · rfl

theorem gmParse_congr (fb : List Str) (ea : List (Str × Str)) (dm base : Str) (pop pop' : Str → Option PopInfo)
    (hp : ∀ s, s.head? = some 47 → secureB fb s = true → pop s = pop' s) (ls : List Str) :
    gmParse fb ea dm base pop ls = gmParse fb ea dm base pop' ls := by
  induction ls with
  | nil => rfl
  | cons l r ih =>
    have hl : gmLine fb ea dm base pop l = gmLine fb ea dm base pop' l := by
      unfold gmLine
      have : gmPopulate fb ea dm pop = gmPopulate fb ea dm pop' := funext (gmPopulate_congr fb ea dm pop pop' hp)
      simp only [this]
    simp only [gmParse, hl, ih]

/-- **The listing functions agree on agreeing views.** -/
theorem siteEntries_congr {st st' : StatFn} (h : Agree st st') (hr : RootNotFile st) (c : SiteCfg)
    (hdd : [46,46] ∈ c.forbidden) (hnul : [0] ∈ c.forbidden) (hext : ∀ e ∈ c.eaexts, ExtOk e.1)
    (hnames : ∀ p ks, st p = some (.dir ks) → ∀ nk ∈ ks, validName nk.1 = true)
    (sel : Str) (hh : sel.head? = some 47) : siteEntries c st sel = siteEntries c st' sel := by
  unfold siteEntries
  rw [← dispatch_congr h c hdd hnul sel hh]
  by_cases hs : secureB c.forbidden sel = true
  · have hin : Inside sel := ⟨hh, raw_of_secure hs hdd hnul⟩
    have hbase : (if sel = [47] then [] else sel) = [] ∨ Inside (if sel = [47] then [] else sel) := by
      split
      · exact Or.inl rfl
      · exact Or.inr hin
    have hpop : ∀ s, s.head? = some 47 → secureB c.forbidden s = true → popAt c st s = popAt c st' s :=
      fun s h1 h2 => popAt_congr h hr c hext s ⟨h1, raw_of_secure h2 hdd hnul⟩
    have hgm : Inside ((if sel = [47] then [] else sel) ++ lit "/gophermap") := by
      split
      · exact ⟨rfl, by
          have e1 : ([] : Str) ++ lit "/gophermap" = [] ++ 47 :: lit "gophermap" := by decide
          rw [e1]; exact (raw_append_sep _ _).mpr ⟨raw_nil, raw_nosep _ (by decide) (by decide)⟩⟩
      · exact gophermap_inside sel hin
    cases hd : dispatch c st sel with
    | notFound => rfl
    | file => rfl
    | url => rfl
    | htmlFile => rfl
    | dir =>
      simp only
      unfold kidsAt
      rw [← h sel hin]
      cases hst : st sel with
      | none => rfl
      | some nd =>
        cases nd with
        | file d => rfl
        | other => rfl
        | dir kids =>
          simp only [Option.bind_some]
          congr 1
          apply List.map_congr_left
          intro nk hnk
          obtain ⟨n, k⟩ := nk
          exact childOf_congr h hr c hdd hnul hext _ n k hbase (hnames sel kids hst (n, k) hnk)
    | gophermapDir =>
      simp only
      rw [readAt_congr h _ hgm]
      cases readAt st' ((if sel = [47] then [] else sel) ++ lit "/gophermap") with
      | none => rfl
      | some d => simp only [Option.bind_some]; exact gmParse_congr _ _ _ _ _ _ hpop _
    | gophermapFile =>
      simp only
      rw [readAt_congr h _ hin]
      cases readAt st' sel with
      | none => rfl
      | some d => simp only [Option.bind_some]; exact gmParse_congr _ _ _ _ _ _ hpop _
  · have hns : secureB c.forbidden sel = false := by simpa using hs
    have : dispatch c st sel = .notFound ∨ dispatch c st sel = .url := by
      unfold dispatch
      by_cases hu : (c.url && urlSecureB c.urlForbidden sel) = true <;> simp [hu, hns]
    rcases this with h1 | h1 <;> rw [h1]

/-! ## well-formed trees: every directory reached below a well-formed root holds valid names -/

theorem kidsWf_mem : ∀ (kids : List (Str × Node)), kidsWf kids = true →
    ∀ nk ∈ kids, validName nk.1 = true ∧ nk.2.wf = true := by
  intro kids
  induction kids with
  | nil => intro _ nk h; cases h
  | cons x r ih =>
    intro hw nk hm
    obtain ⟨n, k⟩ := x
    simp only [kidsWf, Bool.and_eq_true] at hw
    rcases List.mem_cons.mp hm with h | h
    · subst h; exact ⟨hw.1.1, hw.1.2⟩
    · exact ih hw.2 nk h

theorem kidLookup_mem : ∀ (kids : List (Str × Node)) (c : Str) (k : Node), kidLookup kids c = some k → (c, k) ∈ kids := by
  intro kids
  induction kids with
  | nil => intro c k h; cases h
  | cons x r ih =>
    intro c k h
    obtain ⟨n, m⟩ := x
    simp only [kidLookup] at h
    split at h
    · rename_i hn
      cases h
      subst hn
      exact List.mem_cons_self
    · exact List.mem_cons_of_mem _ (ih c k h)

theorem lwalk_wf : ∀ (cs : List Str) (n m : Node), n.wf = true → lwalk n cs = some m → m.wf = true := by
  intro cs
  induction cs with
  | nil => intro n m hw h; cases n <;> (simp [lwalk] at h; subst h; exact hw)
  | cons c r ih =>
    intro n m hw h
    cases n with
    | file d => simp [lwalk] at h
    | other => simp [lwalk] at h
    | dir kids =>
      simp only [lwalk] at h
      split at h
      · exact ih _ m hw h
      · cases hk : kidLookup kids c with
        | none => simp [hk] at h
        | some k =>
          simp only [hk] at h
          have hkw : kidsWf kids = true := by simpa [Node.wf] using hw
          exact ih k m (kidsWf_mem kids hkw (c, k) (kidLookup_mem kids c k hk)).2 h

theorem statAt_names_valid (R : Node) (hw : R.wf = true) (p : Str) (ks : List (Str × Node))
    (h : statAt R p = some (.dir ks)) : ∀ nk ∈ ks, validName nk.1 = true := by
  unfold statAt at h
  split at h
  · cases h
  · have := lwalk_wf _ R (.dir ks) hw h
    have hkw : kidsWf ks = true := by simpa [Node.wf] using this
    exact fun nk hm => (kidsWf_mem ks hkw nk hm).1

/-- the view from inside a root directory and the kernel's view of any world holding that
    directory at the configured root path agree below the root -/
theorem agree_statAt_kstat (W : Node) (rootStr : Str) (anc : List Node) (kids : List (Str × Node))
    (hroot : kwalk [] W (splitOn 47 rootStr) = some (anc, .dir kids)) :
    Agree (statAt (.dir kids)) (kstat W rootStr) :=
  fun p hp => (kstat_eq_statAt W rootStr anc kids hroot p hp.1 (noClimb_of_raw p hp.2)).symm

theorem rootNotFile_statAt (kids : List (Str × Node)) : RootNotFile (statAt (.dir kids)) := by
  intro d
  have : statAt (.dir kids) [47] = some (.dir kids) := by
    unfold statAt selComps
    have e1 : (encodeSE [47]).isNone = false := by decide
    have e2 : splitOn 47 (stripSlash [47]) = [[]] := by decide
    simp [e1, e2, lwalk]
  rw [this]
  exact ⟨by simp, by simp⟩

end Pyg
