import PygVerif.Lemmas.SiteGood
import PygVerif.Lemmas.ZipTree
/-!
# Lemmas/ZipSite — the archive's view and the extracted tree's view agree on good paths
-/
namespace Pyg.Zip
open Pyg

/-- `VFS_Real.stat` below a root, without `os.fsencode`'s refusal of unencodable selectors -/
def treeStat (R : Node) : StatFn := fun sel => lwalk R (selComps sel)

theorem lwalk_append : ∀ (xs ys : List Str) (n : Node), lwalk n (xs ++ ys) = (lwalk n xs).bind (fun m => lwalk m ys) := by
  intro xs
  induction xs with
  | nil => intro ys n; cases n <;> simp [lwalk]
  | cons c cs ih =>
    intro ys n
    cases n with
    | file d => simp [lwalk]
    | other => simp [lwalk]
    | dir kids =>
      simp only [List.cons_append, lwalk]
      split
      · exact ih ys _
      · cases kidLookup kids c with
        | none => simp
        | some k => simp only; exact ih ys k

theorem tail_subset_of_append {α : Type} (a b : List α) (ha : a ≠ []) : ∀ x ∈ b, x ∈ (a ++ b).tail := by
  intro x hx
  cases a with
  | nil => exact absurd rfl ha
  | cons y ys => simp [hx]

/-- what is left of a good path below a good prefix: non-empty, its components proper -/
theorem rest_of_good (Z rest : Str) (hp : Good (Z ++ 47 :: rest)) :
    rest ≠ [] ∧ rest.getLast? ≠ some 47 ∧ ∀ c ∈ splitOn 47 rest, c ≠ [] ∧ c ≠ [46] := by
  have hc : ∀ c ∈ splitOn 47 rest, c ≠ [] ∧ c ≠ [46] ∧ c ≠ [46, 46] := by
    intro c hc
    apply hp.2.2 c
    rw [splitOn_append_sep]
    exact tail_subset_of_append _ _ (splitOn_ne_nil 47 Z) c hc
  have hne : rest ≠ [] := by
    intro e
    subst e
    have := (hc [] (by simp [splitOn])).1
    exact this rfl
  refine ⟨hne, ?_, fun c h => ⟨(hc c h).1, (hc c h).2.1⟩⟩
  have := hp.2.1
  rw [List.getLast?_append] at this
  cases hl : rest.getLast? with
  | none => simp
  | some x =>
    intro hx
    apply this
    have : (47 :: rest).getLast? = some x := by
      cases rest with
      | nil => exact absurd rfl hne
      | cons y ys => simpa using hl
    rw [this]; simpa using hx

theorem innerPath_below (Z rest : Str) (h1 : rest ≠ []) (h2 : rest.getLast? ≠ some 47) :
    innerPath Z.length (Z ++ 47 :: rest) = rest := by
  unfold innerPath
  simp [h2]

theorem innerPath_self (Z : Str) : innerPath Z.length Z = [] := by
  unfold innerPath; simp

/-- **The archive's view is the extracted tree's view.**  `T = toTree ix data F []` is the
    tree the archive stands for (`hsat`: unfolding deeper than `F` changes nothing — see
    `toTree_saturates`); `R` is a document root that holds `T` where the archive's selector `Z`
    points; outside the archive the underlying file system is `R` too.  Then `VFSZip`'s view
    and `VFS_Real`'s view of `R` give the same object for every good path. -/
theorem zip_view_agrees (ix : Index) (data : Str → Bytes) (F : Nat)
    (hsat : ∀ f t, F ≤ f → toTree ix data f t = toTree ix data F t)
    (Z : Str) (hZ : Good Z) (R : Node) (hR : lwalk R (splitOn 47 Z) = some (toTree ix data F []))
    (chain : StatFn) (hout : ∀ p, Good p → inArchive Z p = false → chain p = treeStat R p) :
    AgreeG (zipStat ix data F Z chain) (treeStat R) := by
  intro p hp
  unfold zipStat
  cases hin : inArchive Z p with
  | false => simp only [Bool.false_eq_true, if_false]; exact hout p hp hin
  | true =>
    simp only [if_true]
    unfold inArchive at hin
    simp only [Bool.or_eq_true, beq_iff_eq] at hin
    rcases hin with he | hpre
    · subst he
      rw [innerPath_self]
      unfold treeStat selComps
      rw [stripSlash_good hp, hR]
      simp [lookup]
    · obtain ⟨rest, hrest⟩ := (isPrefixB_iff _ _).mp hpre
      have hpe : p = Z ++ 47 :: rest := by rw [← hrest]; simp
      subst hpe
      obtain ⟨h1, h2, h3⟩ := rest_of_good Z rest hp
      rw [innerPath_below Z rest h1 h2]
      unfold treeStat selComps
      rw [stripSlash_good hp, splitOn_append_sep, lwalk_append, hR]
      simp only [Option.bind_some]
      have hl : lookup ix rest = walk ix [] (splitOn 47 rest) := by
        unfold lookup
        have : rest.isEmpty = false := by cases rest with | nil => exact absurd rfl h1 | cons _ _ => rfl
        simp [this]
      rw [hl]
      have hT : toTree ix data F [] = toTree ix data (F + (splitOn 47 rest).length + 1) [] :=
        (hsat _ [] (by omega)).symm
      rw [hT, lwalk_toTree ix data (splitOn 47 rest) _ [] (by omega) h3]
      cases walk ix [] (splitOn 47 rest) with
      | none => rfl
      | some t =>
        simp only [Option.map_some]
        congr 1
        exact (hsat _ t (by omega)).symm

end Pyg.Zip
