import PygVerif.Model.Selector
import PygVerif.Lemmas.Str
/-!
# Lemmas/Selector — the security filter is closed under taking substrings; components of
a secure selector; lexical containment of normalised paths
-/
namespace Pyg

theorem infixOk_iff (fb : List Str) (s : Str) :
    (fb.all fun f => !isInfixB f s) = true ↔ ∀ f ∈ fb, ¬ f <:+: s := by
  simp only [List.all_eq_true, Bool.not_eq_true']
  constructor
  · intro h f hf hin
    have := h f hf
    rw [(isInfixB_iff f s).mpr hin] at this
    exact absurd this (by simp)
  · intro h f hf
    cases hb : isInfixB f s with
    | false => rfl
    | true => exact absurd ((isInfixB_iff f s).mp hb) (h f hf)

/-- the substring part of the filter: no forbidden substring anywhere -/
def InfixSafe (fb : List Str) (s : Str) : Prop := ∀ f ∈ fb, ¬ f <:+: s

theorem infixSafe_infix_closed {fb : List Str} {s t : Str} (hs : InfixSafe fb s) (ht : t <:+: s) :
    InfixSafe fb t := fun f hf hin => hs f hf (hin.trans ht)

theorem secureB_iff (fb : List Str) (s : Str) :
    secureB fb s = true ↔ (∀ f ∈ fb, ¬ f <:+: s) ∧ isSuffixB [47, 46] s = false := by
  simp only [secureB, Bool.and_eq_true, infixOk_iff, Bool.not_eq_true']

theorem secure_infixSafe {fb : List Str} {s : Str} (hs : secureB fb s = true) : InfixSafe fb s :=
  ((secureB_iff fb s).mp hs).1

theorem secure_no_infix {fb : List Str} {s f : Str} (hs : secureB fb s = true) (hf : f ∈ fb) :
    ¬ f <:+: s := ((secureB_iff fb s).mp hs).1 f hf

/-- the last component of a secure selector is not a single dot -/
theorem secure_not_dot_suffix {fb : List Str} {s : Str} (hs : secureB fb s = true) :
    isSuffixB [47, 46] s = false := ((secureB_iff fb s).mp hs).2

theorem mem_infix_singleton {c : Nat} {s : Str} (h : c ∈ s) : [c] <:+: s := by
  obtain ⟨a, b, hab⟩ := List.append_of_mem h
  exact ⟨a, b, by simp [hab]⟩

/-- every `/`-component of a secure selector is secure, is not `..`, and has no NUL -/
theorem infixSafe_components {fb : List Str} {s : Str} (hs : InfixSafe fb s)
    (hdd : [46,46] ∈ fb) (hnul : [0] ∈ fb) :
    ∀ c ∈ splitOn 47 s, c ≠ [46,46] ∧ 0 ∉ c := by
  intro c hc
  have hci : c <:+: s := (splitOn_spec 47 s).2 c hc
  constructor
  · intro h
    exact hs _ hdd (by rw [← h]; exact hci)
  · intro h0
    exact hs _ hnul ((mem_infix_singleton h0).trans hci)

theorem secure_components {fb : List Str} {s : Str} (hs : secureB fb s = true)
    (hdd : [46,46] ∈ fb) (hnul : [0] ∈ fb) :
    ∀ c ∈ splitOn 47 s, c ≠ [46,46] ∧ 0 ∉ c :=
  infixSafe_components (secure_infixSafe hs) hdd hnul

/-! ### lexical normalisation -/

def plainComp (c : Str) : Bool := !(c == [] || c == [46])

theorem normAux_no_dotdot (acc cs : List Str) (h : ∀ c ∈ cs, c ≠ [46,46]) :
    normAux acc cs = acc.reverse ++ cs.filter plainComp := by
  induction cs generalizing acc with
  | nil => simp [normAux]
  | cons c cs ih =>
    have hc : c ≠ [46,46] := h c (by simp)
    have ih' := fun acc => ih acc (fun x hx => h x (by simp [hx]))
    unfold normAux
    by_cases h1 : c = [] ∨ c = [46]
    · rw [if_pos h1, ih']
      have : plainComp c = false := by
        rcases h1 with h1 | h1 <;> simp [plainComp, h1]
      simp [List.filter, this]
    · rw [if_neg h1, if_neg hc, ih']
      have : plainComp c = true := by
        simp only [plainComp, Bool.not_eq_true', Bool.or_eq_false_iff, beq_eq_false_iff_ne, ne_eq]
        exact ⟨fun h => h1 (Or.inl h), fun h => h1 (Or.inr h)⟩
      simp [List.filter, this]

theorem normAux_cons (acc : List Str) (c : Str) (cs : List Str) :
    normAux acc (c :: cs) =
      if c = [] ∨ c = [46] then normAux acc cs
      else if c = [46,46] then normAux (acc.drop 1) cs else normAux (c :: acc) cs := by
  rw [normAux]

theorem normAux_append (acc a b : List Str) :
    normAux acc (a ++ b) = normAux (normAux acc a).reverse b := by
  induction a generalizing acc with
  | nil => simp [normAux]
  | cons c cs ih =>
    simp only [List.cons_append, normAux_cons]
    split
    · exact ih acc
    · split
      · exact ih _
      · exact ih _

/-- **Lexical containment.** If the selector part has no `..` component, the normalised
    path of `root ++ selector` is the normalised root followed by the plain components of the
    selector: it never leaves the root. -/
theorem lexical_containment (r cs : List Str) (h : ∀ c ∈ cs, c ≠ [46,46]) :
    norm (r ++ cs) = norm r ++ cs.filter plainComp := by
  unfold norm
  rw [normAux_append, normAux_no_dotdot _ _ h]
  simp

theorem norm_prefix (r cs : List Str) (h : ∀ c ∈ cs, c ≠ [46,46]) :
    norm r <+: norm (r ++ cs) := by
  rw [lexical_containment r cs h]; exact List.prefix_append _ _

/-! ### virtual selectors: the real part is a prefix of the selector -/

theorem takeUntil_prefix (p : Nat → Bool) (s : Str) : takeUntil p s <+: s := by
  induction s with
  | nil => simp [takeUntil]
  | cons c cs ih =>
    unfold takeUntil
    split
    · exact List.nil_prefix
    · exact List.cons_prefix_cons.mpr ⟨rfl, ih⟩

theorem virtualSplit_prefix (s : Str) : (virtualSplit s).1 <+: s := by
  unfold virtualSplit
  split
  · exact takeUntil_prefix _ _
  · split
    · exact takeUntil_prefix _ _
    · exact List.prefix_refl _

/-! ### slashnormalize -/

theorem slashnormalize_head (s : Str) : (slashnormalize s).head? = some 47 := by
  have key : ∀ t : Str, (match t with
      | [] => [47]
      | c :: cs => if c = 47 then c :: cs else 47 :: c :: cs : Str).head? = some 47 := by
    intro t
    cases t with
    | nil => rfl
    | cons c cs => by_cases h : c = 47 <;> simp [h]
  unfold slashnormalize
  exact key _

end Pyg
