import PygVerif.Model.Escape
import PygVerif.Lemmas.Str
/-!
# Lemmas/Escape — percent-encoding round trips
-/
namespace Pyg

theorem hexVal_hexDigit (n : Nat) (h : n < 16) : hexVal? (hexDigit n) = some n := by
  unfold hexDigit hexVal?
  split
  · rename_i h1
    have : 48 ≤ 48 + n ∧ 48 + n ≤ 57 := by omega
    simp [this]
  · rename_i h1
    have a : ¬ (48 ≤ 55 + n ∧ 55 + n ≤ 57) := by omega
    have b : 65 ≤ 55 + n ∧ 55 + n ≤ 70 := by omega
    simp [a, b]

/-- `unquote_to_bytes(quote_from_bytes(bs)) == bs` for every byte string -/
theorem unquoteToBytes_quoteBytes (bs : Bytes) (h : Bytes.WF bs) : unquoteToBytes (quoteBytes bs) = bs := by
  induction bs with
  | nil => simp [quoteBytes, unquoteToBytes]
  | cons b bs ih =>
    have hb : b < 256 := h b (by simp)
    have ih := ih (fun x hx => h x (by simp [hx]))
    unfold quoteBytes
    split
    · rename_i hs
      have hne : b ≠ 37 := by
        intro h37; subst h37; simp [urlSafe] at hs
      have : unquoteToBytes (b :: quoteBytes bs) = b :: unquoteToBytes (quoteBytes bs) := by
        cases hq : quoteBytes bs with
        | nil => simp [unquoteToBytes, hne]
        | cons c cs =>
          cases cs with
          | nil => simp [unquoteToBytes, hne]
          | cons c2 cs2 => simp [unquoteToBytes, hne]
      rw [this, ih]
    · simp only [unquoteToBytes, hexVal_hexDigit (b / 16) (by omega), hexVal_hexDigit (b % 16) (by omega), ih]
      congr 1
      omega

def isQuoteChar (c : Nat) : Bool :=
  urlSafe c || c == 37 || (65 ≤ c && c ≤ 70)

/-- the alphabet of `quote`: unreserved characters, `/`, `%` and upper-case hex digits -/
theorem quoteBytes_alphabet (bs : Bytes) (h : Bytes.WF bs) : ∀ c ∈ quoteBytes bs, isQuoteChar c = true := by
  induction bs with
  | nil => simp [quoteBytes]
  | cons b bs ih =>
    have ih := ih (fun x hx => h x (by simp [hx]))
    have hb : b < 256 := h b (by simp)
    intro c hc
    unfold quoteBytes at hc
    split at hc
    · rename_i hs
      rcases List.mem_cons.mp hc with rfl | hc
      · simp [isQuoteChar, hs]
      · exact ih c hc
    · simp only [List.mem_cons] at hc
      rcases hc with rfl | rfl | rfl | hc
      · simp [isQuoteChar]
      · unfold hexDigit; split <;> simp [isQuoteChar, urlSafe] <;> omega
      · unfold hexDigit; split <;> simp [isQuoteChar, urlSafe] <;> omega
      · exact ih c hc

theorem isQuoteChar_spec (c : Nat) (h : isQuoteChar c = true) :
    c < 128 ∧ c ≠ 32 ∧ c ≠ 9 ∧ c ≠ 13 ∧ c ≠ 10 ∧ c ≠ 34 ∧ c ≠ 60 ∧ c ≠ 62 ∧ c ≠ 63 ∧ c ≠ 39 ∧ c ≠ 38 ∧
    c ≠ 35 ∧ c ≠ 61 ∧ c ≠ 43 ∧ c ≠ 124 ∧ c ≠ 0 ∧ c ≠ 92 := by
  simp only [isQuoteChar, urlSafe, Bool.or_eq_true, Bool.and_eq_true, decide_eq_true_eq, beq_iff_eq] at h
  omega

theorem asciiRun_all (s : Str) (h : ∀ c ∈ s, c < 128) : asciiRun s = (s, []) := by
  induction s with
  | nil => rfl
  | cons c cs ih =>
    have hc := h c (by simp)
    simp [asciiRun, hc, ih (fun x hx => h x (by simp [hx]))]

theorem unquote_ascii (s : Str) (h : ∀ c ∈ s, c < 128) : unquote s = decodeSE (unquoteToBytes s) := by
  unfold unquote
  cases s with
  | nil => simp [unquoteAux, unquoteToBytes, decodeSE]
  | cons c cs =>
    simp only [List.length_cons, unquoteAux, asciiRun_all (c :: cs) h, nonAsciiRun]
    cases hk : cs.length + 1 <;> simp [unquoteAux]

/-- **Link round trip.** Percent-decoding what `quote` produced for a byte string gives back
    the surrogate-escape decoding of those bytes — for every byte string. -/
theorem unquote_quoteBytes (bs : Bytes) (h : Bytes.WF bs) : unquote (quoteBytes bs) = decodeSE bs := by
  rw [unquote_ascii _ (fun c hc => (isQuoteChar_spec c (quoteBytes_alphabet bs h c hc)).1),
    unquoteToBytes_quoteBytes bs h]

/-- for a selector that came from bytes (a file name), `quote` succeeds and decodes back -/
theorem quote_roundtrip (bs : Bytes) (h : Bytes.WF bs) :
    ∃ q, quote (decodeSE bs) = some q ∧ unquote q = decodeSE bs ∧ ∀ c ∈ q, isQuoteChar c = true := by
  refine ⟨quoteBytes bs, ?_, unquote_quoteBytes bs h, quoteBytes_alphabet bs h⟩
  simp [quote, encode_decode bs h]

end Pyg
