import PygVerif.Model.Doc
import PygVerif.Lemmas.Str
/-!
# Lemmas/Doc — the copy loop reproduces its input; html escape is invertible and inert
-/
namespace Pyg

theorem chunks_flatten (n : Nat) (hn : 0 < n) (bs : Bytes) : (chunks n bs).flatten = bs := by
  fun_induction chunks n bs with
  | case1 bs h =>
    rcases h with h | h
    · omega
    · simp [h]
  | case2 bs h ih => simp [ih]

theorem chunks_bound (n : Nat) (bs : Bytes) : ∀ c ∈ chunks n bs, c.length ≤ n ∧ c ≠ [] := by
  fun_induction chunks n bs with
  | case1 bs h => intro c hc; simp at hc
  | case2 bs h ih =>
    intro c hc
    have hne : bs ≠ [] := fun e => h (Or.inr e)
    have hn : n ≠ 0 := fun e => h (Or.inl e)
    have hpos : 0 < bs.length := List.length_pos_iff.mpr hne
    rcases List.mem_cons.mp hc with rfl | hc
    · refine ⟨by simp [List.length_take]; omega, ?_⟩
      intro e
      have h0 : (bs.take n).length = 0 := by rw [e]; rfl
      rw [List.length_take] at h0
      have : min n bs.length = 0 := h0
      omega
    · exact ih c hc

/-! ### html.escape -/

def htmlMeta (c : Nat) : Bool := c == 60 || c == 62 || c == 34 || c == 39

theorem htmlEscape_no_meta (s : Str) : ∀ c ∈ htmlEscape true s, htmlMeta c = false := by
  induction s with
  | nil => intro c hc; simp [htmlEscape] at hc
  | cons x xs ih =>
    intro c hc
    simp only [htmlEscape, List.mem_append] at hc
    rcases hc with hc | hc
    · split at hc
      · simp at hc; rcases hc with rfl | rfl | rfl | rfl | rfl <;> decide
      · split at hc
        · simp at hc; rcases hc with rfl | rfl | rfl | rfl <;> decide
        · split at hc
          · simp at hc; rcases hc with rfl | rfl | rfl | rfl <;> decide
          · split at hc
            · simp at hc; rcases hc with rfl | rfl | rfl | rfl | rfl | rfl <;> decide
            · split at hc
              · simp at hc; rcases hc with rfl | rfl | rfl | rfl | rfl | rfl <;> decide
              · rename_i h1 h2 h3 h4 h5
                simp at hc; subst hc
                simp only [Bool.true_and, decide_eq_true_eq] at h4 h5
                simp [htmlMeta]; omega
    · exact ih c hc

/-- with `quote=False` only `<`, `>` are guaranteed absent -/
theorem htmlEscape_no_angle (q : Bool) (s : Str) : ∀ c ∈ htmlEscape q s, c ≠ 60 ∧ c ≠ 62 := by
  induction s with
  | nil => intro c hc; simp [htmlEscape] at hc
  | cons x xs ih =>
    intro c hc
    simp only [htmlEscape, List.mem_append] at hc
    rcases hc with hc | hc
    · split at hc
      · simp at hc; rcases hc with rfl | rfl | rfl | rfl | rfl <;> decide
      · split at hc
        · simp at hc; rcases hc with rfl | rfl | rfl | rfl <;> decide
        · split at hc
          · simp at hc; rcases hc with rfl | rfl | rfl | rfl <;> decide
          · split at hc
            · simp at hc; rcases hc with rfl | rfl | rfl | rfl | rfl | rfl <;> decide
            · split at hc
              · simp at hc; rcases hc with rfl | rfl | rfl | rfl | rfl | rfl <;> decide
              · rename_i h1 h2 h3 h4 h5
                simp at hc; subst hc
                exact ⟨h2, h3⟩
    · exact ih c hc

theorem htmlEscape_preserves_absent (q : Bool) (s : Str) (d : Nat)
    (hd : d ∉ [38,97,109,112,59,108,116,103,113,117,111,35,120,50,55]) (h : d ∉ s) :
    d ∉ htmlEscape q s := by
  induction s with
  | nil => simp [htmlEscape]
  | cons x xs ih =>
    have hx : d ≠ x := fun e => h (by simp [e])
    have ih := ih (fun hm => h (by simp [hm]))
    simp only [htmlEscape, List.mem_append, not_or]
    refine ⟨?_, ih⟩
    simp only [List.mem_cons, List.not_mem_nil, or_false, not_or] at hd
    split
    · simp; omega
    · split
      · simp; omega
      · split
        · simp; omega
        · split
          · simp; omega
          · split
            · simp; omega
            · simp [hx]

theorem htmlUnescape_escape (s : Str) : htmlUnescape (htmlEscape true s) = s := by
  induction s with
  | nil => simp [htmlEscape, htmlUnescape]
  | cons x xs ih =>
    simp only [htmlEscape]
    split
    · rename_i h; subst h; simp [htmlUnescape, ih]
    · split
      · rename_i h; subst h; simp [htmlUnescape, ih]
      · split
        · rename_i h; subst h; simp [htmlUnescape, ih]
        · split
          · rename_i h; simp at h; subst h; simp [htmlUnescape, ih]
          · split
            · rename_i h; simp at h; subst h; simp [htmlUnescape, ih]
            · rename_i h1 h2 h3 h4 h5
              simp only [List.singleton_append]
              rw [htmlUnescape]
              · rw [ih]
              all_goals (intro r hx _; exact h1 hx)

/-! ### text → WML is invertible line by line -/

theorem takeUntil_append (p : Nat → Bool) (a : Str) (d : Nat) (r : Str)
    (ha : ∀ c ∈ a, p c = false) (hd : p d = true) : takeUntil p (a ++ d :: r) = a := by
  induction a with
  | nil => simp [takeUntil, hd]
  | cons x xs ih =>
    have hx := ha x (by simp)
    simp [takeUntil, hx, ih (fun c hc => ha c (by simp [hc]))]

theorem dropUntil_append (p : Nat → Bool) (a : Str) (d : Nat) (r : Str)
    (ha : ∀ c ∈ a, p c = false) (hd : p d = true) : dropUntil p (a ++ d :: r) = d :: r := by
  induction a with
  | nil => simp [dropUntil, hd]
  | cons x xs ih =>
    have hx := ha x (by simp)
    simp [dropUntil, hx, ih (fun c hc => ha c (by simp [hc]))]

theorem isPrefixB_append_self (p r : Str) : isPrefixB p (p ++ r) = true := by
  induction p with
  | nil => simp [isPrefixB]
  | cons x xs ih => simp [isPrefixB, ih]

theorem htmlEscape_ne_nil (q : Bool) (s : Str) (h : s ≠ []) : htmlEscape q s ≠ [] := by
  cases s with
  | nil => exact absurd rfl h
  | cons x xs =>
    simp only [htmlEscape]
    split <;> (try split) <;> (try split) <;> (try split) <;> (try split) <;> simp

theorem unwml_succ_cons (f c : Nat) (cs : Str) :
    unwml (f + 1) (c :: cs) =
      if isPrefixB paraBreak (c :: cs) then [] :: unwml f ((c :: cs).drop paraBreak.length)
      else htmlUnescape (takeUntil (· == 10) (c :: cs)) ::
        unwml f ((dropUntil (· == 10) (c :: cs)).drop 1) := by
  rw [unwml]
  intro h; cases h

/-- **WML conversion is losslessly invertible line by line**: reading the generated body back
    yields every line of the file, right-stripped (what `line.rstrip()` in `handlerwrite`
    discards — trailing white space and the line terminator — is exactly what is lost). -/
theorem unwml_wmlBody (ls : List Str) (h : ∀ l ∈ ls, 10 ∉ rstrip l) (fuel : Nat)
    (hf : ls.length ≤ fuel) : unwml fuel (wmlBody ls) = ls.map rstrip := by
  induction ls generalizing fuel with
  | nil => cases fuel <;> simp [wmlBody, unwml]
  | cons l ls ih =>
    have hl := h l (by simp)
    have ih := ih (fun x hx => h x (by simp [hx]))
    cases fuel with
    | zero => simp at hf
    | succ f =>
      have ihf := ih f (by simpa using hf)
      have hbody : wmlBody (l :: ls) = wmlLine l ++ wmlBody ls := by simp [wmlBody]
      rw [hbody]
      by_cases hr : rstrip l = []
      · have hw : wmlLine l = paraBreak := by simp [wmlLine, hr]
        rw [hw]
        have hne : paraBreak ++ wmlBody ls ≠ [] := by simp [paraBreak, lit]
        cases hs : paraBreak ++ wmlBody ls with
        | nil => exact absurd hs hne
        | cons c cs =>
          rw [unwml_succ_cons, ← hs, isPrefixB_append_self]
          simp [hr, ihf]
      · have hw : wmlLine l = htmlEscape true (rstrip l) ++ [10] := by
          simp [wmlLine, hr]
        rw [hw]
        have hesc := htmlEscape_no_meta (rstrip l)
        have hne := htmlEscape_ne_nil true (rstrip l) hr
        have h10 : ∀ c ∈ htmlEscape true (rstrip l), (c == 10) = false := by
          intro c hc
          have : 10 ∉ htmlEscape true (rstrip l) :=
            htmlEscape_preserves_absent true (rstrip l) 10 (by decide) hl
          cases hce : c == 10 with
          | false => rfl
          | true => simp at hce; subst hce; exact absurd hc this
        cases he : htmlEscape true (rstrip l) with
        | nil => exact absurd he hne
        | cons c cs =>
          have hc60 : c ≠ 60 := by
            have := hesc c (by rw [he]; simp)
            simp [htmlMeta] at this; exact this.1.1.1
          have hpre : isPrefixB paraBreak (c :: cs ++ [10] ++ wmlBody ls) = false := by
            simp [paraBreak, lit, isPrefixB]
            intro h60; exact absurd h60.symm hc60
          have hcons : c :: cs ++ [10] ++ wmlBody ls = c :: (cs ++ [10] ++ wmlBody ls) := by simp
          rw [hcons, unwml_succ_cons, ← hcons, hpre]
          simp only [Bool.false_eq_true, if_false]
          have e1 : c :: cs ++ [10] ++ wmlBody ls = (c :: cs) ++ 10 :: wmlBody ls := by simp
          rw [e1, takeUntil_append _ _ _ _ (by rw [← he]; exact h10) (by simp),
            dropUntil_append _ _ _ _ (by rw [← he]; exact h10) (by simp)]
          rw [← he, htmlUnescape_escape]
          simp [ihf]

end Pyg
