import PygVerif.Lemmas.TalBasics
/-!
# Lemmas/TalRefine — the stack machine run on a compiled template produces the tree semantics

For every template tree, from the first command of a node's code the machine reaches the
command after it having appended exactly `denote`'s output and changed the context exactly as
`denote` does, with every register and the scope stack as they were.
-/
namespace Pyg.Tal

variable {py : Str → Val} {P : List Cmd}

/-- the registers of an element between its head commands -/
def bodyRegs (orig cur : List (Str × Str)) (mf : Option Nat) (mb : Option Nat) (ot : Bool) (rv : Option (List Val))
    (tc : Option (Bool × Val)) (ld : Bool) : Regs :=
  { movePCForward := mf, movePCBack := mb, outputTag := ot, orig := orig, cur := cur, repeatVar := rv, tagContent := tc,
    localVarsDefined := ld }

/-! ### single steps -/

theorem step_output {pc : Nat} {t : Str} (h : P[pc]? = some (.output t)) (regs rac stack ctx out) :
    step py P ⟨pc, regs, rac, stack, ctx, out⟩ = some ⟨pc + 1, regs, rac, stack, ctx, out ++ t⟩ := by
  simp [step, h]

theorem step_startScope {pc : Nat} {orig atts} (h : P[pc]? = some (.startScope orig atts)) (regs rac stack ctx out) :
    step py P ⟨pc, regs, rac, stack, ctx, out⟩ =
      some ⟨pc + 1, bodyRegs orig atts none none true none none false, rac, .scope regs :: stack, ctx, out⟩ := by
  simp [step, h, bodyRegs]

/-! ### the optional head commands as phases -/

/-- define -/
theorem phase_define {b : Nat} {c : Cmds} {orig atts : List (Str × Str)}
    (hD : ∀ a, c.define = some a → P[b + 1]? = some (.define a)) (rac stack ctx out) :
    Reach py P ⟨b + 1, bodyRegs orig atts none none true none none false, rac, stack, ctx, out⟩
      ⟨oCond b c, bodyRegs orig atts none none true none none (definePhase py orig c ctx).2, rac, stack,
        (definePhase py orig c ctx).1, out⟩ := by
  unfold oCond definePhase
  cases hd : c.define with
  | none => simp only [optLen, Option.isSome_none, Bool.false_eq_true, if_false, Nat.add_zero]; exact Reach.refl _
  | some a =>
    have h := hD a hd
    simp only [optLen, Option.isSome_some, if_true]
    apply Reach.one
    simp only [step, h, bodyRegs]

/-- the end tag when the scope is left: content text, closing tag, locals popped, registers restored -/
theorem step_endTag_pop {pc : Nat} {tag : Str} {ne sg : Bool} (h : P[pc]? = some (.endTag tag ne sg))
    (orig cur mf ot rv tc ld) (R : Regs) (rac stack ctx out) :
    step py P ⟨pc, bodyRegs orig cur mf none ot rv tc ld, rac, .scope R :: stack, ctx, out⟩ =
      some ⟨pc + 1, R, rac, stack, if ld then ctx.popLocals else ctx,
        out ++ contentText tc ++ (if ot && !ne && !(sg && tc.isNone) then lit "</" ++ tag ++ [62] else [])⟩ := by
  simp only [step, h, bodyRegs]
  cases ot <;> cases ne <;> cases sg <;> cases tc <;> cases ld <;> simp

/-- the end tag inside a repeat: content text, closing tag, jump back -/
theorem step_endTag_back {pc : Nat} {tag : Str} {ne sg : Bool} (h : P[pc]? = some (.endTag tag ne sg))
    (orig cur mf back ot rv tc ld) (rac stack ctx out) :
    step py P ⟨pc, bodyRegs orig cur mf (some back) ot rv tc ld, rac, stack, ctx, out⟩ =
      some ⟨back, bodyRegs orig cur mf (some back) ot rv tc ld, rac, stack, ctx,
        out ++ contentText tc ++ (if ot && !ne && !(sg && tc.isNone) then lit "</" ++ tag ++ [62] else [])⟩ := by
  simp only [step, h, bodyRegs]
  cases ot <;> cases ne <;> cases sg <;> cases tc <;> simp

/-- condition -/
theorem phase_cond_true {b : Nat} {c : Cmds} {kids : List Node} {orig atts : List (Str × Str)}
    (hC : ∀ e, c.condition = some e → P[oCond b c]? = some (.cond e (oEnd b c kids)))
    (ld : Bool) (rac stack ctx out) (hok : (condPhase py orig c ctx).1 = true) :
    Reach py P ⟨oCond b c, bodyRegs orig atts none none true none none ld, rac, stack, ctx, out⟩
      ⟨oRep b c, bodyRegs orig atts none none true none none ld, rac, stack, (condPhase py orig c ctx).2, out⟩ := by
  unfold oRep
  unfold condPhase at hok ⊢
  cases hc : c.condition with
  | none => simp only [optLen, Option.isSome_none, Bool.false_eq_true, if_false, Nat.add_zero]; exact Reach.refl _
  | some e =>
    have h := hC e hc
    simp only [hc] at hok
    simp only [optLen, Option.isSome_some, if_true]
    apply Reach.one
    simp only [step, h, bodyRegs, hok, if_true]

theorem phase_cond_false {b : Nat} {c : Cmds} {kids : List Node} {orig atts : List (Str × Str)}
    (hC : ∀ e, c.condition = some e → P[oCond b c]? = some (.cond e (oEnd b c kids)))
    (ld : Bool) (rac stack ctx out) (hok : (condPhase py orig c ctx).1 = false) :
    Reach py P ⟨oCond b c, bodyRegs orig atts none none true none none ld, rac, stack, ctx, out⟩
      ⟨oEnd b c kids, bodyRegs orig atts none none false none none ld, rac, stack, (condPhase py orig c ctx).2, out⟩ := by
  unfold condPhase at hok ⊢
  cases hc : c.condition with
  | none => simp [hc] at hok
  | some e =>
    have h := hC e hc
    simp only [hc] at hok
    apply Reach.one
    simp only [step, h, bodyRegs, hok, Bool.false_eq_true, if_false]

/-- content / replace -/
theorem phase_content {b : Nat} {c : Cmds} {kids : List Node} {orig atts : List (Str × Str)}
    (hK : ∀ r s e, c.content = some (r, s, e) → P[oCont b c]? = some (.content r s e (oEnd b c kids)))
    (mb rv ld) (rac stack ctx out) :
    Reach py P ⟨oCont b c, bodyRegs orig atts none mb true rv none ld, rac, stack, ctx, out⟩
      ⟨oAttr b c, bodyRegs orig atts (if (contentPhase py orig c ctx).2.2.2 then some (oEnd b c kids) else none) mb
          (contentPhase py orig c ctx).2.1 rv (contentPhase py orig c ctx).2.2.1 ld, rac, stack,
        (contentPhase py orig c ctx).1, out⟩ := by
  unfold oAttr contentPhase
  cases hc : c.content with
  | none => simp only [optLen, Option.isSome_none, Bool.false_eq_true, if_false, Nat.add_zero]; exact Reach.refl _
  | some x =>
    obtain ⟨r, s, e⟩ := x
    have h := hK r s e hc
    simp only [optLen, Option.isSome_some, if_true]
    apply Reach.one
    simp only [step, h, bodyRegs]
    by_cases h1 : isNone (eval py { ctx with attrs := orig } e) = true
    · simp only [h1, if_true]; cases r <;> simp
    · simp only [h1, Bool.false_eq_true, if_false]
      by_cases h2 : isDefault (eval py { ctx with attrs := orig } e) = true
      · simp [h2]
      · simp only [h2, Bool.not_false, if_true, Bool.false_eq_true]; cases r <;> simp

/-- attributes -/
theorem phase_attr {b : Nat} {c : Cmds} {orig atts : List (Str × Str)}
    (hA : ∀ a, c.attributes = some a → P[oAttr b c]? = some (.attributes a))
    (mf mb ot rv tc ld) (rac stack ctx out) :
    Reach py P ⟨oAttr b c, bodyRegs orig atts mf mb ot rv tc ld, rac, stack, ctx, out⟩
      ⟨oOmit b c, bodyRegs orig (attrPhase py orig c atts ctx).2 mf mb ot rv tc ld, rac, stack,
        (attrPhase py orig c atts ctx).1, out⟩ := by
  unfold oOmit attrPhase
  cases hc : c.attributes with
  | none => simp only [optLen, Option.isSome_none, Bool.false_eq_true, if_false, Nat.add_zero]; exact Reach.refl _
  | some a =>
    have h := hA a hc
    simp only [optLen, Option.isSome_some, if_true]
    apply Reach.one
    simp only [step, h, bodyRegs]

/-- omit-tag -/
theorem phase_omit {b : Nat} {c : Cmds} {orig : List (Str × Str)}
    (hO : ∀ e, c.omitTag = some e → P[oOmit b c]? = some (.omitTag e))
    (cur mf mb ot rv tc ld) (rac stack ctx out) :
    Reach py P ⟨oOmit b c, bodyRegs orig cur mf mb ot rv tc ld, rac, stack, ctx, out⟩
      ⟨oTag b c, bodyRegs orig cur mf mb (omitPhase py orig c ot ctx).2 rv tc ld, rac, stack,
        (omitPhase py orig c ot ctx).1, out⟩ := by
  unfold oTag omitPhase
  cases hc : c.omitTag with
  | none => simp only [optLen, Option.isSome_none, Bool.false_eq_true, if_false, Nat.add_zero]; exact Reach.refl _
  | some e =>
    have h := hO e hc
    simp only [optLen, Option.isSome_some, if_true]
    apply Reach.one
    simp only [step, h, bodyRegs] <;> rfl

/-- start tag -/
theorem step_startTag {pc : Nat} {tag : Str} {sg : Bool} (h : P[pc]? = some (.startTag tag sg))
    (orig cur mf mb ot rv tc ld) (rac stack ctx out) :
    step py P ⟨pc, bodyRegs orig cur mf mb ot rv tc ld, rac, stack, ctx, out⟩ =
      some ⟨(match mf with | some t => t | none => pc + 1), bodyRegs orig cur mf mb ot rv tc ld, rac, stack, ctx,
        out ++ (if ot then tagAsText tag cur (sg && tc.isNone) else [])⟩ := by
  simp only [step, h, bodyRegs]
  cases mf <;> cases ot <;> simp

/-- induction hypothesis for the children of an element -/
def KidsRun (py : Str → Val) (P : List Cmd) (b : Nat) (c : Cmds) (kids : List Node) : Prop :=
  ∀ regs rac stack ctx out, Reach py P ⟨oKids b c, regs, rac, stack, ctx, out⟩
    ⟨oEnd b c kids, regs, rac, stack, (denoteList py kids ctx).2, out ++ (denoteList py kids ctx).1⟩

/-- registers on arrival at the end tag -/
def endRegs (py : Str → Val) (b : Nat) (atts orig : List (Str × Str)) (c : Cmds) (kids : List Node) (mb : Option Nat)
    (rv : Option (List Val)) (ld : Bool) (ctx : Ctx) : Regs :=
  let cp := contentPhase py orig c ctx
  let ap := attrPhase py orig c atts cp.1
  let op := omitPhase py orig c cp.2.1 ap.1
  bodyRegs orig ap.2 (if cp.2.2.2 then some (oEnd b c kids) else none) mb op.2 rv cp.2.2.1 ld

/-- from the content command to the end tag: start tag written, children run or skipped -/
theorem body_to_end {b : Nat} {tag : Str} {atts orig : List (Str × Str)} {c : Cmds} {sg ne : Bool} {kids : List Node}
    (L : Layout P b tag atts orig c sg ne kids) (ih : KidsRun py P b c kids) (mb rv ld) (rac stack ctx out) :
    let cp := contentPhase py orig c ctx
    let ap := attrPhase py orig c atts cp.1
    let op := omitPhase py orig c cp.2.1 ap.1
    let inner : Str × Ctx := if cp.2.2.2 then (([] : Str), op.1) else denoteList py kids op.1
    Reach py P ⟨oCont b c, bodyRegs orig atts none mb true rv none ld, rac, stack, ctx, out⟩
      ⟨oEnd b c kids, endRegs py b atts orig c kids mb rv ld ctx, rac, stack, inner.2,
        out ++ (if op.2 then tagAsText tag ap.2 (sg && cp.2.2.1.isNone) else []) ++ inner.1⟩ := by
  intro cp ap op inner
  have r1 := phase_content (py := py) (orig := orig) (atts := atts) L.hCont mb rv ld rac stack ctx out
  have r2 := phase_attr (py := py) (orig := orig) (atts := atts) L.hAttr (if cp.2.2.2 then some (oEnd b c kids) else none) mb cp.2.1 rv cp.2.2.1 ld
    rac stack cp.1 out
  have r3 := phase_omit (py := py) (orig := orig) L.hOmit ap.2 (if cp.2.2.2 then some (oEnd b c kids) else none) mb cp.2.1 rv cp.2.2.1 ld
    rac stack ap.1 out
  have r4 := Reach.one (step_startTag (py := py) L.hTag orig ap.2 (if cp.2.2.2 then some (oEnd b c kids) else none) mb op.2 rv
    cp.2.2.1 ld rac stack op.1 out)
  refine (r1.trans (r2.trans (r3.trans r4))).trans ?_
  by_cases hs : cp.2.2.2 = true
  · have e : inner = (([] : Str), op.1) := by simp [inner, hs]
    rw [e]
    simp only [hs, if_true, List.append_nil]
    exact Reach.of_eq (by simp [endRegs, cp, ap, op, hs])
  · have hs' : cp.2.2.2 = false := by simpa using hs
    have e : inner = denoteList py kids op.1 := by simp [inner, hs']
    rw [e]
    simp only [hs', Bool.false_eq_true, if_false]
    have := ih (bodyRegs orig ap.2 none mb op.2 rv cp.2.2.1 ld) rac stack op.1
      (out ++ (if op.2 then tagAsText tag ap.2 (sg && cp.2.2.1.isNone) else []))
    have e2 : oTag b c + 1 = oKids b c := rfl
    rw [e2]
    refine this.trans (Reach.of_eq ?_)
    simp [endRegs, cp, ap, op, hs']

/-- the whole body when the scope is left afterwards -/
theorem body_pop {b : Nat} {tag : Str} {atts orig : List (Str × Str)} {c : Cmds} {sg ne : Bool} {kids : List Node}
    (L : Layout P b tag atts orig c sg ne kids) (ih : KidsRun py P b c kids) (rv ld) (R : Regs) (rac stack ctx out) :
    Reach py P ⟨oCont b c, bodyRegs orig atts none none true rv none ld, rac, .scope R :: stack, ctx, out⟩
      ⟨oEnd b c kids + 1, R, rac, stack,
        (if ld then (bodySem py tag atts orig c sg ne (denoteList py kids) ctx).2.popLocals
         else (bodySem py tag atts orig c sg ne (denoteList py kids) ctx).2),
        out ++ (bodySem py tag atts orig c sg ne (denoteList py kids) ctx).1⟩ := by
  have r1 := body_to_end (py := py) L ih none rv ld rac (.scope R :: stack) ctx out
  simp only at r1
  refine r1.trans ?_
  apply Reach.one
  unfold endRegs
  rw [step_endTag_pop (py := py) L.hEnd]
  simp only [bodySem, List.append_assoc]

/-- the whole body inside a repeat: jump back to the repeat command -/
theorem body_back {b : Nat} {tag : Str} {atts orig : List (Str × Str)} {c : Cmds} {sg ne : Bool} {kids : List Node}
    (L : Layout P b tag atts orig c sg ne kids) (ih : KidsRun py P b c kids) (back : Nat) (rv ld) (rac stack ctx out) :
    Reach py P ⟨oCont b c, bodyRegs orig atts none (some back) true rv none ld, rac, stack, ctx, out⟩
      ⟨back, endRegs py b atts orig c kids (some back) rv ld ctx, rac, stack,
        (bodySem py tag atts orig c sg ne (denoteList py kids) ctx).2,
        out ++ (bodySem py tag atts orig c sg ne (denoteList py kids) ctx).1⟩ := by
  have r1 := body_to_end (py := py) L ih (some back) rv ld rac stack ctx out
  simp only at r1
  refine r1.trans ?_
  apply Reach.one
  unfold endRegs
  rw [step_endTag_back (py := py) L.hEnd]
  simp only [bodySem, List.append_assoc]

/-! ### repeat -/

theorem step_rep_next {pc : Nat} {v e : Str} {endIx : Nat} (h : P[pc]? = some (.rep v e endIx))
    (orig cur mf mb ot x xs tc ld) (rac stack ctx out) :
    step py P ⟨pc, bodyRegs orig cur mf mb ot (some (x :: xs)) tc ld, rac, stack, ctx, out⟩ =
      some ⟨pc + 1, bodyRegs orig rac none mb true (some xs) none ld, rac, stack, (ctx.bumpRepeat v).setLocal v x, out⟩ := by
  simp [step, h, bodyRegs]

theorem step_rep_done {pc : Nat} {v e : Str} {endIx : Nat} (h : P[pc]? = some (.rep v e endIx))
    (orig cur mf mb ot tc ld) (rac a stack ctx out) :
    step py P ⟨pc, bodyRegs orig cur mf mb ot (some []) tc ld, rac, .attrsCopy a :: stack, ctx, out⟩ =
      some ⟨endIx, bodyRegs orig rac none none false none none ld, a, stack, ctx.removeRepeat.popLocals, out⟩ := by
  simp [step, h, bodyRegs]

/-- the loop: back at the repeat command with `xs` still to go -/
theorem rep_loop {b : Nat} {tag : Str} {atts orig : List (Str × Str)} {c : Cmds} {sg ne : Bool} {kids : List Node}
    (L : Layout P b tag atts orig c sg ne kids) (ih : KidsRun py P b c kids) (v e : Str) (hr : c.repeat_ = some (v, e))
    (ld : Bool) (R : Regs) (rac0 : List (Str × Str)) (stack0 : List Frame) :
    ∀ (xs : List Val) (cur mf ot tc) (ctx : Ctx) (out : Str),
    Reach py P ⟨oRep b c, bodyRegs orig cur mf (some (oRep b c)) ot (some xs) tc ld, atts,
        .attrsCopy rac0 :: .scope R :: stack0, ctx, out⟩
      ⟨oEnd b c kids + 1, R, rac0, stack0,
        (if ld then ((repeatSem v (bodySem py tag atts orig c sg ne (denoteList py kids)) xs ctx).2.removeRepeat.popLocals).popLocals
         else (repeatSem v (bodySem py tag atts orig c sg ne (denoteList py kids)) xs ctx).2.removeRepeat.popLocals),
        out ++ (repeatSem v (bodySem py tag atts orig c sg ne (denoteList py kids)) xs ctx).1⟩ := by
  have hRep := L.hRep v e hr
  have hoc : oCont b c = oRep b c + 1 := by simp [oCont, hr, optLen]
  intro xs
  induction xs with
  | nil =>
    intro cur mf ot tc ctx out
    have s1 := Reach.one (step_rep_done (py := py) hRep orig cur mf (some (oRep b c)) ot tc ld atts rac0 (.scope R :: stack0) ctx out)
    have s2 := Reach.one (step_endTag_pop (py := py) L.hEnd orig atts none false none none ld R rac0 stack0
      ctx.removeRepeat.popLocals out)
    have := s1.trans s2
    simpa [repeatSem, contentText] using this
  | cons x xs ihx =>
    intro cur mf ot tc ctx out
    have s1 := Reach.one (step_rep_next (py := py) hRep orig cur mf (some (oRep b c)) ot x xs tc ld atts
      (.attrsCopy rac0 :: .scope R :: stack0) ctx out)
    rw [← hoc] at s1
    have s2 := body_back (py := py) L ih (oRep b c) (some xs) ld atts (.attrsCopy rac0 :: .scope R :: stack0)
      ((ctx.bumpRepeat v).setLocal v x) out
    unfold endRegs at s2
    have s3 := ihx (attrPhase py orig c atts (contentPhase py orig c ((ctx.bumpRepeat v).setLocal v x)).1).2
      (if (contentPhase py orig c ((ctx.bumpRepeat v).setLocal v x)).2.2.2 then some (oEnd b c kids) else none)
      (omitPhase py orig c (contentPhase py orig c ((ctx.bumpRepeat v).setLocal v x)).2.1
        (attrPhase py orig c atts (contentPhase py orig c ((ctx.bumpRepeat v).setLocal v x)).1).1).2
      (contentPhase py orig c ((ctx.bumpRepeat v).setLocal v x)).2.2.1
      (bodySem py tag atts orig c sg ne (denoteList py kids) ((ctx.bumpRepeat v).setLocal v x)).2
      (out ++ (bodySem py tag atts orig c sg ne (denoteList py kids) ((ctx.bumpRepeat v).setLocal v x)).1)
    have := s1.trans (s2.trans s3)
    simpa [repeatSem, List.append_assoc] using this

/-- the repeat command on its first visit, and what follows up to the end of the element -/
theorem rep_phase {b : Nat} {tag : Str} {atts orig : List (Str × Str)} {c : Cmds} {sg ne : Bool} {kids : List Node}
    (L : Layout P b tag atts orig c sg ne kids) (ih : KidsRun py P b c kids) (ld : Bool) (R : Regs) (rac stack ctx out) :
    Reach py P ⟨oRep b c, bodyRegs orig atts none none true none none ld, rac, .scope R :: stack, ctx, out⟩
      ⟨oEnd b c kids + 1, R, rac, stack,
        (if ld then (repeatPhase py orig c (bodySem py tag atts orig c sg ne (denoteList py kids)) ctx).2.popLocals
         else (repeatPhase py orig c (bodySem py tag atts orig c sg ne (denoteList py kids)) ctx).2),
        out ++ (repeatPhase py orig c (bodySem py tag atts orig c sg ne (denoteList py kids)) ctx).1⟩ := by
  cases hr : c.repeat_ with
  | none =>
    have hoc : oCont b c = oRep b c := by simp [oCont, hr, optLen]
    have := body_pop (py := py) L ih none ld R rac stack ctx out
    rw [hoc] at this
    simpa [repeatPhase, hr] using this
  | some ve =>
    obtain ⟨v, e⟩ := ve
    have hRep := L.hRep v e hr
    have hoc : oCont b c = oRep b c + 1 := by simp [oCont, hr, optLen]
    simp only [repeatPhase, hr]
    by_cases hd : isDefault (eval py { ctx with attrs := orig } e) = true
    · -- default: no loop, the body once
      have s1 : Reach py P ⟨oRep b c, bodyRegs orig atts none none true none none ld, rac, .scope R :: stack, ctx, out⟩
          ⟨oCont b c, bodyRegs orig atts none none true none none ld, rac, .scope R :: stack, { ctx with attrs := orig }, out⟩ := by
        rw [hoc]; apply Reach.one; simp [step, hRep, bodyRegs, hd]
      have s2 := body_pop (py := py) L ih none ld R rac stack { ctx with attrs := orig } out
      simpa [hd] using s1.trans s2
    · have hd' : isDefault (eval py { ctx with attrs := orig } e) = false := by simpa using hd
      simp only [hd', Bool.false_eq_true, if_false]
      cases hs : seqItems (eval py { ctx with attrs := orig } e) with
      | none =>
        have s1 : Reach py P ⟨oRep b c, bodyRegs orig atts none none true none none ld, rac, .scope R :: stack, ctx, out⟩
            ⟨oEnd b c kids, bodyRegs orig atts none none false none none ld, rac, .scope R :: stack, { ctx with attrs := orig }, out⟩ := by
          apply Reach.one; simp [step, hRep, bodyRegs, hd', hs]
        have s2 := Reach.one (step_endTag_pop (py := py) L.hEnd orig atts none false none none ld R rac stack
          { ctx with attrs := orig } out)
        simpa [contentText] using s1.trans s2
      | some items =>
        cases items with
        | nil =>
          have s1 : Reach py P ⟨oRep b c, bodyRegs orig atts none none true none none ld, rac, .scope R :: stack, ctx, out⟩
              ⟨oEnd b c kids, bodyRegs orig atts none none false none none ld, rac, .scope R :: stack, { ctx with attrs := orig }, out⟩ := by
            apply Reach.one; simp [step, hRep, bodyRegs, hd', hs]
          have s2 := Reach.one (step_endTag_pop (py := py) L.hEnd orig atts none false none none ld R rac stack
            { ctx with attrs := orig } out)
          simpa [contentText] using s1.trans s2
        | cons x xs =>
          have s1 : Reach py P ⟨oRep b c, bodyRegs orig atts none none true none none ld, rac, .scope R :: stack, ctx, out⟩
              ⟨oCont b c, bodyRegs orig atts none (some (oRep b c)) true (some xs) none ld, atts,
                .attrsCopy rac :: .scope R :: stack, ({ ctx with attrs := orig } : Ctx).addRepeat v (xs.length + 1) x, out⟩ := by
            rw [hoc]; apply Reach.one; simp [step, hRep, bodyRegs, hd', hs]
          have s2 := body_back (py := py) L ih (oRep b c) (some xs) ld atts (.attrsCopy rac :: .scope R :: stack)
            (({ ctx with attrs := orig } : Ctx).addRepeat v (xs.length + 1) x) out
          unfold endRegs at s2
          have s3 := rep_loop (py := py) L ih v e hr ld R rac stack xs
            (attrPhase py orig c atts (contentPhase py orig c (({ ctx with attrs := orig } : Ctx).addRepeat v (xs.length + 1) x)).1).2
            (if (contentPhase py orig c (({ ctx with attrs := orig } : Ctx).addRepeat v (xs.length + 1) x)).2.2.2
              then some (oEnd b c kids) else none)
            (omitPhase py orig c (contentPhase py orig c (({ ctx with attrs := orig } : Ctx).addRepeat v (xs.length + 1) x)).2.1
              (attrPhase py orig c atts (contentPhase py orig c (({ ctx with attrs := orig } : Ctx).addRepeat v (xs.length + 1) x)).1).1).2
            (contentPhase py orig c (({ ctx with attrs := orig } : Ctx).addRepeat v (xs.length + 1) x)).2.2.1
            (bodySem py tag atts orig c sg ne (denoteList py kids) (({ ctx with attrs := orig } : Ctx).addRepeat v (xs.length + 1) x)).2
            (out ++ (bodySem py tag atts orig c sg ne (denoteList py kids)
              (({ ctx with attrs := orig } : Ctx).addRepeat v (xs.length + 1) x)).1)
          have := s1.trans (s2.trans s3)
          simpa [List.append_assoc] using this

/-! ### a whole element, nodes and node lists -/

theorem elem_run {b : Nat} {tag : Str} {atts orig : List (Str × Str)} {c : Cmds} {sg ne : Bool} {kids : List Node}
    (L : Layout P b tag atts orig c sg ne kids) (ih : KidsRun py P b c kids) (regs : Regs) (rac stack ctx out) :
    Reach py P ⟨b, regs, rac, stack, ctx, out⟩
      ⟨oEnd b c kids + 1, regs, rac, stack, (denote py (.elem tag atts orig c sg ne kids) ctx).2,
        out ++ (denote py (.elem tag atts orig c sg ne kids) ctx).1⟩ := by
  have s0 := Reach.one (step_startScope (py := py) L.hScope regs rac stack ctx out)
  have s1 := phase_define (py := py) (c := c) (orig := orig) (atts := atts) L.hDefine rac (.scope regs :: stack) ctx out
  refine s0.trans (s1.trans ?_)
  simp only [denote]
  by_cases hc : (condPhase py orig c (definePhase py orig c ctx).1).1 = true
  · have s2 := phase_cond_true (py := py) (atts := atts) L.hCond (definePhase py orig c ctx).2 rac (.scope regs :: stack)
      (definePhase py orig c ctx).1 out hc
    have s3 := rep_phase (py := py) L ih (definePhase py orig c ctx).2 regs rac stack
      (condPhase py orig c (definePhase py orig c ctx).1).2 out
    have := s2.trans s3
    simpa [hc] using this
  · have hc' : (condPhase py orig c (definePhase py orig c ctx).1).1 = false := by simpa using hc
    have s2 := phase_cond_false (py := py) (kids := kids) (atts := atts) L.hCond (definePhase py orig c ctx).2 rac
      (.scope regs :: stack) (definePhase py orig c ctx).1 out hc'
    have s3 := Reach.one (step_endTag_pop (py := py) L.hEnd orig atts none false none none (definePhase py orig c ctx).2 regs rac stack
      (condPhase py orig c (definePhase py orig c ctx).1).2 out)
    have := s2.trans s3
    simpa [hc', contentText] using this

theorem size_elem (b : Nat) (tag : Str) (atts orig : List (Str × Str)) (c : Cmds) (sg ne : Bool) (kids : List Node) :
    b + size (.elem tag atts orig c sg ne kids) = oEnd b c kids + 1 := by
  simp [size, oEnd, oKids_eq]; omega

mutual
/-- **Node.** From the first command of a node's code the machine reaches the command after
    it, having appended `denote`'s output and updated the context as `denote` does; registers,
    attribute copy and scope stack are as before. -/
theorem run_node : ∀ (n : Node) (b : Nat), At P b (compile b n) → ∀ (regs : Regs) (rac stack ctx out),
    Reach py P ⟨b, regs, rac, stack, ctx, out⟩
      ⟨b + size n, regs, rac, stack, (denote py n ctx).2, out ++ (denote py n ctx).1⟩
  | .data s, b, hAt, regs, rac, stack, ctx, out => by
    have hl : P[b]? = some (.output s) := by simpa [compile] using hAt.lookup 0 (by simp [compile])
    simpa [size, denote] using Reach.one (step_output (py := py) hl regs rac stack ctx out)
  | .elem tag atts orig c sg ne kids, b, hAt, regs, rac, stack, ctx, out => by
    have L := layout_of_at hAt
    have ihk : KidsRun py P b c kids := by
      intro regs' rac' stack' ctx' out'
      have := run_list kids (oKids b c) L.hKids regs' rac' stack' ctx' out'
      simpa [oEnd] using this
    rw [size_elem]
    exact elem_run L ihk regs rac stack ctx out
theorem run_list : ∀ (ns : List Node) (b : Nat), At P b (compileList b ns) → ∀ (regs : Regs) (rac stack ctx out),
    Reach py P ⟨b, regs, rac, stack, ctx, out⟩
      ⟨b + sizeList ns, regs, rac, stack, (denoteList py ns ctx).2, out ++ (denoteList py ns ctx).1⟩
  | [], b, _, regs, rac, stack, ctx, out => by
    simpa [sizeList, denoteList] using Reach.refl (py := py) (P := P) _
  | n :: ns, b, hAt, regs, rac, stack, ctx, out => by
    simp only [compileList] at hAt
    have h1 := run_node n b hAt.sub_left regs rac stack ctx out
    have hAt2 := hAt.sub_right
    rw [length_compile] at hAt2
    have h2 := run_list ns (b + size n) hAt2 regs rac stack (denote py n ctx).2 (out ++ (denote py n ctx).1)
    have := h1.trans h2
    simpa [sizeList, denoteList, Nat.add_assoc, List.append_assoc] using this
end

/-! ### halting and fuel -/

theorem steps_split : ∀ (j m : Nat) (s : St), steps py P (j + m) s = (steps py P j s).bind (steps py P m) := by
  intro j
  induction j with
  | zero => intro m s; simp [steps]
  | succ j ih =>
    intro m s
    have : j + 1 + m = (j + m) + 1 := by omega
    rw [this]
    simp only [steps]
    cases hs : step py P s with
    | none => simp
    | some s1 => simpa using ih m s1

theorem steps_halted (m : Nat) (s : St) (h : s.pc = P.length) : steps py P (m + 1) s = none := by
  have : P[s.pc]? = none := by rw [h]; simp
  simp [steps, step, this]

theorem exec_of_steps : ∀ (k : Nat) (s s' : St), steps py P k s = some s' → s'.pc = P.length →
    (∀ j s'', j < k → steps py P j s = some s'' → s''.pc ≠ P.length) → exec py P k s = some s' := by
  intro k
  induction k with
  | zero => intro s s' h hl _; simp [steps] at h; subst h; simp [exec, hl]
  | succ k ih =>
    intro s s' h hl hmin
    have h0 : s.pc ≠ P.length := hmin 0 s (by omega) rfl
    simp only [exec, h0, if_false]
    simp only [steps] at h
    cases hs : step py P s with
    | none => simp [hs] at h
    | some s1 =>
      simp [hs] at h ⊢
      exact ih s1 s' h hl (fun j s'' hj hj' => hmin (j + 1) s'' (by omega) (by simp [steps, hs, hj']))

/-- **Refinement.** For every template (in normal form) and every context there is an amount
    of fuel with which the stack machine, run on the compiled template, halts with exactly the
    output and the context the tree-walking semantics `denoteList` prescribes. -/
theorem run_refines_denote (py : Str → Val) (t : List Node) (ctx : Ctx) :
    ∃ fuel, expand py fuel t ctx = some (denoteList py t ctx) := by
  have hAt : At (compileList 0 t) 0 (compileList 0 t) := At.whole _
  obtain ⟨k, hk⟩ := run_list (py := py) (P := compileList 0 t) t 0 hAt {} [] [] ctx []
  have hlen : (0 + sizeList t) = (compileList 0 t).length := by rw [length_compileList]; simp
  refine ⟨k, ?_⟩
  unfold expand
  have hex := exec_of_steps (py := py) (P := compileList 0 t) k { ctx := ctx } _ hk (by simpa using hlen) (by
    intro j s'' hj hj' hhalt
    obtain ⟨m, rfl⟩ : ∃ m, k = j + (m + 1) := ⟨k - j - 1, by omega⟩
    rw [steps_split, hj'] at hk
    simp [steps_halted m s'' hhalt] at hk)
  rw [hex]
  simp

end Pyg.Tal
