import PygVerif.Model.Tal
/-!
# Lemmas/TalBasics — machine runs, code layout of a compiled element
-/
namespace Pyg.Tal

variable (py : Str → Val) (P : List Cmd)

def steps : Nat → St → Option St
  | 0, s => some s
  | k + 1, s => match step py P s with
    | some s' => steps k s'
    | none => none

def Reach (s s' : St) : Prop := ∃ k, steps py P k s = some s'

theorem steps_trans : ∀ (k1 k2 : Nat) (s s1 s2 : St),
    steps py P k1 s = some s1 → steps py P k2 s1 = some s2 → steps py P (k1 + k2) s = some s2 := by
  intro k1
  induction k1 with
  | zero => intro k2 s s1 s2 h1 h2; simp [steps] at h1; subst h1; simpa using h2
  | succ k ih =>
    intro k2 s s1 s2 h1 h2
    have : k + 1 + k2 = (k + k2) + 1 := by omega
    rw [this]
    simp only [steps] at h1 ⊢
    cases hs : step py P s with
    | none => simp [hs] at h1
    | some s' => simp [hs] at h1 ⊢; exact ih k2 s' s1 s2 h1 h2

variable {py P}

theorem Reach.refl (s : St) : Reach py P s s := ⟨0, rfl⟩
theorem Reach.trans {a b c : St} (h1 : Reach py P a b) (h2 : Reach py P b c) : Reach py P a c := by
  obtain ⟨k1, h1⟩ := h1; obtain ⟨k2, h2⟩ := h2
  exact ⟨k1 + k2, steps_trans py P k1 k2 a b c h1 h2⟩
theorem Reach.one {a b : St} (h : step py P a = some b) : Reach py P a b := ⟨1, by simp [steps, h]⟩
theorem Reach.of_eq {a b : St} (h : a = b) : Reach py P a b := h ▸ Reach.refl a

/-! ### sizes -/

theorem length_segDefine (c : Cmds) : (segDefine c).length = optLen c.define := by
  unfold segDefine optLen; cases c.define <;> rfl
theorem length_segCond (c : Cmds) (e : Nat) : (segCond c e).length = optLen c.condition := by
  unfold segCond optLen; cases c.condition <;> rfl
theorem length_segRep (c : Cmds) (e : Nat) : (segRep c e).length = optLen c.repeat_ := by
  unfold segRep optLen; cases h : c.repeat_ with
  | none => rfl
  | some x => obtain ⟨v, ex⟩ := x; rfl
theorem length_segCont (c : Cmds) (e : Nat) : (segCont c e).length = optLen c.content := by
  unfold segCont optLen; cases h : c.content with
  | none => rfl
  | some x => obtain ⟨r, s, ex⟩ := x; rfl
theorem length_segAttr (c : Cmds) : (segAttr c).length = optLen c.attributes := by
  unfold segAttr optLen; cases c.attributes <;> rfl
theorem length_segOmit (c : Cmds) : (segOmit c).length = optLen c.omitTag := by
  unfold segOmit optLen; cases c.omitTag <;> rfl

theorem length_headCmds (tag : Str) (atts orig : List (Str × Str)) (c : Cmds) (sg : Bool) (e : Nat) :
    (headCmds tag atts orig c sg e).length = headLen c := by
  simp only [headCmds, List.length_append, List.length_cons, List.length_nil, length_segDefine, length_segCond, length_segRep,
    length_segCont, length_segAttr, length_segOmit, headLen]

mutual
theorem length_compile : ∀ (b : Nat) (n : Node), (compile b n).length = size n
  | b, .data s => by simp [compile, size]
  | b, .elem tag atts orig c sg ne kids => by
    simp [compile, size, length_headCmds, length_compileList (b + headLen c) kids]; omega
theorem length_compileList : ∀ (b : Nat) (ns : List Node), (compileList b ns).length = sizeList ns
  | b, [] => by simp [compileList, sizeList]
  | b, n :: ns => by
    simp [compileList, sizeList, length_compile b n, length_compileList (b + size n) ns]
end

/-! ### located code segments -/

/-- A segment `seg` sits in `P` at offset `b`. -/
def At (P : List Cmd) (b : Nat) (seg : List Cmd) : Prop :=
  ∃ pre post, P = pre ++ seg ++ post ∧ pre.length = b

theorem At.lookup {P b seg} (h : At P b seg) (i : Nat) (hi : i < seg.length) : P[b + i]? = seg[i]? := by
  obtain ⟨pre, post, rfl, rfl⟩ := h
  rw [List.append_assoc, List.getElem?_append_right (by omega)]
  simp [List.getElem?_append_left hi]

theorem At.sub_left {P b a c} (h : At P b (a ++ c)) : At P b a := by
  obtain ⟨pre, post, rfl, rfl⟩ := h
  exact ⟨pre, c ++ post, by simp, rfl⟩

theorem At.sub_right {P b a c} (h : At P b (a ++ c)) : At P (b + a.length) c := by
  obtain ⟨pre, post, rfl, rfl⟩ := h
  exact ⟨pre ++ a, post, by simp, by simp⟩

theorem At.whole (P : List Cmd) : At P 0 P := ⟨[], [], by simp, rfl⟩

/-! ### offsets of the commands of an element -/

def oCond (b : Nat) (c : Cmds) : Nat := b + 1 + optLen c.define
def oRep (b : Nat) (c : Cmds) : Nat := oCond b c + optLen c.condition
def oCont (b : Nat) (c : Cmds) : Nat := oRep b c + optLen c.repeat_
def oAttr (b : Nat) (c : Cmds) : Nat := oCont b c + optLen c.content
def oOmit (b : Nat) (c : Cmds) : Nat := oAttr b c + optLen c.attributes
def oTag (b : Nat) (c : Cmds) : Nat := oOmit b c + optLen c.omitTag
def oKids (b : Nat) (c : Cmds) : Nat := oTag b c + 1
def oEnd (b : Nat) (c : Cmds) (kids : List Node) : Nat := oKids b c + sizeList kids

theorem oKids_eq (b : Nat) (c : Cmds) : oKids b c = b + headLen c := by
  simp [oKids, oTag, oOmit, oAttr, oCont, oRep, oCond, headLen]; omega

/-- where everything of a compiled element sits -/
structure Layout (P : List Cmd) (b : Nat) (tag : Str) (atts orig : List (Str × Str)) (c : Cmds) (sg ne : Bool)
    (kids : List Node) : Prop where
  hScope : P[b]? = some (.startScope orig atts)
  hDefine : ∀ a, c.define = some a → P[b + 1]? = some (.define a)
  hCond : ∀ e, c.condition = some e → P[oCond b c]? = some (.cond e (oEnd b c kids))
  hRep : ∀ v e, c.repeat_ = some (v, e) → P[oRep b c]? = some (.rep v e (oEnd b c kids))
  hCont : ∀ r s e, c.content = some (r, s, e) → P[oCont b c]? = some (.content r s e (oEnd b c kids))
  hAttr : ∀ a, c.attributes = some a → P[oAttr b c]? = some (.attributes a)
  hOmit : ∀ e, c.omitTag = some e → P[oOmit b c]? = some (.omitTag e)
  hTag : P[oTag b c]? = some (.startTag tag sg)
  hKids : At P (oKids b c) (compileList (oKids b c) kids)
  hEnd : P[oEnd b c kids]? = some (.endTag tag ne sg)

theorem layout_of_at {P b tag atts orig c sg ne kids}
    (h : At P b (compile b (.elem tag atts orig c sg ne kids))) : Layout P b tag atts orig c sg ne kids := by
  have hk : oKids b c = b + headLen c := oKids_eq b c
  have he : oEnd b c kids = b + headLen c + sizeList kids := by simp [oEnd, hk]
  have he' : oEnd b c kids = oKids b c + sizeList kids := rfl
  simp only [compile] at h
  rw [← hk, ← he'] at h
  -- split: head ++ (kids ++ [end])
  have hHead := h.sub_left
  have hRest := h.sub_right
  rw [length_headCmds] at hRest
  have hKids := hRest.sub_left
  have hEndAt := hRest.sub_right
  rw [length_compileList] at hEndAt
  -- inside the head
  simp only [headCmds] at hHead
  have s1 := hHead.sub_left.sub_left.sub_left.sub_left.sub_left.sub_left.sub_left   -- [startScope]
  have d1 := hHead.sub_left.sub_left.sub_left.sub_left.sub_left.sub_left.sub_right  -- define seg
  have c1 := hHead.sub_left.sub_left.sub_left.sub_left.sub_left.sub_right           -- cond seg
  have r1 := hHead.sub_left.sub_left.sub_left.sub_left.sub_right                    -- rep seg
  have k1 := hHead.sub_left.sub_left.sub_left.sub_right                             -- content seg
  have a1 := hHead.sub_left.sub_left.sub_right                                      -- attributes seg
  have o1 := hHead.sub_left.sub_right                                               -- omit seg
  have t1 := hHead.sub_right                                                        -- [startTag]
  simp only [List.length_append, List.length_cons, List.length_nil, length_segDefine, length_segCond, length_segRep,
    length_segCont, length_segAttr, length_segOmit] at d1 c1 r1 k1 a1 o1 t1
  refine ⟨?_, ?_, ?_, ?_, ?_, ?_, ?_, ?_, ?_, ?_⟩
  · simpa using s1.lookup 0 (by simp)
  · intro a ha
    have hs : segDefine c = [Cmd.define a] := by simp [segDefine, ha]
    rw [hs] at d1
    simpa using d1.lookup 0 (by simp)
  · intro e hc
    have hs : segCond c (oEnd b c kids) = [Cmd.cond e (oEnd b c kids)] := by simp [segCond, hc]
    rw [hs] at c1
    have := c1.lookup 0 (by simp)
    have hidx : b + (0 + 1 + optLen c.define) + 0 = oCond b c := by simp [oCond]; omega
    simpa [hidx] using this
  · intro v e hr
    have hs : segRep c (oEnd b c kids) = [Cmd.rep v e (oEnd b c kids)] := by simp [segRep, hr]
    rw [hs] at r1
    have := r1.lookup 0 (by simp)
    have hidx : b + (0 + 1 + optLen c.define + optLen c.condition) + 0 = oRep b c := by simp [oRep, oCond]; omega
    simpa [hidx] using this
  · intro r s e hc
    have hs : segCont c (oEnd b c kids) = [Cmd.content r s e (oEnd b c kids)] := by simp [segCont, hc]
    rw [hs] at k1
    have := k1.lookup 0 (by simp)
    have hidx : b + (0 + 1 + optLen c.define + optLen c.condition + optLen c.repeat_) + 0 = oCont b c := by
      simp [oCont, oRep, oCond]; omega
    simpa [hidx] using this
  · intro a ha
    have hs : segAttr c = [Cmd.attributes a] := by simp [segAttr, ha]
    rw [hs] at a1
    have := a1.lookup 0 (by simp)
    have hidx : b + (0 + 1 + optLen c.define + optLen c.condition + optLen c.repeat_ + optLen c.content) + 0 = oAttr b c := by
      simp [oAttr, oCont, oRep, oCond]; omega
    simpa [hidx] using this
  · intro e ho
    have hs : segOmit c = [Cmd.omitTag e] := by simp [segOmit, ho]
    rw [hs] at o1
    have := o1.lookup 0 (by simp)
    have hidx : b + (0 + 1 + optLen c.define + optLen c.condition + optLen c.repeat_ + optLen c.content + optLen c.attributes) + 0
        = oOmit b c := by simp [oOmit, oAttr, oCont, oRep, oCond]; omega
    simpa [hidx] using this
  · have := t1.lookup 0 (by simp)
    have hidx : b + (0 + 1 + optLen c.define + optLen c.condition + optLen c.repeat_ + optLen c.content + optLen c.attributes +
        optLen c.omitTag) + 0 = oTag b c := by simp [oTag, oOmit, oAttr, oCont, oRep, oCond]; omega
    simpa [hidx] using this
  · rw [← hk] at hKids; exact hKids
  · have := hEndAt.lookup 0 (by simp)
    have hidx : b + headLen c + sizeList kids + 0 = oEnd b c kids := by rw [he]; omega
    simpa [hidx] using this

end Pyg.Tal
