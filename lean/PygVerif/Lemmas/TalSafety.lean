import PygVerif.Model.Tal
import PygVerif.Lemmas.Doc
/-!
# Lemmas/TalSafety — what data can and cannot do to an expansion

* `Same` — the part of a context a caller can observe apart from globals and `attrs`; every
  element and every list of nodes restores it (`denote_same`).
* `GateEq` — with Python paths disabled the `python:` oracle is never consulted
  (`evalFuel_gate`, lifted through every phase to `denote_gate`).
* `Gen` — outputs generated from the template's own strings and HTML-escaped strings only.
* `ser` — the serialisation of a TAL-free tree; expansion is the identity on it.
-/
namespace Pyg.Tal

/-! ## context restoration -/

def Same (a b : Ctx) : Prop :=
  a.locals = b.locals ∧ a.localStack = b.localStack ∧ a.repeatMap = b.repeatMap ∧ a.repeatStack = b.repeatStack ∧
  a.allowPython = b.allowPython

def Stacks (a b : Ctx) : Prop :=
  a.localStack = b.localStack ∧ a.repeatStack = b.repeatStack ∧ a.allowPython = b.allowPython

theorem Same.refl (a : Ctx) : Same a a := ⟨rfl, rfl, rfl, rfl, rfl⟩
theorem Same.trans {a b c : Ctx} (h1 : Same a b) (h2 : Same b c) : Same a c :=
  ⟨h1.1.trans h2.1, h1.2.1.trans h2.2.1, h1.2.2.1.trans h2.2.2.1, h1.2.2.2.1.trans h2.2.2.2.1, h1.2.2.2.2.trans h2.2.2.2.2⟩
theorem Same.attrs (a : Ctx) (o : List (Str × Str)) : Same { a with attrs := o } a := ⟨rfl, rfl, rfl, rfl, rfl⟩
theorem Same.stacks {a b : Ctx} (h : Same a b) : Stacks a b := ⟨h.2.1, h.2.2.2.1, h.2.2.2.2⟩
theorem Stacks.trans {a b c : Ctx} (h1 : Stacks a b) (h2 : Stacks b c) : Stacks a c :=
  ⟨h1.1.trans h2.1, h1.2.1.trans h2.2.1, h1.2.2.trans h2.2.2⟩

/-- a semantic function that restores the context -/
def Pres (f : Ctx → Str × Ctx) : Prop := ∀ c, Same (f c).2 c

theorem runDefine_spec (py : Str → Val) (orig : List (Str × Str)) : ∀ (args : List DefineArg) (c : Ctx) (found : Bool),
    (runDefine py orig args c found).1.repeatMap = c.repeatMap ∧
    (runDefine py orig args c found).1.repeatStack = c.repeatStack ∧
    (runDefine py orig args c found).1.allowPython = c.allowPython ∧
    (found = true → (runDefine py orig args c found).2 = true ∧ (runDefine py orig args c found).1.localStack = c.localStack) ∧
    (found = false →
      ((runDefine py orig args c found).2 = false ∧ (runDefine py orig args c found).1.locals = c.locals ∧
        (runDefine py orig args c found).1.localStack = c.localStack) ∨
      ((runDefine py orig args c found).2 = true ∧ (runDefine py orig args c found).1.localStack = c.locals :: c.localStack))
  | [], c, found => by
    cases found <;> simp [runDefine]
  | a :: rest, c, found => by
    cases hl : a.isLocal
    · -- global define
      have ih := runDefine_spec py orig rest (({ c with attrs := orig } : Ctx).addGlobal a.name (eval py { c with attrs := orig } a.expr)) found
      simp only [runDefine, hl, Bool.false_eq_true, ↓reduceIte]
      simpa [Ctx.addGlobal] using ih
    · cases found
      · have ih := runDefine_spec py orig rest ((({ c with attrs := orig } : Ctx).pushLocals).setLocal a.name (eval py { c with attrs := orig } a.expr)) true
        simp only [runDefine, hl, ↓reduceIte, Bool.false_eq_true]
        have h4 := ih.2.2.2.1 rfl
        simp only [Ctx.setLocal, Ctx.pushLocals] at ih h4
        simp only [Ctx.setLocal, Ctx.pushLocals]
        exact ⟨ih.1, ih.2.1, ih.2.2.1, by simp, fun _ => Or.inr h4⟩
      · have ih := runDefine_spec py orig rest ((({ c with attrs := orig } : Ctx)).setLocal a.name (eval py { c with attrs := orig } a.expr)) true
        simp only [runDefine, hl, ↓reduceIte]
        have h4 := ih.2.2.2.1 rfl
        simp only [Ctx.setLocal] at ih h4
        simp only [Ctx.setLocal]
        exact ⟨ih.1, ih.2.1, ih.2.2.1, fun _ => h4, by simp⟩
theorem bodySem_pres (py : Str → Val) (tag : Str) (atts orig : List (Str × Str)) (c : Cmds) (sg ne : Bool)
    (kids : Ctx → Str × Ctx) (hk : Pres kids) : Pres (bodySem py tag atts orig c sg ne kids) := by
  intro ctx
  have h1 : Same (contentPhase py orig c ctx).1 ctx := by
    unfold contentPhase; split
    · exact Same.refl _
    · dsimp only; split
      · exact Same.attrs _ _
      · split <;> exact Same.attrs _ _
  have h2 : ∀ x, Same (attrPhase py orig c atts x).1 x := by
    intro x; unfold attrPhase; split
    · exact Same.refl _
    · exact Same.attrs _ _
  have h3 : ∀ b x, Same (omitPhase py orig c b x).1 x := by
    intro b x; unfold omitPhase; split
    · exact Same.refl _
    · exact Same.attrs _ _
  have h4 := (h3 (contentPhase py orig c ctx).2.1 _).trans ((h2 _).trans h1)
  simp only [bodySem]
  split
  · exact h4
  · exact (hk _).trans h4

theorem repeatSem_stacks (v : Str) (body : Ctx → Str × Ctx) (hb : Pres body) :
    ∀ (xs : List Val) (c : Ctx), Stacks (repeatSem v body xs c).2 c
  | [], c => ⟨rfl, rfl, rfl⟩
  | x :: xs, c => by
    simp only [repeatSem]
    refine (repeatSem_stacks v body hb xs _).trans ((hb _).stacks.trans ?_)
    exact ⟨rfl, rfl, rfl⟩

theorem unwind_same {R ctx : Ctx} (a : R.localStack = ctx.locals :: ctx.localStack)
    (b : R.repeatStack = ctx.repeatMap :: ctx.repeatStack) (d : R.allowPython = ctx.allowPython) :
    Same R.removeRepeat.popLocals ctx := by
  have h1 : R.removeRepeat = { R with repeatMap := ctx.repeatMap, repeatStack := ctx.repeatStack } := by
    simp only [Ctx.removeRepeat, b]
  rw [h1]
  simp only [Ctx.popLocals, a]
  exact ⟨rfl, rfl, rfl, rfl, d⟩

theorem repeatPhase_pres (py : Str → Val) (orig : List (Str × Str)) (c : Cmds) (body : Ctx → Str × Ctx) (hb : Pres body) :
    Pres (repeatPhase py orig c body) := by
  intro ctx
  unfold repeatPhase
  cases hr : c.repeat_ with
  | none => exact hb ctx
  | some ve =>
    obtain ⟨v, e⟩ := ve
    dsimp only
    split
    · exact (hb _).trans (Same.attrs _ _)
    · cases hs : seqItems (eval py { ctx with attrs := orig } e) with
      | none => exact Same.attrs _ _
      | some l =>
        cases l with
        | nil => exact Same.attrs _ _
        | cons x xs =>
          dsimp only
          have s1 := (hb (({ ctx with attrs := orig } : Ctx).addRepeat v (xs.length + 1) x)).stacks
          have s2 := (repeatSem_stacks v body hb xs (body (({ ctx with attrs := orig } : Ctx).addRepeat v (xs.length + 1) x)).2).trans s1
          have a : (repeatSem v body xs (body (({ ctx with attrs := orig } : Ctx).addRepeat v (xs.length + 1) x)).2).2.localStack
              = ctx.locals :: ctx.localStack := s2.1
          have b : (repeatSem v body xs (body (({ ctx with attrs := orig } : Ctx).addRepeat v (xs.length + 1) x)).2).2.repeatStack
              = ctx.repeatMap :: ctx.repeatStack := s2.2.1
          have d : (repeatSem v body xs (body (({ ctx with attrs := orig } : Ctx).addRepeat v (xs.length + 1) x)).2).2.allowPython
              = ctx.allowPython := s2.2.2
          generalize (repeatSem v body xs (body (({ ctx with attrs := orig } : Ctx).addRepeat v (xs.length + 1) x)).2).2 = R at a b d
          exact unwind_same a b d

theorem popLocals_same {r ctx : Ctx} {l : Vars} (h : r.localStack = l :: ctx.localStack)
    (h2 : r.repeatMap = ctx.repeatMap) (h3 : r.repeatStack = ctx.repeatStack) (h4 : r.allowPython = ctx.allowPython)
    (hl : l = ctx.locals) : Same r.popLocals ctx := by
  simp only [Ctx.popLocals, h]
  exact ⟨hl, rfl, h2, h3, h4⟩

mutual
theorem denote_same (py : Str → Val) : ∀ (n : Node) (ctx : Ctx), Same (denote py n ctx).2 ctx
  | .data s, ctx => by simp only [denote]; exact Same.refl _
  | .elem tag atts orig c sg ne kids, ctx => by
    have hk : Pres (denoteList py kids) := fun x => denoteList_same py kids x
    have hbody := bodySem_pres py tag atts orig c sg ne _ hk
    have hrep := repeatPhase_pres py orig c _ hbody
    have hcp : ∀ x, Same (condPhase py orig c x).2 x := by
      intro x; unfold condPhase; split
      · exact Same.attrs _ _
      · exact Same.refl _
    -- r is Same as dp.1
    have hr : Same (if (condPhase py orig c (definePhase py orig c ctx).1).1 then
          repeatPhase py orig c (bodySem py tag atts orig c sg ne (denoteList py kids)) (condPhase py orig c (definePhase py orig c ctx).1).2
        else (([] : Str), (condPhase py orig c (definePhase py orig c ctx).1).2)).2 (definePhase py orig c ctx).1 := by
      split
      · exact (hrep _).trans (hcp _)
      · exact hcp _
    simp only [denote]
    generalize hR : (if (condPhase py orig c (definePhase py orig c ctx).1).1 then
          repeatPhase py orig c (bodySem py tag atts orig c sg ne (denoteList py kids)) (condPhase py orig c (definePhase py orig c ctx).1).2
        else (([] : Str), (condPhase py orig c (definePhase py orig c ctx).1).2)) = R at hr
    -- the define phase
    unfold definePhase at hr ⊢
    cases hd : c.define with
    | none =>
      simp only [hd] at hr ⊢
      simpa using hr
    | some args =>
      simp only [hd] at hr ⊢
      have sp := runDefine_spec py orig args ctx false
      rcases sp.2.2.2.2 rfl with ⟨f, l, s⟩ | ⟨f, s⟩
      · simp only [f, Bool.false_eq_true, ↓reduceIte]
        exact ⟨hr.1.trans l, hr.2.1.trans s, hr.2.2.1.trans sp.1, hr.2.2.2.1.trans sp.2.1, hr.2.2.2.2.trans sp.2.2.1⟩
      · simp only [f, ↓reduceIte]
        exact popLocals_same (hr.2.1.trans s) (hr.2.2.1.trans sp.1) (hr.2.2.2.1.trans sp.2.1) (hr.2.2.2.2.trans sp.2.2.1) rfl
theorem denoteList_same (py : Str → Val) : ∀ (ns : List Node) (ctx : Ctx), Same (denoteList py ns ctx).2 ctx
  | [], ctx => by simp only [denoteList]; exact Same.refl _
  | n :: ns, ctx => by
    simp only [denoteList]
    exact (denoteList_same py ns _).trans (denote_same py n ctx)
end



/-! ## the python: gate -/

theorem evalFuel_gate (py1 py2 : Str → Val) (c : Ctx) (hc : c.allowPython = false) :
    ∀ (fuel : Nat) (e : Str), evalFuel py1 fuel c e = evalFuel py2 fuel c e
  | 0, e => by simp [evalFuel]
  | fuel + 1, e => by
    have ih : ∀ e, evalFuel py1 fuel c e = evalFuel py2 fuel c e := evalFuel_gate py1 py2 c hc fuel
    have ihf : evalFuel py1 fuel c = evalFuel py2 fuel c := funext ih
    have hp : ∀ e, evalFuel.evalPathE py1 fuel c e = evalFuel.evalPathE py2 fuel c e := by
      intro e; simp only [evalFuel.evalPathE, ihf]
    simp only [evalFuel, ihf, hp, hc, Bool.false_eq_true, ↓reduceIte]

theorem eval_gate (py1 py2 : Str → Val) (c : Ctx) (hc : c.allowPython = false) (e : Str) : eval py1 c e = eval py2 c e := by
  simp only [eval, evalFuel_gate py1 py2 c hc]


def GateEq (f g : Ctx → Str × Ctx) : Prop := ∀ c, c.allowPython = false → f c = g c

theorem runDefine_gate (py1 py2 : Str → Val) (orig : List (Str × Str)) : ∀ (args : List DefineArg) (c : Ctx) (found : Bool),
    c.allowPython = false → runDefine py1 orig args c found = runDefine py2 orig args c found
  | [], c, found, _ => by simp [runDefine]
  | a :: rest, c, found, hc => by
    have he : eval py1 { c with attrs := orig } a.expr = eval py2 { c with attrs := orig } a.expr := eval_gate py1 py2 { c with attrs := orig } hc _
    simp only [runDefine, he]
    split
    · exact runDefine_gate py1 py2 orig rest _ true (by cases found <;> simpa [Ctx.setLocal, Ctx.pushLocals] using hc)
    · exact runDefine_gate py1 py2 orig rest _ found (by simpa [Ctx.addGlobal] using hc)

theorem definePhase_gate (py1 py2 : Str → Val) (orig : List (Str × Str)) (c : Cmds) (ctx : Ctx) (hc : ctx.allowPython = false) :
    definePhase py1 orig c ctx = definePhase py2 orig c ctx := by
  unfold definePhase; split
  · exact runDefine_gate py1 py2 orig _ ctx false hc
  · rfl

theorem condPhase_gate (py1 py2 : Str → Val) (orig : List (Str × Str)) (c : Cmds) (ctx : Ctx) (hc : ctx.allowPython = false) :
    condPhase py1 orig c ctx = condPhase py2 orig c ctx := by
  unfold condPhase; split
  · rename_i e _
    have he : eval py1 { ctx with attrs := orig } e = eval py2 { ctx with attrs := orig } e := eval_gate py1 py2 { ctx with attrs := orig } hc _
    simp only [he]
  · rfl

theorem contentPhase_gate (py1 py2 : Str → Val) (orig : List (Str × Str)) (c : Cmds) (ctx : Ctx) (hc : ctx.allowPython = false) :
    contentPhase py1 orig c ctx = contentPhase py2 orig c ctx := by
  unfold contentPhase; split
  · rfl
  · rename_i r s e _
    have he : eval py1 { ctx with attrs := orig } e = eval py2 { ctx with attrs := orig } e := eval_gate py1 py2 { ctx with attrs := orig } hc _
    simp only [he]

theorem attrPhase_gate (py1 py2 : Str → Val) (orig : List (Str × Str)) (c : Cmds) (atts : List (Str × Str)) (ctx : Ctx)
    (hc : ctx.allowPython = false) : attrPhase py1 orig c atts ctx = attrPhase py2 orig c atts ctx := by
  unfold attrPhase; split
  · rfl
  · have he : eval py1 { ctx with attrs := orig } = eval py2 { ctx with attrs := orig } := funext (eval_gate py1 py2 { ctx with attrs := orig } hc)
    simp only [he]

theorem omitPhase_gate (py1 py2 : Str → Val) (orig : List (Str × Str)) (c : Cmds) (b : Bool) (ctx : Ctx)
    (hc : ctx.allowPython = false) : omitPhase py1 orig c b ctx = omitPhase py2 orig c b ctx := by
  unfold omitPhase; split
  · rfl
  · rename_i e _
    have he : eval py1 { ctx with attrs := orig } e = eval py2 { ctx with attrs := orig } e := eval_gate py1 py2 { ctx with attrs := orig } hc _
    simp only [he]

theorem contentPhase_allow (py : Str → Val) (orig : List (Str × Str)) (c : Cmds) (ctx : Ctx) :
    (contentPhase py orig c ctx).1.allowPython = ctx.allowPython := by
  unfold contentPhase; split
  · rfl
  · dsimp only; split
    · rfl
    · split <;> rfl
theorem attrPhase_allow (py : Str → Val) (orig : List (Str × Str)) (c : Cmds) (atts : List (Str × Str)) (ctx : Ctx) :
    (attrPhase py orig c atts ctx).1.allowPython = ctx.allowPython := by
  unfold attrPhase; split <;> rfl
theorem omitPhase_allow (py : Str → Val) (orig : List (Str × Str)) (c : Cmds) (b : Bool) (ctx : Ctx) :
    (omitPhase py orig c b ctx).1.allowPython = ctx.allowPython := by
  unfold omitPhase; split <;> rfl

theorem bodySem_gate (py1 py2 : Str → Val) (tag : Str) (atts orig : List (Str × Str)) (c : Cmds) (sg ne : Bool)
    (k1 k2 : Ctx → Str × Ctx) (hk : GateEq k1 k2) :
    GateEq (bodySem py1 tag atts orig c sg ne k1) (bodySem py2 tag atts orig c sg ne k2) := by
  intro ctx hc
  have e1 := contentPhase_gate py1 py2 orig c ctx hc
  have a1 : (contentPhase py2 orig c ctx).1.allowPython = false := (contentPhase_allow py2 orig c ctx).trans hc
  have e2 := attrPhase_gate py1 py2 orig c atts _ a1
  have a2 : (attrPhase py2 orig c atts (contentPhase py2 orig c ctx).1).1.allowPython = false := (attrPhase_allow ..).trans a1
  have e3 := omitPhase_gate py1 py2 orig c (contentPhase py2 orig c ctx).2.1 _ a2
  have a3 := (omitPhase_allow py2 orig c (contentPhase py2 orig c ctx).2.1 (attrPhase py2 orig c atts (contentPhase py2 orig c ctx).1).1).trans a2
  simp only [bodySem, e1, e2, e3, hk _ a3]

theorem repeatSem_gate (v : Str) (b1 b2 : Ctx → Str × Ctx) (hb : GateEq b1 b2) (hp : Pres b2) :
    ∀ (xs : List Val) (c : Ctx), c.allowPython = false → repeatSem v b1 xs c = repeatSem v b2 xs c
  | [], _, _ => rfl
  | x :: xs, c, hc => by
    have h0 : ((c.bumpRepeat v).setLocal v x).allowPython = false := hc
    simp only [repeatSem, hb _ h0]
    have h1 : (b2 ((c.bumpRepeat v).setLocal v x)).2.allowPython = false := (hp _).2.2.2.2.trans h0
    rw [repeatSem_gate v b1 b2 hb hp xs _ h1]

theorem repeatPhase_gate (py1 py2 : Str → Val) (orig : List (Str × Str)) (c : Cmds) (b1 b2 : Ctx → Str × Ctx)
    (hb : GateEq b1 b2) (hp : Pres b2) : GateEq (repeatPhase py1 orig c b1) (repeatPhase py2 orig c b2) := by
  intro ctx hc
  unfold repeatPhase
  cases hr : c.repeat_ with
  | none => exact hb ctx hc
  | some ve =>
    obtain ⟨v, e⟩ := ve
    have he : eval py1 { ctx with attrs := orig } e = eval py2 { ctx with attrs := orig } e := eval_gate py1 py2 { ctx with attrs := orig } hc _
    have h0 : ({ ctx with attrs := orig } : Ctx).allowPython = false := hc
    simp only [he, hb _ h0]
    split
    · rfl
    · cases hs : seqItems (eval py2 { ctx with attrs := orig } e) with
      | none => rfl
      | some l =>
        cases l with
        | nil => rfl
        | cons x xs =>
          have h1 : (({ ctx with attrs := orig } : Ctx).addRepeat v (xs.length + 1) x).allowPython = false := hc
          have h2 : (b2 (({ ctx with attrs := orig } : Ctx).addRepeat v (xs.length + 1) x)).2.allowPython = false :=
            (hp _).2.2.2.2.trans h1
          simp only [hb _ h1, repeatSem_gate v b1 b2 hb hp xs _ h2]

mutual
theorem denote_gate (py1 py2 : Str → Val) : ∀ (n : Node), GateEq (denote py1 n) (denote py2 n)
  | .data s => fun _ _ => by simp [denote]
  | .elem tag atts orig c sg ne kids => by
    intro ctx hc
    have hk := denoteList_gate py1 py2 kids
    have hb := bodySem_gate py1 py2 tag atts orig c sg ne _ _ hk
    have hp : Pres (bodySem py2 tag atts orig c sg ne (denoteList py2 kids)) :=
      bodySem_pres py2 tag atts orig c sg ne _ (fun x => denoteList_same py2 kids x)
    have hr := repeatPhase_gate py1 py2 orig c _ _ hb hp
    have e1 := definePhase_gate py1 py2 orig c ctx hc
    have a1 : (definePhase py2 orig c ctx).1.allowPython = false := by
      unfold definePhase; split
      · exact (runDefine_spec py2 orig _ ctx false).2.2.1.trans hc
      · exact hc
    have e2 := condPhase_gate py1 py2 orig c _ a1
    have a2 : (condPhase py2 orig c (definePhase py2 orig c ctx).1).2.allowPython = false := by
      unfold condPhase; split
      · exact a1
      · exact a1
    simp only [denote, e1, e2, hr _ a2]
theorem denoteList_gate (py1 py2 : Str → Val) : ∀ (ns : List Node), GateEq (denoteList py1 ns) (denoteList py2 ns)
  | [] => fun _ _ => by simp [denoteList]
  | n :: ns => by
    intro ctx hc
    have h1 := denote_gate py1 py2 n ctx hc
    have a1 : (denote py2 n ctx).2.allowPython = false := (denote_same py2 n ctx).2.2.2.2.trans hc
    simp only [denoteList, h1, denoteList_gate py1 py2 ns _ a1]
end



/-! ## data never becomes markup -/

/-- strings generated from the pieces `S` (the template's own strings) and HTML-escaped strings -/
inductive Gen (S : Str → Prop) : Str → Prop
  | nil : Gen S []
  | lit {s : Str} : S s → Gen S s
  | esc (q : Bool) (x : Str) : Gen S (htmlEscape q x)
  | app {a b : Str} : Gen S a → Gen S b → Gen S (a ++ b)

theorem Gen.mono {S T : Str → Prop} (h : ∀ s, S s → T s) {x : Str} (g : Gen S x) : Gen T x := by
  induction g with
  | nil => exact .nil
  | lit hs => exact .lit (h _ hs)
  | esc q x => exact .esc q x
  | app _ _ iha ihb => exact .app iha ihb

/-- fixed punctuation the serialiser writes -/
def punct : List Str := [[34], lit " />", [62]]

mutual
/-- the template's own strings: static text, `<tag`, `</tag>`, ` name="` for every attribute name
    the template mentions (literal or in `tal:attributes`) -/
def statics : Node → List Str
  | .data s => [s]
  | .elem tag atts _ c _ _ kids =>
    [[60] ++ tag, lit "</" ++ tag ++ [62]] ++ (atts.map fun kv => [32] ++ kv.1 ++ lit "=\"") ++
    ((c.attributes.getD []).map fun kv => [32] ++ kv.1 ++ lit "=\"") ++ staticsList kids
def staticsList : List Node → List Str
  | [] => []
  | n :: ns => statics n ++ staticsList ns
end

mutual
/-- no `structure` keyword anywhere -/
def noStructure : Node → Bool
  | .data _ => true
  | .elem _ _ _ c _ _ kids => (match c.content with | some (_, raw, _) => !raw | none => true) && noStructureList kids
def noStructureList : List Node → Bool
  | [] => true
  | n :: ns => noStructure n && noStructureList ns
end

theorem applyAttributes_keys (ev : Str → Val) (args cur : List (Str × Str)) :
    ∀ kv ∈ applyAttributes ev args cur, kv.1 ∈ args.map (·.1) ∨ kv.1 ∈ cur.map (·.1) := by
  intro kv h
  simp only [applyAttributes, List.mem_append, List.mem_filterMap, List.mem_map, List.mem_filter] at h
  rcases h with ⟨r, ⟨a, ha, rfl⟩, hr⟩ | ⟨h, _⟩
  · left
    obtain ⟨n, e⟩ := a
    simp only at hr
    split at hr
    · cases hr
    · cases hr; exact List.mem_map.mpr ⟨(n, e), ha, rfl⟩
  · right; exact List.mem_map.mpr ⟨kv, h, rfl⟩

theorem gen_tagAsText {S : Str → Prop} (tag : Str) (atts : List (Str × Str)) (sg : Bool)
    (hp : ∀ s ∈ punct, S s) (ht : S ([60] ++ tag)) (hk : ∀ kv ∈ atts, S ([32] ++ kv.1 ++ lit "=\"")) :
    Gen S (tagAsText tag atts sg) := by
  unfold tagAsText
  refine .app (.app (.lit ht) ?_) ?_
  · induction atts with
    | nil => exact .nil
    | cons kv rest ih =>
      simp only [List.map_cons, List.flatten_cons]
      refine .app ?_ (ih fun x hx => hk x (List.mem_cons_of_mem _ hx))
      exact .app (.app (.lit (hk kv List.mem_cons_self)) (.esc true kv.2)) (.lit (hp _ (by simp [punct])))
  · cases sg
    · exact .lit (hp _ (by simp [punct]))
    · exact .lit (hp _ (by simp [punct]))

theorem gen_repeatSem {S : Str → Prop} (v : Str) (body : Ctx → Str × Ctx) (hb : ∀ c, Gen S (body c).1) :
    ∀ (xs : List Val) (c : Ctx), Gen S (repeatSem v body xs c).1
  | [], _ => .nil
  | x :: xs, c => by simp only [repeatSem]; exact .app (hb _) (gen_repeatSem v body hb xs _)

theorem gen_repeatPhase {S : Str → Prop} (py : Str → Val) (orig : List (Str × Str)) (c : Cmds) (body : Ctx → Str × Ctx)
    (hb : ∀ x, Gen S (body x).1) (ctx : Ctx) : Gen S (repeatPhase py orig c body ctx).1 := by
  unfold repeatPhase
  cases hr : c.repeat_ with
  | none => exact hb ctx
  | some ve =>
    obtain ⟨v, e⟩ := ve
    dsimp only
    split
    · exact hb _
    · cases hs : seqItems (eval py { ctx with attrs := orig } e) with
      | none => exact .nil
      | some l =>
        cases l with
        | nil => exact .nil
        | cons x xs => exact .app (hb _) (gen_repeatSem v body hb xs _)

theorem gen_bodySem {S : Str → Prop} (py : Str → Val) (tag : Str) (atts orig : List (Str × Str)) (c : Cmds) (sg ne : Bool)
    (kids : Ctx → Str × Ctx) (hk : ∀ x, Gen S (kids x).1)
    (hns : (match c.content with | some (_, raw, _) => !raw | none => true) = true)
    (hp : ∀ s ∈ punct, S s) (ht : S ([60] ++ tag)) (hc : S (lit "</" ++ tag ++ [62]))
    (ha : ∀ kv ∈ atts, S ([32] ++ kv.1 ++ lit "=\""))
    (ha2 : ∀ kv ∈ c.attributes.getD [], S ([32] ++ kv.1 ++ lit "=\"")) (ctx : Ctx) :
    Gen S (bodySem py tag atts orig c sg ne kids ctx).1 := by
  simp only [bodySem]
  refine .app (.app (.app ?_ ?_) ?_) ?_
  · split
    · refine gen_tagAsText tag _ _ hp ht ?_
      intro kv hkv
      unfold attrPhase at hkv
      cases hat : c.attributes with
      | none => simp only [hat] at hkv; exact ha kv hkv
      | some args =>
        simp only [hat] at hkv
        rcases applyAttributes_keys _ args atts kv hkv with h | h
        · obtain ⟨x, hx, hx1⟩ := List.mem_map.mp h
          have := ha2 x (by simpa [hat] using hx)
          rw [hx1] at this; exact this
        · obtain ⟨x, hx, hx1⟩ := List.mem_map.mp h
          have := ha x hx
          rw [hx1] at this; exact this
    · exact .nil
  · split
    · exact .nil
    · exact hk _
  · -- substituted content: escaped because no structure
    unfold contentPhase
    cases hct : c.content with
    | none => exact .nil
    | some rse =>
      obtain ⟨r, raw, e⟩ := rse
      simp only [hct, Bool.not_eq_eq_eq_not, Bool.not_true] at hns
      subst hns
      dsimp only
      split
      · exact .nil
      · split
        · simp only [contentText, Bool.false_eq_true, ↓reduceIte]; exact .esc false _
        · exact .nil
  · split
    · exact .lit hc
    · exact .nil

mutual
theorem gen_denote {S : Str → Prop} (py : Str → Val) (hp : ∀ s ∈ punct, S s) :
    ∀ (n : Node) (ctx : Ctx), noStructure n = true → (∀ s ∈ statics n, S s) → Gen S (denote py n ctx).1
  | .data s, ctx, _, hs => by
    simp only [denote]; exact .lit (hs s (by simp [statics]))
  | .elem tag atts orig c sg ne kids, ctx, hn, hs => by
    simp only [noStructure, Bool.and_eq_true] at hn
    simp only [statics, List.mem_append, List.mem_cons, List.not_mem_nil, or_false, List.mem_map] at hs
    have hk : ∀ x, Gen S (denoteList py kids x).1 :=
      fun x => gen_denoteList py hp kids x hn.2 (fun s h => hs s (Or.inr h))
    have hb := gen_bodySem py tag atts orig c sg ne _ hk hn.1 hp (hs _ (Or.inl (Or.inl (Or.inl (Or.inl rfl)))))
      (hs _ (Or.inl (Or.inl (Or.inl (Or.inr rfl)))))
      (fun kv h => hs _ (Or.inl (Or.inl (Or.inr ⟨kv, h, rfl⟩))))
      (fun kv h => hs _ (Or.inl (Or.inr ⟨kv, h, rfl⟩)))
    simp only [denote]
    split
    · exact gen_repeatPhase py orig c _ hb _
    · exact .nil
theorem gen_denoteList {S : Str → Prop} (py : Str → Val) (hp : ∀ s ∈ punct, S s) :
    ∀ (ns : List Node) (ctx : Ctx), noStructureList ns = true → (∀ s ∈ staticsList ns, S s) → Gen S (denoteList py ns ctx).1
  | [], _, _, _ => by simp only [denoteList]; exact .nil
  | n :: ns, ctx, hn, hs => by
    simp only [noStructureList, Bool.and_eq_true] at hn
    simp only [staticsList, List.mem_append] at hs
    simp only [denoteList]
    exact .app (gen_denote py hp n ctx hn.1 (fun s h => hs s (Or.inl h)))
      (gen_denoteList py hp ns _ hn.2 (fun s h => hs s (Or.inr h)))
end

/-- what `Gen` buys: a character that occurs in no template piece and is removed by escaping
    cannot occur in the output -/
theorem gen_absent {S : Str → Prop} (d : Nat) (hd : d = 60 ∨ d = 62) (hS : ∀ s, S s → d ∉ s) {x : Str} (g : Gen S x) : d ∉ x := by
  induction g with
  | nil => simp
  | lit hs => exact hS _ hs
  | esc q x =>
    intro h
    have := htmlEscape_no_angle q x d h
    rcases hd with rfl | rfl
    · exact this.1 rfl
    · exact this.2 rfl
  | app _ _ iha ihb => simp only [List.mem_append, not_or]; exact ⟨iha, ihb⟩



/-! ## TAL-free templates -/

mutual
def plain : Node → Bool
  | .data _ => true
  | .elem _ _ _ c _ _ kids => decide (c = {}) && plainList kids
def plainList : List Node → Bool
  | [] => true
  | n :: ns => plain n && plainList ns
end

mutual
/-- the serialisation of a tree (what the template text is, in normal form) -/
def ser : Node → Str
  | .data s => s
  | .elem tag atts _ _ sg ne kids =>
    tagAsText tag atts sg ++ serList kids ++ (if !ne && !sg then lit "</" ++ tag ++ [62] else [])
def serList : List Node → Str
  | [] => []
  | n :: ns => ser n ++ serList ns
end

mutual
theorem denote_plain (py : Str → Val) : ∀ (n : Node) (ctx : Ctx), plain n = true → denote py n ctx = (ser n, ctx)
  | .data s, ctx, _ => by simp [denote, ser]
  | .elem tag atts orig c sg ne kids, ctx, h => by
    simp only [plain, Bool.and_eq_true, decide_eq_true_eq] at h
    obtain ⟨hc, hk⟩ := h
    subst hc
    have ih := denoteList_plain py kids ctx hk
    simp [denote, definePhase, condPhase, repeatPhase, bodySem, contentPhase, attrPhase, omitPhase, contentText, ih, ser]
theorem denoteList_plain (py : Str → Val) : ∀ (ns : List Node) (ctx : Ctx), plainList ns = true → denoteList py ns ctx = (serList ns, ctx)
  | [], ctx, _ => by simp [denoteList, serList]
  | n :: ns, ctx, h => by
    simp only [plainList, Bool.and_eq_true] at h
    simp [denoteList, serList, denote_plain py n ctx h.1, denoteList_plain py ns ctx h.2]
end

/-! ## globals change only through explicit global defines -/

mutual
def noGlobalDefine : Node → Bool
  | .data _ => true
  | .elem _ _ _ c _ _ kids => (c.define.getD []).all (·.isLocal) && noGlobalDefineList kids
def noGlobalDefineList : List Node → Bool
  | [] => true
  | n :: ns => noGlobalDefine n && noGlobalDefineList ns
end

def PresG (f : Ctx → Str × Ctx) : Prop := ∀ c, (f c).2.globals = c.globals

theorem runDefine_globals (py : Str → Val) (orig : List (Str × Str)) : ∀ (args : List DefineArg) (c : Ctx) (found : Bool),
    args.all (·.isLocal) = true → (runDefine py orig args c found).1.globals = c.globals
  | [], c, found, _ => by simp [runDefine]
  | a :: rest, c, found, h => by
    simp only [List.all_cons, Bool.and_eq_true] at h
    simp only [runDefine, h.1, ↓reduceIte]
    rw [runDefine_globals py orig rest _ true h.2]
    cases found <;> simp [Ctx.setLocal, Ctx.pushLocals]

theorem popLocals_globals (c : Ctx) : c.popLocals.globals = c.globals := by
  unfold Ctx.popLocals; split <;> rfl
theorem removeRepeat_globals (c : Ctx) : c.removeRepeat.globals = c.globals := by
  unfold Ctx.removeRepeat; split <;> rfl

theorem bodySem_globals (py : Str → Val) (tag : Str) (atts orig : List (Str × Str)) (c : Cmds) (sg ne : Bool)
    (kids : Ctx → Str × Ctx) (hk : PresG kids) : PresG (bodySem py tag atts orig c sg ne kids) := by
  intro ctx
  have h1 : (contentPhase py orig c ctx).1.globals = ctx.globals := by
    unfold contentPhase; split
    · rfl
    · dsimp only; split
      · rfl
      · split <;> rfl
  have h2 : ∀ x, (attrPhase py orig c atts x).1.globals = x.globals := by
    intro x; unfold attrPhase; split <;> rfl
  have h3 : ∀ b x, (omitPhase py orig c b x).1.globals = x.globals := by
    intro b x; unfold omitPhase; split <;> rfl
  simp only [bodySem]
  split
  · exact (h3 _ _).trans ((h2 _).trans h1)
  · exact (hk _).trans ((h3 _ _).trans ((h2 _).trans h1))

theorem repeatSem_globals (v : Str) (body : Ctx → Str × Ctx) (hb : PresG body) :
    ∀ (xs : List Val) (c : Ctx), (repeatSem v body xs c).2.globals = c.globals
  | [], _ => rfl
  | x :: xs, c => by
    simp only [repeatSem]
    exact (repeatSem_globals v body hb xs _).trans (hb _)

theorem repeatPhase_globals (py : Str → Val) (orig : List (Str × Str)) (c : Cmds) (body : Ctx → Str × Ctx) (hb : PresG body) :
    PresG (repeatPhase py orig c body) := by
  intro ctx
  unfold repeatPhase
  cases hr : c.repeat_ with
  | none => exact hb ctx
  | some ve =>
    obtain ⟨v, e⟩ := ve
    dsimp only
    split
    · exact hb _
    · cases hs : seqItems (eval py { ctx with attrs := orig } e) with
      | none => rfl
      | some l =>
        cases l with
        | nil => rfl
        | cons x xs =>
          dsimp only
          rw [popLocals_globals, removeRepeat_globals, repeatSem_globals v body hb xs _, hb _]
          rfl

mutual
theorem denote_globals (py : Str → Val) : ∀ (n : Node) (ctx : Ctx), noGlobalDefine n = true → (denote py n ctx).2.globals = ctx.globals
  | .data s, ctx, _ => by simp [denote]
  | .elem tag atts orig c sg ne kids, ctx, h => by
    simp only [noGlobalDefine, Bool.and_eq_true] at h
    have hk : PresG (denoteList py kids) := fun x => denoteList_globals py kids x h.2
    have hb := bodySem_globals py tag atts orig c sg ne _ hk
    have hr := repeatPhase_globals py orig c _ hb
    have hd : (definePhase py orig c ctx).1.globals = ctx.globals := by
      unfold definePhase
      cases hdf : c.define with
      | none => rfl
      | some args => exact runDefine_globals py orig args ctx false (by simpa [hdf] using h.1)
    have hc : ∀ x, (condPhase py orig c x).2.globals = x.globals := by
      intro x; unfold condPhase; split <;> rfl
    simp only [denote]
    split <;> split <;> simp only [popLocals_globals, hr _, hc, hd]
theorem denoteList_globals (py : Str → Val) : ∀ (ns : List Node) (ctx : Ctx), noGlobalDefineList ns = true →
    (denoteList py ns ctx).2.globals = ctx.globals
  | [], ctx, _ => by simp [denoteList]
  | n :: ns, ctx, h => by
    simp only [noGlobalDefineList, Bool.and_eq_true] at h
    simp only [denoteList]
    exact (denoteList_globals py ns _ h.2).trans (denote_globals py n ctx h.1)
end

end Pyg.Tal
