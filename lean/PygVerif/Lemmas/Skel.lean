import PygVerif.Model.Skel
import PygVerif.Lemmas.Doc
/-!
# Lemmas/Skel — the skeleton of a page whose slots are all safe depends only on its shape
-/
namespace Pyg

theorem run_append (st : TState) (a b : Str) :
    run st (a ++ b) = ((run (run st a).1 b).1, (run st a).2 ++ (run (run st a).1 b).2) := by
  induction a generalizing st with
  | nil => simp [run]
  | cons c cs ih =>
    simp only [List.cons_append, run]
    rw [ih]
    simp [List.append_assoc]

def inert (d : Str) : Prop := ∀ c ∈ d, htmlMeta c = false

theorem run_inert (st : TState) (hst : st ≠ .tag) (d : Str) (hd : inert d) : run st d = (st, []) := by
  induction d with
  | nil => simp [run]
  | cons c cs ih =>
    have hc := hd c (by simp)
    have ih := ih (fun x hx => hd x (by simp [hx]))
    simp only [htmlMeta, Bool.or_eq_false_iff, beq_eq_false_iff_ne, ne_eq] at hc
    cases st <;> simp_all [run, tstep]

theorem escape_inert (d : Str) : inert (htmlEscape true d) := htmlEscape_no_meta d

theorem toDec_digits (n : Nat) : ∀ c ∈ toDec n, 48 ≤ c ∧ c ≤ 57 := by
  unfold toDec
  simp only [List.mem_reverse]
  suffices h : ∀ fuel m, ∀ c ∈ digitsRev fuel m, 48 ≤ c ∧ c ≤ 57 from h _ _
  intro fuel
  induction fuel with
  | zero => intro m c hc; simp [digitsRev] at hc
  | succ f ih =>
    intro m c hc
    simp only [digitsRev, List.mem_cons] at hc
    rcases hc with rfl | hc
    · omega
    · split at hc
      · simp at hc
      · exact ih _ c hc

theorem toDec_inert (n : Nat) : inert (toDec n) := by
  intro c hc
  have := toDec_digits n c hc
  simp [htmlMeta]; omega

theorem emit_append (a b : List Seg) : emit (a ++ b) = emit a ++ emit b := by
  induction a with
  | nil => simp [emit]
  | cons s r ih => cases s <;> simp [emit, ih, List.append_assoc]

/-- **Skeleton invariance.** Two pages of the same shape (same literals, data slots in the same
    places) whose slots are all outside tag position have the same skeleton and end in the
    same tokenizer state — whatever the data. -/
theorem skeleton_of_shape (a : List Seg) : ∀ (b : List Seg) (st : TState),
    a.map Seg.shape = b.map Seg.shape → slotsOk st (a.map Seg.shape) = true →
    run st (emit a) = run st (emit b) := by
  induction a with
  | nil =>
    intro b st hs _
    cases b with
    | nil => rfl
    | cons x xs => simp at hs
  | cons sa ra ih =>
    intro b st hs hok
    cases b with
    | nil => simp at hs
    | cons sb rb =>
      simp only [List.map_cons, List.cons.injEq] at hs
      obtain ⟨h1, h2⟩ := hs
      have data_case : ∀ (da db : Str), inert da → inert db → sa.shape = .data →
          emit (sa :: ra) = da ++ emit ra → emit (sb :: rb) = db ++ emit rb →
          run st (emit (sa :: ra)) = run st (emit (sb :: rb)) := by
        intro da db ia ib hsh ea eb
        simp only [List.map_cons, hsh, slotsOk, Bool.and_eq_true, bne_iff_ne, ne_eq] at hok
        rw [ea, eb, run_append, run_append, run_inert st hok.1 _ ia, run_inert st hok.1 _ ib]
        simp only []
        rw [ih rb st h2 hok.2]
      cases sa with
      | lit s =>
        cases sb with
        | lit s' =>
          simp only [Seg.shape, SegShape.lit.injEq] at h1
          subst h1
          simp only [List.map_cons, Seg.shape, slotsOk] at hok
          simp only [emit, run_append]
          rw [ih rb _ h2 hok]
        | esc d => simp [Seg.shape] at h1
        | num n => simp [Seg.shape] at h1
      | esc d =>
        cases sb with
        | lit s' => simp [Seg.shape] at h1
        | esc d' => exact data_case _ _ (escape_inert d) (escape_inert d') rfl rfl rfl
        | num n => exact data_case _ _ (escape_inert d) (toDec_inert n) rfl rfl rfl
      | num n =>
        cases sb with
        | lit s' => simp [Seg.shape] at h1
        | esc d' => exact data_case _ _ (toDec_inert n) (escape_inert d') rfl rfl rfl
        | num n' => exact data_case _ _ (toDec_inert n) (toDec_inert n') rfl rfl rfl

/-- end state of a safe page is computed by `endState` on the shape alone -/
theorem run_endState (a : List Seg) : ∀ (st : TState), slotsOk st (a.map Seg.shape) = true →
    (run st (emit a)).1 = endState st (a.map Seg.shape) := by
  induction a with
  | nil => intro st _; rfl
  | cons s r ih =>
    intro st hok
    cases s with
    | lit x =>
      simp only [List.map_cons, Seg.shape, slotsOk] at hok
      simp only [emit, run_append, List.map_cons, Seg.shape, endState]
      exact ih _ hok
    | esc d =>
      simp only [List.map_cons, Seg.shape, slotsOk, Bool.and_eq_true, bne_iff_ne, ne_eq] at hok
      simp only [emit, run_append, List.map_cons, Seg.shape, endState,
        run_inert st hok.1 _ (escape_inert d)]
      exact ih _ hok.2
    | num n =>
      simp only [List.map_cons, Seg.shape, slotsOk, Bool.and_eq_true, bne_iff_ne, ne_eq] at hok
      simp only [emit, run_append, List.map_cons, Seg.shape, endState,
        run_inert st hok.1 _ (toDec_inert n)]
      exact ih _ hok.2

theorem slotsOk_append (a b : List SegShape) (st : TState) :
    slotsOk st (a ++ b) = (slotsOk st a && slotsOk (endState st a) b) := by
  induction a generalizing st with
  | nil => simp [slotsOk, endState]
  | cons s r ih =>
    cases s with
    | lit x => simp [slotsOk, endState, ih]
    | data => simp [slotsOk, endState, ih, Bool.and_assoc]

theorem endState_append (a b : List SegShape) (st : TState) :
    endState st (a ++ b) = endState (endState st a) b := by
  induction a generalizing st with
  | nil => simp [endState]
  | cons s r ih => cases s <;> simp [endState, ih]

end Pyg
