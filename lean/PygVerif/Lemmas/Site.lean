import PygVerif.Model.Site
import PygVerif.Lemmas.Selector
/-!
# Lemmas/Site — path resolution: splitting at a separator, the kernel walk over a
concatenation, and the kernel walk without `..` components
-/
namespace Pyg

theorem splitOn_append_sep (sep : Nat) (a b : Str) :
    splitOn sep (a ++ sep :: b) = splitOn sep a ++ splitOn sep b := by
  induction a with
  | nil => simp [splitOn]
  | cons x xs ih =>
    by_cases hx : x = sep
    · subst hx
      simp [splitOn, ih]
    · simp only [List.cons_append, splitOn, hx, if_false, ih]
      cases hs : splitOn sep xs with
      | nil => exact absurd hs (splitOn_ne_nil sep xs)
      | cons f fs => simp

theorem splitOn_cons_sep (sep : Nat) (b : Str) : splitOn sep (sep :: b) = [] :: splitOn sep b := by
  simp [splitOn]

/-- the kernel walk over a concatenated component list is the walk over the first part
    continued over the second -/
theorem kwalk_append (xs ys : List Str) : ∀ (anc : List Node) (n : Node),
    kwalk anc n (xs ++ ys) = (kwalk anc n xs).bind fun s => kwalk s.1 s.2 ys := by
  induction xs with
  | nil => intro anc n; cases n <;> simp [kwalk]
  | cons c cs ih =>
    intro anc n
    cases n with
    | file d => simp [kwalk]
    | other => simp [kwalk]
    | dir kids =>
      simp only [List.cons_append, kwalk]
      split
      · exact ih _ _
      · split
        · cases anc with
          | nil => exact ih _ _
          | cons p ps => exact ih _ _
        · cases kidLookup kids c with
          | none => simp
          | some k => exact ih _ _

/-- without a `..` component the kernel never looks at the ancestors: the object it reaches
    is the one reached by descending from the current node -/
theorem kwalk_no_dotdot (ys : List Str) (h : ∀ c ∈ ys, c ≠ [46, 46]) : ∀ (anc : List Node) (n : Node),
    (kwalk anc n ys).map (·.2) = lwalk n ys := by
  induction ys with
  | nil => intro anc n; cases n <;> simp [kwalk, lwalk]
  | cons c cs ih =>
    intro anc n
    have hc : c ≠ [46, 46] := h c (by simp)
    have hcs : ∀ c ∈ cs, c ≠ [46, 46] := fun x hx => h x (by simp [hx])
    cases n with
    | file d => simp [kwalk, lwalk]
    | other => simp [kwalk, lwalk]
    | dir kids =>
      simp only [kwalk, lwalk, hc, if_false]
      split
      · exact ih hcs _ _
      · cases kidLookup kids c with
        | none => simp
        | some k => exact ih hcs _ _

theorem stripSlash_append (a b : Str) (hb : b ≠ []) : stripSlash (a ++ b) = a ++ stripSlash b := by
  unfold stripSlash
  have hl : (a ++ b).getLast? = b.getLast? := by
    rw [List.getLast?_append]
    cases hbl : b.getLast? with
    | none => exact absurd (List.getLast?_eq_none_iff.mp hbl) hb
    | some x => rfl
  rw [hl]
  split
  · rw [List.dropLast_append_of_ne_nil hb]
  · rfl

theorem stripSlash_prefix (s : Str) : stripSlash s <+: s := by
  unfold stripSlash
  split
  · exact List.dropLast_prefix s
  · exact List.prefix_refl s

/-- a selector that starts with `/`, after `getfspath`'s trailing-slash strip: empty (the
    selector was `/`) or still starting with `/` -/
theorem stripSlash_of_head_slash (s : Str) (h : s.head? = some 47) :
    stripSlash s = [] ∨ ∃ t, stripSlash s = 47 :: t := by
  cases s with
  | nil => simp at h
  | cons c t =>
    simp at h; subst h
    unfold stripSlash
    split
    · cases t with
      | nil => left; rfl
      | cons x xs => right; exact ⟨(x :: xs).dropLast, by simp [List.dropLast]⟩
    · right; exact ⟨t, rfl⟩

theorem lwalk_dir_nil_comp (kids : List (Str × Node)) (cs : List Str) :
    lwalk (.dir kids) ([] :: cs) = lwalk (.dir kids) cs := by
  simp [lwalk]

end Pyg
