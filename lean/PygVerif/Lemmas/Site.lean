import PygVerif.Model.Site
import PygVerif.Lemmas.Selector
/-!
# Lemmas/Site — path resolution: splitting at a separator, the kernel walk over a
concatenation, and the kernel walk without `..` components
-/
namespace Pyg

theorem splitOn_append_sep (sep : Nat) (a b : Str) :
    splitOn sep (a ++ sep :: b) = splitOn sep a ++ splitOn sep b := by
  induction a with
  | nil => simp [splitOn]
  | cons x xs ih =>
    by_cases hx : x = sep
    · subst hx
      simp [splitOn, ih]
    · simp only [List.cons_append, splitOn, hx, if_false, ih]
      cases hs : splitOn sep xs with
      | nil => exact absurd hs (splitOn_ne_nil sep xs)
      | cons f fs => simp

theorem splitOn_cons_sep (sep : Nat) (b : Str) : splitOn sep (sep :: b) = [] :: splitOn sep b := by
  simp [splitOn]

/-- the kernel walk over a concatenated component list is the walk over the first part
    continued over the second -/
theorem kwalk_append (xs ys : List Str) : ∀ (anc : List Node) (n : Node),
    kwalk anc n (xs ++ ys) = (kwalk anc n xs).bind fun s => kwalk s.1 s.2 ys := by
  induction xs with
  | nil => intro anc n; cases n <;> simp [kwalk]
  | cons c cs ih =>
    intro anc n
    cases n with
    | file d => simp [kwalk]
    | other => simp [kwalk]
    | dir kids =>
      simp only [List.cons_append, kwalk]
      split
      · exact ih _ _
      · split
        · cases anc with
          | nil => exact ih _ _
          | cons p ps => exact ih _ _
        · cases kidLookup kids c with
          | none => simp
          | some k => exact ih _ _

/-- without a `..` component the kernel never looks at the ancestors: the object it reaches
    is the one reached by descending from the current node -/
theorem kwalk_no_dotdot (ys : List Str) (h : ∀ c ∈ ys, c ≠ [46, 46]) : ∀ (anc : List Node) (n : Node),
    (kwalk anc n ys).map (·.2) = lwalk n ys := by
  induction ys with
  | nil => intro anc n; cases n <;> simp [kwalk, lwalk]
  | cons c cs ih =>
    intro anc n
    have hc : c ≠ [46, 46] := h c (by simp)
    have hcs : ∀ c ∈ cs, c ≠ [46, 46] := fun x hx => h x (by simp [hx])
    cases n with
    | file d => simp [kwalk, lwalk]
    | other => simp [kwalk, lwalk]
    | dir kids =>
      simp only [kwalk, lwalk, hc, if_false]
      split
      · exact ih hcs _ _
      · cases kidLookup kids c with
        | none => simp
        | some k => exact ih hcs _ _

theorem stripSlash_append (a b : Str) (hb : b ≠ []) : stripSlash (a ++ b) = a ++ stripSlash b := by
  unfold stripSlash
  have hl : (a ++ b).getLast? = b.getLast? := by
    rw [List.getLast?_append]
    cases hbl : b.getLast? with
    | none => exact absurd (List.getLast?_eq_none_iff.mp hbl) hb
    | some x => rfl
  rw [hl]
  split
  · rw [List.dropLast_append_of_ne_nil hb]
  · rfl

theorem stripSlash_prefix (s : Str) : stripSlash s <+: s := by
  unfold stripSlash
  split
  · exact List.dropLast_prefix s
  · exact List.prefix_refl s

/-- a selector that starts with `/`, after `getfspath`'s trailing-slash strip: empty (the
    selector was `/`) or still starting with `/` -/
theorem stripSlash_of_head_slash (s : Str) (h : s.head? = some 47) :
    stripSlash s = [] ∨ ∃ t, stripSlash s = 47 :: t := by
  cases s with
  | nil => simp at h
  | cons c t =>
    simp at h; subst h
    unfold stripSlash
    split
    · cases t with
      | nil => left; rfl
      | cons x xs => right; exact ⟨(x :: xs).dropLast, by simp [List.dropLast]⟩
    · right; exact ⟨t, rfl⟩

theorem lwalk_dir_nil_comp (kids : List (Str × Node)) (cs : List Str) :
    lwalk (.dir kids) ([] :: cs) = lwalk (.dir kids) cs := by
  simp [lwalk]

/-! ## paths without a climbing component -/

/-- no `..` component after `getfspath`'s trailing-slash strip -/
def NoClimb (p : Str) : Prop := ∀ c ∈ splitOn 47 (stripSlash p), c ≠ [46, 46]

theorem noClimb_of_secure {fb : List Str} {s : Str} (hs : secureB fb s = true)
    (hdd : [46,46] ∈ fb) (hnul : [0] ∈ fb) : NoClimb s := by
  intro c hc
  have hsec := infixSafe_infix_closed (secure_infixSafe hs) (stripSlash_prefix s).isInfix
  exact (infixSafe_components hsec hdd hnul c hc).1

/-- **The kernel's `stat` below the root.**  If the configured root path resolves to the
    directory `R = .dir kids`, then for every absolute selector without a `..` component the
    object the kernel reaches from `/` through `root + selector` is the object reached by
    descending from `R` — whatever the rest of the file system `W` contains. -/
theorem kstat_eq_statAt (W : Node) (rootStr : Str) (anc : List Node) (kids : List (Str × Node))
    (hroot : kwalk [] W (splitOn 47 rootStr) = some (anc, .dir kids))
    (p : Str) (hh : p.head? = some 47) (hn : NoClimb p) :
    kstat W rootStr p = statAt (.dir kids) p := by
  unfold kstat statAt
  split
  · rfl
  · have hne : p ≠ [] := by intro h; simp [h] at hh
    rw [stripSlash_append rootStr p hne]
    unfold selComps
    rcases stripSlash_of_head_slash p hh with h0 | ⟨t, ht⟩
    · rw [h0, List.append_nil, hroot]
      simp [splitOn, lwalk]
    · have hn' : ∀ c ∈ splitOn 47 t, c ≠ [46, 46] := by
        intro c hc
        apply hn c
        rw [ht, splitOn_cons_sep]
        exact List.mem_cons_of_mem _ hc
      rw [ht, splitOn_append_sep, kwalk_append, hroot, splitOn_cons_sep, lwalk_dir_nil_comp]
      simp only [Option.bind_some]
      exact kwalk_no_dotdot _ hn' _ _

theorem noClimb_append_gophermap (s : Str) (h : ∀ c ∈ splitOn 47 s, c ≠ [46, 46]) :
    NoClimb (s ++ lit "/gophermap") := by
  have e1 : lit "/gophermap" = 47 :: lit "gophermap" := by decide
  have e2 : stripSlash (lit "/gophermap") = lit "/gophermap" := by decide
  have e3 : splitOn 47 (lit "gophermap") = [lit "gophermap"] := by decide
  intro c hc
  rw [stripSlash_append s _ (by decide), e2, e1, splitOn_append_sep, e3] at hc
  rcases List.mem_append.mp hc with hc | hc
  · exact h c hc
  · simp at hc; subst hc; decide

/-! ## population keeps the selector -/

theorem handleEaExt_selector (ea : List (Str × Str)) (read : Str → Option (List Str)) : ∀ (x : Entry),
    (handleEaExt ea read x).selector = x.selector := by
  unfold handleEaExt
  induction ea with
  | nil => intro x; rfl
  | cons kv r ih =>
    intro x
    simp only [List.foldl_cons]
    rw [ih]
    obtain ⟨ext, blk⟩ := kv
    simp only
    split
    · rfl
    · split <;> rfl

theorem populateWith_selector (ea : List (Str × Str)) (dm : Str) (pi : PopInfo) (e : Entry) :
    (populateWith ea dm pi e).selector = e.selector := by
  unfold populateWith populate
  split
  · rfl
  · split
    · rfl
    · simp only
      split
      · rw [handleEaExt_selector]
      · simp only []
        split <;> (try split) <;> simp [handleEaExt_selector]

theorem handleEaExt_size (ea : List (Str × Str)) (read : Str → Option (List Str)) : ∀ (x : Entry),
    (handleEaExt ea read x).size = x.size := by
  unfold handleEaExt
  induction ea with
  | nil => intro x; rfl
  | cons kv r ih =>
    intro x
    simp only [List.foldl_cons]
    rw [ih]
    obtain ⟨ext, blk⟩ := kv
    simp only
    split
    · rfl
    · split <;> rfl

/-- a fresh entry populated from a regular file carries the file's size -/
theorem populateWith_file_size (ea : List (Str × Str)) (dm : Str) (pi : PopInfo) (e : Entry)
    (hp : e.populated = false) (hh : e.host = none) (hpo : e.port = none) (hs : e.size = none)
    (hk : pi.stat.kind ≠ .dir) : (populateWith ea dm pi e).size = some pi.stat.size := by
  unfold populateWith populate
  simp only [hp, Bool.false_eq_true, if_false, hh, hpo, Option.isNone_none, Bool.and_self, Bool.not_true]
  have hk' : (pi.stat.kind == Kind.dir) = false := by
    cases h : pi.stat.kind <;> simp_all
  simp only [hk', Bool.false_eq_true, if_false]
  split <;> (try split) <;> simp [handleEaExt_size, hs, orNat]

end Pyg
