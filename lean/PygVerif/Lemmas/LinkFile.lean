import PygVerif.Model.Umn

/-!
# The UMN link-file reader refines a reading of the file as blocks of fields

`getLinkItem` / `processLinkFile` (Model/Umn, mirroring `handlers/UMN.py`) are a line-by-line
state machine with fuel.  Here the file format is given as *data*: a file is a list of blocks, a
block a list of `Field`s, a field one `Key=value` line.  The lemmas show that on the rendering of
such a file the state machine does what the documentation says: every line applies its own field
to the entry being built (`Field.apply`), a blank line closes the block, a block starts from a
fresh entry, and the result is one entry per block that has a `Path=`.
-/

namespace Pyg.Umn
open Pyg

/-! ## decimal round trip (`int(str(n)) == n`) -/

theorem digitsRev_ne_nil (fuel n : Nat) : digitsRev (fuel + 1) n ≠ [] := by
  simp [digitsRev]

theorem digitsRev_digits (fuel n : Nat) : ∀ c ∈ digitsRev fuel n, isAsciiDigit c = true := by
  induction fuel generalizing n with
  | zero => simp [digitsRev]
  | succ k ih =>
    intro c hc
    simp only [digitsRev, List.mem_cons] at hc
    rcases hc with rfl | hc
    · simp only [isAsciiDigit, Bool.and_eq_true, decide_eq_true_eq]; omega
    · split at hc
      · simp at hc
      · exact ih _ c hc

theorem digitsRev_value (fuel n : Nat) (h : n < fuel) :
    (digitsRev fuel n).foldr (fun c a => a * 10 + (c - 48)) 0 = n := by
  induction fuel generalizing n with
  | zero => omega
  | succ k ih =>
    simp only [digitsRev, List.foldr_cons]
    by_cases h0 : n / 10 = 0
    · simp only [h0, if_true, List.foldr_nil]; omega
    · simp only [h0, if_false]
      rw [ih (n / 10) (by omega)]; omega

theorem parseNat_toDec (n : Nat) : parseNat? (toDec n) = some n := by
  unfold parseNat? toDec
  have hne : (digitsRev (n + 1) n).reverse ≠ [] := by
    simpa using digitsRev_ne_nil n n
  have hall : (digitsRev (n + 1) n).reverse.all isAsciiDigit = true := by
    simp only [List.all_eq_true, List.mem_reverse]; exact digitsRev_digits _ _
  have he : (digitsRev (n + 1) n).reverse.isEmpty = false := by
    cases h : (digitsRev (n + 1) n).reverse with
    | nil => exact absurd h hne
    | cons _ _ => rfl
  simp only [he, hall, Bool.not_true, Bool.or_self, Bool.false_eq_true, if_false, List.foldl_reverse]
  exact congrArg some (digitsRev_value (n + 1) n (by omega))

theorem toDec_head_digit (n : Nat) : ∃ c t, toDec n = c :: t ∧ isAsciiDigit c = true := by
  cases h : toDec n with
  | nil =>
    have := parseNat_toDec n
    rw [h] at this; simp [parseNat?] at this
  | cons c t =>
    refine ⟨c, t, rfl, ?_⟩
    have : c ∈ toDec n := by rw [h]; simp
    unfold toDec at this
    exact digitsRev_digits _ _ c (by simpa using this)

theorem toDec_last_digit (n : Nat) : ∃ c, (toDec n).getLast? = some c ∧ isAsciiDigit c = true := by
  obtain ⟨c0, t, h, _⟩ := toDec_head_digit n
  have hne : toDec n ≠ [] := by rw [h]; simp
  refine ⟨(toDec n).getLast hne, List.getLast?_eq_some_getLast hne, ?_⟩
  have hm : (toDec n).getLast hne ∈ toDec n := List.getLast_mem hne
  have hm' : (toDec n).getLast hne ∈ (digitsRev (n + 1) n).reverse := hm
  exact digitsRev_digits _ _ _ (List.mem_reverse.mp hm')

theorem parseInt_toDecInt (i : Int) : parseInt? (toDecInt i) = some i := by
  cases i with
  | ofNat n =>
    obtain ⟨c, t, h, hd⟩ := toDec_head_digit n
    have hp := parseNat_toDec n
    simp only [toDecInt]
    rw [h] at hp ⊢
    have h45 : c ≠ 45 := by
      intro e; subst e; simp [isAsciiDigit] at hd
    have h43 : c ≠ 43 := by
      intro e; subst e; simp [isAsciiDigit] at hd
    unfold parseInt?
    split
    · rename_i r heq; exact absurd (List.cons.inj heq).1 h45
    · rename_i r heq; exact absurd (List.cons.inj heq).1 h43
    · simp [hp]
  | negSucc n =>
    simp only [toDecInt, parseInt?, parseNat_toDec]
    congr 1

/-! ## `strip` on a line that carries no blanks at its ends -/

theorem lstrip_of_head {c : Nat} {t : Str} (h : isSpace c = false) : lstrip (c :: t) = c :: t := by
  simp [lstrip, h]

theorem rstrip_nl (s : Str) (c : Nat) (hl : s.getLast? = some c) (hc : isSpace c = false) :
    rstrip (s ++ [10]) = s := by
  obtain ⟨pre, rfl⟩ : ∃ pre, s = pre ++ [c] := by
    rcases List.eq_nil_or_concat s with rfl | ⟨pre, x, rfl⟩
    · simp at hl
    · simp only [List.concat_eq_append, List.getLast?_append, List.getLast?_singleton, Option.some_or] at hl
      exact ⟨pre, by simp [Option.some.inj hl]⟩
  unfold rstrip
  have : (pre ++ [c] ++ [10]).reverse = 10 :: c :: pre.reverse := by simp
  rw [this]
  have h10 : isSpace 10 = true := by decide
  simp [lstrip, h10, hc]

/-- a line whose first and last characters are not blanks is what `readline().strip()` gives back -/
theorem strip_line (c : Nat) (t : Str) (l : Nat) (hc : isSpace c = false)
    (hl : (c :: t).getLast? = some l) (hs : isSpace l = false) :
    strip ((c :: t) ++ [10]) = c :: t := by
  unfold strip
  have : lstrip ((c :: t) ++ [10]) = (c :: t) ++ [10] := by
    simpa using lstrip_of_head (t := t ++ [10]) hc
  rw [this]
  exact rstrip_nl _ l hl hs

/-! ## fields -/

/-- a value no `strip()` shortens at its end -/
def NoTrail (v : Str) : Prop := ∀ c, v.getLast? = some c → isSpace c = false

/-- one `Key=value` line of a link file -/
inductive Field
  | type (t : Nat)
  | name (v : Str)
  | path (v : Str)
  | host (v : Str)
  | hostPlus
  | port (n : Int)
  | portPlus
  | numb (n : Int)
  | admin (v : Str)
  | url (v : Str)
  | ttl (v : Str)
  /-- `Abstract=` on one line (no continuation lines) -/
  | abstract (v : Str)
  /-- a `#` line: skipped as long as the block has no `Path=` yet (after one, it closes the block) -/
  | comment (v : Str)

/-- the line as it stands in the file, without its line end -/
def Field.text : Field → Str
  | .type t => [84, 121, 112, 101, 61, t]
  | .name v => 78 :: 97 :: 109 :: 101 :: 61 :: v
  | .path v => 80 :: 97 :: 116 :: 104 :: 61 :: v
  | .host v => 72 :: 111 :: 115 :: 116 :: 61 :: v
  | .hostPlus => [72, 111, 115, 116, 61, 43]
  | .port n => 80 :: 111 :: 114 :: 116 :: 61 :: toDecInt n
  | .portPlus => [80, 111, 114, 116, 61, 43]
  | .numb n => 78 :: 117 :: 109 :: 98 :: 61 :: toDecInt n
  | .admin v => 65 :: 100 :: 109 :: 105 :: 110 :: 61 :: v
  | .url v => 85 :: 82 :: 76 :: 61 :: v
  | .ttl v => 84 :: 84 :: 76 :: 61 :: v
  | .abstract v => 65 :: 98 :: 115 :: 116 :: 114 :: 97 :: 99 :: 116 :: 61 :: v
  | .comment v => 35 :: v

/-- what the documentation asks of a value: no blanks at its end; `+` is not a host name -/
def Field.Ok : Field → Prop
  | .type t => isSpace t = false
  | .name v => NoTrail v
  | .path v => NoTrail v
  | .host v => NoTrail v ∧ v ≠ [43]
  | .admin v => NoTrail v
  | .url v => NoTrail v
  | .ttl v => NoTrail v
  | .abstract v => NoTrail v ∧ v.getLast? ≠ some 92
  | .comment v => NoTrail v
  | _ => True

/-- the path as written, without a final slash -/
def pathName (p0 : Str) : Str := if p0.getLast? = some 47 then p0.dropLast else p0

/-- `./x` and `~/x`: a file of this directory, to be merged with its listing entry -/
def isDotPath (p0 : Str) : Bool := p0.length ≥ 2 && (p0.take 2 == lit "./" || p0.take 2 == lit "~/")

/-- any other relative path: made absolute when the block is closed (if it names no other server) -/
def isRelPath (p0 : Str) : Bool :=
  !(pathName p0).isEmpty && (pathName p0).head? != some 47 && !isPrefixB (lit "URL:") (pathName p0)

/-- `Path=` as the reader does it -/
def pathLe (base : Str) (le : LinkEntry) (p0 : Str) : LinkEntry :=
  if isDotPath p0 then
    { le with e := { le.e with selector := base ++ [47] ++ (pathName p0).drop 2 }, needsmerge := true }
  else if isRelPath p0 then
    { le with e := { le.e with selector := pathName p0 }, needsabspath := true }
  else { le with e := { le.e with selector := pathName p0 } }

/-- `Path=` said flatly: the selector is set, the two flags are only ever raised -/
theorem pathLe_eq (base : Str) (le : LinkEntry) (p0 : Str) :
    pathLe base le p0 =
      { le with
        e := { le.e with selector := if isDotPath p0 then base ++ [47] ++ (pathName p0).drop 2 else pathName p0 },
        needsmerge := isDotPath p0 || le.needsmerge,
        needsabspath := (!isDotPath p0 && isRelPath p0) || le.needsabspath } := by
  unfold pathLe
  cases isDotPath p0 <;> cases isRelPath p0 <;> simp

/-- `Abstract=`: an empty value sets nothing -/
def setAbstract (le : LinkEntry) (v : Str) : LinkEntry :=
  if v.isEmpty then le else { le with e := { le.e with ea := eaSet le.e.ea (lit "ABSTRACT") v } }

theorem setAbstract_eq (le : LinkEntry) (v : Str) :
    setAbstract le v =
      { le with e := { le.e with ea := if v.isEmpty then le.e.ea else eaSet le.e.ea (lit "ABSTRACT") v } } := by
  unfold setAbstract; split <;> rfl

/-- the effect of a field on the entry being built -/
def Field.apply (base : Str) (st : LinkState) : Field → LinkState
  | .type t => { st with le := { st.le with e := { st.le.e with type := some [t] } } }
  | .name v => { st with le := { st.le with e := { st.le.e with name := some v } } }
  | .path p0 => { le := pathLe base st.le p0, donePath := true }
  | .host v => { st with le := { st.le with e := { st.le.e with host := some v } } }
  | .port n => { st with le := { st.le with e := { st.le.e with port := some n } } }
  | .numb n => { st with le := { st.le with e := { st.le.e with num := some n } } }
  | .abstract v => { st with le := setAbstract st.le v }
  | _ => st

theorem toDecInt_last (n : Int) : ∃ c, (toDecInt n).getLast? = some c ∧ isAsciiDigit c = true := by
  cases n with
  | ofNat k => exact toDec_last_digit k
  | negSucc k =>
    obtain ⟨c, h, hd⟩ := toDec_last_digit (k + 1)
    obtain ⟨c0, t, h0, _⟩ := toDec_head_digit (k + 1)
    refine ⟨c, ?_, hd⟩
    simp only [toDecInt]
    rw [h0] at h ⊢
    simpa [List.getLast?_cons_cons] using h

theorem digit_not_space {c : Nat} (h : isAsciiDigit c = true) : isSpace c = false := by
  simp only [isAsciiDigit, Bool.and_eq_true, decide_eq_true_eq] at h
  simp only [isSpace, Bool.or_eq_false_iff, Bool.and_eq_false_iff, decide_eq_false_iff_not, beq_eq_false_iff_ne]
  omega

/-- last character of `key ++ v`: of `v` if there is one, else of the key -/
theorem getLast_key (k : Nat) (v : Str) (c : Nat) (h : (k :: v).getLast? = some c) :
    (v = [] ∧ c = k) ∨ v.getLast? = some c := by
  cases v with
  | nil => left; simpa using h.symm
  | cons a t => right; simpa [List.getLast?_cons_cons] using h

theorem Field.strip_text (f : Field) (hf : f.Ok) : strip (f.text ++ [10]) = f.text := by
  have key : ∀ (c : Nat) (t : Str) (v : Str), isSpace c = false → isSpace 61 = false → NoTrail v →
      ∀ pre : Str, t = pre ++ 61 :: v → strip ((c :: t) ++ [10]) = c :: t := by
    intro c t v hc h61 hv pre ht
    subst ht
    have hne : (c :: (pre ++ 61 :: v)) ≠ [] := by simp
    refine strip_line c _ ((c :: (pre ++ 61 :: v)).getLast hne) hc (List.getLast?_eq_some_getLast hne) ?_
    have e : (c :: (pre ++ 61 :: v)).getLast hne = (61 :: v).getLast (by simp) := by
      have : c :: (pre ++ 61 :: v) = (c :: pre) ++ 61 :: v := by simp
      simp only [this]; rw [List.getLast_append_of_ne_nil]
    rw [e]
    cases v with
    | nil => simpa using h61
    | cons a r =>
      have : (61 :: a :: r).getLast (by simp) = (a :: r).getLast (by simp) := by simp
      rw [this]
      exact hv _ (List.getLast?_eq_some_getLast (by simp))
  have h61 : isSpace 61 = false := by decide
  have noTrailDec : ∀ n : Int, NoTrail (toDecInt n) := by
    intro n c hc
    obtain ⟨c', h', hd⟩ := toDecInt_last n
    rw [h'] at hc; cases hc; exact digit_not_space hd
  cases f with
  | type t =>
    have ht : isSpace t = false := hf
    exact key 84 _ [t] (by decide) h61 (by intro c hc; simp at hc; subst hc; exact ht) [121, 112, 101] rfl
  | name v => exact key 78 _ v (by decide) h61 hf [97, 109, 101] rfl
  | path v => exact key 80 _ v (by decide) h61 hf [97, 116, 104] rfl
  | host v => exact key 72 _ v (by decide) h61 hf.1 [111, 115, 116] rfl
  | hostPlus => decide
  | port n => exact key 80 _ _ (by decide) h61 (noTrailDec n) [111, 114, 116] rfl
  | portPlus => decide
  | numb n => exact key 78 _ _ (by decide) h61 (noTrailDec n) [117, 109, 98] rfl
  | admin v => exact key 65 _ v (by decide) h61 hf [100, 109, 105, 110] rfl
  | url v => exact key 85 _ v (by decide) h61 hf [82, 76] rfl
  | ttl v => exact key 84 _ v (by decide) h61 hf [84, 76] rfl
  | abstract v => exact key 65 _ v (by decide) h61 hf.1 [98, 115, 116, 114, 97, 99, 116] rfl
  | comment v =>
    have hne : (35 :: v) ≠ [] := by simp
    refine strip_line 35 v ((35 :: v).getLast hne) (by decide) (List.getLast?_eq_some_getLast hne) ?_
    cases v with
    | nil => simp only [List.getLast_singleton]; decide
    | cons a r =>
      have : (35 :: a :: r).getLast (by simp) = (a :: r).getLast (by simp) := by simp
      rw [this]
      exact hf _ (List.getLast?_eq_some_getLast (by simp))

/-! ## one line, one field -/

theorem lits :
    lit "Type=" = [84, 121, 112, 101, 61] ∧ lit "Name=" = [78, 97, 109, 101, 61] ∧
    lit "Path=" = [80, 97, 116, 104, 61] ∧ lit "Host=" = [72, 111, 115, 116, 61] ∧
    lit "Port=" = [80, 111, 114, 116, 61] ∧ lit "Numb=" = [78, 117, 109, 98, 61] ∧
    lit "Abstract=" = [65, 98, 115, 116, 114, 97, 99, 116, 61] ∧ lit "Admin=" = [65, 100, 109, 105, 110, 61] ∧
    lit "URL=" = [85, 82, 76, 61] ∧ lit "TTL=" = [84, 84, 76, 61] := by decide

theorem toDecInt_ne_plus (n : Int) : toDecInt n ≠ [43] := by
  intro h
  have := parseInt_toDecInt n
  rw [h] at this
  simp [parseInt?, parseNat?] at this

/-- a well-formed line applies its field to the entry being built and the reader goes on -/
theorem getLinkItem_field (base : Str) (fuel : Nat) (st : LinkState) (f : Field) (hf : f.Ok) (rest : List Str)
    (hc : ∀ v, f = .comment v → st.donePath = false) :
    getLinkItem base (fuel + 1) st ((f.text ++ [10]) :: rest) = getLinkItem base fuel (f.apply base st) rest := by
  have hs := f.strip_text hf
  obtain ⟨l1, l2, l3, l4, l5, l6, l7, l8, l9, l10⟩ := lits
  rw [getLinkItem]
  simp only [hs]
  cases f with
  | type t => simp [Field.text, Field.apply, isPrefixB, l1]
  | name v => simp [Field.text, Field.apply, isPrefixB, l1, l2]
  | path v =>
    simp only [Field.text, Field.apply, pathLe, pathName, isDotPath, isRelPath, isPrefixB, l1, l2, l3]
    simp
  | host v =>
    have hv : v ≠ [43] := hf.2
    simp [Field.text, Field.apply, isPrefixB, l1, l2, l3, l4, hv]
  | hostPlus => simp [Field.text, Field.apply, isPrefixB, l1, l2, l3, l4]
  | port n =>
    simp [Field.text, Field.apply, isPrefixB, l1, l2, l3, l4, l5, toDecInt_ne_plus, parseInt_toDecInt]
  | portPlus => simp [Field.text, Field.apply, isPrefixB, l1, l2, l3, l4, l5]
  | numb n =>
    simp [Field.text, Field.apply, isPrefixB, l1, l2, l3, l4, l5, l6, parseInt_toDecInt]
  | admin v => simp [Field.text, Field.apply, isPrefixB, l1, l2, l3, l4, l5, l6, l7, l8]
  | url v => simp [Field.text, Field.apply, isPrefixB, l1, l2, l3, l4, l5, l6, l7, l8, l9]
  | ttl v => simp [Field.text, Field.apply, isPrefixB, l1, l2, l3, l4, l5, l6, l7, l8, l9, l10]
  | abstract v =>
    have hv : ¬ v.getLast? = some 92 := hf.2
    have hr : readAbstract (rest.length + 1) [] v rest = (v, rest) := by simp [readAbstract, hv]
    simp only [Field.text, Field.apply, setAbstract, isPrefixB, l1, l2, l3, l4, l5, l6, l7]
    simp [hr]
    split <;> rfl
  | comment v =>
    have hd := hc v rfl
    simp [Field.text, Field.apply, hd]

/-! ## blocks and files -/

/-- what a closed block yields (`finish` inside `getLinkItem`): nothing without a path; a relative
    path on this server is made absolute below the directory -/
def finishEntry (base : Str) (st : LinkState) : Option LinkEntry :=
  if st.donePath then
    some (if st.le.needsabspath && st.le.e.host.isNone && st.le.e.port.isNone then
        { st.le with e := { st.le.e with selector := normpathAbs (base ++ [47] ++ st.le.e.selector) } }
      else st.le)
  else none

def renderFields (fs : List Field) : List Str := fs.map fun f => f.text ++ [10]

/-- a block is its lines and the blank line that closes it -/
def renderBlock (fs : List Field) : List Str := renderFields fs ++ [[10]]

def renderFile (bs : List (List Field)) : List Str := bs.flatMap renderBlock

def applyAll (base : Str) (st : LinkState) (fs : List Field) : LinkState := fs.foldl (Field.apply base) st

/-- the entry of a block: its fields applied, in order, to a fresh entry -/
def blockEntry (dirSel base : Str) (cap : Option Str) (fs : List Field) : Option LinkEntry :=
  finishEntry base (applyAll base (freshLink dirSel cap) fs)

def Field.isPath : Field → Bool
  | .path _ => true
  | _ => false

/-- comment lines stand before the block's `Path=` line (a `#` line after it closes the block: it is then not a
    line *of* the block); `done` = a path is already known when the lines start (a `.cap` file) -/
def WellPlaced (done : Bool) : List Field → Prop
  | [] => True
  | f :: fs => (match f with | .comment _ => done = false | _ => True) ∧ WellPlaced (done || f.isPath) fs

theorem apply_donePath (base : Str) (st : LinkState) (f : Field) :
    (f.apply base st).donePath = (st.donePath || f.isPath) := by
  cases f <;> simp [Field.apply, Field.isPath]

theorem getLinkItem_fields (base : Str) (fs : List Field) (hfs : ∀ f ∈ fs, f.Ok) (fuel : Nat) (st : LinkState)
    (hw : WellPlaced st.donePath fs) (rest : List Str) :
    getLinkItem base (fuel + fs.length) st (renderFields fs ++ rest) =
      getLinkItem base fuel (applyAll base st fs) rest := by
  induction fs generalizing st with
  | nil => simp [renderFields, applyAll]
  | cons f fs ih =>
    have e : fuel + (f :: fs).length = (fuel + fs.length) + 1 := by simp; omega
    rw [e]
    simp only [renderFields, List.map_cons, List.cons_append]
    have hc : ∀ v, f = .comment v → st.donePath = false := by
      intro v hv; subst hv; exact hw.1
    rw [getLinkItem_field base _ st f (hfs f (by simp)) _ hc]
    exact ih (fun g hg => hfs g (by simp [hg])) _ (by rw [apply_donePath]; exact hw.2)

theorem getLinkItem_blank (base : Str) (fuel : Nat) (st : LinkState) (rest : List Str) :
    getLinkItem base (fuel + 1) st ([10] :: rest) = some (.cont, finishEntry base st, rest) := by
  have h : strip [10] = [] := by decide
  rw [getLinkItem]
  simp only [h, finishEntry]
  by_cases hd : st.donePath = true <;> simp [hd]

theorem getLinkItem_eof (base : Str) (fuel : Nat) (st : LinkState) :
    getLinkItem base (fuel + 1) st [] = some (.stop, finishEntry base st, []) := by
  rw [getLinkItem]
  simp only [finishEntry]
  by_cases hd : st.donePath = true <;> simp [hd]

/-- a block of well-formed lines closed by a blank line: the reader hands back the block's entry and
    the rest of the file, untouched -/
theorem getLinkItem_block (base : Str) (fs : List Field) (hfs : ∀ f ∈ fs, f.Ok) (fuel : Nat) (st : LinkState)
    (hw : WellPlaced st.donePath fs) (rest : List Str) :
    getLinkItem base (fuel + 1 + fs.length) st (renderBlock fs ++ rest) =
      some (.cont, finishEntry base (applyAll base st fs), rest) := by
  simp only [renderBlock, List.append_assoc, List.singleton_append]
  rw [getLinkItem_fields base fs hfs _ _ hw]
  exact getLinkItem_blank base fuel _ rest

/-- a block that ends with the file (no blank line after it) -/
theorem getLinkItem_last_block (base : Str) (fs : List Field) (hfs : ∀ f ∈ fs, f.Ok) (fuel : Nat) (st : LinkState)
    (hw : WellPlaced st.donePath fs) :
    getLinkItem base (fuel + 1 + fs.length) st (renderFields fs) =
      some (.stop, finishEntry base (applyAll base st fs), []) := by
  have := getLinkItem_fields base fs hfs (fuel + 1) st hw []
  simp only [List.append_nil] at this
  rw [this]
  exact getLinkItem_eof base fuel _

theorem renderFile_cons (b : List Field) (bs : List (List Field)) :
    renderFile (b :: bs) = renderBlock b ++ renderFile bs := by
  simp [renderFile]

theorem renderBlock_length (fs : List Field) : (renderBlock fs).length = fs.length + 1 := by
  simp [renderBlock, renderFields]

/-- **the reader refines the block reading of the file**: a link file that is a sequence of blocks of
    well-formed lines yields, in order, the entry of each block that has a path — each block read
    from a fresh entry, whatever the blocks before it said -/
theorem processLinkFile_blocks (dirSel base : Str) (bs : List (List Field)) (hbs : ∀ b ∈ bs, ∀ f ∈ b, f.Ok)
    (hwp : ∀ b ∈ bs, WellPlaced false b) (fuel : Nat) (hfuel : bs.length < fuel) :
    processLinkFile dirSel base none fuel (renderFile bs) = some (bs.filterMap (blockEntry dirSel base none)) := by
  induction bs generalizing fuel with
  | nil =>
    obtain ⟨k, rfl⟩ : ∃ k, fuel = k + 1 := ⟨fuel - 1, by simp at hfuel; omega⟩
    simp only [renderFile, List.flatMap_nil, processLinkFile, List.length_nil, Nat.zero_add]
    rw [getLinkItem_eof base 0]
    simp [finishEntry, freshLink]
  | cons b bs ih =>
    obtain ⟨k, rfl⟩ : ∃ k, fuel = k + 1 := ⟨fuel - 1, by simp at hfuel; omega⟩
    rw [renderFile_cons, processLinkFile]
    have hl : (renderBlock b ++ renderFile bs).length + 1 = ((renderFile bs).length + 1) + 1 + b.length := by
      simp [renderBlock_length]; omega
    rw [hl, getLinkItem_block base b (hbs b (by simp)) _ _ (by simpa [freshLink] using hwp b (by simp))]
    simp only
    rw [ih (fun b' hb' => hbs b' (by simp [hb'])) (fun b' hb' => hwp b' (by simp [hb'])) k (by simp at hfuel; omega)]
    simp only [Option.map_some, List.filterMap_cons, blockEntry]
    cases finishEntry base (applyAll base (freshLink dirSel none) b) <;> simp

/-- a `.cap` file is one block about the file it belongs to: its entry is the file's selector with
    the block's fields applied -/
theorem processLinkFile_cap (dirSel base sel : Str) (fs : List Field) (hfs : ∀ f ∈ fs, f.Ok)
    (hw : WellPlaced true fs) (fuel : Nat) :
    processLinkFile dirSel base (some sel) (fuel + 1) (renderFields fs) =
      some ((blockEntry dirSel base (some sel) fs).toList) := by
  rw [processLinkFile]
  have hl : (renderFields fs).length + 1 = 0 + 1 + fs.length := by simp [renderFields]; omega
  rw [hl, getLinkItem_last_block base fs hfs _ _ (by simpa [freshLink] using hw)]
  simp only [blockEntry]
  cases finishEntry base (applyAll base (freshLink dirSel (some sel)) fs) <;> simp

/-- once a path is known (a `.cap` file starts that way) no line takes it away -/
theorem applyAll_keeps_path (base : Str) (fs : List Field) (st : LinkState) (h : st.donePath = true) :
    (applyAll base st fs).donePath = true := by
  induction fs generalizing st with
  | nil => simpa [applyAll] using h
  | cons f fs ih =>
    have : (f.apply base st).donePath = true := by cases f <;> simp [Field.apply, h]
    simpa [applyAll] using ih _ this

/-! ## what the order of lines inside a block means -/

/-- the key a line sets (`Host=+` and `Port=+`, `Admin=`, `URL=`, `TTL=` set nothing) -/
def Field.key : Field → Nat
  | .type _ => 1 | .name _ => 2 | .path _ => 3 | .host _ => 4 | .port _ => 5 | .numb _ => 6 | .abstract _ => 7 | _ => 0

/-- lines with different keys may stand in either order -/
theorem apply_comm (base : Str) (st : LinkState) (f g : Field) (h : f.key ≠ g.key ∨ f.key = 0) :
    (g.apply base (f.apply base st)) = (f.apply base (g.apply base st)) := by
  cases f <;> cases g <;> simp [Field.key] at h <;> simp only [Field.apply, pathLe_eq, setAbstract_eq]

/-- of two lines with the same key the later one counts -/
theorem apply_later_wins (base : Str) (st : LinkState) (f g : Field) (h : f.key = g.key) (h0 : f.key ≠ 0)
    (hp : f.key ≠ 3) (ha : f.key ≠ 7) :
    g.apply base (f.apply base st) = g.apply base st := by
  cases f <;> cases g <;> simp [Field.key] at h h0 hp ha <;> rfl

end Pyg.Umn
