import PygVerif.Model.Str
/-!
# Lemmas/Str — facts about the string layer (prefix/infix reflection, split, UTF-8
surrogateescape round trip, total order on strings)
-/
namespace Pyg

theorem isPrefixB_iff (p s : List Nat) : isPrefixB p s = true ↔ p <+: s := by
  induction p generalizing s with
  | nil => simp [isPrefixB]
  | cons a p ih =>
    cases s with
    | nil => simp [isPrefixB]
    | cons b s => simp [isPrefixB, ih, List.cons_prefix_cons]

theorem isInfixB_iff (p s : List Nat) : isInfixB p s = true ↔ p <:+: s := by
  induction s with
  | nil => simp [isInfixB, isPrefixB_iff]
  | cons c cs ih =>
    simp only [isInfixB, Bool.or_eq_true, isPrefixB_iff, ih]
    constructor
    · rintro (h | h)
      · exact h.isInfix
      · exact h.trans (List.infix_cons (List.infix_refl _))
    · intro h
      rcases List.infix_cons_iff.mp h with h | h
      · exact Or.inl h
      · exact Or.inr h

theorem splitOn_ne_nil (sep : Nat) (s : List Nat) : splitOn sep s ≠ [] := by
  cases s with
  | nil => simp [splitOn]
  | cons b t =>
    unfold splitOn
    split
    · simp
    · split <;> simp

/-- head field is a prefix, every field is an infix -/
theorem splitOn_spec (sep : Nat) (s : List Nat) :
    (∀ f fs, splitOn sep s = f :: fs → f <+: s) ∧ (∀ c ∈ splitOn sep s, c <:+: s) := by
  induction s with
  | nil =>
    constructor
    · intro f fs h; simp [splitOn] at h; simp [h.1]
    · intro c h; simp [splitOn] at h; subst h; exact List.infix_refl _
  | cons a s ih =>
    obtain ⟨ihp, ihi⟩ := ih
    constructor
    · intro f fs h
      unfold splitOn at h
      split at h
      · simp at h; rw [h.1]; exact List.nil_prefix
      · split at h
        · rename_i heq; exact absurd heq (splitOn_ne_nil sep s)
        · rename_i g gs heq
          simp at h
          rw [← h.1]
          exact List.cons_prefix_cons.mpr ⟨rfl, ihp g gs heq⟩
    · intro c h
      unfold splitOn at h
      split at h
      · rcases List.mem_cons.mp h with h | h
        · subst h; exact List.nil_infix
        · exact (ihi c h).trans (List.infix_cons (List.infix_refl _))
      · split at h
        · rename_i heq; exact absurd heq (splitOn_ne_nil sep s)
        · rename_i g gs heq
          rcases List.mem_cons.mp h with h | h
          · subst h
            exact (List.cons_prefix_cons.mpr ⟨rfl, ihp g gs heq⟩).isInfix
          · exact (ihi c (by rw [heq]; exact List.mem_cons_of_mem _ h)).trans
              (List.infix_cons (List.infix_refl _))


theorem enc_esc (b : Nat) (h1 : 0x80 ≤ b) (h2 : b < 256) : encodeCp (escByte b) = some [b] := by
  unfold encodeCp escByte
  have h3 : ¬ (0xDC00 + b < 0x80) := by omega
  have h4 : ¬ (0xDC00 + b < 0x800) := by omega
  have h5 : 0xDC80 ≤ 0xDC00 + b ∧ 0xDC00 + b ≤ 0xDCFF := by omega
  simp [h3, h4, h5]

/-- the one-step lemma: what was consumed is what the code point encodes to -/
theorem decodeOne_spec (b0 : Nat) (rest : List Nat) (h0 : b0 < 256) (hr : ∀ b ∈ rest, b < 256) :
    1 ≤ (decodeOne b0 rest).2 ∧ (decodeOne b0 rest).2 - 1 ≤ rest.length ∧
    encodeCp (decodeOne b0 rest).1 = some (b0 :: rest.take ((decodeOne b0 rest).2 - 1)) := by
  unfold decodeOne
  split
  · rename_i h; simp [encodeCp, h]
  · rename_i hna
    have he : encodeCp (escByte b0) = some [b0] := enc_esc b0 (by omega) h0
    split
    · rename_i h2
      split
      · rename_i b1 r
        split
        · rename_i hc
          simp [isCont] at hc
          refine ⟨by simp, by simp, ?_⟩
          unfold encodeCp
          have a1 : ¬ ((b0 - 0xC0) * 64 + (b1 - 0x80) < 0x80) := by omega
          have a2 : (b0 - 0xC0) * 64 + (b1 - 0x80) < 0x800 := by omega
          simp [a1, a2]
          constructor <;> omega
        · simp [he]
      · simp [he]
    · split
      · rename_i h3
        split
        · rename_i b1 b2 r
          split
          · rename_i hc
            simp [isCont] at hc
            have hb1 : b1 < 256 := hr b1 (by simp)
            refine ⟨by simp, by simp, ?_⟩
            unfold encodeCp
            obtain ⟨⟨⟨⟨c1, c1'⟩, c2, c2'⟩, cE0⟩, cED⟩ := hc
            have a1 : ¬ ((b0 - 0xE0) * 4096 + (b1 - 0x80) * 64 + (b2 - 0x80) < 0x80) := by
              rcases cE0 with h | h <;> omega
            have a2 : ¬ ((b0 - 0xE0) * 4096 + (b1 - 0x80) * 64 + (b2 - 0x80) < 0x800) := by
              rcases cE0 with h | h <;> omega
            have a3 : ¬ (0xD800 ≤ (b0 - 0xE0) * 4096 + (b1 - 0x80) * 64 + (b2 - 0x80) ∧
                (b0 - 0xE0) * 4096 + (b1 - 0x80) * 64 + (b2 - 0x80) ≤ 0xDFFF) := by
              rcases cED with h | h <;> omega
            have a3' : ¬ (0xDC80 ≤ (b0 - 0xE0) * 4096 + (b1 - 0x80) * 64 + (b2 - 0x80) ∧
                (b0 - 0xE0) * 4096 + (b1 - 0x80) * 64 + (b2 - 0x80) ≤ 0xDCFF) := by
              rcases cED with h | h <;> omega
            have a4 : (b0 - 0xE0) * 4096 + (b1 - 0x80) * 64 + (b2 - 0x80) < 0x10000 := by omega
            simp [a1, a2, a3, a3', a4]
            refine ⟨by omega, by omega, by omega⟩
          · simp [he]
        · simp [he]
      · split
        · rename_i h4
          split
          · rename_i b1 b2 b3 r
            split
            · rename_i hc
              simp [isCont] at hc
              refine ⟨by simp, by simp, ?_⟩
              unfold encodeCp
              obtain ⟨⟨⟨⟨⟨c1, c1'⟩, c2, c2'⟩, c3, c3'⟩, cF0⟩, cF4⟩ := hc
              have a1 : ¬ ((b0 - 0xF0) * 262144 + (b1 - 0x80) * 4096 + (b2 - 0x80) * 64 + (b3 - 0x80) < 0x10000) := by
                rcases cF0 with h | h <;> omega
              have a5 : (b0 - 0xF0) * 262144 + (b1 - 0x80) * 4096 + (b2 - 0x80) * 64 + (b3 - 0x80) < 0x110000 := by
                rcases cF4 with h | h <;> omega
              have a1' : ¬ ((b0 - 0xF0) * 262144 + (b1 - 0x80) * 4096 + (b2 - 0x80) * 64 + (b3 - 0x80) < 0x80) := by omega
              have a2 : ¬ ((b0 - 0xF0) * 262144 + (b1 - 0x80) * 4096 + (b2 - 0x80) * 64 + (b3 - 0x80) < 0x800) := by omega
              have a3 : ¬ (0xD800 ≤ (b0 - 0xF0) * 262144 + (b1 - 0x80) * 4096 + (b2 - 0x80) * 64 + (b3 - 0x80) ∧
                (b0 - 0xF0) * 262144 + (b1 - 0x80) * 4096 + (b2 - 0x80) * 64 + (b3 - 0x80) ≤ 0xDFFF) := by omega
              have a3' : ¬ (0xDC80 ≤ (b0 - 0xF0) * 262144 + (b1 - 0x80) * 4096 + (b2 - 0x80) * 64 + (b3 - 0x80) ∧
                (b0 - 0xF0) * 262144 + (b1 - 0x80) * 4096 + (b2 - 0x80) * 64 + (b3 - 0x80) ≤ 0xDCFF) := by omega
              simp [a1, a1', a2, a3, a3', a5]
              refine ⟨by omega, by omega, by omega, by omega⟩
            · simp [he]
          · simp [he]
        · simp [he]

theorem roundtrip : ∀ (n : Nat) (bs : List Nat), bs.length ≤ n → (∀ b ∈ bs, b < 256) →
    encodeSE (decodeSE bs) = some bs := by
  intro n
  induction n with
  | zero =>
    intro bs hl _
    have : bs = [] := List.eq_nil_of_length_eq_zero (by omega)
    subst this; simp [decodeSE, encodeSE]
  | succ n ih =>
    intro bs hl hb
    match bs, hl, hb with
    | [], _, _ => simp [decodeSE, encodeSE]
    | b0 :: rest, hl, hb =>
      have hb0 : b0 < 256 := hb b0 (by simp)
      have hrest : ∀ b ∈ rest, b < 256 := fun b h => hb b (by simp [h])
      obtain ⟨k1, k2, henc⟩ := decodeOne_spec b0 rest hb0 hrest
      have hd : ∀ b ∈ rest.drop ((decodeOne b0 rest).2 - 1), b < 256 :=
        fun b h => hrest b (List.mem_of_mem_drop h)
      have hlen : (rest.drop ((decodeOne b0 rest).2 - 1)).length ≤ n := by
        simp [List.length_drop] at *; omega
      have ihd := ih _ hlen hd
      rw [decodeSE]
      simp only [encodeSE, henc, ihd]
      simp [List.take_append_drop]

theorem encode_decode (bs : List Nat) (h : ∀ b ∈ bs, b < 256) : encodeSE (decodeSE bs) = some bs :=
  roundtrip bs.length bs (Nat.le_refl _) h


theorem strLe_refl : ∀ a, strLe a a = true
  | [] => rfl
  | x :: xs => by simp [strLe, strLe_refl xs]

theorem strLe_total : ∀ a b, strLe a b = true ∨ strLe b a = true
  | [], _ => Or.inl rfl
  | _ :: _, [] => Or.inr rfl
  | x :: xs, y :: ys => by
    simp only [strLe, Bool.or_eq_true, decide_eq_true_eq, Bool.and_eq_true, beq_iff_eq]
    rcases Nat.lt_trichotomy x y with h | h | h
    · exact Or.inl (Or.inl h)
    · subst h
      rcases strLe_total xs ys with h' | h'
      · exact Or.inl (Or.inr ⟨rfl, h'⟩)
      · exact Or.inr (Or.inr ⟨rfl, h'⟩)
    · exact Or.inr (Or.inl h)

theorem strLe_trans : ∀ a b c, strLe a b = true → strLe b c = true → strLe a c = true
  | [], _, _, _, _ => rfl
  | _ :: _, [], _, h, _ => by simp [strLe] at h
  | _ :: _, _ :: _, [], _, h => by simp [strLe] at h
  | x :: xs, y :: ys, z :: zs, h1, h2 => by
    simp only [strLe, Bool.or_eq_true, decide_eq_true_eq, Bool.and_eq_true, beq_iff_eq] at *
    rcases h1 with h1 | ⟨rfl, h1⟩ <;> rcases h2 with h2 | ⟨rfl, h2⟩
    · exact Or.inl (Nat.lt_trans h1 h2)
    · exact Or.inl h1
    · exact Or.inl h2
    · exact Or.inr ⟨rfl, strLe_trans xs ys zs h1 h2⟩

theorem strLe_antisymm : ∀ a b, strLe a b = true → strLe b a = true → a = b
  | [], [], _, _ => rfl
  | [], _ :: _, _, h => by simp [strLe] at h
  | _ :: _, [], h, _ => by simp [strLe] at h
  | x :: xs, y :: ys, h1, h2 => by
    simp only [strLe, Bool.or_eq_true, decide_eq_true_eq, Bool.and_eq_true, beq_iff_eq] at *
    rcases h1 with h1 | ⟨rfl, h1⟩ <;> rcases h2 with h2 | ⟨h, h2⟩
    · omega
    · omega
    · omega
    · rw [strLe_antisymm xs ys h1 h2]


end Pyg
