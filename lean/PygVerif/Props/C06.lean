import PygVerif.Props.C05
import PygVerif.Model.Serve
/-!
# C06 — The same site is seen through every protocol
-/
namespace Pyg.Props.C06
open Pyg Pyg.Props.C05

/-- **A selector resolves to the same object in all protocols.** Whatever the syntax used to
    follow a link to a listed object — Gopher, Gopher+, HTTP(S), WAP, Spartan — the handlers
    receive the same selector, hence (the handler chain being protocol-independent) the same
    object and MIME type. -/
theorem resolve_same (bs : Bytes) (hn : Normal bs) (w qp : Str) (nv : Bool)
    (cg ch cw cs : Conn) (rest : List Str) (m v m' v' host n : Str)
    (hg : requestList cg.line = decodeSE bs :: rest)
    (hh : requestParts ch.line = [m, quoteBytes bs, v])
    (hw : requestParts cw.line = [m', w ++ quoteBytes bs, v'])
    (hs : splitOn 32 (strip cs.line) = [host, quoteBytes bs, n]) :
    (parseRequest w qp nv .gopher cg).selector = (parseRequest w qp nv .http ch).selector ∧
    (parseRequest w qp nv .http ch).selector = (parseRequest w qp nv .wap cw).selector ∧
    (parseRequest w qp nv .wap cw).selector = (parseRequest w qp nv .spartan cs).selector ∧
    (parseRequest w qp nv .spartan cs).selector = slashnormalize (unquote (quoteBytes bs)) := by
  rw [(gopher_follow_link bs hn w qp nv cg rest hg).1, http_follow_link bs hn w qp nv ch m v hh,
    wap_follow_link bs hn w qp nv cw m' v' hw, spartan_follow_link bs hn w qp nv cs host n hs,
    gemini_path_roundtrip bs hn]
  exact ⟨rfl, rfl, rfl, rfl⟩

/-- **Trailing slash.** A directory selector with a trailing slash normalises to the same
    selector as without. -/
theorem trailing_slash (s : Str) (hh : s.head? = some 47) (hl : s.getLast? ≠ some 47) :
    slashnormalize (s ++ [47]) = slashnormalize s := by
  have h1 : slashnormalize s = s := slashnormalize_fixed s hh (Or.inl hl)
  rw [h1]
  unfold slashnormalize
  simp only [List.getLast?_append, List.getLast?_singleton, Option.some_or, if_true, List.dropLast_concat]
  cases s with
  | nil => simp at hh
  | cons c cs => simp at hh; simp [hh]

theorem root_with_or_without_slash : slashnormalize [] = [47] ∧ slashnormalize [47] = [47] ∧
    slashnormalize [47, 47] = [47] := by decide

/-! ### same entries, same order, whatever the view -/

/-- entries of a walk that came from the directory itself (abstract info lines removed) -/
def isAbstractLine (e : Entry) : Bool := e.selector == lit "fake" && e.host == some (lit "(NULL)")

/-- **Same walk.** `writedir` renders, for every protocol, the directory's entries in the
    handler's order, each once; protocols differ only in whether abstract info lines are
    interleaved.  Stated on the walk: with abstracts off it *is* the entry list. -/
theorem walk_without_abstracts (self : Entry) (es : List Entry) : walk false false self es = es := by
  simp [walk]
  induction es with
  | nil => rfl
  | cons e r ih => simp [ih]

/-- with abstracts on, removing the interleaved abstract lines gives back the entry list,
    provided no real entry is itself shaped like an abstract line -/
theorem walk_entries (self : Entry) (es : List Entry) (h : ∀ e ∈ es, isAbstractLine e = false) :
    (walk false true self es).filter (fun e => !isAbstractLine e) = es := by
  induction es with
  | nil => simp [walk]
  | cons e r ih =>
    have he := h e (by simp)
    have ih := ih (fun x hx => h x (by simp [hx]))
    simp only [walk, Bool.false_eq_true, if_false, List.nil_append, List.map_cons, List.flatten_cons, if_true] at ih ⊢
    rw [List.filter_append, ih]
    have hinfo : ∀ (ls : List Str), (ls.map infoEntry).filter (fun e => !isAbstractLine e) = [] := by
      intro ls
      induction ls with
      | nil => rfl
      | cons l r ih => simp [List.filter, isAbstractLine, infoEntry, ih]
    simp only [List.filter_cons, he, Bool.not_false, if_true]
    cases e.getea (lit "ABSTRACT") with
    | none => simp
    | some a => by_cases ha : a.isEmpty = true <;> simp [ha, hinfo]

/-- the abstract decision is the same for every protocol that does not carry abstracts natively -/
theorem abstracts_uniform (opt : Str) :
    doAbstracts opt (View.gopher.groksAbstract) = doAbstracts opt (View.http.groksAbstract) ∧
    doAbstracts opt (View.http.groksAbstract) = doAbstracts opt (View.wap.groksAbstract) ∧
    doAbstracts opt (View.wap.groksAbstract) = doAbstracts opt (View.gemini.groksAbstract) ∧
    doAbstracts opt (View.gemini.groksAbstract) = doAbstracts opt (View.spartan.groksAbstract) :=
  ⟨rfl, rfl, rfl, rfl⟩

/-! ### search strings -/

/-- **The same search string through every mechanism.** A query whose bytes are `bs`
    (non-empty), submitted as the Gopher tab field, as the HTTP `searchrequest` parameter
    (percent-encoded), as the Gemini URL query (percent-encoded), or as the Spartan request
    body, reaches the handlers as the same string `decodeSE bs`. -/
theorem search_same (bs : Bytes) (h : Bytes.WF bs) (hne : bs ≠ []) :
    qsSearch (lit "searchrequest=" ++ quoteBytes bs) = some (decodeSE bs) ∧
    unquote (quoteBytes bs) = decodeSE bs := by
  refine ⟨?_, unquote_quoteBytes bs h⟩
  have halpha := quoteBytes_alphabet bs h
  have h38 : 38 ∉ (lit "searchrequest=" ++ quoteBytes bs) := by
    simp only [List.mem_append, not_or]
    exact ⟨by decide, fun hm => (isQuoteChar_spec 38 (halpha 38 hm)).2.2.2.2.2.2.2.2.2.2.1 rfl⟩
  have hqne : quoteBytes bs ≠ [] := by
    cases bs with
    | nil => exact absurd rfl hne
    | cons b r => unfold quoteBytes; split <;> simp
  have h43 : ∀ c ∈ quoteBytes bs, c ≠ 43 := fun c hc => (isQuoteChar_spec c (halpha c hc)).2.2.2.2.2.2.2.2.2.2.2.2.2.1
  have hplus : plusToSpace (quoteBytes bs) = quoteBytes bs := by
    unfold plusToSpace
    have : ∀ (l : Str), (∀ c ∈ l, c ≠ 43) → l.map (fun c => if c = 43 then 32 else c) = l := by
      intro l hl
      induction l with
      | nil => rfl
      | cons x xs ih =>
        have hx := hl x (by simp)
        simp [hx, ih (fun c hc => hl c (by simp [hc]))]
    exact this _ h43
  unfold qsSearch
  rw [splitOn_no_sep 38 _ h38]
  have hsplit : takeUntil (· == 61) (lit "searchrequest=" ++ quoteBytes bs) = lit "searchrequest" ∧
      (dropUntil (· == 61) (lit "searchrequest=" ++ quoteBytes bs)).drop 1 = quoteBytes bs := by
    constructor <;> simp [lit, takeUntil, dropUntil]
  have hc61 : (lit "searchrequest=" ++ quoteBytes bs).contains 61 = true := by
    simp [lit]
  have hkey : unquote (plusToSpace (lit "searchrequest")) = lit "searchrequest" := by decide +kernel
  have hvne : (quoteBytes bs).isEmpty = false := by cases hq : quoteBytes bs <;> simp_all
  simp only [qsSearchAux, hc61, if_true, hsplit.1, hsplit.2, hkey, hvne, Bool.not_false, beq_self_eq_true,
    Bool.and_self, hplus, unquote_quoteBytes bs h]

/-- Gopher: the search field is taken literally (after `strip`), never decoded -/
theorem gopher_search_literal (w qp : Str) (nv : Bool) (c : Conn) (sel q : Str)
    (h : requestList c.line = [sel, q]) : (parseRequest w qp nv .gopher c).search = some q := by
  simp [parseRequest, h]

/-- **A link with a host but no port names the same port everywhere.**  The Gopher menu line
    and the `gopher://` URL that HTTP, WAP, Gemini and Spartan listings show for such an entry
    both carry this server's port (before repo commit a7609ce the URL said 70). -/
theorem host_only_same_port (srv : ServerId) (e : Entry) (h : Str) (hh : e.host = some h) (hne : h.isEmpty = false)
    (hp : e.port = none) (hu : startsUrl e.selector = false) (hu2 : isUrlSel e.selector = false) :
    portOf srv e = toDec srv.port ∧ hostOf srv e = h ∧
    linkUrl srv e = (quote (pyStrOpt e.type ++ e.selector)).map fun q =>
      lit "gopher://" ++ h ++ [58] ++ toDec srv.port ++ [47] ++ q := by
  refine ⟨by simp [portOf, hp], by simp [hostOf, hh], ?_⟩
  simp [linkUrl, hu, Entry.isLocal, hh, hne, Entry.geturl, hu2, hp]

/-- **The item type is the same in the menu line and in the `gopher://` URL.**  For an entry on another server the URL
    that HTTP, WAP, Gemini and Spartan listings show starts its path with the very type the Gopher menu line starts
    with — `0` when the link block gave none (before repo commit c4fc796 the URL said `None`). -/
theorem remote_link_same_type (srv : ServerId) (e : Entry) (nm h : Str) (hn : e.name = some nm) (hh : e.host = some h)
    (hne : h.isEmpty = false) (hu2 : isUrlSel e.selector = false) :
    ∃ t, (∀ line, gopher0Line srv e = some line → t <+: line) ∧
      e.geturl srv.name srv.port = (quote (t ++ e.selector)).map fun q =>
        lit "gopher://" ++ h ++ [58] ++ (match e.port with | some p => toDecInt p | none => toDec srv.port) ++ [47] ++ q := by
  refine ⟨e.type.getD (lit "0"), ?_, ?_⟩
  · intro line hl
    simp only [gopher0Line, hn, Option.some.injEq] at hl
    rw [← hl]; simp [List.append_assoc]
  · have : pyStrOpt e.type = e.type.getD (lit "0") := by cases e.type <;> rfl
    simp only [Entry.geturl, hu2, Bool.false_eq_true, if_false, hh, this, Option.getD_some]
    rfl

/-- **One entry list, six renderings (end to end).**  For a selector the handler chain answers
    with a menu, the response of every protocol is its own framing around `listingBody` of the
    *same* directory entry and the *same* entry list — `handled` has no protocol argument.  (With
    `walk_entries` / `abstracts_uniform`: same link entries, same order, same names.) -/
theorem same_entries_every_protocol (c : ServeCfg) (st : StatFn) (rq : Parsed) (self : Entry) (es : List Entry)
    (hh : handled c st rq.selector = .menu self es) (hi : rq.geminiInput = none) (hb : rq.badRequest = false) :
    respondParsed c st .gopher rq = (listingBody c.render .gopher false self es).map (fun r => [.text r]) ∧
    respondParsed c st .gemini rq = (listingBody c.render .gemini false self es).map
      (fun r => [.text (statusLine (lit "20") (lit "text/gemini") ++ r ++ footerText c.geminiFooter)]) ∧
    respondParsed c st .spartan rq = (listingBody c.render .spartan false self es).map
      (fun r => [.text (statusLine (lit "2") (lit "text/gemini") ++ r ++ footerText c.spartanFooter)]) ∧
    (isPrefixB (lit "/PYGOPHERD-HTTPPROTO-ICONS/") rq.selector = false → rq.head = false →
      respondParsed c st .wap rq = (listingBody c.render .wap false self es).map
        (fun r => [.text (httpHeaders none (wapAdjust self.mimetype).1 ++ wapDirStart self.name ++ r ++ wapDirEnd)])) := by
  refine ⟨by simp [respondParsed, hh, hi, hb, Wire.ofProto], by simp [respondParsed, hh, hi, hb, Wire.ofProto],
    by simp [respondParsed, hh, hi, hb, Wire.ofProto], ?_⟩
  intro hicon hhead
  simp [respondParsed, hh, hi, hb, Wire.ofProto, hicon, hhead]

/-! non-vacuity -/
example : qsSearch (lit "searchrequest=a%20b%FF") = some (lit "a b" ++ [0xDCFF]) := by decide +kernel
example : (walk false true { selector := [] } [{ selector := lit "/a", ea := [(lit "ABSTRACT", lit "x\ny")] }]).length = 3 := by
  decide +kernel

end Pyg.Props.C06
