import PygVerif.Generated
import PygVerif.Model.Cache
import PygVerif.Model.Site
/-!
# C10 — The directory cache is transparent and never older than its lifetime
-/
namespace Pyg.Props.C10
open Pyg.Cache

variable {D L : Type} (listingOf : D → L) (T : Nat)

/-- the invariant: the cache file holds the listing of the directory as it was when the file
    was written, stamped with that time in whole seconds, and that state really occurred -/
def Inv (s : St D L) : Prop :=
  (∀ l m, s.cache = some (l, m) → ∃ t d, s.birth = some (t, d) ∧ l = listingOf d ∧ m = t / 1000 ∧ t ≤ s.now) ∧
  (∀ t d, s.birth = some (t, d) → (t, d) ∈ s.trail) ∧
  (s.now, s.dir) ∈ s.trail ∧ (∀ p ∈ s.trail, p.1 ≤ s.now)

theorem inv_init (d : D) : Inv listingOf (init d : St D L) := by
  refine ⟨?_, ?_, ?_, ?_⟩ <;> simp [init]

theorem inv_step (s : St D L) (op : Op D) (h : Inv listingOf s) : Inv listingOf (step listingOf T s op).1 := by
  obtain ⟨h1, h2, h3, h4⟩ := h
  cases op with
  | mutate d =>
    refine ⟨h1, ?_, ?_, ?_⟩
    · intro t d' hb; exact List.mem_cons_of_mem _ (h2 t d' hb)
    · simp [step]
    · intro p hp
      simp only [step, List.mem_cons] at hp
      rcases hp with rfl | hp
      · exact Nat.le_refl _
      · exact h4 p hp
  | tick ms =>
    refine ⟨?_, ?_, ?_, ?_⟩
    · intro l m hc
      obtain ⟨t, d, hb, hl, hm, ht⟩ := h1 l m hc
      exact ⟨t, d, hb, hl, hm, Nat.le_trans ht (Nat.le_add_right _ _)⟩
    · intro t d' hb; exact List.mem_cons_of_mem _ (h2 t d' hb)
    · simp [step]
    · intro p hp
      simp only [step, List.mem_cons] at hp
      rcases hp with rfl | hp
      · exact Nat.le_refl _
      · exact Nat.le_trans (h4 p hp) (Nat.le_add_right _ _)
  | list =>
    have miss : Inv listingOf ({ s with cache := some (listingOf s.dir, s.now / 1000), birth := some (s.now, s.dir) } : St D L) := by
      refine ⟨?_, ?_, h3, h4⟩
      · intro l m hc
        simp only [Option.some.injEq, Prod.mk.injEq] at hc
        exact ⟨s.now, s.dir, rfl, hc.1.symm, hc.2.symm, Nat.le_refl _⟩
      · intro t d hb
        simp only [Option.some.injEq, Prod.mk.injEq] at hb
        rw [← hb.1, ← hb.2]; exact h3
    unfold step
    cases hc : s.cache with
    | none => simpa [hc] using miss
    | some p =>
      obtain ⟨l, m⟩ := p
      simp only
      split
      · exact ⟨h1, h2, h3, h4⟩
      · exact miss

/-- **Every reachable state satisfies the invariant** (induction over the history). -/
theorem inv_reachable (d : D) (ops : List (Op D)) :
    Inv listingOf (ops.foldl (fun s op => (step listingOf T s op).1) (init d : St D L)) := by
  suffices h : ∀ (s : St D L), Inv listingOf s → Inv listingOf (ops.foldl (fun s op => (step listingOf T s op).1) s) from
    h _ (inv_init listingOf d)
  induction ops with
  | nil => intro s h; exact h
  | cons op r ih => intro s h; exact ih _ (inv_step listingOf T s op h)

/-- **A hit serves the listing generated when the entry was written**, and does not touch the
    cache file (no refresh of its age). -/
theorem hit_is_birth_listing (s : St D L) (l : L) (m : Nat) (hc : s.cache = some (l, m))
    (hf : fresh T s.now m = true) (h : Inv listingOf s) :
    step listingOf T s .list = (s, some l) ∧
    ∃ t d, (t, d) ∈ s.trail ∧ l = listingOf d ∧ t ≤ s.now ∧ s.now < t + 1000 * T + 1000 := by
  refine ⟨by simp [step, hc, hf], ?_⟩
  obtain ⟨t, d, hb, hl, hm, ht⟩ := h.1 l m hc
  refine ⟨t, d, h.2.1 t d hb, hl, ht, ?_⟩
  simp only [fresh, decide_eq_true_eq] at hf
  subst hm
  have : t / 1000 * 1000 ≤ t := Nat.div_mul_le_self t 1000
  have h2 : (t / 1000 + T) * 1000 = t / 1000 * 1000 + T * 1000 := Nat.add_mul _ _ _
  omega

/-- **Never older than the lifetime.** Whatever the history, the listing a client receives is
    the listing of the directory as it really was at some moment `t` with `now − t < lifetime`
    (in ms: `now < t + 1000·T`), or of the directory as it is now. -/
theorem staleness_bound (s : St D L) (h : Inv listingOf s) (s' : St D L) (o : L)
    (hs : step listingOf T s .list = (s', some o)) :
    ∃ t d, (t, d) ∈ s.trail ∧ o = listingOf d ∧ t ≤ s.now ∧ (t = s.now ∨ s.now < t + 1000 * T) := by
  unfold step at hs
  cases hc : s.cache with
  | none =>
    simp only [hc, Prod.mk.injEq, Option.some.injEq] at hs
    exact ⟨s.now, s.dir, h.2.2.1, hs.2.symm, Nat.le_refl _, Or.inl rfl⟩
  | some p =>
    obtain ⟨l, m⟩ := p
    simp only [hc] at hs
    split at hs
    · rename_i hf
      simp only [Prod.mk.injEq, Option.some.injEq] at hs
      obtain ⟨t, d, hb, hl, hm, ht⟩ := h.1 l m hc
      refine ⟨t, d, h.2.1 t d hb, by rw [← hs.2]; exact hl, ht, Or.inr ?_⟩
      simp only [fresh, decide_eq_true_eq] at hf
      subst hm
      have : t / 1000 * 1000 ≤ t := Nat.div_mul_le_self t 1000
      have h2 : (t / 1000 + T) * 1000 = t / 1000 * 1000 + T * 1000 := Nat.add_mul _ _ _
      omega
    · simp only [Prod.mk.injEq, Option.some.injEq] at hs
      exact ⟨s.now, s.dir, h.2.2.1, hs.2.symm, Nat.le_refl _, Or.inl rfl⟩

/-- **An entry older than the lifetime is never used.** -/
theorem expired_never_used (s : St D L) (l : L) (m : Nat) (hc : s.cache = some (l, m))
    (hexp : (m + T) * 1000 ≤ s.now) :
    (step listingOf T s .list).2 = some (listingOf s.dir) := by
  have : fresh T s.now m = false := by simp [fresh]; omega
  simp [step, hc, this]

/-- **Lifetime 0: every listing reflects the current directory.** -/
theorem lifetime_zero_current (s : St D L) (h : Inv listingOf s) :
    (step listingOf 0 s .list).2 = some (listingOf s.dir) := by
  unfold step
  cases hc : s.cache with
  | none => rfl
  | some p =>
    obtain ⟨l, m⟩ := p
    obtain ⟨t, d, _, _, hm, ht⟩ := h.1 l m hc
    have : fresh 0 s.now m = false := by
      simp only [fresh, Nat.add_zero, decide_eq_false_iff_not, Nat.not_lt]
      subst hm
      exact Nat.le_trans (Nat.div_mul_le_self t 1000) ht
    simp [this]

/-- **Protocol-free.** What is stored and what is served from the cache is the entry list `L`
    itself; `step` has no protocol parameter, so whichever protocols wrote and read the entry,
    each renders the same list. -/
theorem cache_protocol_free (render₁ render₂ : L → List Nat) (s : St D L) (l : L) (m : Nat)
    (hc : s.cache = some (l, m)) (hf : fresh T s.now m = true) :
    (step listingOf T s .list).2.map render₁ = some (render₁ l) ∧
    (step listingOf T s .list).2.map render₂ = some (render₂ l) := by
  simp [step, hc, hf]

/-- the shipped lifetime, as extracted from conf/pygopherd.conf -/
theorem shipped_lifetime : Generated.cacheTime = 180 := by decide

/-! ### the cache machine over whole file trees (`Model/Site`)

The theorems above are generic in what a "directory" and a "listing" are.  Here the directory
state is the whole file tree below the root and the listing is what the site model computes for
a selector (directory walk, link files, `.cap`, sidecars, gophermap population): a mutation is
*any* replacement of the tree. -/

/-- **Never older than the lifetime, on real trees.**  For every configuration, selector,
    lifetime and history of tree mutations, clock ticks and listing requests starting from any
    tree: a listing the client receives is `siteEntries` of the file tree as it really was at some
    moment less than a lifetime ago, or as it is now. -/
theorem site_listing_staleness_bound (c : SiteCfg) (sel : Str) (T : Nat) (R0 : Node) (ops : List (Op Node))
    (o : Option (List Entry)) (s' : St Node (Option (List Entry))) :
    let listingOf : Node → Option (List Entry) := fun R => siteEntries c (statAt R) sel
    let s := ops.foldl (fun s op => (step listingOf T s op).1) (init R0 : St Node (Option (List Entry)))
    step listingOf T s .list = (s', some o) →
    ∃ t R, (t, R) ∈ s.trail ∧ o = siteEntries c (statAt R) sel ∧ t ≤ s.now ∧ (t = s.now ∨ s.now < t + 1000 * T) := by
  intro listingOf s hs
  exact staleness_bound listingOf T s (inv_reachable listingOf T R0 ops) s' o hs

/-- with lifetime 0 every listing is `siteEntries` of the tree as it is now -/
theorem site_listing_current_at_lifetime_zero (c : SiteCfg) (sel : Str) (R0 : Node) (ops : List (Op Node)) :
    let listingOf : Node → Option (List Entry) := fun R => siteEntries c (statAt R) sel
    let s := ops.foldl (fun s op => (step listingOf 0 s op).1) (init R0 : St Node (Option (List Entry)))
    (step listingOf 0 s .list).2 = some (siteEntries c (statAt s.dir) sel) := by
  intro listingOf s
  exact lifetime_zero_current listingOf s (inv_reachable listingOf 0 R0 ops)

/-! non-vacuity: write at 0.5 s, hit at 179.9 s (lifetime 180 s), miss at 180.0 s -/
example :
    let s0 : St Nat Nat := init 7
    let (s1, _) := step id 180 s0 (.tick 500)
    let (s2, o2) := step id 180 s1 .list
    let (s3, _) := step id 180 s2 (.mutate 8)
    let (s4, _) := step id 180 s3 (.tick 179400)
    let (s5, o5) := step id 180 s4 .list
    let (s6, _) := step id 180 s5 (.tick 100)
    let (_, o7) := step id 180 s6 .list
    (o2, o5, o7) = (some 7, some 7, some 8) := by decide

end Pyg.Props.C10
