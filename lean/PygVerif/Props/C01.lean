import PygVerif.Generated
import PygVerif.Lemmas.Selector
import PygVerif.Model.Proto
import PygVerif.Lemmas.Site
import PygVerif.Lemmas.SiteCongr
/-!
# C01 — Nothing outside the document root is ever read, listed, run or revealed

Property theorems only.  `Generated.forbidden` / `Generated.urlForbidden` are re-extracted
from `/repo/pygopherd/handlers/base.py` and `url.py` on every run; deleting a literal from
either filter makes the `decide` obligations below fail to compile.
-/
namespace Pyg.Props.C01
open Pyg

/-- the filter of the code as it stands now -/
abbrev secure (s : Str) : Bool := secureB Generated.forbidden s

/-! ### obligations on the extracted table -/

theorem dotdot_forbidden : [46,46] ∈ Generated.forbidden := by decide
theorem dotslash_forbidden : [46,47] ∈ Generated.forbidden := by decide
theorem slashslash_forbidden : [47,47] ∈ Generated.forbidden := by decide
theorem dotbackslash_forbidden : [46,92] ∈ Generated.forbidden := by decide
theorem backslash2_forbidden : [92,92] ∈ Generated.forbidden := by decide
theorem nul_forbidden : [0] ∈ Generated.forbidden := by decide

/-- the URL handler, the only handler that is exempt from the path filter, refuses
    NUL, LF, TAB, CR and the double quote -/
theorem url_filter_table :
    [0] ∈ Generated.urlForbidden ∧ [10] ∈ Generated.urlForbidden ∧ [9] ∈ Generated.urlForbidden ∧
    [13] ∈ Generated.urlForbidden ∧ [34] ∈ Generated.urlForbidden := by decide

/-! ### 1. the substring part of the filter is closed under substrings -/

/-- free of every forbidden substring: the part of the filter that path containment rests on
    (the filter proper also refuses a final `/.`, which is about the whole selector) -/
abbrev pathSafe (s : Str) : Prop := InfixSafe Generated.forbidden s

theorem secure_pathSafe {s : Str} (hs : secure s = true) : pathSafe s := secure_infixSafe hs

/-- Whatever a handler derives from a secure selector by *cutting* (prefixes, the real part
    of a virtual selector, `selector[2:]` of the type rewriter, path components) is free of
    every forbidden substring. -/
theorem secure_infix_closed {s t : Str} (hs : secure s = true) (ht : t <:+: s) :
    pathSafe t := infixSafe_infix_closed (secure_infixSafe hs) ht

theorem virtual_real_part_secure {s : Str} (hs : secure s = true) :
    pathSafe (virtualSplit s).1 :=
  secure_infix_closed hs (virtualSplit_prefix s).isInfix

theorem rewriter_tail_secure {s : Str} (hs : secure s = true) :
    pathSafe (s.drop 2) :=
  secure_infix_closed hs (List.drop_suffix 2 s).isInfix

/-- the last component of a secure selector is not a single dot: `/dir/.` is refused (its
    members would have selectors containing `/./`, which the filter refuses) -/
theorem secure_not_dot_last {s : Str} (hs : secure s = true) : isSuffixB [47, 46] s = false :=
  secure_not_dot_suffix hs

/-! ### 2. what a secure selector cannot contain -/

theorem secure_components {s : Str} (hs : secure s = true) :
    ∀ c ∈ splitOn 47 s, c ≠ [46,46] ∧ 0 ∉ c :=
  Pyg.secure_components hs dotdot_forbidden nul_forbidden

theorem secure_no_climb {s : Str} (hs : secure s = true) :
    ¬ [46,46] <:+: s ∧ ¬ [46,47] <:+: s ∧ ¬ [47,47] <:+: s ∧ ¬ [46,92] <:+: s ∧
    ¬ [92,92] <:+: s ∧ 0 ∉ s :=
  ⟨secure_no_infix hs dotdot_forbidden, secure_no_infix hs dotslash_forbidden,
   secure_no_infix hs slashslash_forbidden, secure_no_infix hs dotbackslash_forbidden,
   secure_no_infix hs backslash2_forbidden,
   fun h => secure_no_infix hs nul_forbidden (mem_infix_singleton h)⟩

/-! ### 3. lexical containment -/

/-- For every secure selector and every root, the lexically normalised file-system path
    `root + selector` starts with the normalised root. -/
theorem secure_path_stays_under_root (root : List Str) {s : Str} (hs : secure s = true) :
    norm root <+: norm (root ++ splitOn 47 s) :=
  norm_prefix root _ (fun c hc => (secure_components hs c hc).1)

theorem secure_path_is_root_plus_components (root : List Str) {s : Str} (hs : secure s = true) :
    norm (root ++ splitOn 47 s) = norm root ++ (splitOn 47 s).filter plainComp :=
  lexical_containment root _ (fun c hc => (secure_components hs c hc).1)

/-! ### 4. one decoding layer, then the filter -/

/-- HTTP(S): the selector handed to the handlers is `slashnormalize (unquote path)` where `path`
    is the request target up to the first `?` — percent-decoding happens exactly once and the
    filter is evaluated on its result. -/
theorem http_selector_decoded_once (w q : Str) (nv : Bool) (c : Conn) :
    (parseRequest w q nv .http c).selector =
      slashnormalize (unquote ((splitOn 63 ((requestParts c.line)[1]?.getD [])).headD [])) := by
  simp [parseRequest]

theorem spartan_selector_decoded_once (w q : Str) (nv : Bool) (c : Conn) (h path n : Str)
    (hs : splitOn 32 (strip c.line) = [h, path, n]) :
    (parseRequest w q nv .spartan c).selector = slashnormalize (unquote path) := by
  simp [parseRequest, hs]

/-- Gopher selectors are never percent-decoded: what the filter sees is the literal field -/
theorem gopher_selector_literal (w q : Str) (nv : Bool) (c : Conn) :
    (parseRequest w q nv .gopher c).selector = slashnormalize ((requestList c.line).headD []) := by
  simp [parseRequest]

/-- a doubly encoded climb decodes to a *literal* `%2e%2e%2f`, which is an ordinary file name -/
theorem double_encoding_inert :
    unquote (lit "%252e%252e%252f") = lit "%2e%2e%2f" ∧ secure (lit "/%2e%2e%2fsecret") = true := by
  decide +kernel

/-- ... while one layer exposes the climb to the filter -/
theorem single_encoding_exposed :
    unquote (lit "/%2e%2e%2fsecret") = lit "/../secret" ∧ secure (unquote (lit "/%2e%2e%2fsecret")) = false ∧
    secure (unquote (lit "/a%5c%5cb")) = false ∧ secure (unquote (lit "/a%00")) = false := by
  decide +kernel

/-! ### 5. the kernel never leaves the root: resolution on the whole file system

`Model/Site.kwalk` is the kernel's path resolution on an arbitrary file-system tree `W`
(`..` climbs, at `/` it stays); the server hands it `root + selector`.  These theorems are
about every `W`, every root path and every selector. -/

/-- **Resolution is confined to the root.**  For a selector that passes the filter, `stat`
    as the kernel performs it on the whole file system is `stat` on the subtree below the
    document root: nothing outside the root takes part in the answer. -/
theorem resolution_confined (W : Node) (rootStr : Str) (anc : List Node) (kids : List (Str × Node))
    (hroot : kwalk [] W (splitOn 47 rootStr) = some (anc, .dir kids))
    (sel : Str) (hh : sel.head? = some 47) (hs : secure sel = true) :
    kstat W rootStr sel = statAt (.dir kids) sel :=
  kstat_eq_statAt W rootStr anc kids hroot sel hh (noClimb_of_secure hs dotdot_forbidden nul_forbidden)

/-- the same for the probe `selector + "/gophermap"` the gophermap handler makes -/
theorem gophermap_probe_confined (W : Node) (rootStr : Str) (anc : List Node) (kids : List (Str × Node))
    (hroot : kwalk [] W (splitOn 47 rootStr) = some (anc, .dir kids))
    (sel : Str) (hh : sel.head? = some 47) (hs : secure sel = true) :
    kstat W rootStr (sel ++ lit "/gophermap") = statAt (.dir kids) (sel ++ lit "/gophermap") := by
  apply kstat_eq_statAt W rootStr anc kids hroot
  · cases sel with
    | nil => simp at hh
    | cons c t => simpa using hh
  · exact noClimb_append_gophermap sel (fun c hc => (secure_components hs c hc).1)

/-- **Two worlds, one answer.**  Two file systems `W`, `W'` in which the configured root path
    leads to the same directory give every selector the same handler and the same response
    (not-found, menu, or the document's bytes) — for selectors the filter rejects (not-found in
    both) and for those it accepts (resolved below the root in both).  Symbolic links are not
    modelled. -/
theorem two_worlds_same_answer (c : SiteCfg) (hc : c.forbidden = Generated.forbidden)
    (W W' : Node) (rootStr : Str) (anc anc' : List Node) (kids : List (Str × Node))
    (hroot : kwalk [] W (splitOn 47 rootStr) = some (anc, .dir kids))
    (hroot' : kwalk [] W' (splitOn 47 rootStr) = some (anc', .dir kids))
    (sel : Str) (hh : sel.head? = some 47) :
    dispatch c (kstat W rootStr) sel = dispatch c (kstat W' rootStr) sel ∧
    serve c (kstat W rootStr) sel = serve c (kstat W' rootStr) sel := by
  by_cases hs : secure sel = true
  · have e1 := resolution_confined W rootStr anc kids hroot sel hh hs
    have e2 := resolution_confined W' rootStr anc' kids hroot' sel hh hs
    have g1 := gophermap_probe_confined W rootStr anc kids hroot sel hh hs
    have g2 := gophermap_probe_confined W' rootStr anc' kids hroot' sel hh hs
    have hd : dispatch c (kstat W rootStr) sel = dispatch c (kstat W' rootStr) sel := by
      unfold dispatch
      rw [e1, e2, g1, g2]
    exact ⟨hd, by unfold serve; rw [hd, e1, e2]⟩
  · have hns : secureB c.forbidden sel = false := by
      rw [hc]; simpa [secure] using hs
    -- rejected by the filter: not-found, or (a `URL:` selector) the redirect page — either way without a look at the file system
    have hd : ∀ st : StatFn, dispatch c st sel = if (c.url && urlSecureB c.urlForbidden sel) = true then .url else .notFound := by
      intro st; unfold dispatch
      by_cases hu : (c.url && urlSecureB c.urlForbidden sel) = true <;> simp [hu, hns]
    refine ⟨by rw [hd, hd], ?_⟩
    unfold serve
    rw [hd, hd]
    by_cases hu : (c.url && urlSecureB c.urlForbidden sel) = true <;> simp [hu]

/-- sidecar extensions of the shipped configuration carry no separator and are at least three characters long -/
theorem shipped_eaexts_ok : ∀ e ∈ Generated.eaexts, ExtOk e.1 := by
  intro e he
  have : ∀ e ∈ Generated.eaexts, (!e.1.contains 47 && decide (3 ≤ e.1.length)) = true := by decide
  have h := this e he
  simp only [Bool.and_eq_true, Bool.not_eq_true', decide_eq_true_eq] at h
  exact ⟨fun hm => by simp [List.contains_iff_mem, hm] at h, h.2⟩

/-- **Two worlds, one listing.**  For every configuration with the shipped filter and sidecar
    tables, every pair of file systems `W`, `W'` in which the configured root path leads to the
    same well-formed directory tree, and every selector: the entries of a listing request —
    directory walk, link files, `.cap` overrides, sidecar abstracts, gophermap lines populated
    from the file system — are the same.  Nothing the listing code asks the file system about
    lies outside the root.  (Core handler chain; symbolic links are not modelled.) -/
theorem two_worlds_same_listing (c : SiteCfg) (hc : c.forbidden = Generated.forbidden) (he : c.eaexts = Generated.eaexts)
    (W W' : Node) (rootStr : Str) (anc anc' : List Node) (kids : List (Str × Node))
    (hroot : kwalk [] W (splitOn 47 rootStr) = some (anc, .dir kids))
    (hroot' : kwalk [] W' (splitOn 47 rootStr) = some (anc', .dir kids))
    (hwf : (Node.dir kids).wf = true) (sel : Str) (hh : sel.head? = some 47) :
    siteEntries c (kstat W rootStr) sel = siteEntries c (kstat W' rootStr) sel := by
  have hdd : [46,46] ∈ c.forbidden := by rw [hc]; exact dotdot_forbidden
  have hnul : [0] ∈ c.forbidden := by rw [hc]; exact nul_forbidden
  have hext : ∀ e ∈ c.eaexts, ExtOk e.1 := by rw [he]; exact shipped_eaexts_ok
  have key : ∀ (V : Node) (a : List Node), kwalk [] V (splitOn 47 rootStr) = some (a, .dir kids) →
      siteEntries c (statAt (.dir kids)) sel = siteEntries c (kstat V rootStr) sel :=
    fun V a hr => siteEntries_congr (agree_statAt_kstat V rootStr a kids hr) (rootNotFile_statAt kids) c hdd hnul hext
      (fun p ks hp => statAt_names_valid _ hwf p ks hp) sel hh
  rw [← key W anc hroot, ← key W' anc' hroot']

/-- a selector the filter rejects is answered not-found, whatever the file system holds -/
theorem insecure_is_notfound (c : SiteCfg) (hc : c.forbidden = Generated.forbidden) (st : StatFn) (sel : Str)
    (hs : secure sel = false) (hu : (c.url && urlSecureB c.urlForbidden sel) = false) : serve c st sel = .notFound := by
  have hns : secureB c.forbidden sel = false := by rw [hc]; simpa [secure] using hs
  unfold serve dispatch
  simp [hns, hu]

/-- a `URL:` selector the URL handler claims is answered with the redirect page for that URL and
    nothing else: no path is derived from it, nothing is looked up -/
theorem url_selector_never_touches_the_file_system (c : SiteCfg) (st st' : StatFn) (sel : Str)
    (hu : (c.url && urlSecureB c.urlForbidden sel) = true) :
    serve c st sel = .generated (emit (urlRedirectSegs (urlOfSelector sel))) ∧ serve c st sel = serve c st' sel := by
  have hd : ∀ s : StatFn, dispatch c s sel = .url := by intro s; unfold dispatch; simp [hu]
  refine ⟨by unfold serve; rw [hd], by unfold serve; rw [hd, hd]⟩

/-! ### non-vacuity and sharpness -/

/-- the hypotheses of `two_worlds_same_listing` are satisfiable: a well-formed root holding a link file, a `.cap` directory and a sidecar -/
example : (Node.dir [(lit "a.txt", .file [104, 105]), (lit ".names", .file []), (lit ".cap", .dir [(lit "a.txt", .file [])]),
    (lit "a.txt.abstract", .file [120]), (lit "sub dir", .dir [])]).wf = true := by decide +kernel

/-- a world with a secret next to the root: the climbing path reaches it in the kernel's
    resolution (`kstat` without the filter), and the filter is what answers not-found -/
example :
    let W : Node := .dir [(lit "srv", .dir [(lit "root", .dir [(lit "a.txt", .file [104, 105])]), (lit "secret", .file [115])])]
    ((kwalk [] W (splitOn 47 (lit "/srv/root"))).bind (·.2.names)) = some [lit "a.txt"] ∧
    (kstat W (lit "/srv/root") (lit "/a.txt")).bind Node.fileData = some [104, 105] ∧
    (kstat W (lit "/srv/root") (lit "/../secret")).bind Node.fileData = some [115] ∧
    secure (lit "/../secret") = false := by decide +kernel


example : secure (lit "/a.b/c d/~x") = true := by decide
example : secure (lit "/a/../b") = false := by decide
example : secure (lit "/a\\\\b") = false := by decide
/-- without the hypothesis the conclusion fails: `..` climbs out -/
example : ¬ (norm [lit "root"] <+: norm ([lit "root"] ++ splitOn 47 (lit "/../etc"))) := by decide

end Pyg.Props.C01
