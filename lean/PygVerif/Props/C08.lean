import PygVerif.Generated
import PygVerif.Model.Umn
import PygVerif.Lemmas.Str
import PygVerif.Lemmas.LinkFile
/-!
# C08 — UMN link files, .cap overrides and abstracts have their documented effect
-/
namespace Pyg.Props.C08
open Pyg

/-! ### the comparator is the documented order -/

/-- class of an entry: 0 = positive number, 1 = unnumbered (or 0), 2 = negative -/
def cls (e : Entry) : Nat := if e.num.getD 0 > 0 then 0 else if e.num.getD 0 = 0 then 1 else 2

theorem strLt_false_iff (a b : Str) : strLt b a = false ↔ strLe a b = true := by
  unfold strLt
  constructor
  · intro h
    rcases strLe_total a b with h1 | h1
    · exact h1
    · simp only [h1, Bool.true_and, bne_eq_false_iff_eq] at h
      subst h; exact strLe_refl _
  · intro h
    cases h1 : strLe b a with
    | false => simp
    | true => simp [strLe_antisymm b a h1 h]

theorem cmpStr_le (a b : Str) : cmpStr a b ≤ 0 ↔ strLe a b = true := by
  unfold cmpStr
  cases h : strLe a b with
  | true =>
    have h1 : strLt b a = false := (strLt_false_iff a b).mpr h
    simp only [h1, Bool.false_eq_true, if_false, iff_true]
    split <;> omega
  | false =>
    have h1 : strLt b a = true := by
      cases hb : strLt b a with
      | true => rfl
      | false => rw [(strLt_false_iff a b).mp hb] at h; exact absurd h (by simp)
    have h2 : strLt a b = false := by simp [strLt, h]
    simp [h1, h2]

/-- `entrycmp a b ≤ 0` is exactly: lexicographic on (class, number within the class, title) -/
theorem entryLe_iff (a b : Entry) (na nb : Str) (ha : a.name = some na) (hb : b.name = some nb) :
    entryLe a b = true ↔
      (cls a < cls b ∨ (cls a = cls b ∧ (a.num.getD 0 < b.num.getD 0 ∨
        (a.num.getD 0 = b.num.getD 0 ∧ strLe na nb = true)))) := by
  unfold entryLe entrycmp
  simp only [ha, hb, decide_eq_true_eq]
  have hc := cmpStr_le na nb
  unfold cls cmpInt sgn
  generalize a.num.getD 0 = x at *
  generalize b.num.getD 0 = y at *
  generalize cmpStr na nb = k at *
  grind

def Named (e : Entry) : Prop := ∃ n, e.name = some n

theorem entryLe_total (a b : Entry) (ha : Named a) (hb : Named b) : entryLe a b = true ∨ entryLe b a = true := by
  obtain ⟨na, ha⟩ := ha
  obtain ⟨nb, hb⟩ := hb
  rw [entryLe_iff a b na nb ha hb, entryLe_iff b a nb na hb ha]
  rcases Nat.lt_trichotomy (cls a) (cls b) with h | h | h
  · exact Or.inl (Or.inl h)
  · rcases Int.lt_trichotomy (a.num.getD 0) (b.num.getD 0) with h' | h' | h'
    · exact Or.inl (Or.inr ⟨h, Or.inl h'⟩)
    · rcases strLe_total na nb with h'' | h''
      · exact Or.inl (Or.inr ⟨h, Or.inr ⟨h', h''⟩⟩)
      · exact Or.inr (Or.inr ⟨h.symm, Or.inr ⟨h'.symm, h''⟩⟩)
    · exact Or.inr (Or.inr ⟨h.symm, Or.inl h'⟩)
  · exact Or.inr (Or.inl h)

theorem entryLe_trans (a b c : Entry) (ha : Named a) (hb : Named b) (hc : Named c)
    (h1 : entryLe a b = true) (h2 : entryLe b c = true) : entryLe a c = true := by
  obtain ⟨na, ha⟩ := ha
  obtain ⟨nb, hb⟩ := hb
  obtain ⟨nc, hc⟩ := hc
  rw [entryLe_iff a b na nb ha hb] at h1
  rw [entryLe_iff b c nb nc hb hc] at h2
  rw [entryLe_iff a c na nc ha hc]
  rcases h1 with h1 | ⟨e1, h1⟩ <;> rcases h2 with h2 | ⟨e2, h2⟩
  · exact Or.inl (Nat.lt_trans h1 h2)
  · exact Or.inl (e2 ▸ h1)
  · exact Or.inl (e1 ▸ h2)
  · refine Or.inr ⟨e1.trans e2, ?_⟩
    rcases h1 with h1 | ⟨n1, s1⟩ <;> rcases h2 with h2 | ⟨n2, s2⟩
    · exact Or.inl (Int.lt_trans h1 h2)
    · exact Or.inl (n2 ▸ h1)
    · exact Or.inl (n1 ▸ h2)
    · exact Or.inr ⟨n1.trans n2, strLe_trans _ _ _ s1 s2⟩

/-- the order relation the manual describes, on named entries -/
def Before (a b : Entry) : Prop :=
  cls a < cls b ∨ (cls a = cls b ∧ (a.num.getD 0 < b.num.getD 0 ∨
    (a.num.getD 0 = b.num.getD 0 ∧ ∃ na nb, a.name = some na ∧ b.name = some nb ∧ strLe na nb = true)))

/-- **Numbered entries first in numeric order, then unnumbered ones by title, then negative
    ones.** For every list of named entries the sorted listing is pairwise in that order.
    (Stated through a total version of the comparator on named entries; `mergeSort` only ever
    compares members of the list.) -/
theorem order_blocks (l : List Entry) (hn : ∀ e ∈ l, Named e) :
    (l.mergeSort entryLe).Pairwise Before := by
  -- work on the subtype of named entries, where the comparator is a total preorder
  let S := { e : Entry // Named e }
  let le : S → S → Bool := fun a b => entryLe a.1 b.1
  have htr : ∀ a b c : S, le a b = true → le b c = true → le a c = true :=
    fun a b c => entryLe_trans a.1 b.1 c.1 a.2 b.2 c.2
  have hto : ∀ a b : S, (le a b || le b a) = true := by
    intro a b; rcases entryLe_total a.1 b.1 a.2 b.2 with h | h <;> simp [le, h]
  let ls : List S := l.attach.map fun x => ⟨x.1, hn x.1 x.2⟩
  have hmap : ls.map Subtype.val = l := by
    simp [ls, List.map_map, Function.comp_def]
  have hsort : (ls.mergeSort le).map Subtype.val = l.mergeSort entryLe := by
    have := List.map_mergeSort (f := Subtype.val) (r := le) (s := entryLe) (l := ls)
      (fun a _ b _ => rfl)
    rw [this, hmap]
  have hp := List.pairwise_mergeSort (le := le) htr hto ls
  rw [← hsort, List.pairwise_map]
  refine hp.imp ?_
  intro a b hab
  obtain ⟨na, hna⟩ := a.2
  obtain ⟨nb, hnb⟩ := b.2
  have := (entryLe_iff a.1 b.1 na nb hna hnb).mp hab
  rcases this with h | ⟨h1, h2⟩
  · exact Or.inl h
  · refine Or.inr ⟨h1, ?_⟩
    rcases h2 with h2 | ⟨h2, h3⟩
    · exact Or.inl h2
    · exact Or.inr ⟨h2, na, nb, hna, hnb, h3⟩

theorem sort_is_permutation (l : List Entry) : (l.mergeSort entryLe).Perm l := List.mergeSort_perm l entryLe

/-! ### overrides touch only the fields they set -/

/-- **Override only what is set.** Merging a link block into a file's entry replaces exactly
    the fields the block sets (the path always being set), and keeps every other field. -/
theorem override_only_set (old new : Entry) (hea : new.ea = []) :
    let m := mergeEntries old new
    m.selector = new.selector ∧
    m.type = (if new.type.isSome then new.type else old.type) ∧
    m.name = (if new.name.isSome then new.name else old.name) ∧
    m.host = (if new.host.isSome then new.host else old.host) ∧
    m.port = (if new.port.isSome then new.port else old.port) ∧
    m.num = (if new.num.isSome then new.num else old.num) ∧
    m.mimetype = old.mimetype ∧ m.size = old.size ∧ m.mtime = old.mtime ∧ m.gplus = old.gplus ∧ m.ea = old.ea := by
  simp only [mergeEntries, hea, List.foldl_nil]
  cases h1 : new.type <;> cases h2 : new.name <;> cases h3 : new.host <;> cases h4 : new.port <;>
    cases h5 : new.num <;> simp [Option.orElse]

/-- a block that sets nothing but the path leaves the number alone (the F20 regression) -/
theorem number_survives_unrelated_override (old new : Entry) (hn : new.num = none) :
    (mergeEntries old new).num = old.num := by
  have : ∀ (l : List (Str × Str)) (e : Entry),
      (l.foldl (fun e kv => { e with ea := eaSet e.ea kv.1 kv.2 }) e).num = e.num := by
    intro l
    induction l with
    | nil => intro e; rfl
    | cons kv r ih => intro e; simp only [List.foldl_cons]; rw [ih]
  simp [mergeEntries, this, hn]

/-- link entries start with the number unset -/
theorem fresh_link_unnumbered (d : Str) (cap : Option Str) : (freshLink d cap).le.e.num = none := by
  cases cap <;> rfl

/-! ### new entries vs merges vs hiding -/

/-- **A block whose Path does not start with `./` adds a new entry** and leaves every
    directory entry as it was. -/
theorem adds_new (l : LinkEntry) (ls : List LinkEntry) (es : List (Nat × Str × Option Entry))
    (h : l.needsmerge = false) (nm : Str) (hn : l.e.name = some nm) :
    mergeLinks (l :: ls) es = mergeLinks ls (es ++ [(es.length, [], some l.e)]) := by
  simp [mergeLinks, h, hn]

/-- a block that names nothing adds nothing (any subset of the lines is a well-formed block: one
    without `Name=` cannot be listed, and the listing goes on without it) -/
theorem nameless_block_adds_nothing (l : LinkEntry) (ls : List LinkEntry) (es : List (Nat × Str × Option Entry))
    (h : l.needsmerge = false) (hn : l.e.name = none) :
    mergeLinks (l :: ls) es = mergeLinks ls es := by
  simp [mergeLinks, h, hn]

/-- **No arrangement of link blocks can fail the merge**: whatever the blocks say — two blocks
    hiding the same file, a block for a file that is already hidden, blocks for files that do
    not exist — merging them into the directory's entries yields a list. -/
theorem merge_total (ls : List LinkEntry) : ∀ es : List (Nat × Str × Option Entry), (mergeLinks ls es).isSome = true := by
  induction ls with
  | nil => intro es; rfl
  | cons l ls ih =>
    intro es
    unfold mergeLinks
    split
    · split
      · exact ih _
      · exact ih _
    · split
      · split
        · exact ih _
        · exact ih _
      · split
        · exact ih _
        · exact ih _

/-- a hide block (`Type=X` or `Type=-`, `./` path) for a file that is not among the directory's
    entries changes nothing: the listing is the one without the block -/
theorem hide_absent_is_noop (l : LinkEntry) (ls : List LinkEntry) (es : List (Nat × Str × Option Entry))
    (hm : l.needsmerge = true) (hx : l.e.type = some (lit "X") ∨ l.e.type = some (lit "-"))
    (habs : es.reverse.find? (fun x => x.2.1 == l.e.selector && !x.2.1.isEmpty) = none) :
    mergeLinks (l :: ls) es = mergeLinks ls es := by
  have hh : l.hides = true := by
    unfold LinkEntry.hides
    rcases hx with hx | hx <;> simp [hx]
  simp [mergeLinks, hm, habs, hh]

/-- **`Type=X` or `Type=-` in a `./` block hides the file**: the entry with that selector is
    taken out, every other entry stays as it is -/
theorem block_hides (l : LinkEntry) (ls : List LinkEntry) (es : List (Nat × Str × Option Entry)) (i : Nat) (t : Str) (o : Option Entry)
    (hm : l.needsmerge = true) (hx : l.e.type = some (lit "X") ∨ l.e.type = some (lit "-"))
    (hf : es.reverse.find? (fun x => x.2.1 == l.e.selector && !x.2.1.isEmpty) = some (i, t, o)) :
    mergeLinks (l :: ls) es = mergeLinks ls (es.map fun x => if x.1 == i then (x.1, x.2.1, none) else x) := by
  have hh : l.hides = true := by
    unfold LinkEntry.hides
    rcases hx with hx | hx <;> simp [hx]
  simp [mergeLinks, hm, hf, hh]

/-- hiding marks exactly the entry with the given tag and leaves the others as they are;
    hiding it again changes nothing -/
theorem hide_idempotent (i : Nat) (es : List (Nat × Str × Option Entry)) :
    let hide := fun (x : Nat × Str × Option Entry) => if x.1 == i then (x.1, x.2.1, (none : Option Entry)) else x
    (es.map hide).map hide = es.map hide := by
  intro hide
  rw [List.map_map]
  apply List.map_congr_left
  intro x _
  simp only [Function.comp, hide]
  by_cases h : (x.1 == i) = true <;> simp [h]

/-- `.cap` with `Type=X` or `Type=-` hides the file -/
theorem cap_hides (c : DirCfg) (hu : c.umn = true) (d base : Str) (ch : Child) (e0 : Entry) (isf : Bool)
    (ls : List Str) (ci : LinkEntry) (rest : List LinkEntry)
    (he : ch.entry = some (e0, isf)) (hc : ch.cap = some ls)
    (hx : ci.e.type = some (lit "X") ∨ ci.e.type = some (lit "-"))
    (hp : ∀ sel, processLinkFile d base (some sel) (ls.length + 1) ls = some (ci :: rest)) :
    childEntry c d base ch = some none := by
  unfold childEntry
  simp only [he, hu, Bool.not_true, Bool.false_eq_true, if_false, hc, hp]
  rcases hx with hx | hx <;> simp [hx]

/-! ### the link-file reader on the manual's own examples (executable spot checks) -/

/-- the sample `.Links` entry of the manual: all five keys, `+` for host and port -/
example : processLinkFile (lit "/dir") (lit "/dir") none 10
    [lit "# a comment\n", lit "Name=Cheese Ball Recipes\n", lit "Numb=1\n", lit "Type=1\n", lit "Port=+\n",
     lit "Path=/Moo/Cheesy\n", lit "Host=+\n", lit "\n",
     lit "Name=relative one\n", lit "Path=sub/../x\n", lit "Type=0\n"] =
  some [{ e := { selector := lit "/Moo/Cheesy", name := some (lit "Cheese Ball Recipes"), num := some 1, type := some (lit "1") } },
        { e := { selector := lit "/dir/x", name := some (lit "relative one"), num := none, type := some (lit "0") },
          needsabspath := true }] := by decide +kernel

/-- a `.names` block: `./` path merges, abstract continuation lines are joined -/
example : processLinkFile (lit "/dir") (lit "/dir") none 10
    [lit "Path=./file.txt\n", lit "Name=A better name\n", lit "Abstract=first \\\n", lit "  second\n", lit "Numb=-2\n"] =
  some [{ e := { selector := lit "/dir/file.txt", name := some (lit "A better name"), num := some (-2),
                 ea := [(lit "ABSTRACT", lit "first \nsecond")] }, needsmerge := true }] := by decide +kernel

/-- two link blocks hiding the same file: the file is hidden, the other entries are listed
    (before repo commit 9bb6c87 the second block raised `ValueError` and the directory was not
    listed at all) -/
example :
    let hideA : LinkEntry := { e := { selector := lit "/d/a", type := some (lit "X"), num := none }, needsmerge := true }
    (mergeLinks [hideA, hideA] [(0, lit "/d/a", some { selector := lit "/d/a" }), (1, lit "/d/b", some { selector := lit "/d/b" })]).map
      (·.filterMap (·.2.2)) = some [{ selector := lit "/d/b" }] := by decide +kernel

/-- a `.cap` file: the path is the file's own selector -/
example : processLinkFile (lit "/dir") (lit "/dir") (some (lit "/dir/f")) 10 [lit "Name=Capped\n", lit "Type=X\n"] =
  some [{ e := { selector := lit "/dir/f", name := some (lit "Capped"), type := some (lit "X"), num := none } }] := by
  decide +kernel

/-! ### the reader refines the documented file format (Lemmas/LinkFile)

A link file given as data — blocks of `Key=value` lines (`Umn.Field`), each block closed by a blank
line — and the reader run on its text. -/

open Pyg.Umn in
/-- `int(str(n)) == n`: numbers written in a `Port=` or `Numb=` line are read back as written -/
theorem number_lines_round_trip (n : Int) : parseInt? (toDecInt n) = some n := parseInt_toDecInt n

open Pyg.Umn in
/-- one well-formed line has exactly its own field's effect on the entry being built -/
theorem line_applies_its_field (base : Str) (fuel : Nat) (st : LinkState) (f : Field) (hf : f.Ok) (rest : List Str)
    (hc : ∀ v, f = .comment v → st.donePath = false) :
    getLinkItem base (fuel + 1) st ((f.text ++ [10]) :: rest) = getLinkItem base fuel (f.apply base st) rest :=
  getLinkItem_field base fuel st f hf rest hc

open Pyg.Umn in
/-- **the reader refines the block reading**: for every list of blocks of well-formed lines, reading
    the rendered file gives, in file order, the entry of each block that has a `Path=` — each block
    read from a fresh entry (no state crosses the blank line), with any fuel above the block count -/
theorem linkfile_reader_refines_blocks (dirSel base : Str) (bs : List (List Field))
    (hbs : ∀ b ∈ bs, ∀ f ∈ b, f.Ok) (hwp : ∀ b ∈ bs, WellPlaced false b) (fuel : Nat) (hfuel : bs.length < fuel) :
    processLinkFile dirSel base none fuel (renderFile bs) = some (bs.filterMap (blockEntry dirSel base none)) :=
  processLinkFile_blocks dirSel base bs hbs hwp fuel hfuel

open Pyg.Umn in
/-- the fuel the directory handler's model passes (`lines + 1`) is enough -/
theorem linkfile_reader_fuel_suffices (dirSel base : Str) (bs : List (List Field))
    (hbs : ∀ b ∈ bs, ∀ f ∈ b, f.Ok) (hwp : ∀ b ∈ bs, WellPlaced false b) :
    processLinkFile dirSel base none ((renderFile bs).length + 1) (renderFile bs) =
      some (bs.filterMap (blockEntry dirSel base none)) := by
  apply processLinkFile_blocks dirSel base bs hbs hwp
  clear hwp
  induction bs with
  | nil => simp
  | cons b bs ih =>
    have := ih (fun b' hb' => hbs b' (by simp [hb']))
    rw [renderFile_cons, List.length_append, renderBlock_length]
    simp only [List.length_cons]; omega

open Pyg.Umn in
/-- a `.cap` file is one block about its own file -/
theorem cap_file_is_one_block (dirSel base sel : Str) (fs : List Field) (hfs : ∀ f ∈ fs, f.Ok)
    (hw : WellPlaced true fs) (fuel : Nat) :
    processLinkFile dirSel base (some sel) (fuel + 1) (renderFields fs) =
      some ((blockEntry dirSel base (some sel) fs).toList) :=
  processLinkFile_cap dirSel base sel fs hfs hw fuel

open Pyg.Umn in
/-- a block without `Path=` in a `.Links` file yields nothing; one in a `.cap` file always yields its entry -/
theorem block_needs_path (dirSel base : Str) (fs : List Field) (h : ∀ f ∈ fs, f.key ≠ 3) :
    blockEntry dirSel base none fs = none := by
  unfold blockEntry finishEntry
  have : ∀ st : LinkState, st.donePath = false → (applyAll base st fs).donePath = false := by
    induction fs with
    | nil => intro st hst; simpa [applyAll] using hst
    | cons f fs ih =>
      intro st hst
      have hf := h f (by simp)
      have : (f.apply base st).donePath = false := by
        cases f <;> simp [Field.key] at hf <;> simpa [Field.apply] using hst
      simpa [applyAll] using ih (fun g hg => h g (by simp [hg])) _ this
  simp [this (freshLink dirSel none) (by simp [freshLink])]

open Pyg.Umn in
/-- inside a block the order of lines means nothing as long as no two different lines set the same
    key: every rearrangement of such a block gives the same entry -/
theorem field_order_irrelevant (dirSel base : Str) (cap : Option Str) (fs gs : List Field) (hp : fs.Perm gs)
    (hk : ∀ f ∈ fs, ∀ g ∈ fs, f ≠ g → f.key ≠ g.key ∨ f.key = 0 ∨ g.key = 0) :
    blockEntry dirSel base cap fs = blockEntry dirSel base cap gs := by
  unfold blockEntry applyAll
  congr 1
  apply List.Perm.foldl_eq' hp
  intro x hx y hy z
  by_cases hxy : x = y
  · subst hxy; rfl
  · rcases hk x hx y hy hxy with h | h | h
    · exact apply_comm base z x y (Or.inl h)
    · exact apply_comm base z x y (Or.inr h)
    · exact (apply_comm base z y x (Or.inr h)).symm

open Pyg.Umn in
/-- of two lines with the same key (other than `Path=`, which also raises flags, and `Abstract=`, whose empty value
    sets nothing) the later one counts -/
theorem later_line_wins (base : Str) (st : LinkState) (f g : Field) (h : f.key = g.key) (h0 : f.key ≠ 0)
    (hp : f.key ≠ 3) (ha : f.key ≠ 7) : g.apply base (f.apply base st) = g.apply base st :=
  apply_later_wins base st f g h h0 hp ha

open Pyg.Umn in
/-- through the directory handler: a dot file of a UMN directory that passes the ignore pattern contributes exactly the
    entries of its blocks, in file order -/
theorem link_file_member_contributes_its_blocks (c : DirCfg) (hu : c.umn = true) (dirSel base : Str) (ch : Child)
    (hdot : ch.name.head? = some 46) (hnd : ch.isDir = false) (hig : reSearch c.ignore (base ++ [47] ++ ch.name) = false)
    (bs : List (List Field)) (hbs : ∀ b ∈ bs, ∀ f ∈ b, f.Ok) (hwp : ∀ b ∈ bs, WellPlaced false b)
    (hl : ch.lines = some (renderFile bs)) :
    linksOf c dirSel base ch = some (bs.filterMap (blockEntry dirSel base none)) := by
  unfold linksOf
  simp only [hu, hig, hdot, hnd, hl, Bool.not_false, Bool.and_self, decide_true, if_true]
  exact linkfile_reader_fuel_suffices dirSel base bs hbs hwp

open Pyg.Umn in
/-- through the directory handler: a `.cap` file of well-formed lines overrides exactly the fields its lines set
    (`mergeEntries` with the block's entry), or hides the file when it says `Type=X` / `Type=-` -/
theorem cap_file_overrides_by_its_fields (c : DirCfg) (hu : c.umn = true) (hx : c.extstrip = lit "none") (dirSel base : Str)
    (ch : Child) (e0 : Entry) (isf : Bool) (he : ch.entry = some (e0, isf))
    (fs : List Field) (hfs : ∀ f ∈ fs, f.Ok) (hw : WellPlaced true fs) (hc : ch.cap = some (renderFields fs)) :
    ∃ ci, blockEntry dirSel base (some e0.selector) fs = some ci ∧
      childEntry c dirSel base ch =
        (if ci.e.type == some (lit "X") || ci.e.type == some (lit "-") then some none
         else some (some (mergeEntries e0 ci.e))) := by
  have hd := applyAll_keeps_path base fs (freshLink dirSel (some e0.selector)) (by simp [freshLink])
  obtain ⟨ci, hci⟩ : ∃ ci, blockEntry dirSel base (some e0.selector) fs = some ci := by
    unfold blockEntry finishEntry; simp [hd]
  refine ⟨ci, hci, ?_⟩
  unfold childEntry
  have hp := cap_file_is_one_block dirSel base e0.selector fs hfs hw (renderFields fs).length
  simp only [he, hu, hx, hc, Bool.not_true, Bool.false_eq_true, if_false, bne_self_eq_false, Bool.false_and, hp, hci,
    Option.toList_some]

open Pyg.Umn in
/-- the manual's sample entry is such a file (the hypotheses are met and the text is the manual's) -/
example :
    let b1 : List Field := [.comment (lit " a comment"), .name (lit "Cheese Ball Recipes"), .numb 1, .type 49, .portPlus,
                            .path (lit "/Moo/Cheesy"), .hostPlus]
    let b2 : List Field := [.name (lit "relative one"), .path (lit "sub/../x"), .type 48, .abstract (lit "About x")]
    renderFile [b1, b2] =
      [lit "# a comment\n", lit "Name=Cheese Ball Recipes\n", lit "Numb=1\n", lit "Type=1\n", lit "Port=+\n", lit "Path=/Moo/Cheesy\n",
       lit "Host=+\n", lit "\n", lit "Name=relative one\n", lit "Path=sub/../x\n", lit "Type=0\n", lit "Abstract=About x\n", lit "\n"] ∧
    WellPlaced false b1 ∧ WellPlaced false b2 ∧
    [b1, b2].filterMap (blockEntry (lit "/dir") (lit "/dir") none) =
      [{ e := { selector := lit "/Moo/Cheesy", name := some (lit "Cheese Ball Recipes"), num := some 1, type := some (lit "1") } },
       { e := { selector := lit "/dir/x", name := some (lit "relative one"), num := none, type := some (lit "0"),
                ea := [(lit "ABSTRACT", lit "About x")] },
         needsabspath := true }] := by
  refine ⟨by decide +kernel, by simp [WellPlaced], by simp [WellPlaced], by decide +kernel⟩


end Pyg.Props.C08
