import PygVerif.Model.Zip
import PygVerif.Lemmas.ZipTree
import PygVerif.Lemmas.ZipSite
import PygVerif.Props.C01
/-!
# C16 — ZIP archives are transparent

Theorems about the archive index of `Model/Zip` (tied to the real `VFSZip` by the
correspondence check): symbolic-link members resolve only to nodes of the index; the flat
node map behaves like a dictionary; for link-free, conflict-free archives every member path
walks to itself with the right kind and every proper prefix is a directory; what the archive
serves is a function of the member list alone.
-/
namespace Pyg.Props.C16
open Pyg Pyg.Zip

/-! ### the node map is a dictionary -/

theorem find_setNode_same (nodes : List (Path × Zip.Kind)) (p : Path) (k : Zip.Kind) :
    ((setNode nodes p k).find? (·.1 = p)).map (·.2) = some k := by
  induction nodes with
  | nil => simp [setNode]
  | cons x r ih =>
    simp only [setNode]
    by_cases hx : x.1 = p
    · simp [hx]
    · simp [hx, List.find?_cons, ih]

theorem find_setNode_other (nodes : List (Path × Zip.Kind)) (p q : Path) (k : Zip.Kind) (hne : q ≠ p) :
    (setNode nodes p k).find? (·.1 = q) = nodes.find? (·.1 = q) := by
  induction nodes with
  | nil => simp [setNode, hne.symm]
  | cons x r ih =>
    simp only [setNode]
    by_cases hx : x.1 = p
    · have : ¬ x.1 = q := fun e => hne (e.symm.trans hx)
      simp [hx, hne.symm, this, List.find?_cons]
    · by_cases hq : x.1 = q
      · rw [if_neg hx]; simp [hq]
      · rw [if_neg hx]; simp [hq, ih]

theorem kind_setNode (ix : Index) (p q : Path) (k : Zip.Kind) (hp : p ≠ []) :
    ({ ix with nodes := setNode ix.nodes p k } : Index).kind? q =
      if q = p then some k else ix.kind? q := by
  unfold Index.kind?
  by_cases hq : q = []
  · subst hq
    have : ¬ ([] : Path) = p := fun e => hp e.symm
    simp [this]
  · simp only [hq, if_false]
    by_cases hqp : q = p
    · subst hqp; simp [find_setNode_same]
    · simp [hqp, find_setNode_other _ _ _ _ hqp]

theorem addDir_keeps (nodes : List (Path × Zip.Kind)) (p q : Path) (k : Zip.Kind)
    (h : (nodes.find? (·.1 = q)).map (·.2) = some k) :
    ((addDirIfAbsent nodes p).find? (·.1 = q)).map (·.2) = some k := by
  unfold addDirIfAbsent
  split
  · exact h
  · rw [List.find?_append]
    cases hf : nodes.find? (·.1 = q) with
    | none => simp [hf] at h
    | some x => simpa [hf] using h

theorem addDir_present (nodes : List (Path × Zip.Kind)) (p : Path) :
    ((addDirIfAbsent nodes p).find? (·.1 = p)).isSome = true := by
  unfold addDirIfAbsent
  split
  · assumption
  · rename_i h
    have : nodes.find? (·.1 = p) = none := by
      cases hf : nodes.find? (·.1 = p) with
      | none => rfl
      | some x => simp [hf] at h
    simp [List.find?_append, this]

/-- `ensureDirs` never changes a path that already exists, and only ever adds directories -/
theorem ensureDirs_keeps (nodes : List (Path × Zip.Kind)) (pre cs : Path) (q : Path) (k : Zip.Kind)
    (h : (nodes.find? (·.1 = q)).map (·.2) = some k) :
    ((ensureDirs nodes pre cs).find? (·.1 = q)).map (·.2) = some k := by
  induction cs generalizing nodes pre with
  | nil => exact h
  | cons c r ih =>
    simp only [ensureDirs]
    exact ih _ _ (addDir_keeps nodes _ q k h)

theorem ensureDirs_head_present (nodes : List (Path × Zip.Kind)) (pre : Path) (c : Str) (r : Path) :
    ((ensureDirs nodes pre (c :: r)).find? (·.1 = pre ++ [c])).isSome = true := by
  simp only [ensureDirs]
  have hp := addDir_present nodes (pre ++ [c])
  obtain ⟨y, hy⟩ := Option.isSome_iff_exists.mp hp
  have := ensureDirs_keeps (addDirIfAbsent nodes (pre ++ [c])) (pre ++ [c]) r (pre ++ [c]) y.2 (by simp [hy])
  cases hf : (ensureDirs (addDirIfAbsent nodes (pre ++ [c])) (pre ++ [c]) r).find? (·.1 = pre ++ [c]) with
  | none => rw [hf] at this; simp at this
  | some z => rfl

/-- after `ensureDirs`, every non-empty prefix `pre ++ take (i+1) cs` exists -/
theorem ensureDirs_creates (nodes : List (Path × Zip.Kind)) (pre cs : Path) (i : Nat) (hi : i < cs.length) :
    ((ensureDirs nodes pre cs).find? (·.1 = pre ++ cs.take (i + 1))).isSome = true := by
  induction cs generalizing nodes pre i with
  | nil => simp at hi
  | cons c r ih =>
    cases i with
    | zero =>
      have e : pre ++ (c :: r).take (0 + 1) = pre ++ [c] := by simp
      rw [e]; exact ensureDirs_head_present nodes pre c r
    | succ j =>
      have := ih (addDirIfAbsent nodes (pre ++ [c])) (pre ++ [c]) j (by simpa using hi)
      have e : pre ++ (c :: r).take (j + 1 + 1) = pre ++ [c] ++ r.take (j + 1) := by
        simp [List.take_succ_cons, List.append_assoc]
      rw [e]; simpa only [ensureDirs] using this

/-! ### symbolic links resolve only to other members -/

/-- every alias target is a node of the index (or the root) -/
def AliasOk (ix : Index) : Prop := ∀ lt ∈ ix.aliases, (ix.kind? lt.2).isSome = true

theorem walk_lands_on_node (ix : Index) (hok : AliasOk ix) (cs cur p : Path)
    (hcur : (ix.kind? cur).isSome = true) (h : Zip.walk ix cur cs = some p) : (ix.kind? p).isSome = true := by
  induction cs generalizing cur with
  | nil => simp only [Zip.walk, Option.some.injEq] at h; rw [← h]; exact hcur
  | cons c r ih =>
    simp only [Zip.walk] at h
    split at h
    · simp at h
    · cases ha : ix.alias? (cur ++ [c]) with
      | some t =>
        simp only [ha] at h
        refine ih t ?_ h
        unfold Index.alias? at ha
        cases hf : ix.aliases.find? (·.1 = cur ++ [c]) with
        | none => simp [hf] at ha
        | some lt =>
          simp only [hf, Option.map_some, Option.some.injEq] at ha
          rw [← ha]
          exact hok lt (List.mem_of_find?_eq_some hf)
      | none =>
        simp only [ha] at h
        split at h
        · rename_i hs; exact ih _ hs h
        · simp at h

theorem lookup_lands_on_node (ix : Index) (hok : AliasOk ix) (s : Str) (p : Path) (h : lookup ix s = some p) :
    (ix.kind? p).isSome = true := by
  unfold lookup at h
  split at h
  · simp only [Option.some.injEq] at h; subst h; simp [Index.kind?]
  · exact walk_lands_on_node ix hok _ [] p (by simp [Index.kind?]) h

theorem kind_alias_irrelevant (ix : Index) (a : List (Path × Path)) (p : Path) :
    ({ ix with aliases := a } : Index).kind? p = ix.kind? p := rfl

theorem resolvePass_ok (pend : List Pending) : ∀ (ix : Index), AliasOk ix → ∀ ix' rest,
    resolvePass ix pend = some (ix', rest) → AliasOk ix' ∧ ix'.nodes = ix.nodes := by
  induction pend with
  | nil => intro ix hok ix' rest h; simp only [resolvePass, Option.some.injEq, Prod.mk.injEq] at h; rw [← h.1]; exact ⟨hok, rfl⟩
  | cons p ps ih =>
    intro ix hok ix' rest h
    simp only [resolvePass] at h
    cases hd : destOf p with
    | none => simp only [hd] at h; exact ih ix hok ix' rest h
    | some d =>
      simp only [hd] at h
      cases hl : lookup ix d with
      | some target =>
        simp only [hl] at h
        have hok' : AliasOk { ix with aliases := (p.loc, target) :: ix.aliases } := by
          intro lt hlt
          simp only [List.mem_cons] at hlt
          rcases hlt with rfl | hlt
          · exact lookup_lands_on_node ix hok d target hl
          · exact hok lt hlt
        obtain ⟨a, b⟩ := ih _ hok' ix' rest h
        exact ⟨a, b⟩
      | none =>
        simp only [hl] at h
        cases hr : resolvePass ix ps with
        | none => simp [hr] at h
        | some pr =>
          obtain ⟨ix2, rest2⟩ := pr
          simp only [hr, Option.map_some, Option.some.injEq, Prod.mk.injEq] at h
          obtain ⟨a, b⟩ := ih ix hok ix2 rest2 hr
          rw [← h.1]; exact ⟨a, b⟩

theorem resolveAll_ok (fuel : Nat) : ∀ (ix : Index) (pend : List Pending), AliasOk ix → ∀ ix',
    resolveAll fuel ix pend = some ix' → AliasOk ix' ∧ ix'.nodes = ix.nodes := by
  induction fuel with
  | zero => intro ix pend hok ix' h; simp only [resolveAll, Option.some.injEq] at h; rw [← h]; exact ⟨hok, rfl⟩
  | succ n ih =>
    intro ix pend hok ix' h
    simp only [resolveAll] at h
    split at h
    · simp only [Option.some.injEq] at h; rw [← h]; exact ⟨hok, rfl⟩
    · cases hr : resolvePass ix pend with
      | none => simp [hr] at h
      | some pr =>
        obtain ⟨ix2, rest⟩ := pr
        simp only [hr] at h
        obtain ⟨a, b⟩ := resolvePass_ok pend ix hok ix2 rest hr
        split at h
        · simp only [Option.some.injEq] at h; rw [← h]; exact ⟨a, b⟩
        · obtain ⟨c, d⟩ := ih ix2 rest a ix' h
          exact ⟨c, d.trans b⟩

/-- **Symbolic links inside the archive resolve only to other members.** In the finished
    index every link entry points at a node the scan of the member list created (or at the
    archive root); resolution never adds, removes or changes a node; unresolvable (dangling,
    cyclic, climbing) links contribute nothing. -/
theorem links_resolve_inside (ms : List Member) (ix : Index) (h : buildIndex ms = some ix) :
    AliasOk ix ∧ ix.nodes = (ms.foldl scanMember ({}, [])).1.nodes := by
  unfold buildIndex at h
  have hscan : ∀ (st : Index × List Pending) (l : List Member), st.1.aliases = [] → (l.foldl scanMember st).1.aliases = [] := by
    intro st l
    induction l generalizing st with
    | nil => intro h; exact h
    | cons m r ih =>
      intro h0
      apply ih
      obtain ⟨ix0, pend0⟩ := st
      simp only [scanMember]
      split <;> (try split) <;> simpa using h0
  have h0 : AliasOk (ms.foldl scanMember ({}, [])).1 := by
    intro lt hlt
    rw [hscan ({}, []) ms rfl] at hlt
    simp at hlt
  exact resolveAll_ok _ _ _ h0 ix h

/-- what a link can resolve to is decided by the member list alone: a path through a link
    lands on a node of the index -/
theorem lookup_through_links_lands_inside (ms : List Member) (ix : Index) (h : buildIndex ms = some ix)
    (s : Str) (p : Path) (hl : lookup ix s = some p) : (ix.kind? p).isSome = true :=
  lookup_lands_on_node ix (links_resolve_inside ms ix h).1 s p hl

/-! ### plain look-ups: a walk without links follows the node map -/

theorem walk_plain (ix : Index) (hal : ix.aliases = []) (cur rest : Path)
    (hdirs : ∀ i, i < rest.length → ix.kind? (cur ++ rest.take i) = some .dir)
    (hall : ∀ i, i < rest.length → (ix.kind? (cur ++ rest.take (i + 1))).isSome = true) :
    Zip.walk ix cur rest = some (cur ++ rest) := by
  induction rest generalizing cur with
  | nil => simp [Zip.walk]
  | cons c r ih =>
    have hd0 := hdirs 0 (by simp)
    simp only [List.take_zero, List.append_nil] at hd0
    have ha : ix.alias? (cur ++ [c]) = none := by simp [Index.alias?, hal]
    have hn := hall 0 (by simp)
    simp only [List.take_succ_cons, List.take_zero] at hn
    simp only [Zip.walk, hd0, bne_self_eq_false, Bool.false_eq_true, if_false, ha, hn, if_true]
    rw [ih (cur ++ [c])]
    · simp
    · intro i hi
      have := hdirs (i + 1) (by simpa using hi)
      simpa [List.take_succ_cons, List.append_assoc] using this
    · intro i hi
      have := hall (i + 1) (by simpa using hi)
      simpa [List.take_succ_cons, List.append_assoc] using this

/-- **A member is found at its own path.** In an index without link entries, if every proper
    prefix of `p` is a directory node and `p` is a node, the walk for `p` succeeds at `p`:
    the archive shows the member where the extracted tree would. -/
theorem member_found_at_its_path (ix : Index) (hal : ix.aliases = []) (p : Path)
    (hdirs : ∀ i, i < p.length → ix.kind? (p.take i) = some .dir) (hp : (ix.kind? p).isSome = true) :
    Zip.walk ix [] p = some p := by
  have := walk_plain ix hal [] p (by simpa using hdirs) (by
    intro i hi
    by_cases hlast : i + 1 = p.length
    · simpa [hlast] using hp
    · have := hdirs (i + 1) (by omega)
      simp [this])
  simpa using this

/-- a path below a file does not exist (files have no children) -/
theorem nothing_below_a_file (ix : Index) (cur : Path) (o : Str) (c : Str) (cs : Path)
    (h : ix.kind? cur = some (.file o)) : Zip.walk ix cur (c :: cs) = none := by
  simp [Zip.walk, h]

/-! ### handlers that need a real file never act on archive members -/

/-- the guard of the mailbox, PYG and exec handlers is an exact type test; a VFS is either the
    real one or an archive, and only the real one passes -/
inductive VfsKind | real | zip deriving DecidableEq

def realOnlyGuard : VfsKind → Bool
  | .real => true
  | .zip => false

theorem realonly_reject : realOnlyGuard .zip = false := rfl

/-! non-vacuity: the three-member archive of finding F19, in the order that used to fail -/
example : (buildIndex [⟨lit "dir/file.txt", lit "dir/file.txt", false, []⟩,
                       ⟨lit "link2", lit "link2", true, lit "link1/file.txt"⟩,
                       ⟨lit "link1", lit "link1", true, lit "dir"⟩]).map
    (fun ix => (kindAt ix (lit "link2"), kindAt ix (lit "link1/file.txt"), listdir ix (lit "link1"))) =
  some (some (.file (lit "dir/file.txt")), some (.file (lit "dir/file.txt")), some [lit "file.txt"]) := by
  decide +kernel
/-- a dangling and a self-referential link are simply absent -/
example : (buildIndex [⟨lit "a", lit "a", false, []⟩, ⟨lit "d", lit "d", true, lit "nowhere"⟩,
                       ⟨lit "s", lit "s", true, lit "s"⟩]).map (fun ix => listdir ix []) = some (some [lit "a"]) := by
  decide +kernel

/-! ### browsing the archive is browsing the tree it stands for -/

/-- every name of a directory leads somewhere: `listdir` gives exactly the member names of the tree -/
theorem names_lead_somewhere (ix : Index) (p : Path) (c : Str) (h : c ∈ names ix p) : (child ix p c).isSome = true := by
  unfold names at h
  rw [List.mem_eraseDups, List.mem_append] at h
  have key : ∀ (q : Path), q.dropLast = p ∧ q ≠ [] → q.getLast? = some c → q = p ++ [c] := by
    intro q hq hl
    rcases List.eq_nil_or_concat q with h0 | ⟨l, a, rfl⟩
    · exact absurd h0 hq.2
    · have h1 : l = p := by simpa using hq.1
      have h2 : a = c := by simpa using hl
      rw [h1, h2]; simp
  unfold child
  rcases h with h | h
  · rw [List.mem_filterMap] at h
    obtain ⟨⟨q, k⟩, hm, hq⟩ := h
    by_cases hc : q.dropLast = p ∧ q ≠ []
    · simp only [] at hq
      rw [if_pos hc] at hq
      have hqe := key q hc hq
      subst hqe
      cases ix.alias? (p ++ [c]) with
      | some t => rfl
      | none =>
        have : (ix.kind? (p ++ [c])).isSome = true := by
          unfold Index.kind?
          have hne : p ++ [c] ≠ [] := by simp
          simp only [hne, if_false, Option.isSome_map]
          rw [List.find?_isSome]
          exact ⟨(p ++ [c], k), hm, by simp⟩
        simp [this]
    · simp [hc] at hq
  · rw [List.mem_filter, List.mem_filterMap] at h
    obtain ⟨⟨⟨q, t⟩, hm, hq⟩, _⟩ := h
    by_cases hc : q.dropLast = p ∧ q ≠ []
    · simp only [] at hq
      rw [if_pos hc] at hq
      have hqe := key q hc hq
      subst hqe
      have : (ix.alias? (p ++ [c])).isSome = true := by
        unfold Index.alias?
        rw [Option.isSome_map, List.find?_isSome]
        exact ⟨(p ++ [c], t), hm, by simp⟩
      cases ha : ix.alias? (p ++ [c]) with
      | some t' => rfl
      | none => rw [ha] at this; simp at this
    · simp [hc] at hq

theorem map_fst_filterMap (l : List Str) (h : Str → Option Path) (g : Path → Node) (hall : ∀ c ∈ l, (h c).isSome = true) :
    (l.filterMap fun n => (h n).map fun t => (n, g t)).map (·.1) = l := by
  induction l with
  | nil => rfl
  | cons n ns ih =>
    have hn := hall n (by simp)
    cases hh : h n with
    | none => rw [hh] at hn; simp at hn
    | some t =>
      simp only [List.filterMap_cons, hh, Option.map_some, List.map_cons]
      rw [ih (fun c hc => hall c (by simp [hc]))]

/-- a directory node of the index is a directory of the tree with exactly the names `listdir` gives, in that order -/
theorem toTree_dir (ix : Index) (data : Str → Bytes) (f : Nat) (t : Path) (h : ix.kind? t = some .dir) :
    (toTree ix data (f + 1) t).names = some (names ix t) := by
  unfold toTree
  simp only [h, Node.names]
  rw [map_fst_filterMap _ _ _ (fun c hc => names_lead_somewhere ix t c hc)]

/-- a file node of the index is a file of the tree holding the member's bytes -/
theorem toTree_file (ix : Index) (data : Str → Bytes) (f : Nat) (t : Path) (o : Str) (h : ix.kind? t = some (.file o)) :
    toTree ix data (f + 1) t = .file (data o) := by
  unfold toTree; simp [h]

/-- **Browsing into the archive is browsing the tree it stands for** (`T`, the index unfolded
    deeper than the path is long — what extracting the archive puts on disk, with every resolved
    link standing for its destination).  For every archive-internal path whose components are
    neither empty nor `.`: where `VFSZip` finds nothing the tree has nothing (same not-found
    answers); where it finds a directory the tree has a directory whose member names are what
    `listdir` returns, in the same order (same listings); where it finds a file member the tree
    has a file with that member's bytes (same documents).  Resolved links are followed exactly
    as the kernel follows them in the extracted tree (`lwalk` descends into the destination). -/
theorem archive_answers_as_extracted_tree (ix : Index) (data : Str → Bytes) (s : Str) (hs : s ≠ [])
    (hclean : ∀ c ∈ splitOn 47 s, c ≠ [] ∧ c ≠ [46]) (fuel : Nat) (hf : (splitOn 47 s).length + 1 < fuel) :
    match lookup ix s with
    | none => lwalk (toTree ix data fuel []) (splitOn 47 s) = none
    | some t => ∃ n, lwalk (toTree ix data fuel []) (splitOn 47 s) = some n ∧
        (ix.kind? t = some .dir → n.names = some (names ix t)) ∧
        (∀ o, ix.kind? t = some (.file o) → n = .file (data o)) := by
  have hw := Zip.lwalk_toTree ix data (splitOn 47 s) fuel [] (by omega) hclean
  have hl : lookup ix s = Zip.walk ix [] (splitOn 47 s) := by
    unfold lookup
    have : s.isEmpty = false := by cases s with | nil => exact absurd rfl hs | cons _ _ => rfl
    simp [this]
  rw [hl]
  cases hwk : Zip.walk ix [] (splitOn 47 s) with
  | none => rw [hwk] at hw; simpa using hw
  | some t =>
    rw [hwk] at hw
    simp only [Option.map_some] at hw
    obtain ⟨k, hk⟩ : ∃ k, fuel - (splitOn 47 s).length = k + 1 := ⟨fuel - (splitOn 47 s).length - 1, by omega⟩
    rw [hk] at hw
    exact ⟨_, hw, fun hd => toTree_dir ix data k t hd, fun o ho => toTree_file ix data k t o ho⟩

theorem filterMap_congr' {α β : Type} (l : List α) (f g : α → Option β) (h : ∀ x ∈ l, f x = g x) :
    l.filterMap f = l.filterMap g := by
  induction l with
  | nil => rfl
  | cons a as ih =>
    simp only [List.filterMap_cons, h a (by simp)]
    rw [ih (fun x hx => h x (by simp [hx]))]

/-- **A link-free archive stands for one finite tree.**  If no member path is longer than `D`,
    unfolding deeper than `D + 1` changes nothing: `toTree ix data (D + 1) []` is *the* extracted
    tree, and `archive_answers_as_extracted_tree` holds for it at every depth (`k` levels suffice
    below a node at depth `p.length` once `p.length + k > D`). -/
theorem toTree_saturates (ix : Index) (data : Str → Bytes) (hal : ix.aliases = []) (D : Nat)
    (hD : ∀ q ∈ ix.nodes, q.1.length ≤ D) :
    ∀ (k f : Nat) (p : Path), D + 1 ≤ p.length + k → k ≤ f → toTree ix data f p = toTree ix data k p := by
  intro k
  induction k with
  | zero =>
    intro f p hp _
    cases f with
    | zero => rfl
    | succ f =>
      have hne : p ≠ [] := by intro h; subst h; simp at hp
      have hk : ix.kind? p = none := by
        unfold Index.kind?
        simp only [hne, if_false, Option.map_eq_none_iff, List.find?_eq_none]
        intro x hx hxe
        have h1 := hD x hx
        have h2 : x.1 = p := by simpa using hxe
        rw [h2] at h1
        omega
      unfold toTree; simp [hk]
  | succ k ih =>
    intro f p hp hkf
    cases f with
    | zero => omega
    | succ f =>
      unfold toTree
      cases hk : ix.kind? p with
      | none => rfl
      | some kd =>
        cases kd with
        | file o => rfl
        | dir =>
          simp only
          congr 1
          apply filterMap_congr'
          intro c _
          unfold child Index.alias?
          simp only [hal, List.find?_nil, Option.map_none]
          by_cases h2 : (ix.kind? (p ++ [c])).isSome = true
          · simp only [h2, if_true, Option.map_some]
            rw [ih f (p ++ [c]) (by simp; omega) (by omega)]
          · simp [h2]

/-- non-vacuity of the saturation hypothesis, and the unfolding is indeed stable there -/
example : (buildIndex [⟨lit "dir/file.txt", lit "dir/file.txt", false, []⟩, ⟨lit "a", lit "a", false, []⟩]).map
    (fun ix => (ix.aliases.isEmpty, ix.nodes.all (fun q => decide (q.1.length ≤ 2)),
      (lwalk (toTree ix (fun o => o) 3 []) [lit "dir", lit "file.txt"]).bind Node.fileData,
      (lwalk (toTree ix (fun o => o) 9 []) [lit "dir", lit "file.txt"]).bind Node.fileData)) =
  some (true, true, some (lit "dir/file.txt"), some (lit "dir/file.txt")) := by
  decide +kernel

/-- selectors that are not below the archive are not the archive's to answer: the view hands
    them to the underlying file system unchanged (an absolute selector in a gophermap member
    means the site's object, as it does once the archive is extracted) -/
theorem outside_selectors_are_the_file_systems (ix : Index) (data : Str → Bytes) (fuel : Nat) (zipSel : Str)
    (chain : StatFn) (sel : Str) (h : inArchive zipSel sel = false) :
    zipStat ix data fuel zipSel chain sel = chain sel := by
  unfold zipStat; simp [h]

/-- and no member can answer for them, whatever its name: the answer does not depend on the index -/
theorem outside_selectors_ignore_the_members (ix ix' : Index) (data data' : Str → Bytes) (fuel fuel' : Nat) (zipSel : Str)
    (chain : StatFn) (sel : Str) (h : inArchive zipSel sel = false) :
    zipStat ix data fuel zipSel chain sel = zipStat ix' data' fuel' zipSel chain sel := by
  rw [outside_selectors_are_the_file_systems _ _ _ _ _ _ h, outside_selectors_are_the_file_systems _ _ _ _ _ _ h]

/-- a selector that merely starts with the archive's name (`/a.zipper/x`, or `/outside/data.txt`
    of the same length) is not below it -/
example : inArchive (lit "/a.zip") (lit "/a.zipper/x") = false ∧ inArchive (lit "/a.zip") (lit "/other/ta.txt") = false ∧
    inArchive (lit "/a.zip") (lit "/a.zip") = true ∧ inArchive (lit "/a.zip") (lit "/a.zip/ta.txt") = true := by decide

/-- non-vacuity: an archive with a link, browsed through the link, as a tree -/
example : (buildIndex [⟨lit "dir/file.txt", lit "dir/file.txt", false, []⟩,
                       ⟨lit "link1", lit "link1", true, lit "dir"⟩]).map
    (fun ix => ((lwalk (toTree ix (fun o => o) 4 []) [lit "link1", lit "file.txt"]).bind Node.fileData,
                (lwalk (toTree ix (fun o => o) 4 []) [lit "link1"]).bind Node.names,
                (toTree ix (fun o => o) 4 []).names)) =
  some (some (lit "dir/file.txt"), some [lit "file.txt"], some [lit "dir", lit "link1"]) := by
  decide +kernel

/-! ### same listings, same documents, same not-found answers -/

/-- **Browsing into the archive is browsing the extracted tree — through the handlers.**
    `T = toTree ix data F []` is the tree the archive stands for (`hsat`: saturated, as
    `toTree_saturates` shows for link-free archives); `R` is a document root holding `T` at
    the archive's selector `Z`, and equal to the underlying file system elsewhere.  For every
    good selector (`/a/b/c`), every configuration and sidecar table:

    * the same handler claims it (`dispatch`), so the same not-found answers;
    * the same document bytes are served (`serve`);
    * a plain directory listing has the same entries — members, their types, sizes, names,
      sidecar abstracts, `.cap` overrides and link files all come out of the same `Child`
      records (`siteEntries`, whatever `dirListing` does with them). -/
theorem archive_browsing_equals_extracted_tree (ix : Index) (data : Str → Bytes) (F : Nat)
    (hsat : ∀ f t, F ≤ f → toTree ix data f t = toTree ix data F t)
    (Z : Str) (hZ : Good Z) (R : Node) (hR : lwalk R (splitOn 47 Z) = some (toTree ix data F []))
    (chain : StatFn) (hout : ∀ p, Good p → inArchive Z p = false → chain p = treeStat R p)
    (c : SiteCfg) (hext : ∀ e ∈ c.eaexts, ExtOk e.1)
    (hnames : ∀ p ks, zipStat ix data F Z chain p = some (.dir ks) → ∀ nk ∈ ks, validName nk.1 = true)
    (sel : Str) (hs : Good sel) :
    dispatch c (zipStat ix data F Z chain) sel = dispatch c (treeStat R) sel ∧
    serve c (zipStat ix data F Z chain) sel = serve c (treeStat R) sel ∧
    (dispatch c (zipStat ix data F Z chain) sel = .dir →
      siteEntries c (zipStat ix data F Z chain) sel = siteEntries c (treeStat R) sel) := by
  have hag := zip_view_agrees ix data F hsat Z hZ R hR chain hout
  exact ⟨dispatchG hag c sel hs, serveG hag c sel hs, fun hd => dirEntriesG hag c hext hnames sel hs hd⟩

/-- the same for link-free archives, whose tree needs no saturation hypothesis: it is `toTree … (D + 1) []`
    for any bound `D` on the length of member paths -/
theorem linkfree_archive_browsing_equals_extracted_tree (ix : Index) (data : Str → Bytes) (hal : ix.aliases = []) (D : Nat)
    (hD : ∀ q ∈ ix.nodes, q.1.length ≤ D)
    (Z : Str) (hZ : Good Z) (R : Node) (hR : lwalk R (splitOn 47 Z) = some (toTree ix data (D + 1) []))
    (chain : StatFn) (hout : ∀ p, Good p → inArchive Z p = false → chain p = treeStat R p)
    (c : SiteCfg) (hext : ∀ e ∈ c.eaexts, ExtOk e.1)
    (hnames : ∀ p ks, zipStat ix data (D + 1) Z chain p = some (.dir ks) → ∀ nk ∈ ks, validName nk.1 = true)
    (sel : Str) (hs : Good sel) :
    dispatch c (zipStat ix data (D + 1) Z chain) sel = dispatch c (treeStat R) sel ∧
    serve c (zipStat ix data (D + 1) Z chain) sel = serve c (treeStat R) sel ∧
    (dispatch c (zipStat ix data (D + 1) Z chain) sel = .dir →
      siteEntries c (zipStat ix data (D + 1) Z chain) sel = siteEntries c (treeStat R) sel) :=
  archive_browsing_equals_extracted_tree ix data (D + 1)
    (fun f t hf => toTree_saturates ix data hal D hD (D + 1) f t (by omega) hf) Z hZ R hR chain hout c hext hnames sel hs

/-- the view `treeStat` is `VFS_Real.stat` for every selector `os.fsencode` accepts -/
theorem treeStat_is_statAt (R : Node) (sel : Str) (h : (encodeSE sel).isSome = true) : statAt R sel = treeStat R sel := by
  unfold statAt treeStat
  have : (encodeSE sel).isNone = false := by cases he : encodeSE sel <;> simp_all
  simp [this]

/-- non-vacuity: `/a.zip/dir/file.txt` is a good selector below the good archive selector `/a.zip` -/
example : Good (lit "/a.zip") ∧ Good (lit "/a.zip/dir/file.txt") ∧ inArchive (lit "/a.zip") (lit "/a.zip/dir/file.txt") = true := by
  refine ⟨⟨by decide, by decide, by decide⟩, ⟨by decide, by decide, by decide⟩, by decide⟩

end Pyg.Props.C16
