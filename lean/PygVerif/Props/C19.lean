import PygVerif.Generated
/-!
# C19 — Privileges are dropped completely and in the right order at start-up

`Generated.initTable` is produced on every run by *executing* `/repo`'s
`initialization.initialize` under substituted privileged calls, for all 16
(tls, chroot, setuid, setgid) combinations, every fault position and eight failure classes
(`PermissionError`, `FileNotFoundError`, `KeyError`, `ssl.SSLError`, `RuntimeError`, a private
`OSError` subclass, and `EAGAIN` / `EINTR` that persist when the step is tried again): a handler that
tolerates or retries one class of failure changes the table.  `table_agrees`
is the correspondence, checked by the kernel: a reordered, swallowed or added call in the
code changes the table and this theorem stops compiling.  The remaining theorems are about
the model `Init.run`, for every configuration and every fault position (unbounded index).
-/
namespace Pyg.Props.C19
open Pyg.Init

/-- the code, executed on every point of its finite domain, behaves exactly as the model -/
theorem table_agrees : Pyg.Generated.initTable = Pyg.Init.table := by decide +kernel

/-- ... and does so wherever it is started from: from the document root, from below it, or from a
    sibling directory whose path merely starts with the root's path, `chroot` is followed by
    `chdir("/")` like from anywhere else (the executed rows equal the model's, which has no notion
    of a start directory) -/
theorem start_directory_irrelevant : Pyg.Generated.initTableCwd = Pyg.Init.cwdTable := by decide +kernel

theorem started_anywhere_chdir_follows_chroot :
    ∀ r ∈ Pyg.Generated.initTableCwd, followedBy .chroot .chdirRoot r.trace = true := by
  rw [start_directory_irrelevant]; decide +kernel

theorem mem_allCfgs (c : Cfg) : c ∈ allCfgs := by
  rcases c with ⟨t, r, u, g⟩
  cases t <;> cases r <;> cases u <;> cases g <;> decide

theorem plan_length_le (c : Cfg) : (plan c).length ≤ 9 := by
  have : ∀ c ∈ allCfgs, (plan c).length ≤ 9 := by decide
  exact this c (mem_allCfgs c)

/-- every trace of the model is a prefix `take n` of the plan -/
theorem trace_is_prefix (c : Cfg) (f : Option Nat) : ∃ n, (run c f).trace = (plan c).take n := by
  unfold run
  cases f with
  | none => exact ⟨(plan c).length, by simp⟩
  | some i =>
    by_cases h : i < (plan c).length
    · exact ⟨i + 1, by simp [h]⟩
    · exact ⟨(plan c).length, by simp [h]⟩

/-- lift a decidable property of all short prefixes of every plan to every trace -/
theorem lift (P : Cfg → List Call → Bool)
    (h : ∀ c ∈ allCfgs, ∀ n ∈ List.range 10, P c ((plan c).take n) = true) (c : Cfg)
    (f : Option Nat) : P c (run c f).trace = true := by
  obtain ⟨n, hn⟩ := trace_is_prefix c f
  rw [hn]
  by_cases hlt : n < 10
  · exact h c (mem_allCfgs c) n (List.mem_range.mpr hlt)
  · have h9 := h c (mem_allCfgs c) 9 (by decide)
    have hl := plan_length_le c
    rw [List.take_of_length_le (by omega)]
    rw [List.take_of_length_le (by omega)] at h9
    exact h9

/-- **Bind and keys first.** In every execution (any options, any fault position), the
    listening socket is bound — and, with TLS enabled, the key pair loaded, even before the
    bind — before any privilege is given up. -/
theorem bind_and_keys_first (c : Cfg) (f : Option Nat) :
    let t := (run c f).trace
    before .bind .chroot t ∧ before .bind .setgroups t ∧ before .bind .setregid t ∧
    before .bind .setreuid t ∧
    (c.tls → before .loadKeys .chroot t ∧ before .loadKeys .setgroups t ∧
      before .loadKeys .setregid t ∧ before .loadKeys .setreuid t ∧ before .loadKeys .bind t) := by
  have key := lift (fun c t =>
    before .bind .chroot t && before .bind .setgroups t && before .bind .setregid t &&
    before .bind .setreuid t &&
    (!c.tls || (before .loadKeys .chroot t && before .loadKeys .setgroups t &&
      before .loadKeys .setregid t && before .loadKeys .setreuid t && before .loadKeys .bind t)))
    (by decide) c f
  simp only [Bool.and_eq_true, Bool.or_eq_true, Bool.not_eq_true'] at key
  refine ⟨key.1.1.1.1, key.1.1.1.2, key.1.1.2, key.1.2, ?_⟩
  intro ht
  rcases key.2 with h | h
  · rw [ht] at h; exact absurd h (by simp)
  · exact ⟨h.1.1.1.1, h.1.1.1.2, h.1.1.2, h.1.2, h.2⟩

/-- **Order of the drop.** With chroot configured, chroot and the move of the working
    directory precede every id change; supplementary groups are cleared before the group or
    the user is changed; with a group configured, the group is changed before the user. -/
theorem drop_order (c : Cfg) (f : Option Nat) :
    let t := (run c f).trace
    (c.chroot → before .chroot .setgroups t ∧ before .chroot .setregid t ∧ before .chroot .setreuid t ∧
      before .chdirRoot .setgroups t ∧ before .chdirRoot .setregid t ∧ before .chdirRoot .setreuid t) ∧
    before .setgroups .setregid t ∧ before .setgroups .setreuid t ∧
    (c.setgid → before .setregid .setreuid t) := by
  have key := lift (fun c t =>
    (!c.chroot || (before .chroot .setgroups t && before .chroot .setregid t && before .chroot .setreuid t &&
      before .chdirRoot .setgroups t && before .chdirRoot .setregid t && before .chdirRoot .setreuid t)) &&
    before .setgroups .setregid t && before .setgroups .setreuid t &&
    (!c.setgid || before .setregid .setreuid t)) (by decide) c f
  simp only [Bool.and_eq_true, Bool.or_eq_true, Bool.not_eq_true'] at key
  refine ⟨?_, key.1.1.2, key.1.2, ?_⟩
  · intro hc
    rcases key.1.1.1 with h | h
    · rw [hc] at h; exact absurd h (by simp)
    · exact ⟨h.1.1.1.1.1, h.1.1.1.1.2, h.1.1.1.2, h.1.1.2, h.1.2, h.2⟩
  · intro hg
    rcases key.2 with h | h
    · rw [hg] at h; exact absurd h (by simp)
    · exact h

/-- **chroot is complete.** When start-up succeeds with chroot configured, the working
    directory is moved to `/` immediately after the chroot and the configured document root
    is rewritten to `/`. -/
theorem chroot_moves_cwd_and_root (c : Cfg) (hc : c.chroot = true) :
    followedBy .chroot .chdirRoot (run c none).trace = true ∧ (run c none).rootSlash = true ∧
    (run c none).raised = false := by
  have : ∀ c ∈ allCfgs, c.chroot = true →
      followedBy .chroot .chdirRoot (run c none).trace = true ∧ (run c none).rootSlash = true ∧
      (run c none).raised = false := by decide
  exact this c (mem_allCfgs c) hc

/-- in any execution in which chroot happened and start-up went on, the very next call is
    the move of the working directory -/
theorem chdir_right_after_chroot (c : Cfg) (f : Option Nat) :
    let t := (run c f).trace
    t.contains .chroot → t.getLast? ≠ some .chroot → followedBy .chroot .chdirRoot t = true := by
  have key := lift (fun _ t =>
    !t.contains .chroot || t.getLast? == some .chroot || followedBy .chroot .chdirRoot t) (by decide) c f
  intro t h1 h2
  simp only [Bool.or_eq_true, Bool.not_eq_true', beq_iff_eq] at key
  rcases key with (h | h) | h
  · rw [h] at h1; exact absurd h1 (by simp)
  · exact absurd h h2
  · exact h

/-- **The drop is complete.** A successful start-up performs every configured step. -/
theorem complete_drop (c : Cfg) :
    let t := (run c none).trace
    (c.chroot → .chroot ∈ t ∧ .chdirRoot ∈ t) ∧ (c.setgid → .setgroups ∈ t ∧ .setregid ∈ t) ∧
    (c.setuid → .setgroups ∈ t ∧ .setreuid ∈ t) := by
  have : ∀ c ∈ allCfgs,
      (c.chroot → .chroot ∈ (run c none).trace ∧ .chdirRoot ∈ (run c none).trace) ∧
      (c.setgid → .setgroups ∈ (run c none).trace ∧ .setregid ∈ (run c none).trace) ∧
      (c.setuid → .setgroups ∈ (run c none).trace ∧ .setreuid ∈ (run c none).trace) := by decide
  exact this c (mem_allCfgs c)

/-- **Abort on failure.** If the `i`-th call fails, start-up raises, the trace ends at that
    call and nothing is executed after it; in particular the server is never returned. -/
theorem abort_on_failure (c : Cfg) (i : Nat) (hi : i < (plan c).length) :
    (run c (some i)).raised = true ∧ (run c (some i)).trace = (plan c).take (i + 1) ∧
    (run c (some i)).trace.length = i + 1 := by
  simp [run, hi]; omega

theorem no_fault_completes (c : Cfg) : (run c none).raised = false ∧ (run c none).trace = plan c := by
  simp [run]

/-- no call outside the model's vocabulary (or with unexpected arguments) occurs in the code's table -/
theorem no_unexpected_calls : ∀ r ∈ Pyg.Generated.initTable, Call.other ∉ r.2.trace := by
  rw [table_agrees]; decide +kernel

/-- corollary on the *code's* table: every row of the executed table satisfies the order -/
theorem code_rows_ordered : ∀ kr ∈ Pyg.Generated.initTable,
    let r := kr.2
    before .bind .chroot r.trace ∧ before .bind .setreuid r.trace ∧ before .setgroups .setregid r.trace ∧
    before .setgroups .setreuid r.trace ∧ (r.cfg.setgid → before .setregid .setreuid r.trace) ∧
    (r.cfg.chroot → before .chdirRoot .setreuid r.trace ∧ before .chdirRoot .setregid r.trace) ∧
    (r.fault ≠ none → r.raised = true) := by
  decide +kernel

/-- **Whatever the failure's class.** Every row of the executed table, under each of the six
    injected failure classes, is the model's `run` of its configuration and fault position: the
    class of the exception makes no difference to what start-up does (it stops). -/
theorem fault_class_irrelevant : ∀ kr ∈ Pyg.Generated.initTable, kr.1 < nClasses ∧ kr.2 = run kr.2.cfg kr.2.fault := by
  rw [table_agrees]; decide +kernel

/-! non-vacuity -/
example : (run ⟨true, true, true, true⟩ none).trace =
    [.loadKeys, .bind, .getpwnam, .getgrnam, .chroot, .chdirRoot, .setgroups, .setregid, .setreuid] := by decide
example : (run ⟨false, true, false, true⟩ (some 2)).trace = [.bind, .getgrnam, .chroot] ∧
    (run ⟨false, true, false, true⟩ (some 2)).raised = true := by decide
example : 400 ≤ Pyg.Generated.initTable.length := by decide +kernel

end Pyg.Props.C19
