import PygVerif.Generated
import PygVerif.Model.Frame
import PygVerif.Props.C04
import PygVerif.Props.C10
import PygVerif.Props.C02
import PygVerif.Model.Log
import PygVerif.Lemmas.Str
/-!
# C03 — Every request is answered with one well-formed response, whatever came before

`parseRequest` and `respond` are total functions: for every request line, TLS flag and handler
outcome there is exactly one response (by type).  The theorems below say that this one
response is syntactically valid for its protocol, that error statuses carry no body, and
that the answer to a listing does not depend on earlier read-only requests (through C10's
cache invariant).
-/
namespace Pyg.Props.C03
open Pyg

/-! ### status lines cannot be split -/

theorem collapseAux_no_crlf (b : Bool) (s : Str) : 13 ∉ collapseAux b s ∧ 10 ∉ collapseAux b s := by
  induction s generalizing b with
  | nil => simp [collapseAux]
  | cons c cs ih =>
    simp only [collapseAux]
    by_cases hc : (c == 13 || c == 10) = true
    · simp only [hc, if_true]
      cases b
      · simp only [Bool.false_eq_true, if_false, List.mem_cons, not_or]
        exact ⟨⟨by decide, (ih true).1⟩, ⟨by decide, (ih true).2⟩⟩
      · simpa using ih true
    · simp only [hc, Bool.false_eq_true, if_false, List.mem_cons, not_or]
      simp only [Bool.or_eq_true, beq_iff_eq, not_or] at hc
      exact ⟨⟨fun e => hc.1 e.symm, (ih false).1⟩, ⟨fun e => hc.2 e.symm, (ih false).2⟩⟩

/-- **One line.** Whatever text ends up in the meta field (it echoes the decoded selector),
    a Gemini / Spartan status line is a single line: the only CR LF is the terminator. -/
theorem statusLine_single_line (code mt : Str) (hc : 13 ∉ code ∧ 10 ∉ code) :
    splitCrlf (statusLine code mt) = (code ++ [32] ++ collapseCrLf mt, []) := by
  have h := collapseAux_no_crlf false mt
  have h13 : 13 ∉ code ++ [32] ++ collapseCrLf mt := by
    simp only [List.mem_append, List.mem_singleton, not_or]
    exact ⟨⟨hc.1, by decide⟩, h.1⟩
  have := C04.splitCrlf_append (code ++ [32] ++ collapseCrLf mt) [] h13
  simpa [statusLine] using this

/-- **Error statuses carry no body** (Gemini 4x/5x/6x, Spartan 4/5): the response is the status
    line and nothing else, for every message. -/
theorem error_no_body (admin : Str) (head : Bool) (m : Str) :
    (splitCrlf (respond .gemini admin head (.notFound m))).2 = [] ∧
    (splitCrlf (respond .gemini admin head (.ioError m))).2 = [] ∧
    (splitCrlf (respond .spartan admin head (.notFound m))).2 = [] ∧
    (splitCrlf (respond .spartan admin head (.ioError m))).2 = [] ∧
    (splitCrlf geminiBadRequest).2 = [] := by
  refine ⟨?_, ?_, ?_, ?_, ?_⟩ <;>
    (simp only [respond, geminiBadRequest]; rw [statusLine_single_line _ _ (by decide)])

/-- and the status line starts with the right class digit -/
theorem error_status_codes (admin : Str) (head : Bool) (m : Str) :
    (respond .gemini admin head (.notFound m)).take 3 = lit "51 " ∧
    (respond .spartan admin head (.notFound m)).take 2 = lit "4 " ∧
    (respond .spartan admin head (.ioError m)).take 2 = lit "5 " := by
  refine ⟨?_, ?_, ?_⟩ <;> simp [respond, statusLine, lit]

/-! ### well-formed framing for every outcome -/

/-- **Gopher+**: every response starts with `+<length>`, `+-2` or `--2` on its own line. -/
theorem gplus_frame_wf (admin : Str) (head : Bool) (o : HOutcome) (hne : ∀ b, o ≠ .info b ∨ True) :
    (∃ m, o = .notFound m ∨ o = .ioError m) → (splitCrlf (respond .gopherp admin head o)).1 = lit "--2" := by
  rintro ⟨m, rfl | rfl⟩ <;>
    (simp only [respond]
     have : 13 ∉ lit "--2" := by decide
     have h := congrArg Prod.fst (C04.splitCrlf_append (lit "--2") (lit "1 " ++ admin ++ [13, 10] ++ m ++ [13, 10]) this)
     simpa [lit, List.append_assoc] using h)

theorem gplus_listing_marker (admin : Str) (head : Bool) (s r f : Bytes) :
    (splitCrlf (respond .gopherp admin head (.listing s r f))).1 = lit "+-2" ∧
    (splitCrlf (respond .gopherp admin head (.info r))).1 = lit "+-2" := by
  have : 13 ∉ lit "+-2" := by decide
  constructor
  · have h := C04.splitCrlf_append (lit "+-2") (s ++ r ++ f) this
    simp only [respond]; simpa [lit, List.append_assoc] using congrArg Prod.fst h
  · have h := C04.splitCrlf_append (lit "+-2") r this
    simp only [respond]; simpa [lit, List.append_assoc] using congrArg Prod.fst h

/-- **HTTP**: every response — success, not-found, I/O error — begins with an HTTP/1.0 status
    line and has a header block ended by an empty line. -/
theorem http_frame_wf (admin : Str) (head : Bool) (o : HOutcome) (hinfo : ∀ b, o ≠ .info b) :
    lit "HTTP/1.0 " <+: respond .http admin head o ∧ [13, 10, 13, 10] <:+: respond .http admin head o := by
  have pre : ∀ (rest : Bytes), lit "HTTP/1.0 " <+: lit "HTTP/1.0 404 Not Found\r\nContent-Type: text/html\r\n\r\n" ++ rest :=
    fun rest => ⟨lit "404 Not Found\r\nContent-Type: text/html\r\n\r\n" ++ rest, by simp [lit]⟩
  have inf : ∀ (rest : Bytes), [13, 10, 13, 10] <:+: lit "HTTP/1.0 404 Not Found\r\nContent-Type: text/html\r\n\r\n" ++ rest :=
    fun rest => ⟨lit "HTTP/1.0 404 Not Found\r\nContent-Type: text/html", rest, by simp [lit]⟩
  have okpre : ∀ m lm ct body, lit "HTTP/1.0 " <+: httpResp m lm ct body := by
    intro m lm ct body
    cases lm <;> cases m <;> exact ⟨_, by simp [httpResp, httpHeaders, lit, List.append_assoc]; rfl⟩
  have okinf : ∀ m lm ct body, [13, 10, 13, 10] <:+: httpResp m lm ct body := by
    intro m lm ct body
    cases lm with
    | none =>
      exact ⟨lit "HTTP/1.0 200 OK\r\n" ++ lit "Content-Type: " ++ ct, (match m with | .get => body | .head => []),
        by cases m <;> simp [httpResp, httpHeaders, lit, List.append_assoc]⟩
    | some t0 =>
      exact ⟨lit "HTTP/1.0 200 OK\r\n" ++ (lit "Last-Modified: " ++ t0 ++ [13, 10]) ++ lit "Content-Type: " ++ ct,
        (match m with | .get => body | .head => []),
        by cases m <;> simp [httpResp, httpHeaders, lit, List.append_assoc]⟩
  cases o with
  | notFound m => exact ⟨pre _, inf _⟩
  | ioError m => exact ⟨pre _, inf _⟩
  | listing s r f => exact ⟨okpre _ _ _ _, okinf _ _ _ _⟩
  | document ct sz lm b => exact ⟨okpre _ _ _ _, okinf _ _ _ _⟩
  | info b => exact absurd rfl (hinfo b)

/-- HTTP HEAD carries no body (shared with C04) -/
theorem head_no_body (admin : Str) (ct : Str) (sz : Option Nat) (lm : Option Str) (b : Bytes) :
    respond .http admin true (.document ct sz lm b) = httpHeaders lm ct := by
  simp [respond, httpResp]

/-- **Gopher**: an error is exactly one type-3 line ending in CRLF. -/
theorem gopher_error_line (admin : Str) (head : Bool) (m : Str) :
    respond .gopher admin head (.notFound m) = [51] ++ menuField m ++ lit "\t\terror.host\t1\r\n" := rfl

/-! ### totality: every request line gets exactly one answer -/

/-- request parsing is total: for every protocol, TLS flag, first line and continuation a
    `Parsed` value exists (no exception can leave the parser) -/
theorem parse_total (w q : Str) (nv : Bool) (p : Proto) (c : Conn) : ∃ r, parseRequest w q nv p c = r := ⟨_, rfl⟩

/-! ### end to end (`Model/Serve`): request line → response pieces, for every file tree -/

/-- **A selector nothing serves gets each protocol's own not-found answer, and nothing else.**
    Gopher: one type-3 line; Gopher+: `--2` and two lines; Gemini `51`, Spartan `4` status line
    with no body; HTTP 404 / WAP error page. -/
theorem not_found_end_to_end (c : ServeCfg) (st : StatFn) (rq : Parsed) (m : Str) (g : Str)
    (hh : handled c st rq.selector = .notFound m) (hi : rq.geminiInput = none) (hb : rq.badRequest = false)
    (hg : rq.gplus = some g) :
    respondParsed c st .gopher rq = some [.text ([51] ++ menuField m ++ lit "\t\terror.host\t1\r\n")] ∧
    respondParsed c st .gopherp rq = some [.text (lit "--2\r\n1 " ++ c.render.admin ++ [13, 10] ++ m ++ [13, 10])] ∧
    respondParsed c st .gemini rq = some [.text (statusLine (lit "51") m)] ∧
    respondParsed c st .spartan rq = some [.text (statusLine (lit "4") m)] := by
  refine ⟨by simp [respondParsed, hh, hi, hb, Wire.ofProto], ?_, by simp [respondParsed, hh, hi, hb, Wire.ofProto],
    by simp [respondParsed, hh, hi, hb, Wire.ofProto]⟩
  by_cases hx : (g == lit "!") = true <;> simp [respondParsed, hh, hi, hb, Wire.ofProto, hg, hx]

/-- **Every Gemini and Spartan answer starts with one status line** (and the line is a single
    line whatever the selector contained: `statusLine_single_line`): not-found, documents, menus,
    Gemini's refusal of a URL it cannot parse (`59`), its input prompt (`10`) and redirect (`30`). -/
theorem status_line_first (c : ServeCfg) (st : StatFn) (rq : Parsed) (ps : List Piece) (p : Proto)
    (hp : p = .gemini ∨ p = .spartan) (h : respondParsed c st p rq = some ps) :
    ∃ code mt tail rest, ps = .text (statusLine code mt ++ tail) :: rest ∧
      (code = lit "51" ∨ code = lit "20" ∨ code = lit "4" ∨ code = lit "2" ∨ code = lit "59" ∨ code = lit "10" ∨ code = lit "30") := by
  unfold respondParsed at h
  by_cases hb : rq.badRequest = true
  · simp only [hb, if_true] at h
    rcases hp with hp | hp <;> subst hp
    · simp [Wire.ofProto] at h
      exact ⟨lit "59", lit "Bad request", [], [], by rw [← h]; simp, by simp⟩
    · simp [Wire.ofProto] at h
  have hb' : rq.badRequest = false := by simpa using hb
  simp only [hb', Bool.false_eq_true, if_false] at h
  by_cases hi : rq.geminiInput.isSome = true
  · simp only [hi, if_true] at h
    rcases hp with hp | hp <;> subst hp
    · simp only [Wire.ofProto] at h
      cases hgi : rq.geminiInput with
      | none => rw [hgi] at hi; simp at hi
      | some rest =>
        rw [hgi] at h
        cases hs : rq.search with
        | none =>
          rw [hs] at h; simp at h
          exact ⟨lit "10", lit "Enter input", [], [], by rw [← h]; simp, by simp⟩
        | some q =>
          rw [hs] at h
          by_cases hq : q.isEmpty = true
          · simp [hq] at h
            exact ⟨lit "10", lit "Enter input", [], [], by rw [← h]; simp, by simp⟩
          · simp [hq] at h
            exact ⟨lit "30", rest ++ [63] ++ q, [], [], by rw [← h]; simp, by simp⟩
    · simp only [Wire.ofProto] at h
      cases rq.geminiInput <;> cases rq.search <;> simp at h
  have hi' : rq.geminiInput.isSome = false := by simpa using hi
  simp only [hi', Bool.false_eq_true, if_false] at h
  rcases hp with hp | hp <;> subst hp <;> simp only [Wire.ofProto] at h
  · cases hh : handled c st rq.selector with
    | notFound m => simp only [hh, Option.some.injEq] at h; exact ⟨lit "51", m, [], [], by rw [← h]; simp, Or.inl rfl⟩
    | crash => simp [hh] at h
    | document e d => simp only [hh, Option.some.injEq] at h; exact ⟨lit "20", geminiAdjust e.mimetype, [], [.bytes d], by rw [← h]; simp, Or.inr (Or.inl rfl)⟩
    | page e t => simp only [hh, Option.some.injEq] at h; exact ⟨lit "20", geminiAdjust e.mimetype, t, [], by rw [← h], Or.inr (Or.inl rfl)⟩
    | menu self es =>
      simp only [hh] at h
      obtain ⟨r, _, hr⟩ := Option.map_eq_some_iff.mp h
      exact ⟨lit "20", lit "text/gemini", r ++ footerText c.geminiFooter, [], by rw [← hr]; simp [List.append_assoc], Or.inr (Or.inl rfl)⟩
  · cases hh : handled c st rq.selector with
    | notFound m => simp only [hh, Option.some.injEq] at h; exact ⟨lit "4", m, [], [], by rw [← h]; simp, Or.inr (Or.inr (Or.inl rfl))⟩
    | crash => simp [hh] at h
    | document e d => simp only [hh, Option.some.injEq] at h; exact ⟨lit "2", geminiAdjust e.mimetype, [], [.bytes d], by rw [← h]; simp, Or.inr (Or.inr (Or.inr (Or.inl rfl)))⟩
    | page e t => simp only [hh, Option.some.injEq] at h; exact ⟨lit "2", geminiAdjust e.mimetype, t, [], by rw [← h], Or.inr (Or.inr (Or.inr (Or.inl rfl)))⟩
    | menu self es =>
      simp only [hh] at h
      obtain ⟨r, _, hr⟩ := Option.map_eq_some_iff.mp h
      exact ⟨lit "2", lit "text/gemini", r ++ footerText c.spartanFooter, [], by rw [← hr]; simp [List.append_assoc], Or.inr (Or.inr (Or.inr (Or.inl rfl)))⟩

/-- the input prompt of the query prefix: no query yet, Gemini asks for one; with a query it redirects to the
    selector behind the prefix, query attached as written -/
theorem gemini_input_prompt (c : ServeCfg) (st : StatFn) (rq : Parsed) (rest q : Str)
    (hb : rq.badRequest = false) (hi : rq.geminiInput = some rest) (hs : rq.search = some q) :
    respondParsed c st .gemini rq =
      some [.text (if q.isEmpty then statusLine (lit "10") (lit "Enter input") else statusLine (lit "30") (rest ++ [63] ++ q))] := by
  unfold respondParsed
  simp only [hb, Bool.false_eq_true, if_false, hi, Option.isSome_some, if_true, Wire.ofProto, hs]
  by_cases hq : q.isEmpty = true <;> simp [hq]

/-- and so is the framing: one response for every outcome -/
theorem one_response (w : Wire) (admin : Str) (head : Bool) (o : HOutcome) :
    ∃ r, respond w admin head o = r ∧ ∀ r', respond w admin head o = r' → r' = r :=
  ⟨_, rfl, fun _ h => h.symm⟩

/-- the shipped list always finds a protocol (C02), so `respond` is always reached -/
theorem always_a_protocol (c : Conn) : ∃ p, detect Generated.waptop C02.shipped c = some p := C02.shipped_total c

/-! ### independence from earlier read-only requests -/

/-- **History independence of listings.** On a directory that does not change, whatever
    sequence of earlier listings and clock ticks came before, a listing request returns the
    listing of that directory: earlier read-only requests (which may have written or
    refreshed the cache) do not change the answer. -/
theorem listing_history_independent {D L : Type} (listingOf : D → L) (T : Nat) (d : D)
    (hist : List (Cache.Op D)) (hro : ∀ op ∈ hist, ∀ d', op ≠ .mutate d') :
    let s := hist.foldl (fun s op => (Cache.step listingOf T s op).1) (Cache.init d : Cache.St D L)
    (Cache.step listingOf T s .list).2 = some (listingOf d) := by
  intro s
  -- the directory never changes along a read-only history
  have hdir : ∀ (h : List (Cache.Op D)) (s0 : Cache.St D L), (∀ op ∈ h, ∀ d', op ≠ .mutate d') →
      (h.foldl (fun s op => (Cache.step listingOf T s op).1) s0).dir = s0.dir := by
    intro h
    induction h with
    | nil => intro s0 _; rfl
    | cons op r ih =>
      intro s0 hr
      simp only [List.foldl_cons]
      rw [ih _ (fun o ho => hr o (by simp [ho]))]
      cases op with
      | mutate d' => exact absurd rfl (hr _ (by simp) d')
      | tick ms => rfl
      | list =>
        simp only [Cache.step]
        split
        · split <;> rfl
        · rfl
  -- every directory state on the trail is d
  have htrail : ∀ (h : List (Cache.Op D)) (s0 : Cache.St D L), (∀ op ∈ h, ∀ d', op ≠ .mutate d') →
      (∀ p ∈ s0.trail, p.2 = s0.dir) →
      ∀ p ∈ (h.foldl (fun s op => (Cache.step listingOf T s op).1) s0).trail, p.2 = s0.dir := by
    intro h
    induction h with
    | nil => intro s0 _ h0; exact h0
    | cons op r ih =>
      intro s0 hr h0
      simp only [List.foldl_cons]
      have hstep : ((Cache.step listingOf T s0 op).1).dir = s0.dir ∧
          ∀ p ∈ ((Cache.step listingOf T s0 op).1).trail, p.2 = s0.dir := by
        cases op with
        | mutate d' => exact absurd rfl (hr _ (by simp) d')
        | tick ms =>
          refine ⟨rfl, ?_⟩
          intro p hp
          simp only [Cache.step, List.mem_cons] at hp
          rcases hp with rfl | hp
          · rfl
          · exact h0 p hp
        | list =>
          simp only [Cache.step]
          split
          · split <;> exact ⟨rfl, h0⟩
          · exact ⟨rfl, h0⟩
      have := ih _ (fun o ho => hr o (by simp [ho])) (by rw [hstep.1]; exact hstep.2)
      rw [hstep.1] at this
      exact this
  have hinv := C10.inv_reachable listingOf T d hist
  have hs : ∃ s' o, Cache.step listingOf T s .list = (s', some o) := by
    simp only [Cache.step]
    split
    · split <;> exact ⟨_, _, rfl⟩
    · exact ⟨_, _, rfl⟩
  obtain ⟨s', o, hso⟩ := hs
  obtain ⟨t, d', hmem, ho, _, _⟩ := C10.staleness_bound listingOf T s hinv s' o hso
  have hd : d' = d := by
    have := htrail hist (Cache.init d) hro (by simp [Cache.init]) (t, d') hmem
    simpa [Cache.init] using this
  rw [hso]
  simp only
  rw [ho, hd]

/-! non-vacuity -/
example : respond .gemini [] false (.notFound (lit "'/a\r\nb' does not exist")) = lit "51 '/a b' does not exist\r\n" := by
  decide +kernel
example : wfStatus (respond .spartan [] false (.document (lit "text/plain") none none (lit "body\r\n"))) = true := by
  decide +kernel

/-! ### whatever is logged can be logged (`Model/Log`, `pygopherd/logger.py`)

A request's answer is logged before it is complete (`FileNotFound.__init__` logs), so a logging call that raises is
a request without a response.  The log line carries text decoded from the request. -/

theorem lowerHexDigit_ascii (n : Nat) (h : n < 16) : 48 ≤ lowerHexDigit n ∧ lowerHexDigit n ≤ 102 := by
  unfold lowerHexDigit; split <;> omega

theorem ascii_accepted (c : Nat) (h0 : c ≠ 0) (h : c < 128) : okChar c = true := by
  unfold okChar
  have h1 : (c != 0) = true := by simpa using h0
  have h2 : (encodeCp c).isSome = true := by simp [encodeCp, h]
  have h3 : isEscapedByte c = false := by
    simp only [isEscapedByte, Bool.and_eq_false_iff, decide_eq_false_iff_not]; omega
  simp [h1, h2, h3]

theorem backslashX_accepted (b : Nat) (hb : b < 256) : syslogAccepts (backslashX b) = true := by
  have h1 := lowerHexDigit_ascii (b / 16) (by omega)
  have h2 := lowerHexDigit_ascii (b % 16) (by omega)
  simp only [syslogAccepts, backslashX, List.all_cons, List.all_nil, Bool.and_true, Bool.and_eq_true]
  exact ⟨ascii_accepted 92 (by decide) (by decide), ascii_accepted 120 (by decide) (by decide),
    ascii_accepted (lowerHexDigit (b / 16)) (by omega) (by omega), ascii_accepted (lowerHexDigit (b % 16)) (by omega) (by omega)⟩

/-- **whatever is logged, `syslog.syslog()` takes it**: for every message that `surrogateescape` can encode (every text
    decoded from request bytes, file names, error texts), the text `log_syslog` hands over holds no NUL and nothing
    UTF-8 cannot encode -/
theorem syslog_text_accepted (m : Str) (bs : Bytes) (h : encodeSE m = some bs) : syslogAccepts (syslogText m) = true := by
  induction m generalizing bs with
  | nil => rfl
  | cons c cs ih =>
    simp only [encodeSE] at h
    cases hc : encodeCp c with
    | none => simp [hc] at h
    | some a =>
      cases hcs : encodeSE cs with
      | none => simp [hc, hcs] at h
      | some b =>
        have ih' := ih b hcs
        simp only [syslogText, List.flatMap_cons] at ih' ⊢
        simp only [syslogAccepts, List.all_append, Bool.and_eq_true] at ih' ⊢
        refine ⟨?_, ih'⟩
        by_cases he : isEscapedByte c = true
        · simp only [he, if_true]
          have : c - 0xDC00 < 256 := by
            simp only [isEscapedByte, Bool.and_eq_true, decide_eq_true_eq] at he; omega
          exact backslashX_accepted _ this
        · simp only [he, Bool.false_eq_true, if_false]
          by_cases h0 : c = 0
          · simp only [h0, if_true]; exact backslashX_accepted 0 (by decide)
          · simp only [h0, if_false, List.all_cons, List.all_nil, Bool.and_true]
            have h1 : (c != 0) = true := by simpa using h0
            have h3 : isEscapedByte c = false := by simpa using he
            simp [okChar, h1, hc, h3]

/-- ... in particular every text decoded from bytes (a selector, a file name, an error message quoting them) -/
theorem decoded_text_is_loggable (bs : Bytes) (h : ∀ b ∈ bs, b < 256) :
    syslogAccepts (syslogText (decodeSE bs)) = true :=
  syslog_text_accepted _ bs (encode_decode bs h)

/-- `log_file` writes the line back as the bytes it came from -/
theorem log_file_line_is_the_bytes (bs : Bytes) (h : ∀ b ∈ bs, b < 256) :
    logFileBytes (decodeSE bs) = some (bs ++ [10]) := by
  simp [logFileBytes, encode_decode bs h]

/-- plain ASCII text without NUL is logged as it is -/
theorem syslog_text_ascii_unchanged (m : Str) (h : ∀ c ∈ m, c ≠ 0 ∧ c < 128) : syslogText m = m := by
  induction m with
  | nil => rfl
  | cons c cs ih =>
    have hc := h c (by simp)
    have he : isEscapedByte c = false := by
      simp only [isEscapedByte, Bool.and_eq_false_iff, decide_eq_false_iff_not]; omega
    have := ih (fun d hd => h d (by simp [hd]))
    simp only [syslogText, List.flatMap_cons] at this ⊢
    simp [he, hc.1, this]

/-- the two inputs that used to make `syslog.syslog()` raise: a byte that is not UTF-8, and a NUL -/
example : syslogText (decodeSE (lit "'/caf" ++ [0xe9] ++ lit "-dangling.txt' does not exist")) =
    lit "'/caf\\xe9-dangling.txt' does not exist" ∧
    syslogText (lit "'/a" ++ [0] ++ lit "b' does not exist") = lit "'/a\\x00b' does not exist" := by decide +kernel

end Pyg.Props.C03
