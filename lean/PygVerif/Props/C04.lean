import PygVerif.Generated
import PygVerif.Lemmas.Doc
import PygVerif.Lemmas.Site
import PygVerif.Model.Serve
/-!
# C04 — Documents are delivered byte-for-byte with truthful length and type

`Generated.copyBlock` is the block size read from `VFS_Real.copyto` on every run.
-/
namespace Pyg.Props.C04
open Pyg

theorem copyBlock_pos : 0 < Generated.copyBlock := by decide

/-- **Byte-for-byte.** For every byte string, the `read(copyBlock)` loop hands the client
    exactly the file's bytes. -/
theorem copy_is_identity (bs : Bytes) : copyto Generated.copyBlock bs = bs :=
  chunks_flatten _ copyBlock_pos bs

/-- for any positive block size (the property does not depend on 4096) -/
theorem copy_is_identity_any_block (n : Nat) (hn : 0 < n) (bs : Bytes) : copyto n bs = bs :=
  chunks_flatten n hn bs

/-- every block written is non-empty and at most one block long (the loop stops exactly at EOF) -/
theorem blocks_bounded (bs : Bytes) :
    ∀ c ∈ chunks Generated.copyBlock bs, c.length ≤ Generated.copyBlock ∧ c ≠ [] :=
  chunks_bound _ bs

/-- a zero block size would copy nothing: the positivity obligation above is not idle -/
theorem zero_block_copies_nothing (bs : Bytes) : copyto 0 bs = [] := by
  simp [copyto, chunks]

/-! ### Gopher+ length header -/

theorem toDec_no_cr (n : Nat) : 13 ∉ toDec n := by
  unfold toDec
  simp only [List.mem_reverse]
  suffices h : ∀ fuel m, ∀ c ∈ digitsRev fuel m, 48 ≤ c ∧ c ≤ 57 by
    intro h13; have := h _ _ 13 h13; omega
  intro fuel
  induction fuel with
  | zero => intro m c hc; simp [digitsRev] at hc
  | succ f ih =>
    intro m c hc
    simp only [digitsRev, List.mem_cons] at hc
    rcases hc with rfl | hc
    · omega
    · split at hc
      · simp at hc
      · exact ih _ c hc

theorem splitCrlf_append (h : Bytes) (b : Bytes) (hh : 13 ∉ h) :
    splitCrlf (h ++ [13, 10] ++ b) = (h, b) := by
  induction h with
  | nil => simp [splitCrlf]
  | cons c cs ih =>
    have hc : c ≠ 13 := fun e => hh (by simp [e])
    have ih := ih (fun hm => hh (by simp [hm]))
    simp only [List.cons_append] at ih ⊢
    rw [splitCrlf]
    · have e : cs ++ 13 :: 10 :: b = cs ++ [13, 10] ++ b := by simp
      simp only [List.append_assoc, List.cons_append, List.nil_append] at ih
      simp [ih]
    · intro r h13 _; exact hc h13

/-- **Truthful length.** When the entry's size is the file's length, the number in the Gopher+
    `+N` header equals the number of body bytes that follow, and those bytes are the file. -/
theorem gplus_length (bs : Bytes) :
    splitCrlf (gplusDoc (some bs.length) (copyto Generated.copyBlock bs)) =
      (43 :: toDec bs.length, bs) := by
  rw [copy_is_identity]
  unfold gplusDoc
  have : 13 ∉ (43 :: toDec bs.length) := by
    simp only [List.mem_cons, not_or]; exact ⟨by decide, toDec_no_cr _⟩
  simpa using splitCrlf_append (43 :: toDec bs.length) bs this

/-- the unknown-length marker when the size is not known -/
theorem gplus_unknown (body : Bytes) : splitCrlf (gplusDoc none body) = (lit "+-2", body) := by
  unfold gplusDoc
  have : 13 ∉ (43 :: lit "-2") := by decide
  have e : lit "+-2" = 43 :: lit "-2" := by decide
  rw [e]
  simpa using splitCrlf_append (43 :: lit "-2") body this

/-! ### HTTP HEAD = GET headers, no body -/

theorem head_is_get_headers (lm : Option Str) (ct : Str) (body : Bytes) :
    httpResp .head lm ct body = httpHeaders lm ct ∧
    httpResp .get lm ct body = httpResp .head lm ct body ++ body := by
  simp [httpResp]

/-! ### end to end: from the request to the bytes on the wire (`Model/Serve`)

For every file tree (seen through any `st`), every configuration and every selector. -/

/-- the handler chain hands a protocol a document exactly when a file handler (the plain one, or
    the HTML-title one) answers the selector, and then the bytes are the file's and the entry is
    the file's entry -/
theorem handled_document (c : ServeCfg) (st : StatFn) (sel : Str) (e : Entry) (d : Bytes)
    (h : handled c st sel = .document e d) :
    (dispatch c.site st sel = .file ∨ dispatch c.site st sel = .htmlFile) ∧ st sel = some (.file d) ∧
    entryAt c.site st sel = some e := by
  unfold handled at h
  have menuCase : ∀ (x : Option Entry) (y : Option (List Entry)),
      (match x, y with
       | some self, some es => Handled.menu self es
       | _, _ => Handled.crash) ≠ Handled.document e d := by
    intro x y; cases x <;> cases y <;> simp
  have fileCase : (match st sel, entryAt c.site st sel with
       | some (.file d), some e => Handled.document e d
       | _, _ => Handled.crash) = Handled.document e d →
      st sel = some (.file d) ∧ entryAt c.site st sel = some e := by
    intro h
    cases hst : st sel with
    | none => simp [hst] at h
    | some n =>
      cases n with
      | file d' =>
        cases he : entryAt c.site st sel with
        | none => simp [hst, he] at h
        | some e' => simp only [hst, he, Handled.document.injEq] at h; exact ⟨by rw [h.2], by rw [h.1]⟩
      | dir k => simp [hst] at h
      | other => simp [hst] at h
  cases hd : dispatch c.site st sel with
  | notFound => rw [hd] at h; cases h
  | file => rw [hd] at h; exact ⟨Or.inl rfl, fileCase h⟩
  | htmlFile => rw [hd] at h; exact ⟨Or.inr rfl, fileCase h⟩
  | url =>
    rw [hd] at h
    simp only at h
    cases he : entryAt c.site st sel <;> simp [he] at h
  | dir => rw [hd] at h; exact absurd h (menuCase _ _)
  | gophermapDir => rw [hd] at h; exact absurd h (menuCase _ _)
  | gophermapFile => rw [hd] at h; exact absurd h (menuCase _ _)

/-- the entry of a file served by a file handler carries the file's length -/
theorem file_entry_size (c : SiteCfg) (st : StatFn) (sel : Str) (d : Bytes) (e : Entry)
    (hd : dispatch c st sel = .file ∨ dispatch c st sel = .htmlFile) (hst : st sel = some (.file d))
    (he : entryAt c st sel = some e) : e.size = some d.length := by
  unfold entryAt popAt at he
  rcases hd with hd | hd
  · simp only [hst, hd, Option.map_some, Option.some.injEq] at he
    have h1 : (Handler.file = Handler.gophermapFile) = False := by simp
    have h2 : (Handler.file = Handler.url) = False := by simp
    have h3 : (Handler.file = Handler.htmlFile) = False := by simp
    simp only [h1, h2, h3, if_false] at he
    rw [← Option.some.inj he, populateWith_file_size _ _ _ _ rfl rfl rfl rfl (by simp)]
  · simp only [hst, hd, Option.map_some, Option.some.injEq] at he
    have h1 : (Handler.htmlFile = Handler.gophermapFile) = False := by simp
    have h2 : (Handler.htmlFile = Handler.url) = False := by simp
    simp only [h1, h2, if_false, if_true] at he
    have key : (populateWith c.eaexts c.defaultMime
        { stat := { kind := .file, size := d.length, mtime := c.mtime, ctime := c.mtime }, guess := c.guess sel,
          gtype := c.typeOf (mimeOf c sel), sidecars := sidecarsAt c st sel false } { selector := sel }).size = some d.length :=
      populateWith_file_size _ _ _ _ rfl rfl rfl rfl (by simp)
    rw [← Option.some.inj he]
    split <;> simp [key]

/-- **Every protocol delivers the file's bytes, and nothing after them.**  When the handler chain
    answers a selector with a document, the response of each protocol is its header text
    followed by one piece: the bytes of the file, unchanged. -/
theorem document_bytes_every_protocol (c : ServeCfg) (st : StatFn) (rq : Parsed) (e : Entry) (d : Bytes)
    (hh : handled c st rq.selector = .document e d) (hi : rq.geminiInput = none) (hb : rq.badRequest = false)
    (hicon : isPrefixB (lit "/PYGOPHERD-HTTPPROTO-ICONS/") rq.selector = false) :
    respondParsed c st .gopher rq = some [.bytes d] ∧
    respondParsed c st .sgopher rq = some [.bytes d] ∧
    respondParsed c st .gemini rq = some [.text (statusLine (lit "20") (geminiAdjust e.mimetype)), .bytes d] ∧
    respondParsed c st .spartan rq = some [.text (statusLine (lit "2") (geminiAdjust e.mimetype)), .bytes d] ∧
    (rq.head = false → respondParsed c st .http rq = some [.text (httpHeaders none (httpAdjust e.mimetype)), .bytes d]) ∧
    (rq.head = true → respondParsed c st .http rq = some [.text (httpHeaders none (httpAdjust e.mimetype))]) := by
  simp [respondParsed, hh, hi, hb, Wire.ofProto, hicon]

/-- **Gopher+ `+` and `$` on a document: truthful length, then the bytes.**  The status line
    carries the file's exact length and the body read back from the response is the file. -/
theorem gplus_document_end_to_end (c : ServeCfg) (st : StatFn) (rq : Parsed) (e : Entry) (d : Bytes) (g : Str)
    (hh : handled c st rq.selector = .document e d) (hi : rq.geminiInput = none) (hb : rq.badRequest = false)
    (hg : rq.gplus = some g) (hne : (g == lit "!") = false) :
    ∃ ps, respondParsed c st .gopherp rq = some ps ∧ flattenPieces ps = gplusDoc (some d.length) d ∧
      splitCrlf (flattenPieces ps) = (43 :: toDec d.length, d) := by
  obtain ⟨hd, hst, he⟩ := handled_document c st rq.selector e d hh
  have hsz := file_entry_size c.site st rq.selector d e hd hst he
  refine ⟨[.text ([43] ++ toDec d.length ++ [13, 10]), .bytes d], ?_, ?_, ?_⟩
  · simp [respondParsed, hh, hi, hb, Wire.ofProto, hg, hne, hsz]
  · simp [flattenPieces, Piece.raw, gplusDoc]
  · have := gplus_length d
    rw [copy_is_identity] at this
    simpa [flattenPieces, Piece.raw, gplusDoc] using this

/-- **HTTP HEAD is the GET response cut after its header**: for every request that both forms
    answer — documents, directory pages and not-found alike — the bytes of the HEAD response are
    a prefix of the bytes of the GET response (and for documents and menus they are exactly the
    header: `document_bytes_every_protocol`). -/
theorem head_end_to_end (c : ServeCfg) (st : StatFn) (rq : Parsed) (ps qs : List Piece)
    (h : respondParsed c st .http { rq with head := true } = some ps)
    (h2 : respondParsed c st .http { rq with head := false } = some qs) :
    flattenPieces ps <+: flattenPieces qs := by
  by_cases hb : rq.badRequest = true
  · simp [respondParsed, hb, Wire.ofProto] at h
  by_cases hi : rq.geminiInput.isSome = true
  · have hb0 : rq.badRequest = false := by simpa using hb
    simp [respondParsed, hb0, hi, Wire.ofProto] at h
  have hb' : rq.badRequest = false := by simpa using hb
  have hi' : rq.geminiInput.isSome = false := by simpa using hi
  · by_cases hc2 : isPrefixB (lit "/PYGOPHERD-HTTPPROTO-ICONS/") rq.selector = true
    · simp [respondParsed, hb', hi', hc2, Wire.ofProto] at h
    · have hc2' : isPrefixB (lit "/PYGOPHERD-HTTPPROTO-ICONS/") rq.selector = false := by simpa using hc2
      cases hh : handled c st rq.selector with
      | notFound m =>
        simp [respondParsed, hb', hi', hc2', Wire.ofProto, hh] at h h2
        rw [← h, ← h2]; exact List.prefix_refl _
      | document e d =>
        simp [respondParsed, hb', hi', hc2', Wire.ofProto, hh] at h h2
        rw [← h, ← h2]; simp [flattenPieces, Piece.raw]
      | crash => simp [respondParsed, hb', hi', hc2', Wire.ofProto, hh] at h
      | page e t =>
        simp [respondParsed, hb', hi', hc2', Wire.ofProto, hh] at h h2
        rw [← h, ← h2]; simp [flattenPieces, Piece.raw]
      | menu self es =>
        by_cases hpt : c.pagetopper = true
        · simp [respondParsed, hb', hi', hc2', Wire.ofProto, hh, hpt] at h
        · have hpt' : c.pagetopper = false := by simpa using hpt
          simp [respondParsed, hb', hi', hc2', Wire.ofProto, hh, hpt'] at h h2
          cases hl : listingBody c.render View.http false self es with
          | none => simp [hl] at h2
          | some r =>
            cases hu : self.geturl c.render.srv.name c.render.srv.port with
            | none => simp [hl, hu] at h2
            | some u =>
              simp [hl, hu] at h2
              rw [← h, ← h2]
              simp [flattenPieces, Piece.raw, List.append_assoc]

/-! ### WAP text conversion is losslessly invertible line by line -/

theorem wml_invertible (ls : List Str) (h : ∀ l ∈ ls, 10 ∉ rstrip l) :
    unwml ls.length (wmlBody ls) = ls.map rstrip :=
  unwml_wmlBody ls h ls.length (Nat.le_refl _)

/-- hence the conversion is injective on right-stripped line lists -/
theorem wml_injective (a b : List Str) (ha : ∀ l ∈ a, 10 ∉ rstrip l) (hb : ∀ l ∈ b, 10 ∉ rstrip l)
    (hlen : a.length = b.length) (h : wmlBody a = wmlBody b) : a.map rstrip = b.map rstrip := by
  rw [← wml_invertible a ha, ← wml_invertible b hb, h, hlen]

/-! ### MIME type is the table's answer, adjusted per protocol -/

theorem mime_plain_file (m dflt : Str) (hm : m ≠ []) :
    entryMime (some m, none) dflt = m ∧ httpAdjust (some (entryMime (some m, none) dflt)) =
      (if m = lit "application/gopher-menu" then lit "text/html" else m) := by
  have : m.isEmpty = false := by cases m <;> simp_all
  simp [entryMime, httpAdjust, this]

theorem mime_encoded_file (m : Option Str) (e dflt : Str) :
    entryMime (m, some e) dflt = lit "application/octet-stream" := by
  cases m <;> simp [entryMime]

theorem mime_unknown_file (dflt : Str) : entryMime (none, none) dflt = dflt := rfl

/-! non-vacuity -/
example : chunks 4 [1,2,3,4,5,6,7,8,9] = [[1,2,3,4],[5,6,7,8],[9]] := by decide +kernel
example : wmlBody [lit "a<b  \n", lit "\n", lit "c\r\n"] = lit "a&lt;b\n</p>\n<p>c\n" := by decide +kernel
example : unwml 3 (lit "a&lt;b\n</p>\n<p>c\n") = [lit "a<b", [], lit "c"] := by decide +kernel

end Pyg.Props.C04
