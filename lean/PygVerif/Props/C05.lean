import PygVerif.Generated
import PygVerif.Lemmas.Escape
import PygVerif.Lemmas.Selector
import PygVerif.Model.Listing
import PygVerif.Model.Proto
import PygVerif.Lemmas.Site
import PygVerif.Props.C07
/-!
# C05 — Listings only advertise what the server will serve (link closure)

The selector a listing advertises for a local object, rendered as a link by each protocol and
sent back in that protocol's own request syntax, reaches the handlers as the *same* selector:
the handler chain therefore makes the same decision it made when the listing was generated.
-/
namespace Pyg.Props.C05
open Pyg

/-- a selector as listings produce them: decoded from bytes (a file name path), starting with
    a slash and not ending with one (the root excepted) -/
structure Normal (bs : Bytes) : Prop where
  wf : Bytes.WF bs
  head : (decodeSE bs).head? = some 47
  last : (decodeSE bs).getLast? ≠ some 47 ∨ decodeSE bs = [47]

theorem slashnormalize_fixed (s : Str) (hh : s.head? = some 47) (hl : s.getLast? ≠ some 47 ∨ s = [47]) :
    slashnormalize s = s := by
  unfold slashnormalize
  rcases hl with hl | hl
  · simp only [hl, if_false]
    cases s with
    | nil => simp at hh
    | cons c cs => simp at hh; simp [hh]
  · subst hl; decide

/-- **Round trip of the codecs**, for all byte strings -/
theorem codec_roundtrip (bs : Bytes) (h : Bytes.WF bs) :
    encodeSE (decodeSE bs) = some bs ∧ unquoteToBytes (quoteBytes bs) = bs ∧
    unquote (quoteBytes bs) = decodeSE bs :=
  ⟨encode_decode bs h, unquoteToBytes_quoteBytes bs h, unquote_quoteBytes bs h⟩

/-- what `quote` emits cannot cut a request line, an HTML attribute or a URL: no space, TAB,
    CR, LF, quote, angle bracket, `?`, `#`, `&`, `=`, `+`, `|`, NUL or backslash, ASCII only -/
theorem quote_safe_alphabet (bs : Bytes) (h : Bytes.WF bs) : ∀ c ∈ quoteBytes bs,
    c < 128 ∧ c ≠ 32 ∧ c ≠ 9 ∧ c ≠ 13 ∧ c ≠ 10 ∧ c ≠ 34 ∧ c ≠ 60 ∧ c ≠ 62 ∧ c ≠ 63 ∧ c ≠ 39 ∧ c ≠ 38 ∧
    c ≠ 35 ∧ c ≠ 61 ∧ c ≠ 43 ∧ c ≠ 124 ∧ c ≠ 0 ∧ c ≠ 92 :=
  fun c hc => isQuoteChar_spec c (quoteBytes_alphabet bs h c hc)

/-- the link an HTTP / WAP listing shows for a local entry is `quote(selector)`, and `/` for the empty selector (a
    link block with `Path=/`: the root, as the Gopher menu's empty selector and the Gemini / Spartan link say —
    before repo commit "an empty local selector links to the root over HTTP and WAP too" the HREF was empty, which
    a browser reads as the page it is on) -/
theorem local_link_is_quote (srv : ServerId) (e : Entry) (hl : e.isLocal = true)
    (hu : startsUrl e.selector = false) :
    linkUrl srv e = (quote e.selector).map fun q => if q.isEmpty then [47] else q := by
  simp [linkUrl, hu, hl]

theorem quoteBytes_ne_nil (bs : Bytes) (h : bs ≠ []) : quoteBytes bs ≠ [] := by
  cases bs with
  | nil => exact absurd rfl h
  | cons b r => unfold quoteBytes; split <;> simp

theorem encodeSE_ne_nil (s : Str) (bs : Bytes) (h : encodeSE s = some bs) (hs : s ≠ []) : bs ≠ [] := by
  cases s with
  | nil => exact absurd rfl hs
  | cons c cs =>
    simp only [encodeSE] at h
    cases hc : encodeCp c with
    | none => simp [hc] at h
    | some a =>
      cases hcs : encodeSE cs with
      | none => simp [hc, hcs] at h
      | some b =>
        simp only [hc, hcs, Option.some.injEq] at h
        have ha : a ≠ [] := by
          unfold encodeCp at hc
          split at hc
          · simp at hc; rw [← hc]; simp
          · split at hc
            · simp at hc; rw [← hc]; simp
            · split at hc
              · simp at hc; rw [← hc]; simp
              · split at hc
                · simp at hc
                · split at hc
                  · simp at hc; rw [← hc]; simp
                  · split at hc
                    · simp at hc; rw [← hc]; simp
                    · simp at hc
        rw [← h]; simp [ha]

/-- ... so for every entry with a selector (every member of a directory) the link is `quote(selector)` itself -/
theorem local_link_is_quote_of_selector (srv : ServerId) (e : Entry) (hl : e.isLocal = true)
    (hu : startsUrl e.selector = false) (hne : e.selector ≠ []) : linkUrl srv e = quote e.selector := by
  rw [local_link_is_quote srv e hl hu]
  unfold quote
  cases he : encodeSE e.selector with
  | none => rfl
  | some bs =>
    have := quoteBytes_ne_nil bs (encodeSE_ne_nil _ _ he hne)
    simp [this]

theorem splitOn_no_sep (sep : Nat) (s : Str) (h : sep ∉ s) : splitOn sep s = [s] := by
  induction s with
  | nil => rfl
  | cons c cs ih =>
    have hc : c ≠ sep := fun e => h (by simp [e])
    have := ih (fun hm => h (by simp [hm]))
    simp [splitOn, hc, this]

/-- **HTTP(S).** Following the link `quote(selector)` with `GET <link> HTTP/1.0` hands the
    handlers exactly the selector the listing was generated for. -/
theorem http_follow_link (bs : Bytes) (hn : Normal bs) (w qp : Str) (nv : Bool) (c : Conn) (m v : Str)
    (hparts : requestParts c.line = [m, quoteBytes bs, v]) :
    (parseRequest w qp nv .http c).selector = decodeSE bs := by
  have h63 : 63 ∉ quoteBytes bs := fun hm => (quote_safe_alphabet bs hn.wf 63 hm).2.2.2.2.2.2.2.2.1 rfl
  have hne : (Proto.http == Proto.wap) = false := by decide
  simp only [parseRequest, hparts, List.getElem?_cons_succ, List.getElem?_cons_zero, Option.getD_some, hne,
    Bool.false_and, Bool.false_eq_true, if_false]
  rw [splitOn_no_sep 63 _ h63]
  simp [unquote_quoteBytes bs hn.wf, slashnormalize_fixed _ hn.head hn.last]

theorem head_slash_of_decoded (bs : Bytes) (h : Bytes.WF bs) (hd : (decodeSE bs).head? = some 47) :
    bs.head? = some 47 := by
  cases bs with
  | nil => simp [decodeSE] at hd
  | cons b r =>
    rw [decodeSE] at hd
    simp only [List.head?_cons, Option.some.injEq] at hd
    have spec := (decodeOne_spec b r (h b (by simp)) (fun x hx => h x (by simp [hx]))).2.2
    rw [hd] at spec
    have e47 : encodeCp 47 = some [47] := by decide
    rw [e47] at spec
    simp only [Option.some.injEq, List.cons.injEq] at spec
    simp [spec.1]

/-- **WAP.** The WML listing prefixes local links with `waptop`; the prefix is recognised at
    the path boundary and stripped, and the same selector results. -/
theorem wap_follow_link (bs : Bytes) (hn : Normal bs) (w qp : Str) (nv : Bool) (c : Conn) (m v : Str)
    (hparts : requestParts c.line = [m, w ++ quoteBytes bs, v]) :
    (parseRequest w qp nv .wap c).selector = decodeSE bs := by
  have h63 : 63 ∉ quoteBytes bs := fun hm => (quote_safe_alphabet bs hn.wf 63 hm).2.2.2.2.2.2.2.2.1 rfl
  -- the quoted selector starts with '/'
  have hq : (quoteBytes bs).head? = some 47 := by
    have := head_slash_of_decoded bs hn.wf hn.head
    cases bs with
    | nil => simp at this
    | cons b r => simp at this; subst this; simp [quoteBytes, urlSafe]
  have hunder : underWaptop w (w ++ quoteBytes bs) = true := by
    unfold underWaptop
    have : isPrefixB w (w ++ quoteBytes bs) = true := (isPrefixB_iff _ _).mpr (List.prefix_append _ _)
    simp only [this, Bool.true_and, List.drop_left']
    cases hqq : quoteBytes bs with
    | nil => rfl
    | cons x xs => rw [hqq] at hq; simp at hq; simp [hq]
  simp only [parseRequest, hparts, List.getElem?_cons_succ, List.getElem?_cons_zero, Option.getD_some, hunder,
    beq_self_eq_true, Bool.and_self, if_true, List.drop_left']
  rw [splitOn_no_sep 63 _ h63]
  simp [unquote_quoteBytes bs hn.wf, slashnormalize_fixed _ hn.head hn.last]

/-- **Spartan.** -/
theorem spartan_follow_link (bs : Bytes) (hn : Normal bs) (w qp : Str) (nv : Bool) (c : Conn) (host n : Str)
    (hparts : splitOn 32 (strip c.line) = [host, quoteBytes bs, n]) :
    (parseRequest w qp nv .spartan c).selector = decodeSE bs := by
  simp only [parseRequest, hparts, unquote_quoteBytes bs hn.wf]
  simp [slashnormalize_fixed _ hn.head hn.last]

/-- **Gopher / Gopher+.** The menu line carries the selector itself. -/
theorem gopher_follow_link (bs : Bytes) (hn : Normal bs) (w qp : Str) (nv : Bool) (c : Conn) (rest : List Str)
    (hparts : requestList c.line = decodeSE bs :: rest) :
    (parseRequest w qp nv .gopher c).selector = decodeSE bs ∧
    (parseRequest w qp nv .gopherp c).selector = decodeSE bs := by
  simp [parseRequest, hparts, slashnormalize_fixed _ hn.head hn.last]

/-- **Gemini** (path component as split off by `urlparse`): the unquoted path is the selector;
    and a type-7 link, which carries the query prefix, is recognised and routed to the input
    prompt with the original quoted selector restored. -/
theorem gemini_path_roundtrip (bs : Bytes) (hn : Normal bs) :
    slashnormalize (unquote (quoteBytes bs)) = decodeSE bs := by
  rw [unquote_quoteBytes bs hn.wf, slashnormalize_fixed _ hn.head hn.last]

theorem gemini_query_prefix_roundtrip (qp u : Str) (hu : u.head? = some 47) :
    (qp ++ u == qp || isPrefixB (qp ++ [47]) (qp ++ u)) = true ∧ (qp ++ u).drop qp.length = u := by
  refine ⟨?_, by simp⟩
  cases u with
  | nil => simp at hu
  | cons x xs =>
    simp at hu; subst hu
    have : isPrefixB (qp ++ [47]) (qp ++ 47 :: xs) = true :=
      (isPrefixB_iff _ _).mpr ⟨xs, by simp⟩
    simp [this]

/-- the root menu link: an empty quoted selector is shown as `/` by Gemini and Spartan -/
theorem gemini_root_link (srv : ServerId) :
    gemUrl srv none { selector := [] } = some [47] := by
  have h1 : startsUrl [] = false := by decide
  have h2 : quote [] = some [] := by decide
  simp [gemUrl, h1, h2, Entry.isLocal]

/-! ### closure on the whole-site model (`Model/Site`): what a directory lists is what a request gets

`st` is any view of the file system (`statAt R` below a root, `kstat W root` in the kernel's
terms); the statements hold for every tree, every configuration and every name. -/

/-- the handler that answers a selector is a file handler exactly when the object is a
    regular file not claimed as a gophermap; then the response is that file's bytes -/
theorem ite_ne' {α : Type} {p : Prop} [Decidable p] {a b x : α} (ha : a ≠ x) (hb : b ≠ x) :
    (if p then a else b) ≠ x := by split <;> assumption

/-- what `dispatch` can answer, with what the file system holds at the selector -/
theorem dispatch_cases (c : SiteCfg) (st : StatFn) (sel : Str) :
    dispatch c st sel = .url ∨ dispatch c st sel = .notFound ∨
    (∃ kids, st sel = some (.dir kids) ∧ (dispatch c st sel = .gophermapDir ∨ dispatch c st sel = .dir)) ∨
    (∃ d, st sel = some (.file d) ∧
      (dispatch c st sel = .gophermapFile ∨ dispatch c st sel = .htmlFile ∨ dispatch c st sel = .file)) := by
  unfold dispatch
  by_cases hu : (c.url && urlSecureB c.urlForbidden sel) = true
  · simp [hu]
  · by_cases hs : secureB c.forbidden sel = true
    · have hu' : (c.url && urlSecureB c.urlForbidden sel) = false := by simpa using hu
      cases hst : st sel with
      | none => simp [hu', hs, hst]
      | some n =>
        cases n with
        | other => simp [hu', hs, hst]
        | dir kids =>
          right; right; left
          refine ⟨kids, rfl, ?_⟩
          simp only [hu', hs, Bool.false_eq_true, if_false, Bool.not_true]
          split <;> simp
        | file d =>
          by_cases hcf : isSuffixB (47 :: c.cachefile) sel = true
          · by_cases hg : (c.gophermap && endsWithGophermap sel) = true
            · right; right; right
              exact ⟨d, rfl, Or.inl (by simp [hu', hs, hg])⟩
            · right; left
              have hg' : (c.gophermap && endsWithGophermap sel) = false := by simpa using hg
              simp [hu', hs, hg', hcf]
          · right; right; right
            refine ⟨d, rfl, ?_⟩
            have hcf' : isSuffixB (47 :: c.cachefile) sel = false := by simpa using hcf
            simp only [hu', hs, Bool.false_eq_true, if_false, Bool.not_true, hcf']
            split
            · simp
            · split <;> simp
    · have hs' : secureB c.forbidden sel = false := by simpa using hs
      have hu' : (c.url && urlSecureB c.urlForbidden sel) = false := by simpa using hu
      simp [hu', hs']

theorem dispatch_file_serves_document (c : SiteCfg) (st : StatFn) (sel : Str)
    (h : dispatch c st sel = .file ∨ dispatch c st sel = .htmlFile) :
    ∃ d, st sel = some (.file d) ∧ serve c st sel = .document d := by
  rcases dispatch_cases c st sel with h1 | h1 | ⟨kids, _, h1⟩ | ⟨d, hst, _⟩
  · rcases h with h | h <;> rw [h1] at h <;> cases h
  · rcases h with h | h <;> rw [h1] at h <;> cases h
  · rcases h with h | h <;> rcases h1 with h1 | h1 <;> rw [h1] at h <;> cases h
  · refine ⟨d, hst, ?_⟩
    unfold serve
    rcases h with h | h <;> simp [h, hst]

/-- the entry a handler gives for a selector carries that selector -/
theorem entryAt_selector (c : SiteCfg) (st : StatFn) (sel : Str) (a : Entry) (ha : entryAt c st sel = some a) :
    a.selector = sel := by
  unfold entryAt at ha
  split at ha
  · simp only [Option.some.injEq] at ha; rw [← ha]
  · cases hp : popAt c st sel with
    | none => simp [hp] at ha
    | some pi =>
      simp only [hp, Option.map_some, Option.some.injEq] at ha
      rw [← ha]
      have key : ∀ e0 : Entry, e0.selector = sel → (populateWith c.eaexts c.defaultMime pi e0).selector = sel := by
        intro e0 h0; rw [populateWith_selector, h0]
      split
      · split
        · simp only; split <;> exact key _ rfl
        · split <;> exact key _ rfl
      · split <;> exact key _ rfl

/-- what `childOf` records for a member, stated for an arbitrary selector -/
theorem member_entry_spec (c : SiteCfg) (st : StatFn) (sel : Str) (e : Entry) (isf : Bool)
    (h : (match dispatch c st sel with
          | .notFound => none
          | hd => (entryAt c st sel).map fun e => (e, hd.isFileHandler)) = some (e, isf)) :
    e.selector = sel ∧ serve c st sel ≠ .notFound ∧
    (isf = true → ∃ d, st sel = some (.file d) ∧ serve c st sel = .document d) ∧
    (isf = false → serve c st sel = .menu ∨ ∃ t, serve c st sel = .generated t) := by
  have fileLike : ∀ hd : Handler, dispatch c st sel = hd → (hd = .file ∨ hd = .htmlFile) →
      (entryAt c st sel).map (fun e => (e, hd.isFileHandler)) = some (e, isf) →
      e.selector = sel ∧ serve c st sel ≠ .notFound ∧
      (isf = true → ∃ d, st sel = some (.file d) ∧ serve c st sel = .document d) ∧
      (isf = false → serve c st sel = .menu ∨ ∃ t, serve c st sel = .generated t) := by
    intro hd hdd hk h
    obtain ⟨a, ha, hpair⟩ := Option.map_eq_some_iff.mp h
    obtain ⟨d, hst, hsv⟩ := dispatch_file_serves_document c st sel (by rcases hk with hk | hk <;> simp [hdd, hk])
    have he : a = e := (Prod.mk.inj hpair).1
    have hi : isf = true := by rw [← (Prod.mk.inj hpair).2]; rcases hk with hk | hk <;> simp [hk, Handler.isFileHandler]
    subst he
    exact ⟨entryAt_selector c st sel _ ha, by rw [hsv]; simp, fun _ => ⟨d, hst, hsv⟩, fun hf => by rw [hi] at hf; cases hf⟩
  have menuLike : ∀ hd : Handler, dispatch c st sel = hd → (hd = .dir ∨ hd = .gophermapDir ∨ hd = .gophermapFile) →
      (entryAt c st sel).map (fun e => (e, hd.isFileHandler)) = some (e, isf) →
      e.selector = sel ∧ serve c st sel ≠ .notFound ∧
      (isf = true → ∃ d, st sel = some (.file d) ∧ serve c st sel = .document d) ∧
      (isf = false → serve c st sel = .menu ∨ ∃ t, serve c st sel = .generated t) := by
    intro hd hdd hk h
    obtain ⟨a, ha, hpair⟩ := Option.map_eq_some_iff.mp h
    have he : a = e := (Prod.mk.inj hpair).1
    have hi : isf = false := by
      rw [← (Prod.mk.inj hpair).2]; rcases hk with hk | hk | hk <;> simp [hk, Handler.isFileHandler]
    have hsv : serve c st sel = .menu := by
      unfold serve; rcases hk with hk | hk | hk <;> simp [hdd, hk]
    subst he
    exact ⟨entryAt_selector c st sel _ ha, by rw [hsv]; simp, (fun ht => by rw [hi] at ht; cases ht), fun _ => Or.inl hsv⟩
  cases hd : dispatch c st sel with
  | notFound => rw [hd] at h; cases h
  | file => rw [hd] at h; exact fileLike _ hd (Or.inl rfl) h
  | htmlFile => rw [hd] at h; exact fileLike _ hd (Or.inr rfl) h
  | dir => rw [hd] at h; exact menuLike _ hd (Or.inl rfl) h
  | gophermapDir => rw [hd] at h; exact menuLike _ hd (Or.inr (Or.inl rfl)) h
  | gophermapFile => rw [hd] at h; exact menuLike _ hd (Or.inr (Or.inr rfl)) h
  | url =>
    rw [hd] at h
    obtain ⟨a, ha, hpair⟩ := Option.map_eq_some_iff.mp h
    have he : a = e := (Prod.mk.inj hpair).1
    have hi : isf = false := by rw [← (Prod.mk.inj hpair).2]; rfl
    have hsv : serve c st sel = .generated (emit (urlRedirectSegs (urlOfSelector sel))) := by unfold serve; rw [hd]
    subst he
    exact ⟨entryAt_selector c st sel _ ha, by rw [hsv]; simp, (fun ht => by rw [hi] at ht; cases ht), fun _ => Or.inr ⟨_, hsv⟩⟩

/-- **A listed member is served.**  If a directory member contributes an entry to a listing,
    that entry's selector is `base/name`, a request for it is *not* answered not-found, and it
    is a document (the file's own bytes) when the entry was produced by a file handler and a
    menu (or, for a `URL:` selector, the redirect page) otherwise. -/
theorem listed_member_is_served (c : SiteCfg) (st : StatFn) (base name : Str) (k : Node) (e : Entry) (isf : Bool)
    (h : (childOf c st base name k).entry = some (e, isf)) :
    e.selector = base ++ [47] ++ name ∧ serve c st e.selector ≠ .notFound ∧
    (isf = true → ∃ d, st e.selector = some (.file d) ∧ serve c st e.selector = .document d) ∧
    (isf = false → serve c st e.selector = .menu ∨ ∃ t, serve c st e.selector = .generated t) := by
  have := member_entry_spec c st (base ++ [47] ++ name) e isf h
  rw [this.1]
  exact ⟨rfl, this.2⟩

/-- **Link closure of a real directory.**  Every entry in the plain directory handler's
    listing of any directory of any site is answered with a success response when its selector
    is requested — whatever the names look like.  (The UMN handler adds entries that link
    files *author*; those are content, and a link file may name what does not exist.) -/
theorem plain_listing_closed (c : SiteCfg) (hu : c.dir.umn = false) (st : StatFn) (sel : Str) (es : List Entry)
    (hd : dispatch c st sel = .dir) (h : siteEntries c st sel = some es) :
    ∀ e ∈ es, serve c st e.selector ≠ .notFound := by
  intro e he
  simp only [siteEntries, hd] at h
  cases hk : kidsAt st sel with
  | none => simp [hk] at h
  | some kids =>
    simp only [hk, Option.bind_some] at h
    obtain ⟨ch, hch, b, hent, _⟩ := Pyg.Props.C07.plain_nothing_else c.dir hu sel _ es h e he
    obtain ⟨⟨n, k⟩, _, rfl⟩ := List.mem_map.mp hch
    exact (listed_member_is_served c st _ n k e b hent).2.1

/-! non-vacuity: a name with a space, reserved characters and a non-UTF-8 byte -/
example : Normal (lit "/a b/q?&=#" ++ [0xff] ++ lit ".txt") := by
  refine ⟨?_, ?_, ?_⟩
  · intro b hb; revert b; decide +kernel
  · decide +kernel
  · left; decide +kernel
example : quote (decodeSE (lit "/a b/q?&=#" ++ [0xff] ++ lit ".txt")) = some (lit "/a%20b/q%3F%26%3D%23%FF.txt") := by
  decide +kernel

end Pyg.Props.C05
