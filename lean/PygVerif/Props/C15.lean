import PygVerif.Generated
import PygVerif.Model.Listing
import PygVerif.Props.C13
import PygVerif.Props.C04
import PygVerif.Props.C05
import PygVerif.Props.C06
import PygVerif.Props.C07
import PygVerif.Model.Serve
/-!
# C15 — Gopher+ item information is faithful
-/
namespace Pyg.Props.C15
open Pyg

/-- **+INFO is the menu line.** The `+INFO` block of an item is `+INFO: ` followed by exactly
    the plain Gopher renderer's line for the same entry (after the Gopher+ menu MIME rewrite,
    which does not touch any field the menu line shows). -/
theorem info_is_menu_line (srv : ServerId) (admin : Str) (md : Option Str) (e : Entry) (out : Str)
    (hno : e.ea.any (·.1 == lit "INFO") = false) (h : gplusBlocks srv admin md e = some out) :
    ∃ line, gopher0Line srv e = some line ∧ lit "+INFO: " ++ line <+: out := by
  unfold gplusBlocks at h
  have hfix : gopher0Line srv (gplusFix e) = gopher0Line srv e := by
    unfold gplusFix; split <;> rfl
  have hea : (gplusFix e).ea = e.ea := by unfold gplusFix; split <;> rfl
  simp only [hfix, hea, hno, Bool.false_eq_true, if_false] at h
  cases hl : gopher0Line srv e with
  | none => simp [hl] at h
  | some line =>
    simp only [hl, Option.map_some, Option.some.injEq] at h
    exact ⟨line, rfl, by rw [← h]; simp [List.append_assoc]⟩

/-- names of the blocks of an entry, in order -/
def blockNames (e : Entry) : List Str :=
  [lit "+INFO", lit "+ADMIN", lit "+VIEWS"] ++ e.ea.map fun kv => [43] ++ kv.1

/-- **Block structure.** The attribute listing is the concatenation of the INFO, ADMIN and
    VIEWS blocks followed by one block per extended attribute, in the entry's own order. -/
theorem block_structure (srv : ServerId) (admin : Str) (md : Option Str) (e : Entry) (line : Str)
    (hl : gopher0Line srv e = some line)
    (h1 : e.ea.any (·.1 == lit "INFO") = false) (h2 : e.ea.any (·.1 == lit "ADMIN") = false)
    (h3 : e.ea.any (·.1 == lit "VIEWS") = false) :
    gplusBlocks srv admin md e = some (lit "+INFO: " ++ line ++
      adminBlock admin (if (gplusFix e).mtime.getD 0 == 0 then none else md) ++ viewsBlock (gplusFix e) ++
      (e.ea.map fun (k, v) => eaBlock k v).flatten) := by
  unfold gplusBlocks
  have hfix : gopher0Line srv (gplusFix e) = gopher0Line srv e := by
    unfold gplusFix; split <;> rfl
  have hea : (gplusFix e).ea = e.ea := by unfold gplusFix; split <;> rfl
  simp [hfix, hea, hl, h1, h2, h3]

/-- **+VIEWS names the MIME type and the size in k.** -/
theorem views_block (e : Entry) (m : Str) (n : Nat) (hm : e.mimetype = some m) (hne : m ≠ [])
    (hl : e.language = none) (hs : e.size = some n) :
    viewsBlock e = lit "+VIEWS:\r\n " ++ m ++ lit ": <" ++ toDec (n / 1024) ++ lit "k>\r\n" := by
  have : m.isEmpty = false := by cases m <;> simp_all
  simp [viewsBlock, hm, this, hl, hs, lit]

theorem views_block_no_size (e : Entry) (m : Str) (hm : e.mimetype = some m) (hne : m ≠ [])
    (hl : e.language = none) (hs : e.size = none) :
    viewsBlock e = lit "+VIEWS:\r\n " ++ m ++ lit ":\r\n" := by
  have : m.isEmpty = false := by cases m <;> simp_all
  simp [viewsBlock, hm, this, hl, hs, lit]

/-! ### sidecar blocks carry exactly the sidecar's lines -/

/-- the value stored for a sidecar: right-stripped lines joined by `\n` -/
def readEA (ls : List Str) : Str := joinWith 10 (ls.map rstrip)

/-- `splitlinesAux` on a string without line boundaries returns the accumulated line -/
theorem splitlinesAux_plain (s cur : Str) (h : ∀ c ∈ s, isLineBreak c = false) :
    splitlinesAux s cur = if (s.reverse ++ cur).isEmpty then [] else [(s.reverse ++ cur).reverse] := by
  induction s generalizing cur with
  | nil => simp [splitlinesAux]
  | cons c cs ih =>
    have hc := h c (by simp)
    have ih := ih (c :: cur) (fun x hx => h x (by simp [hx]))
    have hne : ¬ (c = 13 ∧ ∃ r, cs = 10 :: r) := by
      intro ⟨h13, _⟩; subst h13; simp [isLineBreak] at hc
    rw [splitlinesAux]
    · simp only [hc, Bool.false_eq_true, if_false, ih]
      simp [List.append_assoc]
    · intro r h13 hcs; exact hne ⟨h13, r, hcs⟩

/-- splitting a line followed by `\n` and more text -/
theorem splitlinesAux_line (l rest cur : Str) (h : ∀ c ∈ l, isLineBreak c = false) :
    splitlinesAux (l ++ 10 :: rest) cur = (l.reverse ++ cur).reverse :: splitlinesAux rest [] := by
  induction l generalizing cur with
  | nil =>
    simp only [List.nil_append, List.reverse_nil]
    rw [splitlinesAux]
    · simp [isLineBreak]
    · intro r h13 _; simp at h13
  | cons c cs ih =>
    have hc := h c (by simp)
    have ih := ih (c :: cur) (fun x hx => h x (by simp [hx]))
    simp only [List.cons_append]
    rw [splitlinesAux]
    · simp only [hc, Bool.false_eq_true, if_false, ih]
      simp [List.append_assoc]
    · intro r h13 _; subst h13; simp [isLineBreak] at hc

/-- **Sidecar lines survive.** For printable sidecar lines (no embedded line boundary once
    right-stripped, none of them empty after stripping), the lines a client reads back from the
    block are exactly the sidecar's right-stripped lines. -/
theorem ea_block_roundtrip (ls : List Str)
    (hp : ∀ l ∈ ls, (∀ c ∈ rstrip l, isLineBreak c = false) ∧ rstrip l ≠ []) :
    splitlines (readEA ls) = ls.map rstrip := by
  unfold splitlines readEA
  induction ls with
  | nil => simp [joinWith, splitlinesAux]
  | cons l r ih =>
    have hl := hp l (by simp)
    have ih := ih (fun x hx => hp x (by simp [hx]))
    cases r with
    | nil =>
      simp only [List.map_cons, List.map_nil, joinWith]
      rw [splitlinesAux_plain _ _ hl.1]
      have : ((rstrip l).reverse ++ []).isEmpty = false := by
        cases h : rstrip l with
        | nil => exact absurd h hl.2
        | cons a b => simp
      simp [hl.2]
    | cons l2 r2 =>
      simp only [List.map_cons, joinWith] at ih ⊢
      rw [splitlinesAux_line _ _ _ hl.1]
      simp [ih]

/-- and the block a client sees is the header plus those lines, each behind one space -/
theorem ea_block_lines (k : Str) (ls : List Str)
    (hp : ∀ l ∈ ls, (∀ c ∈ rstrip l, isLineBreak c = false) ∧ rstrip l ≠ []) :
    C13.eaBlockLines k (readEA ls) = ([43] ++ k ++ [58]) :: (ls.map rstrip).map fun l => [32] ++ l := by
  simp [C13.eaBlockLines, ea_block_roundtrip ls hp]

/-- **A `+` request for a document is prefixed by its exact length, or by the unknown marker**
    (shared with C04). -/
theorem doc_length_or_unknown (bs : Bytes) :
    splitCrlf (gplusDoc (some bs.length) (copyto Generated.copyBlock bs)) = (43 :: toDec bs.length, bs) ∧
    splitCrlf (gplusDoc none bs) = (lit "+-2", bs) :=
  ⟨C04.gplus_length bs, C04.gplus_unknown bs⟩

/-! non-vacuity -/
example : readEA [lit "first line  \n", lit "second\r\n"] = lit "first line\nsecond" := by decide +kernel
example : gplusBlocks ⟨lit "h", 70⟩ (lit "adm") none
    { selector := lit "/a.txt", type := some (lit "0"), name := some (lit "a.txt"), gplus := true,
      mimetype := some (lit "text/plain"), size := some 2048, ea := [(lit "ABSTRACT", lit "x\ny")] } =
  some (lit "+INFO: 0a.txt\t/a.txt\th\t70\t+\r\n+ADMIN:\r\n Admin: adm\r\n+VIEWS:\r\n text/plain: <2k>\r\n+ABSTRACT:\r\n x\r\n y\r\n") := by
  decide +kernel

/-! ### end to end: the item a listing shows is the item `!` and `$` describe (Model/Site, Model/Serve) -/

theorem listed_member_entryAt (c : SiteCfg) (st : StatFn) (base name : Str) (k : Node) (e : Entry) (isf : Bool)
    (h : (childOf c st base name k).entry = some (e, isf)) :
    dispatch c st (base ++ [47] ++ name) ≠ .notFound ∧ entryAt c st (base ++ [47] ++ name) = some e := by
  simp only [childOf] at h
  split at h
  · simp at h
  · rename_i hne
    cases hx : entryAt c st (base ++ [47] ++ name) with
    | none => rw [hx] at h; simp at h
    | some x =>
      rw [hx] at h
      simp only [Option.map_some, Option.some.injEq, Prod.mk.injEq] at h
      exact ⟨fun hd => hne hd, by rw [h.1]⟩

/-- what the handler chain hands over for the selector of a listed member is built around the very entry the listing
    shows: never not-found, and every outcome that carries an entry carries that one -/
theorem handled_listed_member (c : ServeCfg) (st : StatFn) (base name : Str) (k : Node) (e : Entry) (isf : Bool)
    (h : (childOf c.site st base name k).entry = some (e, isf)) :
    match handled c st (base ++ [47] ++ name) with
    | .notFound _ => False
    | .menu self _ => self = e
    | .document x _ => x = e
    | .page x _ => x = e
    | .crash => True := by
  obtain ⟨hne, he⟩ := listed_member_entryAt c.site st base name k e isf h
  unfold handled
  cases hd : dispatch c.site st (base ++ [47] ++ name) <;> simp only [he]
  case notFound => exact hne hd
  case file => cases st (base ++ [47] ++ name) with
    | none => trivial
    | some n => cases n <;> simp
  case htmlFile => cases st (base ++ [47] ++ name) with
    | none => trivial
    | some n => cases n <;> simp
  all_goals (first | (cases siteEntries c.site st (base ++ [47] ++ name) <;> simp) | simp)
/-- **`!` on a listed item answers with the listed entry's own blocks** (end to end, Model/Serve): whatever directory
    of whatever site the plain directory handler lists, a Gopher+ information request for the selector of any entry
    of that listing — if it is answered at all — is `+-2` followed by `gplusBlocks` of *that same entry*: the one the
    menu line, the `$` listing and every other protocol's view of the directory are rendered from. -/
theorem info_request_answers_with_listed_entry (c : ServeCfg) (hu : c.site.dir.umn = false) (st : StatFn) (sel : Str)
    (es : List Entry) (hd : dispatch c.site st sel = .dir) (h : siteEntries c.site st sel = some es)
    (e : Entry) (he : e ∈ es) (p : Proto) (hp : Wire.ofProto p = .gopherp) (rq : Parsed)
    (hsel : rq.selector = e.selector) (hg : rq.gplus = some (lit "!")) (hb : rq.badRequest = false)
    (hgi : rq.geminiInput = none) (ps : List Piece) (hr : respondParsed c st p rq = some ps) :
    ∃ b, gplusBlocks c.render.srv c.render.admin none e = some b ∧ ps = [.text (lit "+-2\r\n" ++ b)] := by
  simp only [siteEntries, hd] at h
  cases hk : kidsAt st sel with
  | none => simp [hk] at h
  | some kids =>
    simp only [hk, Option.bind_some] at h
    obtain ⟨ch, hch, b, hent, _⟩ := Pyg.Props.C07.plain_nothing_else c.site.dir hu sel _ es h e he
    obtain ⟨⟨n, k⟩, _, rfl⟩ := List.mem_map.mp hch
    have hs := (Pyg.Props.C05.listed_member_is_served c.site st _ n k e b hent).1
    have hm := handled_listed_member c st _ n k e b hent
    rw [← hs, ← hsel] at hm
    unfold respondParsed at hr
    simp only [hb, hgi, hp, hg, Bool.false_eq_true, if_false, Option.isSome_none, beq_self_eq_true, if_true] at hr
    cases hh : handled c st rq.selector with
    | notFound m => simp [hh] at hm
    | crash => simp [hh] at hr
    | menu self es' =>
      simp only [hh] at hm hr; subst hm
      cases hb' : gplusBlocks c.render.srv c.render.admin none self with
      | none => simp [hb'] at hr
      | some bl => exact ⟨bl, rfl, by simpa [hb'] using hr.symm⟩
    | document x d =>
      simp only [hh] at hm hr; subst hm
      cases hb' : gplusBlocks c.render.srv c.render.admin none x with
      | none => simp [hb'] at hr
      | some bl => exact ⟨bl, rfl, by simpa [hb'] using hr.symm⟩
    | page x t =>
      simp only [hh] at hm hr; subst hm
      cases hb' : gplusBlocks c.render.srv c.render.admin none x with
      | none => simp [hb'] at hr
      | some bl => exact ⟨bl, rfl, by simpa [hb'] using hr.symm⟩
/-- ... and its `+INFO` line is the line the plain Gopher menu of the directory shows for the entry -/
theorem info_line_is_the_directory_menu_line (c : ServeCfg) (hu : c.site.dir.umn = false) (st : StatFn) (sel : Str)
    (es : List Entry) (hd : dispatch c.site st sel = .dir) (h : siteEntries c.site st sel = some es)
    (e : Entry) (he : e ∈ es) (hno : e.ea.any (·.1 == lit "INFO") = false)
    (p : Proto) (hp : Wire.ofProto p = .gopherp) (rq : Parsed)
    (hsel : rq.selector = e.selector) (hg : rq.gplus = some (lit "!")) (hb : rq.badRequest = false)
    (hgi : rq.geminiInput = none) (ps : List Piece) (hr : respondParsed c st p rq = some ps) :
    ∃ line b, gopher0Line c.render.srv e = some line ∧ ps = [.text (lit "+-2\r\n" ++ b)] ∧ lit "+INFO: " ++ line <+: b := by
  obtain ⟨b, hb', hps⟩ := info_request_answers_with_listed_entry c hu st sel es hd h e he p hp rq hsel hg hb hgi ps hr
  obtain ⟨line, hl, hpre⟩ := info_is_menu_line c.render.srv c.render.admin none e b hno hb'
  exact ⟨line, b, hl, hps, hpre⟩

/-- the hypotheses are met: a directory `/d` holding `a.txt`, claimed by the plain handler; `!` for `/d/a.txt` is answered
    (the listing itself sorts with `List.mergeSort`, which the kernel does not unfold: that `/d` lists `a.txt` is what the
    site correspondence runs on every check) -/
def exSite : SiteCfg :=
  { forbidden := Generated.forbidden, eaexts := [], defaultMime := lit "text/plain", gophermap := false,
    dir := { ignore := [], extstrip := lit "none", umn := false },
    guess := fun _ => (some (lit "text/plain"), none), typeOf := fun _ => lit "0", strip := fun n => n }
def exServe : ServeCfg :=
  { site := exSite, waptop := lit "/wap", protos := [],
    render := { srv := { name := lit "h", port := 70 }, iconmapping := [], waptop := lit "/wap", accesskeys := [], queryPrefix := [],
                admin := lit "adm", modDate := fun _ => none, abstractHeaders := false, abstractEntries := lit "never" } }
def exTree : Node := .dir [(lit "d", .dir [(lit "a.txt", .file (lit "hello\n"))])]

example : dispatch exSite (statAt exTree) (lit "/d") = .dir ∧
    ((respondParsed exServe (statAt exTree) .gopherp { selector := lit "/d/a.txt", search := none, gplus := some (lit "!") }).map
        fun ps => flattenPieces ps) =
      some (lit "+-2\r\n+INFO: 0a.txt\t/d/a.txt\th\t70\t+\r\n+ADMIN:\r\n Admin: adm\r\n+VIEWS:\r\n text/plain: <0k>\r\n") := by decide +kernel
theorem gplusFix_idem (e : Entry) : gplusFix (gplusFix e) = gplusFix e := by
  unfold gplusFix
  split
  · rename_i h
    have : ((some (lit "application/gopher+-menu") : Option Str) == some (lit "application/gopher-menu")) = false := by decide
    simp only [this, Bool.false_and, Bool.false_eq_true, if_false]
  · simp

theorem gplusBlocks_fix (srv : ServerId) (admin : Str) (md : Option Str) (e : Entry) :
    gplusBlocks srv admin md (gplusFix e) = gplusBlocks srv admin md e := by
  unfold gplusBlocks; rw [gplusFix_idem]

/-- every entry of the rendered sequence contributes its own rendering, as a contiguous piece of the output -/
theorem renderSeq_gplus_mem (c : RenderCfg) (l : List Entry) (st : WapState) (out : Str)
    (h : renderSeq c .gplusDir st l = some out) (e : Entry) (he : e ∈ l) :
    ∃ b pre post, gplusBlocks c.srv c.admin (e.mtime.bind c.modDate) e = some b ∧ out = pre ++ b ++ post := by
  induction l generalizing out with
  | nil => simp at he
  | cons x xs ih =>
    unfold renderSeq at h
    simp only at h
    cases hx : gplusBlocks c.srv c.admin (x.mtime.bind c.modDate) x with
    | none => simp [hx] at h
    | some a =>
      cases hr : renderSeq c .gplusDir st xs with
      | none => simp [hx, hr] at h
      | some r =>
        simp only [hx, hr, Option.some.injEq] at h
        rcases List.mem_cons.mp he with rfl | hin
        · exact ⟨a, [], r, hx, by simp [← h]⟩
        · obtain ⟨b, pre, post, hb, ho⟩ := ih r hr hin
          exact ⟨b, a ++ pre, post, hb, by rw [← h, ho]; simp [List.append_assoc]⟩

/-- **`$` on a directory carries every item's information**: with abstracts left to the protocols that show them
    (`abstract_headers` off, `abstract_entries = never`), the Gopher+ directory listing of any entry list contains, for
    each entry, exactly the blocks an `!` request for that entry is answered with (same `gplusBlocks`, with the
    modification date the directory view adds) -/
theorem dollar_listing_contains_item_info (c : RenderCfg) (hh : c.abstractHeaders = false)
    (ha : c.abstractEntries = lit "never") (self : Entry) (es : List Entry) (out : Str)
    (h : listingBody c .gplusDir true self es = some out) (e : Entry) (he : e ∈ es) :
    ∃ b pre post, gplusBlocks c.srv c.admin (e.mtime.bind c.modDate) e = some b ∧ out = pre ++ b ++ post := by
  unfold listingBody at h
  have hd : doAbstracts c.abstractEntries (View.gplusDir.groksAbstract || true) = false := by
    rw [ha]; decide
  simp only [hh, hd, if_true, Pyg.Props.C06.walk_without_abstracts] at h
  obtain ⟨b, pre, post, hb, ho⟩ := renderSeq_gplus_mem c _ _ out h (gplusFix e) (List.mem_map.mpr ⟨e, he, rfl⟩)
  have hm : (gplusFix e).mtime = e.mtime := by unfold gplusFix; split <;> rfl
  rw [gplusBlocks_fix, hm] at hb
  exact ⟨b, pre, post, hb, ho⟩

end Pyg.Props.C15
