import PygVerif.Generated
import PygVerif.Model.Listing
import PygVerif.Props.C13
import PygVerif.Props.C04
/-!
# C15 — Gopher+ item information is faithful
-/
namespace Pyg.Props.C15
open Pyg

/-- **+INFO is the menu line.** The `+INFO` block of an item is `+INFO: ` followed by exactly
    the plain Gopher renderer's line for the same entry (after the Gopher+ menu MIME rewrite,
    which does not touch any field the menu line shows). -/
theorem info_is_menu_line (srv : ServerId) (admin : Str) (md : Option Str) (e : Entry) (out : Str)
    (hno : e.ea.any (·.1 == lit "INFO") = false) (h : gplusBlocks srv admin md e = some out) :
    ∃ line, gopher0Line srv e = some line ∧ lit "+INFO: " ++ line <+: out := by
  unfold gplusBlocks at h
  have hfix : gopher0Line srv (gplusFix e) = gopher0Line srv e := by
    unfold gplusFix; split <;> rfl
  have hea : (gplusFix e).ea = e.ea := by unfold gplusFix; split <;> rfl
  simp only [hfix, hea, hno, Bool.false_eq_true, if_false] at h
  cases hl : gopher0Line srv e with
  | none => simp [hl] at h
  | some line =>
    simp only [hl, Option.map_some, Option.some.injEq] at h
    exact ⟨line, rfl, by rw [← h]; simp [List.append_assoc]⟩

/-- names of the blocks of an entry, in order -/
def blockNames (e : Entry) : List Str :=
  [lit "+INFO", lit "+ADMIN", lit "+VIEWS"] ++ e.ea.map fun kv => [43] ++ kv.1

/-- **Block structure.** The attribute listing is the concatenation of the INFO, ADMIN and
    VIEWS blocks followed by one block per extended attribute, in the entry's own order. -/
theorem block_structure (srv : ServerId) (admin : Str) (md : Option Str) (e : Entry) (line : Str)
    (hl : gopher0Line srv e = some line)
    (h1 : e.ea.any (·.1 == lit "INFO") = false) (h2 : e.ea.any (·.1 == lit "ADMIN") = false)
    (h3 : e.ea.any (·.1 == lit "VIEWS") = false) :
    gplusBlocks srv admin md e = some (lit "+INFO: " ++ line ++
      adminBlock admin (if (gplusFix e).mtime.getD 0 == 0 then none else md) ++ viewsBlock (gplusFix e) ++
      (e.ea.map fun (k, v) => eaBlock k v).flatten) := by
  unfold gplusBlocks
  have hfix : gopher0Line srv (gplusFix e) = gopher0Line srv e := by
    unfold gplusFix; split <;> rfl
  have hea : (gplusFix e).ea = e.ea := by unfold gplusFix; split <;> rfl
  simp [hfix, hea, hl, h1, h2, h3]

/-- **+VIEWS names the MIME type and the size in k.** -/
theorem views_block (e : Entry) (m : Str) (n : Nat) (hm : e.mimetype = some m) (hne : m ≠ [])
    (hl : e.language = none) (hs : e.size = some n) :
    viewsBlock e = lit "+VIEWS:\r\n " ++ m ++ lit ": <" ++ toDec (n / 1024) ++ lit "k>\r\n" := by
  have : m.isEmpty = false := by cases m <;> simp_all
  simp [viewsBlock, hm, this, hl, hs, lit]

theorem views_block_no_size (e : Entry) (m : Str) (hm : e.mimetype = some m) (hne : m ≠ [])
    (hl : e.language = none) (hs : e.size = none) :
    viewsBlock e = lit "+VIEWS:\r\n " ++ m ++ lit ":\r\n" := by
  have : m.isEmpty = false := by cases m <;> simp_all
  simp [viewsBlock, hm, this, hl, hs, lit]

/-! ### sidecar blocks carry exactly the sidecar's lines -/

/-- the value stored for a sidecar: right-stripped lines joined by `\n` -/
def readEA (ls : List Str) : Str := joinWith 10 (ls.map rstrip)

/-- `splitlinesAux` on a string without line boundaries returns the accumulated line -/
theorem splitlinesAux_plain (s cur : Str) (h : ∀ c ∈ s, isLineBreak c = false) :
    splitlinesAux s cur = if (s.reverse ++ cur).isEmpty then [] else [(s.reverse ++ cur).reverse] := by
  induction s generalizing cur with
  | nil => simp [splitlinesAux]
  | cons c cs ih =>
    have hc := h c (by simp)
    have ih := ih (c :: cur) (fun x hx => h x (by simp [hx]))
    have hne : ¬ (c = 13 ∧ ∃ r, cs = 10 :: r) := by
      intro ⟨h13, _⟩; subst h13; simp [isLineBreak] at hc
    rw [splitlinesAux]
    · simp only [hc, Bool.false_eq_true, if_false, ih]
      simp [List.append_assoc]
    · intro r h13 hcs; exact hne ⟨h13, r, hcs⟩

/-- splitting a line followed by `\n` and more text -/
theorem splitlinesAux_line (l rest cur : Str) (h : ∀ c ∈ l, isLineBreak c = false) :
    splitlinesAux (l ++ 10 :: rest) cur = (l.reverse ++ cur).reverse :: splitlinesAux rest [] := by
  induction l generalizing cur with
  | nil =>
    simp only [List.nil_append, List.reverse_nil]
    rw [splitlinesAux]
    · simp [isLineBreak]
    · intro r h13 _; simp at h13
  | cons c cs ih =>
    have hc := h c (by simp)
    have ih := ih (c :: cur) (fun x hx => h x (by simp [hx]))
    simp only [List.cons_append]
    rw [splitlinesAux]
    · simp only [hc, Bool.false_eq_true, if_false, ih]
      simp [List.append_assoc]
    · intro r h13 _; subst h13; simp [isLineBreak] at hc

/-- **Sidecar lines survive.** For printable sidecar lines (no embedded line boundary once
    right-stripped, none of them empty after stripping), the lines a client reads back from the
    block are exactly the sidecar's right-stripped lines. -/
theorem ea_block_roundtrip (ls : List Str)
    (hp : ∀ l ∈ ls, (∀ c ∈ rstrip l, isLineBreak c = false) ∧ rstrip l ≠ []) :
    splitlines (readEA ls) = ls.map rstrip := by
  unfold splitlines readEA
  induction ls with
  | nil => simp [joinWith, splitlinesAux]
  | cons l r ih =>
    have hl := hp l (by simp)
    have ih := ih (fun x hx => hp x (by simp [hx]))
    cases r with
    | nil =>
      simp only [List.map_cons, List.map_nil, joinWith]
      rw [splitlinesAux_plain _ _ hl.1]
      have : ((rstrip l).reverse ++ []).isEmpty = false := by
        cases h : rstrip l with
        | nil => exact absurd h hl.2
        | cons a b => simp
      simp [hl.2]
    | cons l2 r2 =>
      simp only [List.map_cons, joinWith] at ih ⊢
      rw [splitlinesAux_line _ _ _ hl.1]
      simp [ih]

/-- and the block a client sees is the header plus those lines, each behind one space -/
theorem ea_block_lines (k : Str) (ls : List Str)
    (hp : ∀ l ∈ ls, (∀ c ∈ rstrip l, isLineBreak c = false) ∧ rstrip l ≠ []) :
    C13.eaBlockLines k (readEA ls) = ([43] ++ k ++ [58]) :: (ls.map rstrip).map fun l => [32] ++ l := by
  simp [C13.eaBlockLines, ea_block_roundtrip ls hp]

/-- **A `+` request for a document is prefixed by its exact length, or by the unknown marker**
    (shared with C04). -/
theorem doc_length_or_unknown (bs : Bytes) :
    splitCrlf (gplusDoc (some bs.length) (copyto Generated.copyBlock bs)) = (43 :: toDec bs.length, bs) ∧
    splitCrlf (gplusDoc none bs) = (lit "+-2", bs) :=
  ⟨C04.gplus_length bs, C04.gplus_unknown bs⟩

/-! non-vacuity -/
example : readEA [lit "first line  \n", lit "second\r\n"] = lit "first line\nsecond" := by decide +kernel
example : gplusBlocks ⟨lit "h", 70⟩ (lit "adm") none
    { selector := lit "/a.txt", type := some (lit "0"), name := some (lit "a.txt"), gplus := true,
      mimetype := some (lit "text/plain"), size := some 2048, ea := [(lit "ABSTRACT", lit "x\ny")] } =
  some (lit "+INFO: 0a.txt\t/a.txt\th\t70\t+\r\n+ADMIN:\r\n Admin: adm\r\n+VIEWS:\r\n text/plain: <2k>\r\n+ABSTRACT:\r\n x\r\n y\r\n") := by
  decide +kernel

end Pyg.Props.C15
