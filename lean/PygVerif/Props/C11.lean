import PygVerif.Model.Cache
/-!
# C11 — A cache file cut off at any byte is harmless

`load` is the unpickler (an oracle).  The only assumption on it is `PrefixFails`: no strict
prefix of a file the server wrote loads — validated exhaustively on the real pickles by the
harness (every prefix length of every generated cache file) and shown satisfiable here by a
concrete prefix-free serializer.
-/
namespace Pyg.Props.C11
open Pyg.Cache

variable {L : Type}

/-- no strict prefix of a written file loads (nor does the zero-filled file) -/
def PrefixFails (load : List Nat → Option L) (written : List Nat) : Prop :=
  ∀ p, p <+: written → p ≠ written → load p = none

/-- **A cache file that does not load is a cache miss**: the request is answered with the
    regenerated — correct and complete — listing. -/
theorem bad_cache_is_miss (load : List Nat → Option L) (bytes : List Nat) (fresh : L)
    (h : load bytes = none) : listWithCache load (some bytes) fresh = fresh := by
  simp [listWithCache, h]

/-- **Cut off at any byte.** For every truncation point `k`, the next request returns either
    the cached listing (file complete) or the regenerated one — never anything else. With a
    cache that was written for the current directory both are the correct listing. -/
theorem prefix_harmless (load : List Nat → Option L) (written : List Nat) (cached fresh : L)
    (hload : load written = some cached) (hp : PrefixFails load written) (k : Nat) :
    listWithCache load (some (written.take k)) fresh = (if written.length ≤ k then cached else fresh) := by
  by_cases hk : written.length ≤ k
  · simp [listWithCache, List.take_of_length_le hk, hload, hk]
  · have hne : written.take k ≠ written := by
      intro e
      have := congrArg List.length e
      simp only [List.length_take] at this
      omega
    simp [listWithCache, hp _ (List.take_prefix k written) hne, hk]

/-- the listing served is correct whenever the complete cache is (transparent cache, C10) -/
theorem truncation_never_wrong (load : List Nat → Option L) (written : List Nat) (correct : L)
    (hload : load written = some correct) (hp : PrefixFails load written) (k : Nat) :
    listWithCache load (some (written.take k)) correct = correct := by
  rw [prefix_harmless load written correct correct hload hp k]; split <;> rfl

/-- an empty (truncated-to-zero) file, the first thing a rewriting process produces -/
theorem empty_file_harmless (load : List Nat → Option L) (written : List Nat) (correct : L)
    (hload : load written = some correct) (hp : PrefixFails load written) (hne : written ≠ []) :
    listWithCache load (some []) correct = correct := by
  have := truncation_never_wrong load written correct hload hp 0
  simpa using this

/-- the assumption is satisfiable: a length-prefixed serializer is prefix-free -/
theorem ser_prefix_fails (l : List Nat) : deser (ser l) = some l ∧ PrefixFails deser (ser l) := by
  refine ⟨by simp [ser, deser], ?_⟩
  intro p hp hne
  cases p with
  | nil => rfl
  | cons n r =>
    simp only [ser] at hp hne
    obtain ⟨t, ht⟩ := hp
    simp only [List.cons_append, List.cons.injEq] at ht
    obtain ⟨hn, hr⟩ := ht
    subst hn
    simp only [deser]
    split
    · rename_i hlen
      exfalso
      have : t = [] := by
        have := congrArg List.length hr
        simp only [List.length_append] at this
        exact List.eq_nil_of_length_eq_zero (by omega)
      subst this
      simp at hr
      exact hne (by rw [hr])
    · rfl

end Pyg.Props.C11
