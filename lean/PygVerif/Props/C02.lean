import PygVerif.Generated
import PygVerif.Model.Proto
/-!
# C02 — Protocol autodetection is deterministic, ordered and strict about TLS

`Generated.shippedProtocols` and `Generated.waptop` are read from `/repo/conf/pygopherd.conf`
on every run.
-/
namespace Pyg.Props.C02
open Pyg

/-- the shipped protocol list, parsed -/
def shipped : List Proto := Generated.shippedProtocols.filterMap Proto.ofName

/-- every configured class name is one the model knows, in this order -/
theorem shipped_list :
    Generated.shippedProtocols.map Proto.ofName =
      [some .wap, some .gemini, some .http, some .https, some .spartan, some .gopherp,
       some .sgopherp, some .gopher, some .sgopher] := by decide +kernel

theorem shipped_eq :
    shipped = [.wap, .gemini, .http, .https, .spartan, .gopherp, .sgopherp, .gopher, .sgopher] := by
  decide +kernel

/-- **Ordered.** The answering protocol accepts the line, and every protocol configured
    before it rejects it. -/
theorem detect_first (w : Str) (ps : List Proto) (c : Conn) (p : Proto)
    (h : detect w ps c = some p) :
    can w p c = true ∧ ∃ pre post, ps = pre ++ p :: post ∧ ∀ q ∈ pre, can w q c = false := by
  unfold detect at h
  refine ⟨by simpa using List.find?_some h, ?_⟩
  obtain ⟨_, pre, post, hps, hpre⟩ := List.find?_eq_some_iff_append.mp h
  exact ⟨pre, post, hps, fun q hq => by simpa using hpre q hq⟩

/-- **Strict about TLS.** Whatever accepts a connection has `secure` equal to the
    connection's TLS flag: plaintext protocols never answer TLS and vice versa. -/
theorem can_strict (w : Str) (p : Proto) (c : Conn) (h : can w p c = true) : p.secure = c.tls := by
  cases p <;> simp only [can, Proto.secure, wapCan, Bool.and_eq_true, beq_iff_eq,
    Bool.not_eq_true', Bool.not_eq_eq_eq_not, Bool.not_true] at h ⊢
  all_goals (first | exact h.1.1.symm | exact h.1.symm | exact h.1 | (rw [h.1.1]) | skip)
  all_goals (first | exact h.1.1 ▸ rfl | simp_all)

theorem detect_strict (w : Str) (ps : List Proto) (c : Conn) (p : Proto)
    (h : detect w ps c = some p) : p.secure = c.tls :=
  can_strict w p c (detect_first w ps c p h).1

/-- **Total.** With both catch-all classes configured, every line on every kind of
    connection is claimed by some protocol. -/
theorem detect_total (w : Str) (ps : List Proto) (hg : Proto.gopher ∈ ps) (hs : Proto.sgopher ∈ ps)
    (c : Conn) : ∃ p, detect w ps c = some p := by
  unfold detect
  cases htls : c.tls with
  | false =>
    have : (ps.find? fun p => can w p c).isSome := by
      rw [List.find?_isSome]; exact ⟨.gopher, hg, by simp [can, Proto.secure, htls]⟩
    exact Option.isSome_iff_exists.mp this
  | true =>
    have : (ps.find? fun p => can w p c).isSome := by
      rw [List.find?_isSome]; exact ⟨.sgopher, hs, by simp [can, Proto.secure, htls]⟩
    exact Option.isSome_iff_exists.mp this

theorem shipped_total (c : Conn) : ∃ p, detect Generated.waptop shipped c = some p :=
  detect_total _ _ (by rw [shipped_eq]; decide) (by rw [shipped_eq]; decide) c

/-- **Deterministic.** The answer is a function of the configured order, the TLS flag, the
    first line and (for WAP header sniffing) the following header lines — nothing else. -/
theorem detect_deterministic (w : Str) (ps : List Proto) (c₁ c₂ : Conn)
    (ht : c₁.tls = c₂.tls) (hl : c₁.line = c₂.line) (hr : c₁.rest = c₂.rest) :
    detect w ps c₁ = detect w ps c₂ := by
  cases c₁; cases c₂; simp_all

/-! ### documented request shapes -/

theorem gopher_claims_everything (w : Str) (c : Conn) : can w .gopher c = !c.tls := by
  simp [can, Proto.secure]

theorem gopherp_shape (w : Str) (c : Conn) :
    can w .gopherp c = true ↔
      c.tls = false ∧ ∃ g, gopherpString c.line = some g ∧ g ≠ [] ∧
        (g.head? = some 43 ∨ g = [33] ∨ g.head? = some 36) := by
  simp only [can, Proto.secure, Bool.and_eq_true, beq_iff_eq]
  constructor
  · rintro ⟨h1, h2⟩
    refine ⟨h1.symm, ?_⟩
    cases hg : gopherpString c.line with
    | none => simp [hg] at h2
    | some g =>
      simp only [hg] at h2
      refine ⟨g, rfl, ?_⟩
      cases g with
      | nil => simp [isGplusString] at h2
      | cons x xs =>
        simp only [isGplusString, Bool.or_eq_true, beq_iff_eq] at h2
        refine ⟨by simp, ?_⟩
        rcases h2 with (h | h) | h
        · exact Or.inl (by simp [h])
        · exact Or.inr (Or.inl h)
        · exact Or.inr (Or.inr (by simp [h]))
  · rintro ⟨h1, g, hg, hne, h⟩
    refine ⟨h1.symm, ?_⟩
    simp only [hg]
    cases g with
    | nil => exact absurd rfl hne
    | cons x xs =>
      simp only [isGplusString, Bool.or_eq_true, beq_iff_eq]
      rcases h with h | h | h
      · exact Or.inl (Or.inl (by simpa using h))
      · exact Or.inl (Or.inr h)
      · exact Or.inr (by simpa using h)

theorem http_shape (w : Str) (c : Conn) :
    can w .http c = true ↔
      c.tls = false ∧ ∃ m path v, requestParts c.line = [m, path, v] ∧
        (m = lit "GET" ∨ m = lit "HEAD") ∧ lit "HTTP/" <+: v := by
  simp only [can, Proto.secure, Bool.and_eq_true, beq_iff_eq, httpShape]
  constructor
  · rintro ⟨h1, h2⟩
    refine ⟨h1.symm, ?_⟩
    split at h2
    · rename_i m p v heq
      simp only [Bool.and_eq_true, Bool.or_eq_true, beq_iff_eq] at h2
      exact ⟨m, p, v, heq, h2.1, (isPrefixB_iff' _ _).mp h2.2⟩
    · exact absurd h2 (by simp)
  · rintro ⟨h1, m, p, v, heq, hm, hv⟩
    refine ⟨h1.symm, ?_⟩
    rw [heq]
    simp only [Bool.and_eq_true, Bool.or_eq_true, beq_iff_eq]
    exact ⟨hm, (isPrefixB_iff' _ _).mpr hv⟩
where
  isPrefixB_iff' (p s : Str) : isPrefixB p s = true ↔ p <+: s := by
    induction p generalizing s with
    | nil => simp [isPrefixB]
    | cons a p ih =>
      cases s with
      | nil => simp [isPrefixB]
      | cons b s => simp [isPrefixB, ih, List.cons_prefix_cons]

theorem gemini_shape (w : Str) (c : Conn) :
    can w .gemini c = (c.tls && isPrefixB (lit "gemini://") c.line) := rfl

theorem spartan_plaintext_ascii (w : Str) (c : Conn) (h : can w .spartan c = true) :
    c.tls = false ∧ ∀ ch ∈ c.line, ch < 128 := by
  simp only [can, spartanShape, isAsciiStr, Bool.and_eq_true, Bool.not_eq_true',
    List.all_eq_true, decide_eq_true_eq] at h
  exact ⟨h.1, h.2.1⟩

/-! ### TLS sniff -/

theorem sniff_tls_iff (s : Bytes) : (sniff s).1 = true ↔ s.head? = some 0x16 := by
  simp [sniff]

theorem sniff_consumes_nothing (s : Bytes) : (sniff s).2 = s := rfl

/-! ### non-vacuity -/
example : detect Generated.waptop shipped ⟨false, lit "GET / HTTP/1.0\r\n", []⟩ = some .http := by
  decide +kernel
example : detect Generated.waptop shipped ⟨false, lit "/README\t+\r\n", []⟩ = some .gopherp := by
  decide +kernel
example : detect Generated.waptop shipped ⟨false, lit "/README\t\r\n", []⟩ = some .gopher := by
  decide +kernel
example : detect Generated.waptop shipped ⟨true, lit "gemini://h/\r\n", []⟩ = some .gemini := by
  decide +kernel
example : detect Generated.waptop shipped ⟨false, lit "GET /wap/x HTTP/1.0\r\n", []⟩ = some .wap := by
  decide +kernel
example : detect Generated.waptop shipped ⟨false, lit "GET /wapiti HTTP/1.0\r\n", []⟩ = some .http := by
  decide +kernel

end Pyg.Props.C02
