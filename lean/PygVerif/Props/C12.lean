import PygVerif.Props.C07
import PygVerif.Props.C01
import PygVerif.Model.Site
/-!
# C12 — One unservable entry never takes down its directory

In `Model/Umn` an unservable member (dangling symbolic link, socket or FIFO, a member deleted
between enumeration and inspection, a name the selector filter rejects) is a `Child` whose
`entry` is `none` (no handler, or an I/O error while building its entry) and whose contents
cannot be read.
-/
namespace Pyg.Props.C12
open Pyg Pyg.Props.C07

/-- a member that cannot be served and cannot be read -/
def Unservable (f : Child) : Prop := f.entry = none ∧ f.lines = none

theorem collectLinks_append (c : DirCfg) (d base : Str) (a b : List Child) :
    collectLinks c d base (a ++ b) =
      match collectLinks c d base a, collectLinks c d base b with
      | some x, some y => some (x ++ y)
      | _, _ => none := by
  induction a with
  | nil => simp [collectLinks]; cases collectLinks c d base b <;> rfl
  | cons x r ih =>
    simp only [List.cons_append, collectLinks, ih]
    cases linksOf c d base x <;> cases collectLinks c d base r <;> cases collectLinks c d base b <;> simp

theorem childEntries_append (c : DirCfg) (d base : Str) (a b : List Child) :
    childEntries c d base (a ++ b) =
      match childEntries c d base a, childEntries c d base b with
      | some x, some y => some (x ++ y)
      | _, _ => none := by
  induction a with
  | nil => simp [childEntries]; cases childEntries c d base b <;> rfl
  | cons x r ih =>
    simp only [List.cons_append, childEntries, ih]
    cases childEntry c d base x with
    | none => simp
    | some o =>
      cases o <;> cases childEntries c d base r <;> cases childEntries c d base b <;> simp

theorem unservable_no_links (c : DirCfg) (d base : Str) (f : Child) (hf : Unservable f) :
    collectLinks c d base [f] = some [] := by
  have : linksOf c d base f = some [] := by
    unfold linksOf; rw [hf.2]; split <;> rfl
  simp [collectLinks, this]

theorem unservable_no_entry (c : DirCfg) (d base : Str) (f : Child) (hf : Unservable f) :
    childEntries c d base [f] = some [] := by
  simp [childEntries, childEntry, hf.1]

/-- **Only the faulty entry is omitted.** Adding an unservable member to a directory changes
    nothing in its listing: the listing still succeeds when it did, with exactly the same
    entries in the same order — for the plain and for the UMN handler. -/
theorem faulty_member_is_transparent (c : DirCfg) (d : Str) (f : Child) (kids : List Child)
    (hf : Unservable f) : dirListing c d (f :: kids) = dirListing c d kids := by
  obtain ⟨l₁, l₂, h1, h2, _⟩ := List.mergeSort_cons (le := childLe) childLe_trans childLe_total f kids
  unfold dirListing
  have e : (fun a b : Child => strLe a.name b.name) = childLe := rfl
  simp only [e, h1, h2]
  generalize (if d == [47] then [] else d) = base
  have hl : collectLinks c d base (l₁ ++ f :: l₂) = collectLinks c d base (l₁ ++ l₂) := by
    have : l₁ ++ f :: l₂ = l₁ ++ ([f] ++ l₂) := by simp
    rw [this, collectLinks_append, collectLinks_append c d base [f] l₂, unservable_no_links c d base f hf,
      collectLinks_append c d base l₁ l₂]
    cases collectLinks c d base l₁ <;> cases collectLinks c d base l₂ <;> simp
  have hc : childEntries c d base ((l₁ ++ f :: l₂).filter (visibleName c base)) =
      childEntries c d base ((l₁ ++ l₂).filter (visibleName c base)) := by
    simp only [List.filter_append, List.filter_cons]
    split
    · have : List.filter (visibleName c base) l₁ ++ f :: List.filter (visibleName c base) l₂ =
          List.filter (visibleName c base) l₁ ++ ([f] ++ List.filter (visibleName c base) l₂) := by simp
      rw [this, childEntries_append, childEntries_append c d base [f], unservable_no_entry c d base f hf,
        childEntries_append c d base (List.filter (visibleName c base) l₁)]
      cases childEntries c d base (List.filter (visibleName c base) l₁) <;>
        cases childEntries c d base (List.filter (visibleName c base) l₂) <;> simp
    · rfl
  rw [hl, hc]

/-- any number of unservable members, anywhere in the enumeration (names identify members) -/
theorem faulty_members_are_transparent (c : DirCfg) (d : Str) (faulty kids : List Child)
    (hf : ∀ f ∈ faulty, Unservable f) : dirListing c d (faulty ++ kids) = dirListing c d kids := by
  induction faulty with
  | nil => rfl
  | cons f r ih =>
    simp only [List.cons_append]
    rw [faulty_member_is_transparent c d f (r ++ kids) (hf f (by simp))]
    exact ih (fun x hx => hf x (by simp [hx]))

theorem fault_position_irrelevant (c : DirCfg) (d : Str) (f : Child) (a b : List Child) (hf : Unservable f)
    (hname : ∀ x ∈ a ++ f :: b, ∀ y ∈ a ++ f :: b, x.name = y.name → x = y) :
    dirListing c d (a ++ f :: b) = dirListing c d (a ++ b) := by
  rw [listing_perm_invariant c d (a ++ f :: b) (f :: (a ++ b)) (List.perm_middle) hname]
  exact faulty_member_is_transparent c d f (a ++ b) hf

/-- **A name the security filter rejects is such a fault**: a member whose name contains `..`
    (or `./`, `//`, a backslash pair, NUL) gives an insecure child selector, whatever the
    directory, so no handler accepts it. -/
theorem insecure_name_is_fault (base name bad : Str) (hb : bad ∈ Generated.forbidden) (hin : bad <:+: name) :
    C01.secure (base ++ [47] ++ name) = false := by
  cases h : C01.secure (base ++ [47] ++ name) with
  | false => rfl
  | true =>
    have := secure_no_infix h hb
    exact absurd (hin.trans ⟨base ++ [47], [], by simp⟩) this

/-! non-vacuity -/
example : Unservable { name := lit "dangling", isDir := false, entry := none, stripped := lit "dangling",
                       cap := none, lines := none } := ⟨rfl, rfl⟩

/-! ### the same in the whole-site model (Model/Site): from the file tree to the listing -/

theorem dispatch_notFound_of_fault (c : SiteCfg) (hurl : c.url = false) (st : StatFn) (sel : Str)
    (hfault : (match st sel with | some (.file _) => false | some (.dir _) => false | _ => true) = true
              ∨ secureB c.forbidden sel = false) :
    dispatch c st sel = .notFound := by
  unfold dispatch
  simp only [hurl, Bool.false_and, Bool.false_eq_true, if_false]
  rcases hfault with h | h
  · by_cases hs : secureB c.forbidden sel = true
    · simp only [hs, Bool.not_true, Bool.false_eq_true, if_false]
      cases hst : st sel with
      | none => rfl
      | some n => cases n <;> simp_all
    · simp [hs]
  · simp [h]

/-- **In the site model the fault kinds are unservable members.**  A member that is not there for `stat` (a dangling
    link, an entry deleted after enumeration) or is neither file nor directory (a socket, a FIFO), or whose selector
    the filter rejects, gets no entry; and unless it is a regular file its contents are never read. -/
theorem site_fault_is_unservable (c : SiteCfg) (hurl : c.url = false) (st : StatFn) (base name : Str) (k : Node)
    (hk : ∀ d, k ≠ .file d)
    (hfault : (match st (base ++ [47] ++ name) with | some (.file _) => false | some (.dir _) => false | _ => true) = true
              ∨ secureB c.forbidden (base ++ [47] ++ name) = false) :
    Unservable (childOf c st base name k) := by
  have hd := dispatch_notFound_of_fault c hurl st (base ++ [47] ++ name) hfault
  refine ⟨by simp only [childOf, hd], ?_⟩
  cases k with
  | file d => exact absurd rfl (hk d)
  | dir _ => rfl
  | other => rfl

/-- **One such member, anywhere in the directory, changes nothing in its listing** (site model, both handlers):
    the listing of a directory that holds it is the listing computed from the other members alone. -/
theorem site_listing_without_faulty_member (c : SiteCfg) (hurl : c.url = false) (st : StatFn) (sel : Str)
    (a b : List (Str × Node)) (n : Str) (k : Node) (hd : dispatch c st sel = .dir)
    (hkids : kidsAt st sel = some (a ++ (n, k) :: b))
    (hnames : ∀ x ∈ a ++ (n, k) :: b, ∀ y ∈ a ++ (n, k) :: b, x.1 = y.1 → x = y)
    (hk : ∀ d, k ≠ .file d)
    (hfault : (match st ((if sel = [47] then [] else sel) ++ [47] ++ n) with
               | some (.file _) => false | some (.dir _) => false | _ => true) = true
              ∨ secureB c.forbidden ((if sel = [47] then [] else sel) ++ [47] ++ n) = false) :
    siteEntries c st sel =
      dirListing c.dir sel ((a ++ b).map fun (m, j) => childOf c st (if sel = [47] then [] else sel) m j) := by
  simp only [siteEntries, hd, hkids, Option.bind_some, List.map_append, List.map_cons]
  apply fault_position_irrelevant
  · exact site_fault_is_unservable c hurl st _ n k hk hfault
  · intro x hx y hy hxy
    have back : ∀ z, z ∈ List.map (fun x : Str × Node => childOf c st (if sel = [47] then [] else sel) x.1 x.2) a ++
        childOf c st (if sel = [47] then [] else sel) n k ::
          List.map (fun x : Str × Node => childOf c st (if sel = [47] then [] else sel) x.1 x.2) b →
        ∃ p ∈ a ++ (n, k) :: b, childOf c st (if sel = [47] then [] else sel) p.1 p.2 = z := by
      intro z hz
      have : z ∈ List.map (fun x : Str × Node => childOf c st (if sel = [47] then [] else sel) x.1 x.2) (a ++ (n, k) :: b) := by
        simpa [List.map_append] using hz
      exact List.mem_map.mp this
    obtain ⟨⟨m1, j1⟩, h1, rfl⟩ := back x hx
    obtain ⟨⟨m2, j2⟩, h2, rfl⟩ := back y hy
    have : (m1, j1) = (m2, j2) := hnames _ h1 _ h2 (by simpa [childOf] using hxy)
    cases this; rfl


end Pyg.Props.C12
