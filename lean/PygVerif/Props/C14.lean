import PygVerif.Model.Conc
/-!
# C14 — Concurrent clients are isolated from one another

The two mechanisms through which requests share state, over *all* interleavings of their
atomic steps.  Real thread / process schedules, the accept queue and child reaping are runtime
and are exercised by the harness against the real threading and forking servers.
-/
namespace Pyg.Props.C14
open Pyg.Conc

/-- invariant: the shared cell is empty or holds `v`; a worker past `test` that decided not to assign
    did so because the cell already held `v`; a worker past `assign` sees `v` in the cell; every value
    recorded at `use` is `v`. -/
def okW (v : Nat) (sh : Option Nat) (w : W) : Prop :=
  (w.seen = none ∨ w.seen = some v) ∧
  (match w.prog with
   | [.test, .assign, .use] => w.seen = none
   | [.assign, .use] => w.seen = none ∧ (w.mustAssign = false → sh = some v)
   | [.use] => w.seen = none ∧ sh = some v
   | [] => True
   | _ => False)

def Inv (v : Nat) (s : Sys) : Prop := (s.shared = none ∨ s.shared = some v) ∧ ∀ w ∈ s.ws, okW v s.shared w

theorem okW_mono (v : Nat) (w : W) (sh sh' : Option Nat) (h : okW v sh w)
    (hm : sh = some v → sh' = some v) : okW v sh' w := by
  unfold okW at *
  refine ⟨h.1, ?_⟩
  have h2 := h.2
  split <;> simp_all

theorem inv_step (v : Nat) (s : Sys) (i : Nat) (h : Inv v s) : Inv v (stepSys v s i) := by
  unfold stepSys
  cases hw : s.ws[i]? with
  | none => simpa using h
  | some w =>
    have hwmem : w ∈ s.ws := List.mem_of_getElem? hw
    have hok := h.2 w hwmem
    simp only
    have hshape : w.prog = [.test, .assign, .use] ∨ w.prog = [.assign, .use] ∨ w.prog = [.use] ∨ w.prog = [] := by
      have h2 := hok.2
      split at h2 <;> simp_all
    have key : (stepW v s.shared w).1 = none ∨ (stepW v s.shared w).1 = some v := by
      rcases hshape with hp | hp | hp | hp <;> cases hm : w.mustAssign <;> rcases h.1 with hsh | hsh <;>
        simp [stepW, hp, hm, hsh]
    have mono : s.shared = some v → (stepW v s.shared w).1 = some v := by
      intro hs
      rcases hshape with hp | hp | hp | hp <;> cases hm : w.mustAssign <;> simp [stepW, hp, hm, hs]
    have okNew : okW v (stepW v s.shared w).1 (stepW v s.shared w).2 := by
      obtain ⟨hs1, hs2⟩ := hok
      rcases hshape with hp | hp | hp | hp <;> cases hm : w.mustAssign <;> rcases h.1 with hsh | hsh <;>
        simp_all [stepW, okW]
    refine ⟨key, ?_⟩
    intro w' hw'
    rcases List.mem_or_eq_of_mem_set hw' with hmem | heq
    · exact okW_mono v w' s.shared _ (h.2 w' hmem) mono
    · subst heq; exact okNew

theorem inv_run (v : Nat) (sched : List Nat) : ∀ s, Inv v s → Inv v (runSched v s sched) := by
  induction sched with
  | nil => intro s h; exact h
  | cons i r ih => intro s h; exact ih _ (inv_step v s i h)

/-- **Lazies.** Under every schedule of any number of workers, every worker that has reached
    its `use` step saw exactly the configured value. -/
theorem lazy_any_schedule (v : Nat) (n : Nat) (sched : List Nat) :
    ∀ w ∈ (runSched v ⟨none, List.replicate n {}⟩ sched).ws, w.prog = [] → w.seen ≠ none → w.seen = some v := by
  have hinit : Inv v ⟨none, List.replicate n {}⟩ := by
    refine ⟨Or.inl rfl, ?_⟩
    intro w hw
    have := List.eq_of_mem_replicate hw
    subst this
    simp [okW]
  have := inv_run v sched _ hinit
  intro w hw _ hseen
  rcases (this.2 w hw).1 with h | h
  · exact absurd h hseen
  · exact h


/-! ### the shared cache file -/

theorem image_refl (s : List Nat) : Image s s := by
  induction s with
  | nil => exact .nil _
  | cons c r ih => exact .cons (Or.inl rfl) ih

theorem image_take (n : Nat) (s : List Nat) : Image (s.take n) s := by
  induction s generalizing n with
  | nil => simp; exact .nil _
  | cons c r ih =>
    cases n with
    | zero => exact .nil _
    | succ k => exact .cons (Or.inl rfl) (ih k)

theorem image_drop {f s : List Nat} (h : Image f s) (n : Nat) : Image (f.drop n) (s.drop n) := by
  induction h generalizing n with
  | nil s => simp; exact .nil _
  | cons hb t ih =>
    cases n with
    | zero => exact .cons hb t
    | succ k => exact ih k

theorem image_append {a b s : List Nat} (ha : a = s.take a.length) (hlen : a.length ≤ s.length)
    (hb : Image b (s.drop a.length)) : Image (a ++ b) s := by
  induction a generalizing s with
  | nil => simpa using hb
  | cons x r ih =>
    cases s with
    | nil => simp at hlen
    | cons c t =>
      simp only [List.length_cons, List.take_succ_cons, List.cons.injEq] at ha
      simp only [List.length_cons, List.drop_succ_cons] at hb
      exact .cons (Or.inl ha.1) (ih ha.2 (by simpa using hlen) hb)

theorem writeAt_nil (f : List Nat) (off : Nat) : writeAt f off [] = f := by
  cases off <;> cases f <;> rfl

/-- writing a chunk of `S` at its own offset keeps the file an image of `S` -/
theorem image_writeAt (f s : List Nat) (off n : Nat) (h : Image f s) :
    Image (writeAt f off ((s.drop off).take n)) s := by
  induction off generalizing f s with
  | zero =>
    simp only [List.drop_zero]
    cases hd : s.take n with
    | nil => rw [writeAt_nil]; exact h
    | cons x xs =>
      rw [← hd]
      have : writeAt f 0 (s.take n) = s.take n ++ f.drop (s.take n).length := by
        rw [hd]; rfl
      rw [this]
      refine image_append ?_ ?_ ?_
      · simp
      · simp [List.length_take]; omega
      · exact image_drop h _
  | succ k ih =>
    cases s with
    | nil => simp only [List.drop_nil, List.take_nil, writeAt_nil]; exact h
    | cons c t =>
      simp only [List.drop_succ_cons]
      cases hd : (t.drop k).take n with
      | nil => rw [writeAt_nil]; exact h
      | cons x xs =>
        cases f with
        | nil =>
          have : writeAt [] (k + 1) (x :: xs) = 0 :: writeAt [] k (x :: xs) := rfl
          rw [this, ← hd]
          exact .cons (Or.inr rfl) (ih [] t (.nil _))
        | cons b r =>
          cases h with
          | cons hb ht =>
            have : writeAt (b :: r) (k + 1) (x :: xs) = b :: writeAt r k (x :: xs) := rfl
            rw [this, ← hd]
            exact .cons hb (ih r t ht)

/-- **Cache file.** Whatever the interleaving of any number of writers (each truncating, then
    writing the same bytes `S` chunk by chunk at its own offset) and readers, every image a
    reader sees agrees with `S` except for zero-filled holes and is never longer than `S`:
    it is `S` itself or a damaged copy — never another listing. -/
theorem cache_any_schedule (S : List Nat) (chunks : List Nat) (n : Nat) (sched : List FOp) :
    ∀ img ∈ (frun S chunks { file := [], writers := List.replicate n ⟨0, []⟩, reads := [] } sched).reads, Image img S := by
  suffices h : ∀ (s : FSys), Image s.file S → (∀ img ∈ s.reads, Image img S) →
      (Image (frun S chunks s sched).file S ∧ ∀ img ∈ (frun S chunks s sched).reads, Image img S) from
    (h _ (.nil _) (by simp)).2
  induction sched with
  | nil => intro s h1 h2; exact ⟨h1, h2⟩
  | cons op r ih =>
    intro s h1 h2
    simp only [frun, List.foldl_cons]
    apply ih
    · cases op with
      | openTrunc w => simp only [fstep]; split <;> first | exact .nil _ | exact h1
      | writeNext w =>
        simp only [fstep]
        split
        · exact h1
        · split
          · exact h1
          · exact image_writeAt _ _ _ _ h1
      | read => exact h1
    · cases op with
      | openTrunc w => simp only [fstep]; split <;> exact h2
      | writeNext w =>
        simp only [fstep]
        split
        · exact h2
        · split <;> exact h2
      | read =>
        intro img hi
        simp only [fstep, List.mem_cons] at hi
        rcases hi with rfl | hi
        · exact h1
        · exact h2 img hi

/-- with the unpickler refusing damaged copies (`HolesFail`), every reader gets the listing
    `S` encodes or a cache miss — and a miss is answered with the correct regenerated listing
    (C11), so each response equals the sequential response -/
theorem reader_gets_S_or_miss {L : Type} (load : List Nat → Option L) (S : List Nat) (l : L)
    (hS : load S = some l) (holesFail : ∀ img, Image img S → img ≠ S → load img = none)
    (img : List Nat) (hi : Image img S) : load img = some l ∨ load img = none := by
  by_cases h : img = S
  · left; rw [h, hS]
  · right; exact holesFail img hi h

/-! non-vacuity: W0 writes 2 of 4 bytes, W1 truncates, W0 writes its second chunk past the end -/
example : (frun [5,6,7,8] [2,2] { file := [], writers := [⟨0, []⟩, ⟨0, []⟩], reads := [] }
    [.openTrunc 0, .writeNext 0, .read, .openTrunc 1, .writeNext 0, .read, .writeNext 1, .writeNext 1, .read]).reads =
    [[5,6,7,8], [0,0,7,8], [5,6]] := by decide

end Pyg.Props.C14
