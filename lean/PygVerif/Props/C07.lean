import PygVerif.Generated
import PygVerif.Model.Site
import PygVerif.Model.Umn
import PygVerif.Lemmas.Str
/-!
# C07 — A listing is exactly the visible entries, once each, in a stable order
-/
namespace Pyg.Props.C07
open Pyg

/-- the shipped ignore pattern lies inside the modelled regex fragment -/
theorem ignorePatt_supported : (parseRegex Generated.ignorePatt).isSome = true := by decide +kernel

def childLe (a b : Child) : Bool := strLe a.name b.name

theorem childLe_trans (a b c : Child) : childLe a b = true → childLe b c = true → childLe a c = true :=
  strLe_trans _ _ _

theorem childLe_total (a b : Child) : (childLe a b || childLe b a) = true := by
  rcases strLe_total a.name b.name with h | h <;> simp [childLe, h]

/-- **Independent of the enumeration order.** If two enumerations of a directory are
    permutations of one another (and a name identifies a member), the listing is the same:
    same entries, same order — for the plain and for the UMN handler, link files included. -/
theorem listing_perm_invariant (c : DirCfg) (d : Str) (k₁ k₂ : List Child) (hp : k₁.Perm k₂)
    (hname : ∀ a ∈ k₁, ∀ b ∈ k₁, a.name = b.name → a = b) :
    dirListing c d k₁ = dirListing c d k₂ := by
  have hs : k₁.mergeSort childLe = k₂.mergeSort childLe := by
    have p1 := List.mergeSort_perm k₁ childLe
    have p2 := List.mergeSort_perm k₂ childLe
    have s1 := List.pairwise_mergeSort (le := childLe) childLe_trans childLe_total k₁
    have s2 := List.pairwise_mergeSort (le := childLe) childLe_trans childLe_total k₂
    refine List.Perm.eq_of_pairwise (le := fun a b => childLe a b = true) ?_ s1 s2 ((p1.trans hp).trans p2.symm)
    intro a b ha hb h1 h2
    have ha' : a ∈ k₁ := (List.mergeSort_perm k₁ childLe).mem_iff.mp ha
    have hb' : b ∈ k₁ := hp.mem_iff.mpr ((List.mergeSort_perm k₂ childLe).mem_iff.mp hb)
    exact hname a ha' b hb' (strLe_antisymm _ _ h1 h2)
  unfold dirListing
  have e : (fun a b : Child => strLe a.name b.name) = childLe := rfl
  simp only [e, hs]

/-- the sorted walk really is sorted by name -/
theorem walk_sorted (kids : List Child) :
    (kids.mergeSort childLe).Pairwise (fun a b => strLe a.name b.name = true) :=
  List.pairwise_mergeSort (le := childLe) childLe_trans childLe_total kids

/-! ### the plain directory handler lists exactly the visible, servable members, once each -/

theorem childEntries_plain (c : DirCfg) (hc : c.umn = false) (d base : Str) (files : List Child) :
    childEntries c d base files = some (files.filterMap fun ch => ch.entry.map (·.1)) := by
  induction files with
  | nil => rfl
  | cons ch r ih =>
    simp only [childEntries, ih, childEntry, hc]
    cases h : ch.entry with
    | none => simp [h]
    | some p => simp [h]

/-- **Exactly the visible entries.** The plain handler's listing is, in name order, the entry
    of every member that the ignore pattern does not match and that can be served — nothing
    else, nothing twice. -/
theorem plain_listing_exact (c : DirCfg) (hc : c.umn = false) (d : Str) (kids : List Child) :
    dirListing c d kids =
      some (((kids.mergeSort childLe).filter (visibleName c (if d == [47] then [] else d))).filterMap
        fun ch => ch.entry.map (·.1)) := by
  unfold dirListing
  have e : (fun a b : Child => strLe a.name b.name) = childLe := rfl
  have hl : ∀ (base : Str) (l : List Child), collectLinks c d base l = some [] := by
    intro base l
    induction l with
    | nil => rfl
    | cons x r ih => simp [collectLinks, linksOf, hc, ih]
  simp only [e, hl, childEntries_plain c hc, hc]
  simp

/-- every listed entry comes from a member of the directory (plain handler) -/
theorem plain_nothing_else (c : DirCfg) (hc : c.umn = false) (d : Str) (kids : List Child) (es : List Entry)
    (h : dirListing c d kids = some es) :
    ∀ e ∈ es, ∃ ch ∈ kids, ∃ b, ch.entry = some (e, b) ∧ visibleName c (if d == [47] then [] else d) ch = true := by
  rw [plain_listing_exact c hc] at h
  simp only [Option.some.injEq] at h
  subst h
  intro e he
  simp only [List.mem_filterMap, List.mem_filter] at he
  obtain ⟨ch, ⟨hm, hv⟩, hent⟩ := he
  have hk : ch ∈ kids := (List.mergeSort_perm kids childLe).mem_iff.mp hm
  cases hce : ch.entry with
  | none => simp [hce] at hent
  | some p =>
    simp only [hce, Option.map_some, Option.some.injEq] at hent
    exact ⟨ch, hk, p.2, by rw [← hent, hce], hv⟩

/-- a visible, servable member is listed (plain handler) -/
theorem plain_all_listed (c : DirCfg) (hc : c.umn = false) (d : Str) (kids : List Child) (es : List Entry)
    (h : dirListing c d kids = some es) (ch : Child) (hk : ch ∈ kids)
    (hv : visibleName c (if d == [47] then [] else d) ch = true) (e : Entry) (b : Bool) (he : ch.entry = some (e, b)) :
    e ∈ es := by
  rw [plain_listing_exact c hc] at h
  simp only [Option.some.injEq] at h
  subst h
  simp only [List.mem_filterMap, List.mem_filter]
  exact ⟨ch, ⟨(List.mergeSort_perm kids childLe).mem_iff.mpr hk, hv⟩, by simp [he]⟩

/-! ### entries kept out of listings remain retrievable (whole-site model) -/

/-- what a request is answered with does not depend on the listing configuration: neither the
    ignore pattern, nor dot-file hiding, nor the choice of directory handler, nor extension
    stripping takes part in resolving a selector -/
theorem serve_ignores_listing_cfg (c : SiteCfg) (d' : DirCfg) (st : StatFn) (sel : Str) :
    serve { c with dir := d' } st sel = serve c st sel ∧ dispatch { c with dir := d' } st sel = dispatch c st sel :=
  ⟨rfl, rfl⟩

/-- **Hidden but retrievable.**  A regular file whose selector passes the security filter is
    served with its own bytes when requested by exact selector — whether or not a listing shows
    it (dot file, ignore pattern, `Type=X`, `.cap` override all act on listings only).  (With the
    gophermap handler configured, a file named `*.gophermap` is served as the menu it holds; the
    directory handler's own cache file is the exception: `cache_file_not_served`.) -/
theorem hidden_still_retrievable (c : SiteCfg) (st : StatFn) (sel : Str) (d : Bytes)
    (hs : secureB c.forbidden sel = true) (hst : st sel = some (.file d))
    (hu : (c.url && urlSecureB c.urlForbidden sel) = false)
    (hg : (c.gophermap && endsWithGophermap sel) = false)
    (hcf : isSuffixB (47 :: c.cachefile) sel = false) : serve c st sel = .document d := by
  by_cases hh : (c.htmlTitles && c.isHtml sel) = true <;> simp [serve, dispatch, hs, hst, hg, hu, hh, hcf]

/-- the one kind of file kept out of listings that is not retrievable either: the directory
    handler's own cache file (the server's, not content) -/
theorem cache_file_not_served (c : SiteCfg) (st : StatFn) (sel : Str) (d : Bytes)
    (hs : secureB c.forbidden sel = true) (hst : st sel = some (.file d))
    (hu : (c.url && urlSecureB c.urlForbidden sel) = false)
    (hg : (c.gophermap && endsWithGophermap sel) = false)
    (hcf : isSuffixB (47 :: c.cachefile) sel = true) : serve c st sel = .notFound := by
  simp [serve, dispatch, hs, hst, hg, hu, hcf]

/-- dot files are never listed by the UMN handler; ignored names by neither -/
theorem umn_hides_dotfiles (c : DirCfg) (hc : c.umn = true) (base : Str) (ch : Child)
    (h : ch.name.head? = some 46) : visibleName c base ch = false := by
  simp [visibleName, hc, h]

theorem ignored_hidden (c : DirCfg) (base : Str) (ch : Child)
    (h : reSearch c.ignore (base ++ [47] ++ ch.name) = true) : visibleName c base ch = false := by
  unfold visibleName; rw [h]; rfl

/-! ### sharp edges of the shipped pattern, as the code has them -/
def edgeVerdicts (a : List RAlt) : List Bool :=
  [reSearch a (lit "/d/file~"), reSearch a (lit "/d/gophermap"), reSearch a (lit "/d/xcap"),
   reSearch a (lit "/d/q.askew"), reSearch a (lit "/d/lib"), reSearch a (lit "/d/lib64"),
   reSearch a (lit "/d/a~\n"), reSearch a (lit "/d/.cache.pygopherd.dir"), reSearch a (lit "/d/README")]

theorem shipped_pattern_edges :
    (parseRegex Generated.ignorePatt).map edgeVerdicts =
      some [true, true, true, true, true, false, true, true, false] := by decide +kernel

end Pyg.Props.C07
