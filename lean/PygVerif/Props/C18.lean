import PygVerif.Lemmas.TalRefine
import PygVerif.Lemmas.TalSafety
/-!
# C18 — simpleTAL never lets data become markup, code or leftover state

All statements are about the stack machine `expand` on the compiled template (the model of
`Template.expand`), obtained from the tree semantics through `run_refines_denote`.
-/
namespace Pyg.Props.C18
open Pyg Pyg.Tal

/-- whatever fuel lets the machine halt, its result is `denoteList` -/
theorem expand_eq (py : Str → Val) (t : List Node) (ctx : Ctx) :
    ∃ fuel, expand py fuel t ctx = some (denoteList py t ctx) := run_refines_denote py t ctx

/-! ### (1) data never becomes markup -/

/-- **Text is escaped unless the template says `structure`.** -/
theorem text_escaped (v : Val) : contentText (some (false, v)) = htmlEscape false (render v) := by
  simp [contentText]
theorem structure_is_raw (v : Val) : contentText (some (true, v)) = render v := by simp [contentText]

/-- escaped text contains neither `<` nor `>`; escaped attribute values contain no quote either -/
theorem escaped_text_inert (s : Str) : ∀ c ∈ htmlEscape false s, c ≠ 60 ∧ c ≠ 62 := htmlEscape_no_angle false s
theorem escaped_attr_inert (s : Str) : ∀ c ∈ htmlEscape true s, c ≠ 60 ∧ c ≠ 62 ∧ c ≠ 34 ∧ c ≠ 39 := by
  intro c hc
  have h := htmlEscape_no_meta s c hc
  simp only [htmlMeta, Bool.or_eq_false_iff, beq_eq_false_iff_ne] at h
  omega

/-- every attribute value is written through `html.escape(v, quote=True)` between its quotes -/
theorem attributes_escaped (tag : Str) (atts : List (Str × Str)) (sg : Bool) :
    tagAsText tag atts sg = [60] ++ tag ++ (atts.map fun kv => [32] ++ kv.1 ++ lit "=\"" ++ htmlEscape true kv.2 ++ [34]).flatten ++
      (if sg then lit " />" else [62]) := rfl

/-- **Data can never introduce markup.** For a template without the `structure` keyword, the
    document the machine produces is generated from the template's own strings (static text,
    `<tag`, `</tag>`, ` name="`, the fixed punctuation) and HTML-escaped strings only — for
    every context, however hostile its values. -/
theorem data_never_markup (py : Str → Val) (t : List Node) (ctx : Ctx) (h : noStructureList t = true) :
    ∃ fuel out c', expand py fuel t ctx = some (out, c') ∧ Gen (fun s => s ∈ punct ∨ s ∈ staticsList t) out := by
  obtain ⟨f, hf⟩ := run_refines_denote py t ctx
  refine ⟨f, _, _, hf, ?_⟩
  exact gen_denoteList py (fun s hs => Or.inl hs) t ctx h (fun s hs => Or.inr hs)

/-- a reading of `Gen`: the output is a concatenation of pieces, each either one of the template's
    own strings or an escaped string -/
theorem gen_pieces {S : Str → Prop} {x : Str} (g : Gen S x) :
    ∃ ps : List (Str ⊕ (Bool × Str)),
      x = (ps.map fun p => match p with | .inl s => s | .inr (q, d) => htmlEscape q d).flatten ∧ ∀ s, .inl s ∈ ps → S s := by
  induction g with
  | nil => exact ⟨[], rfl, by simp⟩
  | @lit s hs => exact ⟨[.inl s], by simp, by simpa using hs⟩
  | esc q d => exact ⟨[.inr (q, d)], by simp, by simp⟩
  | app _ _ iha ihb =>
    obtain ⟨pa, ea, ha⟩ := iha
    obtain ⟨pb, eb, hb⟩ := ihb
    refine ⟨pa ++ pb, by simp [ea, eb], ?_⟩
    intro s hs
    rcases List.mem_append.mp hs with h | h
    · exact ha s h
    · exact hb s h

/-- so: if no string of the template contains `<`, no data can put one into the document -/
theorem no_angle_from_data (py : Str → Val) (t : List Node) (ctx : Ctx) (h : noStructureList t = true)
    (hs : ∀ s ∈ staticsList t, 60 ∉ s) : ∃ fuel out c', expand py fuel t ctx = some (out, c') ∧ 60 ∉ out := by
  obtain ⟨f, out, c', he, g⟩ := data_never_markup py t ctx h
  refine ⟨f, out, c', he, gen_absent 60 (Or.inl rfl) ?_ g⟩
  intro s hS
  rcases hS with hp | hst
  · simp only [punct, List.mem_cons, List.not_mem_nil, or_false] at hp
    rcases hp with rfl | rfl | rfl <;> decide
  · exact hs s hst

/-! ### (2) python: expressions are never evaluated when Python paths are disabled -/

/-- the `python:` oracle is a parameter of the model; with `allowPython = false` no expression —
    however nested in alternation, `not:`, `exists:`, `string:` — depends on it -/
theorem python_gate_expr (py1 py2 : Str → Val) (c : Ctx) (h : c.allowPython = false) (e : Str) :
    eval py1 c e = eval py2 c e := eval_gate py1 py2 c h e

theorem python_expr_is_false (py : Str → Val) (c : Ctx) (h : c.allowPython = false) (e : Str) :
    evalFuel py 8 c (lit "python:" ++ e) = evalFuel (fun _ => .none) 8 c (lit "python:" ++ e) :=
  evalFuel_gate py _ c h 8 _

/-- **Never evaluated**: the whole expansion (output and context) is independent of the `python:`
    oracle when Python paths are off. -/
theorem python_never_evaluated (py1 py2 : Str → Val) (t : List Node) (ctx : Ctx) (h : ctx.allowPython = false) :
    ∃ f1 f2 r, expand py1 f1 t ctx = some r ∧ expand py2 f2 t ctx = some r := by
  obtain ⟨f1, h1⟩ := run_refines_denote py1 t ctx
  obtain ⟨f2, h2⟩ := run_refines_denote py2 t ctx
  refine ⟨f1, f2, _, h1, ?_⟩
  rw [h2, denoteList_gate py1 py2 t ctx h]

/-! ### (3) TAL-free documents pass through -/

/-- **Pass-through**: a template without TAL attributes expands to its own serialisation and
    leaves the context untouched; the result does not depend on the context at all, so a second
    expansion of the (re-read) document gives the same document again. -/
theorem talfree_passthrough (py : Str → Val) (t : List Node) (ctx : Ctx) (h : plainList t = true) :
    ∃ fuel, expand py fuel t ctx = some (serList t, ctx) := by
  obtain ⟨f, hf⟩ := run_refines_denote py t ctx
  exact ⟨f, by rw [hf, denoteList_plain py t ctx h]⟩

/-! ### (4) no leftover state -/

/-- **Context restoration**: after any expansion — missing paths, empty repeats, false
    conditions included — locals, the local-variable stack, repeat variables and their stack are
    exactly what they were. -/
theorem context_restored (py : Str → Val) (t : List Node) (ctx : Ctx) :
    ∃ fuel out c', expand py fuel t ctx = some (out, c') ∧ c'.locals = ctx.locals ∧ c'.localStack = ctx.localStack ∧
      c'.repeatMap = ctx.repeatMap ∧ c'.repeatStack = ctx.repeatStack := by
  obtain ⟨f, hf⟩ := run_refines_denote py t ctx
  have s := denoteList_same py t ctx
  exact ⟨f, _, _, hf, s.1, s.2.1, s.2.2.1, s.2.2.2.1⟩

/-- … and globals change only through explicit global defines -/
theorem globals_only_by_define (py : Str → Val) (t : List Node) (ctx : Ctx) (h : noGlobalDefineList t = true) :
    ∃ fuel out c', expand py fuel t ctx = some (out, c') ∧ c'.globals = ctx.globals := by
  obtain ⟨f, hf⟩ := run_refines_denote py t ctx
  exact ⟨f, _, _, hf, denoteList_globals py t ctx h⟩

/-! ### non-vacuity -/

/-- a template with a repeat, a local define, content and attributes satisfies the hypotheses -/
def sample : List Node :=
  [.elem (lit "ul") [] [] {} false false
    [.elem (lit "li") [(lit "class", lit "x")] [(lit "class", lit "x")]
      { define := some [⟨true, lit "t", lit "i"⟩], repeat_ := some (lit "i", lit "items"), content := some (false, false, lit "t"),
        attributes := some [(lit "title", lit "i")] } false false [.data (lit "dummy")]]]

example : noStructureList sample = true ∧ noGlobalDefineList sample = true ∧ plainList sample = false := by decide
example : plainList [.elem (lit "p") [(lit "a", lit "b")] [] {} false false [.data (lit "x")]] = true := by decide

end Pyg.Props.C18
