import PygVerif.Model.Fail
/-!
# C20 — A failing client connection is contained in its own handler
-/
namespace Pyg.Props.C20
open Pyg.Fail

/-- **Contained.** Whatever the protocol frame, the number of writes, and whichever writes
    fail (any predicate on the write index: a reset at one point, a pipe that stays broken, a
    timeout that comes and goes), nothing propagates out of the connection handler. -/
theorem contained (f : Frame) (wf : Bool) (n : Nat) (failsAt : Nat → Bool) (cls : Nat) :
    (flow f wf n failsAt cls).escaped = none := by
  unfold flow
  simp only
  cases (writes failsAt 0 n).2 with
  | none => rfl
  | some k => cases f <;> rfl

theorem isLog_open : [Ev.openFile].filterMap isLog = [] := rfl
theorem isLog_close : [Ev.closeFile].filterMap isLog = [] := rfl
theorem isLog_log (c : Nat) : [Ev.log c].filterMap isLog = [c] := rfl
theorem isLog_nil : ([] : List Ev).filterMap isLog = [] := rfl
theorem isLog_open_cons (l : List Ev) : (Ev.openFile :: l).filterMap isLog = l.filterMap isLog := rfl

theorem writes_no_log (failsAt : Nat → Bool) (s n : Nat) : (writes failsAt s n).1.filterMap isLog = [] := by
  induction n generalizing s with
  | zero => rfl
  | succ k ih =>
    simp only [writes]
    split
    · rfl
    · show List.filterMap isLog (Ev.write s :: (writes failsAt (s + 1) k).1) = []
      rw [List.filterMap_cons]
      simp only [isLog, ih]

theorem write_ne_open (s : Nat) : (Ev.write s == Ev.openFile) = false :=
  beq_eq_false_iff_ne.mpr (by intro h; cases h)
theorem write_ne_close (s : Nat) : (Ev.write s == Ev.closeFile) = false :=
  beq_eq_false_iff_ne.mpr (by intro h; cases h)

theorem writes_no_file (failsAt : Nat → Bool) (s n : Nat) :
    (writes failsAt s n).1.filter (· == .openFile) = [] ∧ (writes failsAt s n).1.filter (· == .closeFile) = [] := by
  induction n generalizing s with
  | zero => exact ⟨rfl, rfl⟩
  | succ k ih =>
    simp only [writes]
    split
    · exact ⟨by simp only [List.filter, write_ne_open], by simp only [List.filter, write_ne_close]⟩
    · obtain ⟨a, b⟩ := ih (s + 1)
      exact ⟨by show List.filter _ (Ev.write s :: _) = []; rw [List.filter_cons]; simp only [write_ne_open, Bool.false_eq_true, if_false, a],
             by show List.filter _ (Ev.write s :: _) = []; rw [List.filter_cons]; simp only [write_ne_close, Bool.false_eq_true, if_false, b]⟩

/-- the log lines of a request, in closed form -/
theorem logs_eq (f : Frame) (wf : Bool) (n : Nat) (failsAt : Nat → Bool) (cls : Nat) :
    logsOf (flow f wf n failsAt cls) =
      match (writes failsAt 0 n).2 with
      | none => []
      | some k =>
        match f with
        | .outsideTry => [cls]
        | .insideTry m => cls :: (if (writes failsAt (k + 1) m).2.isSome then [cls] else []) := by
  have hw := writes_no_log failsAt
  unfold flow logsOf
  simp only
  cases (writes failsAt 0 n).2 with
  | none =>
    cases wf <;> simp only [List.filterMap_append, hw, isLog_open, isLog_close, isLog_nil, List.append_nil, if_true,
      Bool.false_eq_true, if_false, List.nil_append]
  | some k =>
    cases f with
    | outsideTry =>
      cases wf <;> simp only [List.filterMap_append, hw, isLog_open, isLog_close, isLog_nil, isLog_log, List.append_nil, if_true,
        Bool.false_eq_true, if_false, List.nil_append]
    | insideTry m =>
      cases wf <;>
        simp only [List.filterMap_append, hw, isLog_open, isLog_close, isLog_nil, isLog_log, List.append_nil, if_true,
          Bool.false_eq_true, if_false, List.nil_append, List.singleton_append] <;>
        split <;> simp only [isLog_log, isLog_nil, isLog_open_cons, hw, List.append_nil, List.singleton_append, List.nil_append]

/-- **Logged under the failure's own class, and only that.** Every log line produced carries
    the class of the injected I/O error; there are at most two (the protocol's handler and,
    if the error page cannot be written either, the connection handler). -/
theorem own_class (f : Frame) (wf : Bool) (n : Nat) (failsAt : Nat → Bool) (cls : Nat) :
    (∀ c ∈ logsOf (flow f wf n failsAt cls), c = cls) ∧ (logsOf (flow f wf n failsAt cls)).length ≤ 2 := by
  rw [logs_eq]
  split
  · simp
  · split
    · simp
    · split <;> simp

/-- no failure, no log -/
theorem quiet_when_healthy (f : Frame) (wf : Bool) (n : Nat) (failsAt : Nat → Bool) (cls : Nat)
    (h : (writes failsAt 0 n).2 = none) : logsOf (flow f wf n failsAt cls) = [] := by
  rw [logs_eq, h]

/-- a failure is never silent: if some write fails, it is logged -/
theorem failure_is_logged (f : Frame) (wf : Bool) (n : Nat) (failsAt : Nat → Bool) (cls : Nat) (k : Nat)
    (h : (writes failsAt 0 n).2 = some k) : cls ∈ logsOf (flow f wf n failsAt cls) := by
  rw [logs_eq, h]
  cases f <;> simp

theorem cnt_open (l : List Ev) (h : l.filter (· == .openFile) = []) (h2 : l.filter (· == .closeFile) = []) (wf : Bool) (tail : List Ev)
    (ht : tail.filter (· == .openFile) = [] ∧ tail.filter (· == .closeFile) = []) :
    (((if wf then [Ev.openFile] else []) ++ l ++ (if wf then [Ev.closeFile] else []) ++ tail).filter (· == .openFile)).length =
    (((if wf then [Ev.openFile] else []) ++ l ++ (if wf then [Ev.closeFile] else []) ++ tail).filter (· == .closeFile)).length := by
  have e1 : (Ev.closeFile == Ev.openFile) = false := by decide
  have e2 : (Ev.openFile == Ev.closeFile) = false := by decide
  have e3 : (Ev.openFile == Ev.openFile) = true := by decide
  have e4 : (Ev.closeFile == Ev.closeFile) = true := by decide
  cases wf <;> simp [List.filter_append, h, h2, ht.1, ht.2, List.filter, e1, e2, e3, e4]

/-- **Every file opened for the request is closed**, at whatever write the connection fails. -/
theorem closed_all (f : Frame) (wf : Bool) (n : Nat) (failsAt : Nat → Bool) (cls : Nat) :
    opens (flow f wf n failsAt cls) = closes (flow f wf n failsAt cls) := by
  have hw := writes_no_file failsAt
  have hlog : ∀ c, [Ev.log c].filter (· == .openFile) = [] ∧ [Ev.log c].filter (· == .closeFile) = [] := by
    intro c
    have e1 : (Ev.log c == Ev.openFile) = false := beq_eq_false_iff_ne.mpr (by intro h; cases h)
    have e2 : (Ev.log c == Ev.closeFile) = false := beq_eq_false_iff_ne.mpr (by intro h; cases h)
    exact ⟨by simp [List.filter, e1], by simp [List.filter, e2]⟩
  unfold flow opens closes
  simp only
  cases (writes failsAt 0 n).2 with
  | none =>
    have := cnt_open _ (hw 0 n).1 (hw 0 n).2 wf [] ⟨rfl, rfl⟩
    simpa using this
  | some k =>
    cases f with
    | outsideTry => exact cnt_open _ (hw 0 n).1 (hw 0 n).2 wf [Ev.log cls] (hlog cls)
    | insideTry m =>
      have ht : (([Ev.log cls] ++ (writes failsAt (k + 1) m).1 ++ (if (writes failsAt (k + 1) m).2.isSome then [Ev.log cls] else [])).filter (· == .openFile) = []) ∧
          (([Ev.log cls] ++ (writes failsAt (k + 1) m).1 ++ (if (writes failsAt (k + 1) m).2.isSome then [Ev.log cls] else [])).filter (· == .closeFile) = []) := by
        have a := (hw (k + 1) m).1
        have b := (hw (k + 1) m).2
        constructor <;> split <;> simp [List.filter_append, a, b, (hlog cls).1, (hlog cls).2]
      have := cnt_open _ (hw 0 n).1 (hw 0 n).2 wf _ ht
      simpa [List.append_assoc] using this

/-! non-vacuity: third write of five resets once (HTTP-like frame with a 5-write error page) -/
example : flow (.insideTry 5) true 5 (fun i => i == 2) 104 =
    { escaped := none,
      events := [.openFile, .write 0, .write 1, .write 2, .closeFile, .log 104,
                 .write 3, .write 4, .write 5, .write 6, .write 7] } := by decide
/-- ... and a pipe that stays broken: the error page fails too, second log, still contained -/
example : (flow (.insideTry 5) true 5 (fun i => 2 ≤ i) 32).events =
    [.openFile, .write 0, .write 1, .write 2, .closeFile, .log 32, .write 3, .log 32] := by decide
example : (flow .outsideTry true 4 (fun i => i == 1) 110).events =
    [.openFile, .write 0, .write 1, .closeFile, .log 110] := by decide

end Pyg.Props.C20
