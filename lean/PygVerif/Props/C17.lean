import PygVerif.Generated
import PygVerif.Lemmas.TalRefine
import PygVerif.Model.Metal
import PygVerif.Model.Include
import PygVerif.Lemmas.Str
/-!
# C17 — simpleTAL executes templates according to TAL/TALES semantics

* `run_refines_denote` — the stack machine on the compiled template produces exactly what the
  tree-walking semantics `denote` prescribes (TAL's order: define, condition, repeat,
  content | replace, attributes, omit-tag), for every template and context.
* `compile_targets_wf`, `compile_balanced` — every compiled program is structurally
  well-formed: every jump target is the end tag of the element that owns the command, and
  scopes are balanced.
* `priority_order` — the opcode numbers extracted from simpleTAL (the compiler sorts an
  element's commands by opcode) are in TAL's order.
METAL (`use-macro`, `define-slot`, `fill-slot`): `Model/Metal.expandMetal` reads macro use as a
tree substitution into a plain TAL tree; `metal_then_tal_refines` carries the refinement theorem
over to macro-expanded templates, `metal_free_unchanged` says the substitution leaves TAL-only
templates alone, and the slot lemmas state the substitution's cases.  That simpleTAL's run-time
mechanism (program stack, slot maps) produces the document of the substitution is tied by
differential correspondence, not proved (partial; stated in DESIGN.md).
-/
namespace Pyg.Props.C17
open Pyg Pyg.Tal

/-- the compiler sorts the commands found on an element by opcode: the opcodes are in TAL order -/
theorem priority_order :
    Generated.TAL_DEFINE < Generated.TAL_CONDITION ∧ Generated.TAL_CONDITION < Generated.TAL_REPEAT ∧
    Generated.TAL_REPEAT < Generated.TAL_CONTENT ∧ Generated.TAL_CONTENT < Generated.TAL_REPLACE ∧
    Generated.TAL_REPLACE < Generated.TAL_ATTRIBUTES ∧ Generated.TAL_ATTRIBUTES < Generated.TAL_OMITTAG ∧
    Generated.TAL_OMITTAG < Generated.TAL_START_SCOPE ∧ Generated.METAL_USE_MACRO < Generated.METAL_DEFINE_SLOT ∧
    Generated.METAL_DEFINE_SLOT < Generated.METAL_FILL_SLOT ∧ Generated.METAL_FILL_SLOT < Generated.METAL_DEFINE_MACRO := by
  decide

/-- **Refinement** (see `Lemmas/TalRefine`). -/
theorem run_refines_denote (py : Str → Val) (t : List Node) (ctx : Ctx) :
    ∃ fuel, expand py fuel t ctx = some (denoteList py t ctx) :=
  Tal.run_refines_denote py t ctx

/-- the machine's result, when it halts, is unique: more fuel does not change it -/
theorem expansion_is_denotation (py : Str → Val) (t : List Node) (ctx : Ctx) :
    ∃ fuel, (expand py fuel t ctx).map (·.1) = some (denoteList py t ctx).1 ∧
            (expand py fuel t ctx).map (·.2) = some (denoteList py t ctx).2 := by
  obtain ⟨f, hf⟩ := Tal.run_refines_denote py t ctx
  exact ⟨f, by simp [hf], by simp [hf]⟩

/-! ### structural well-formedness of compiled programs -/

/-- jump targets carried by a command -/
def targets : Cmd → List Nat
  | .cond _ t => [t]
  | .rep _ _ t => [t]
  | .content _ _ _ t => [t]
  | _ => []

def isEndTag : Option Cmd → Bool
  | some (.endTag _ _ _) => true
  | _ => false

/-- all jump targets of the commands of `seg` are end tags in `P` -/
def TargetsOk (P seg : List Cmd) : Prop := ∀ c ∈ seg, ∀ t ∈ targets c, isEndTag P[t]? = true

theorem targetsOk_append {P a b : List Cmd} (ha : TargetsOk P a) (hb : TargetsOk P b) : TargetsOk P (a ++ b) := by
  intro c hc t ht
  rcases List.mem_append.mp hc with h | h
  · exact ha c h t ht
  · exact hb c h t ht

theorem headCmds_targets (tag : Str) (atts orig : List (Str × Str)) (c : Cmds) (sg : Bool) (e : Nat) :
    ∀ cmd ∈ headCmds tag atts orig c sg e, ∀ t ∈ targets cmd, t = e := by
  intro cmd hc t ht
  simp only [headCmds, List.mem_append, List.mem_cons, List.not_mem_nil, or_false] at hc
  rcases hc with ((((((h | h) | h) | h) | h) | h) | h) | h
  · subst h; simp [targets] at ht
  · unfold segDefine at h; cases hr : c.define <;> simp [hr] at h; subst h; simp [targets] at ht
  · unfold segCond at h; cases hr : c.condition <;> simp [hr] at h; subst h; simpa [targets] using ht
  · unfold segRep at h
    cases hr : c.repeat_ with
    | none => simp [hr] at h
    | some x => obtain ⟨v, ex⟩ := x; simp [hr] at h; subst h; simpa [targets] using ht
  · unfold segCont at h
    cases hr : c.content with
    | none => simp [hr] at h
    | some x => obtain ⟨r, s, ex⟩ := x; simp [hr] at h; subst h; simpa [targets] using ht
  · unfold segAttr at h; cases hr : c.attributes <;> simp [hr] at h; subst h; simp [targets] at ht
  · unfold segOmit at h; cases hr : c.omitTag <;> simp [hr] at h; subst h; simp [targets] at ht
  · subst h; simp [targets] at ht

mutual
theorem node_targets : ∀ (n : Node) (P : List Cmd) (b : Nat), At P b (compile b n) → TargetsOk P (compile b n)
  | .data s, P, b, _ => by
    intro c hc t ht
    simp only [compile, List.mem_singleton] at hc
    subst hc; simp [targets] at ht
  | .elem tag atts orig c sg ne kids, P, b, hAt => by
    have L := layout_of_at hAt
    simp only [compile]
    refine targetsOk_append ?_ (targetsOk_append ?_ ?_)
    · intro cmd hc t ht
      have := headCmds_targets tag atts orig c sg _ cmd hc t ht
      have he : b + headLen c + sizeList kids = oEnd b c kids := by simp [oEnd, oKids_eq]
      rw [this, he, L.hEnd]; rfl
    · have hk : oKids b c = b + headLen c := oKids_eq b c
      have := list_targets kids P (oKids b c) L.hKids
      rw [hk] at this; exact this
    · intro cmd hc t ht
      simp only [List.mem_singleton] at hc
      subst hc; simp [targets] at ht
theorem list_targets : ∀ (ns : List Node) (P : List Cmd) (b : Nat), At P b (compileList b ns) → TargetsOk P (compileList b ns)
  | [], _, _, _ => by intro c hc; simp [compileList] at hc
  | n :: ns, P, b, hAt => by
    simp only [compileList] at hAt ⊢
    have h2 := hAt.sub_right
    rw [length_compile] at h2
    exact targetsOk_append (node_targets n P b hAt.sub_left) (list_targets ns P (b + size n) h2)
end

/-- **Every jump target is the end of the element that owns the command.** In the compiled
    program of any template, every `condition`, `repeat` and `content` command points at an
    `ENDTAG_ENDSCOPE` command. -/
theorem compile_targets_wf (t : List Node) : TargetsOk (compileList 0 t) (compileList 0 t) :=
  list_targets t _ 0 (At.whole _)

def countP (p : Cmd → Bool) (l : List Cmd) : Nat := (l.filter p).length
def isScope : Cmd → Bool | .startScope _ _ => true | _ => false
def isEnd : Cmd → Bool | .endTag _ _ _ => true | _ => false

theorem countP_append (p : Cmd → Bool) (a b : List Cmd) : countP p (a ++ b) = countP p a + countP p b := by
  simp [countP, List.filter_append]

theorem head_scopes (tag : Str) (atts orig : List (Str × Str)) (c : Cmds) (sg : Bool) (e : Nat) :
    countP isScope (headCmds tag atts orig c sg e) = 1 ∧ countP isEnd (headCmds tag atts orig c sg e) = 0 := by
  obtain ⟨d, co, r, ct, a, o⟩ := c
  cases d <;> cases co <;> cases r <;> cases ct <;> cases a <;> cases o <;>
    simp [headCmds, segDefine, segCond, segRep, segCont, segAttr, segOmit, countP, isScope, isEnd, List.filter]

mutual
theorem node_balanced : ∀ (n : Node) (b : Nat), countP isScope (compile b n) = countP isEnd (compile b n)
  | .data s, b => by simp [compile, countP, isScope, isEnd, List.filter]
  | .elem tag atts orig c sg ne kids, b => by
    simp only [compile, countP_append, (head_scopes tag atts orig c sg _).1, (head_scopes tag atts orig c sg _).2,
      list_balanced kids (b + headLen c)]
    simp [countP, isScope, isEnd, List.filter]; omega
theorem list_balanced : ∀ (ns : List Node) (b : Nat), countP isScope (compileList b ns) = countP isEnd (compileList b ns)
  | [], b => by simp [compileList, countP]
  | n :: ns, b => by simp only [compileList, countP_append, node_balanced n b, list_balanced ns (b + size n)]
end

/-- **Scopes are balanced**: as many `START_SCOPE` as `ENDTAG_ENDSCOPE` commands, for every
    template (and the machine ends with the scope stack it started with — `run_node`). -/
theorem compile_balanced (t : List Node) :
    countP isScope (compileList 0 t) = countP isEnd (compileList 0 t) := list_balanced t 0

/-! ### TAL order of operations, read off the semantics -/

/-- a false condition suppresses the element entirely — but its defines have been evaluated
    first (global ones persist) -/
theorem condition_after_define (py : Str → Val) (tag : Str) (atts orig : List (Str × Str)) (c : Cmds) (sg ne : Bool)
    (kids : List Node) (ctx : Ctx) (h : (condPhase py orig c (definePhase py orig c ctx).1).1 = false) :
    (denote py (.elem tag atts orig c sg ne kids) ctx).1 = [] := by
  simp [denote, h]

/-- content is evaluated before attributes, attributes before omit-tag, and all of them once per
    repeat iteration: the body of a repeat is `bodySem` applied to each item's context -/
theorem repeat_iterates_body (py : Str → Val) (orig : List (Str × Str)) (c : Cmds) (v e : Str) (hr : c.repeat_ = some (v, e))
    (body : Ctx → Str × Ctx) (ctx : Ctx) (x : Val) (xs : List Val)
    (hd : isDefault (eval py { ctx with attrs := orig } e) = false)
    (hs : seqItems (eval py { ctx with attrs := orig } e) = some (x :: xs)) :
    (repeatPhase py orig c body ctx).1 =
      (body (({ ctx with attrs := orig } : Ctx).addRepeat v (xs.length + 1) x)).1 ++
      (repeatSem v body xs (body (({ ctx with attrs := orig } : Ctx).addRepeat v (xs.length + 1) x)).2).1 := by
  simp [repeatPhase, hr, hd, hs]

theorem repeat_empty_no_output (py : Str → Val) (orig : List (Str × Str)) (c : Cmds) (v e : Str) (hr : c.repeat_ = some (v, e))
    (body : Ctx → Str × Ctx) (ctx : Ctx)
    (hd : isDefault (eval py { ctx with attrs := orig } e) = false)
    (hs : seqItems (eval py { ctx with attrs := orig } e) = some []) :
    (repeatPhase py orig c body ctx).1 = [] := by
  simp [repeatPhase, hr, hd, hs]

/-! ### METAL: macro use as tree substitution -/

/-- **Refinement carries over to macros.**  For every macro table, template with METAL
    annotations and context, the stack machine run on the compiled macro-expanded template
    yields exactly the denotation of the macro-expanded template. -/
theorem metal_then_tal_refines (py : Str → Val) (macros : List (Str × MNode)) (fuel : Nat) (t : List MNode) (ctx : Ctx) :
    ∃ f, expand py f (expandTemplate macros fuel t) ctx = some (denoteList py (expandTemplate macros fuel t) ctx) :=
  Tal.run_refines_denote py _ ctx

mutual
def depth : Node → Nat
  | .data _ => 0
  | .elem _ _ _ _ _ _ kids => depthList kids + 1
def depthList : List Node → Nat
  | [] => 0
  | k :: ks => max (depth k) (depthList ks)
end

mutual
/-- **TAL-only templates are left alone**: with no METAL annotation anywhere, the substitution is
    the identity (whatever the macro table and the slot map), given fuel beyond the nesting depth -/
theorem metal_free_node (macros slots : List (Str × MNode)) : ∀ (n : Node) (fuel : Nat), depth n < fuel + 1 →
    expandMetal macros fuel slots (embed n) = [n]
  | .data s, _, _ => by simp [embed, expandMetal]
  | .elem tag atts orig c sg ne kids, 0, h => by simp [depth] at h
  | .elem tag atts orig c sg ne kids, fuel + 1, h => by
    have hk : depthList kids < fuel + 1 := by simp [depth] at h; omega
    simp [embed, expandMetal, metal_free_list macros slots kids fuel hk]
theorem metal_free_list (macros slots : List (Str × MNode)) : ∀ (ns : List Node) (fuel : Nat), depthList ns < fuel + 1 →
    expandMetalList macros fuel slots (embedList ns) = ns
  | [], _, _ => by simp [embedList, expandMetalList]
  | n :: ns, fuel, h => by
    have h1 : depth n < fuel + 1 := by simp [depthList] at h; omega
    have h2 : depthList ns < fuel + 1 := by simp [depthList] at h; omega
    simp [embedList, expandMetalList, metal_free_node macros slots n fuel h1, metal_free_list macros slots ns fuel h2]
end

theorem metal_free_unchanged (macros : List (Str × MNode)) (t : List Node) :
    expandTemplate macros (depthList t) (embedList t) = t :=
  metal_free_list macros [] t (depthList t) (Nat.lt_succ_self _)

/-- **`use-macro`**: the element is replaced by the macro's own element, expanded with the fillers
    found below the use site; the use site's tag and content are not output -/
theorem use_macro_substitutes (macros slots : List (Str × MNode)) (fuel : Nat) (tag : Str) (atts orig : List (Str × Str)) (c : Cmds)
    (sg ne : Bool) (m : Str) (ds fs : Option Str) (kids : List MNode) (body : MNode) (hm : slotLookup macros m = some body) :
    expandMetal macros (fuel + 1) slots (.elem tag atts orig c sg ne (some m) ds fs kids) =
      expandMetal macros fuel (fillersList kids) (stripUse body) := by
  simp [expandMetal, hm]

/-- a macro expression that names no macro outputs nothing (the element and its content vanish) -/
theorem unknown_macro_outputs_nothing (macros slots : List (Str × MNode)) (fuel : Nat) (tag : Str) (atts orig : List (Str × Str))
    (c : Cmds) (sg ne : Bool) (m : Str) (ds fs : Option Str) (kids : List MNode) (hm : slotLookup macros m = none) :
    expandMetal macros (fuel + 1) slots (.elem tag atts orig c sg ne (some m) ds fs kids) = [] := by
  simp [expandMetal, hm]

/-- **`define-slot` with a filler**: the filler element stands in for the slot element -/
theorem filled_slot_is_filler (macros slots : List (Str × MNode)) (fuel : Nat) (tag : Str) (atts orig : List (Str × Str)) (c : Cmds)
    (sg ne : Bool) (s : Str) (fs : Option Str) (kids : List MNode) (filler : MNode) (hf : slotLookup slots s = some filler) :
    expandMetal macros (fuel + 1) slots (.elem tag atts orig c sg ne none (some s) fs kids) =
      expandMetal macros fuel slots (stripSlot filler) := by
  simp [expandMetal, hf]

/-- **`define-slot` without a filler** keeps its own content: it is an ordinary element -/
theorem unfilled_slot_keeps_default (macros slots : List (Str × MNode)) (fuel : Nat) (tag : Str) (atts orig : List (Str × Str))
    (c : Cmds) (sg ne : Bool) (s : Str) (fs : Option Str) (kids : List MNode) (hf : slotLookup slots s = none) :
    expandMetal macros (fuel + 1) slots (.elem tag atts orig c sg ne none (some s) fs kids) =
      [.elem tag atts orig c sg ne (expandMetalList macros fuel slots kids)] := by
  simp [expandMetal, hf]

/-- fillers belong to the nearest enclosing `use-macro`: a nested use site hides its own -/
theorem fillers_stop_at_nested_use (tag : Str) (atts orig : List (Str × Str)) (c : Cmds) (sg ne : Bool) (m : Str)
    (ds fs : Option Str) (kids : List MNode) :
    fillers (.elem tag atts orig c sg ne (some m) ds fs kids) = [] := by
  simp [fillers]

/-! ### TALES -/

/-- repeat variables: number = index + 1, even / odd, start / end -/
theorem repeat_vars (pos len : Nat) :
    repeatAttr ⟨pos, len⟩ (lit "index") = some (.int pos) ∧ repeatAttr ⟨pos, len⟩ (lit "number") = some (.int (pos + 1)) ∧
    repeatAttr ⟨pos, len⟩ (lit "length") = some (.int len) := by
  refine ⟨?_, ?_, ?_⟩ <;> (unfold repeatAttr; simp [lit]) <;> decide

/-- executable spot checks of the evaluator on the forms the TALES specification lists (tests run by the evaluator at build time, not theorems) -/
def isStr (v : Val) (s : Str) : Bool := match v with | .str t => t == s | _ => false
def isInt (v : Val) (n : Int) : Bool := match v with | .int t => t == n | _ => false
#guard isStr (eval (fun _ => .none) { globals := [(lit "a", .str (lit "A")), (lit "l", .list [.int 1, .int 2])] } (lit "missing | a")) (lit "A")
#guard isStr (eval (fun _ => .none) { globals := [(lit "a", .str (lit "A"))] } (lit "string:x ${a} $$ $a!")) (lit "x A $ ")
#guard isInt (eval (fun _ => .none) { globals := [(lit "l", .list [])] } (lit "not:l")) 1
#guard isInt (eval (fun _ => .none) {} (lit "exists:nothing")) 1
example : lowerRoman 1993 = lit "mcmxciv" ∧ lowerLetter 0 = lit "a" ∧ lowerLetter 27 = lit "bb" := by decide +kernel

/-! ### templates included through `structure` (`Model/Include`) -/

/-- **Refinement carries over to included templates.**  For every table of templates, page and
    context, the stack machine run on the compiled page with the included templates' nodes
    substituted yields exactly the denotation of that tree. -/
theorem include_then_tal_refines (py : Str → Val) (tpls : List (Str × List Node)) (fuel : Nat) (t : List Node) (ctx : Ctx) :
    ∃ f, expand py f (inlineList tpls fuel t) ctx = some (denoteList py (inlineList tpls fuel t) ctx) :=
  Tal.run_refines_denote py _ ctx

/-- `tal:content="structure T"` with `T` a template of the table: the element keeps its tag and its
    other commands; its children are the template's nodes (themselves substituted) -/
theorem content_include_substitutes (tpls : List (Str × List Node)) (fuel : Nat) (tag : Str) (atts orig : List (Str × Str))
    (c : Cmds) (sg ne : Bool) (kids body : List Node) (e : Str)
    (hc : c.content = some (false, true, e)) (ht : tplLookup tpls e = some body) :
    inlineNode tpls (fuel + 1) (.elem tag atts orig c sg ne kids) =
      .elem tag atts orig { c with content := none } sg ne (inlineList tpls fuel body) := by
  simp [inlineNode, hc, ht]

/-- `tal:replace="structure T"`: the same with the element's own tag omitted -/
theorem replace_include_substitutes (tpls : List (Str × List Node)) (fuel : Nat) (tag : Str) (atts orig : List (Str × Str))
    (c : Cmds) (sg ne : Bool) (kids body : List Node) (e : Str)
    (hc : c.content = some (true, true, e)) (ht : tplLookup tpls e = some body) :
    inlineNode tpls (fuel + 1) (.elem tag atts orig c sg ne kids) =
      .elem tag atts orig { c with content := none, omitTag := some alwaysTrue } sg ne (inlineList tpls fuel body) := by
  simp [inlineNode, hc, ht]

/-- an expression that does not name a template of the table leaves the element as it is -/
theorem no_template_no_substitution (tpls : List (Str × List Node)) (fuel : Nat) (tag : Str) (atts orig : List (Str × Str))
    (c : Cmds) (sg ne : Bool) (kids : List Node)
    (h : ∀ rep e, c.content = some (rep, true, e) → tplLookup tpls e = none) :
    inlineNode tpls (fuel + 1) (.elem tag atts orig c sg ne kids) = .elem tag atts orig c sg ne (inlineList tpls fuel kids) := by
  unfold inlineNode
  cases hc : c.content with
  | none => rfl
  | some v =>
    obtain ⟨rep, raw, e⟩ := v
    cases raw with
    | false => rfl
    | true => simp [h rep e hc]

mutual
/-- **With no template in the table nothing changes**: pages that include nothing are left alone -/
theorem include_free_node : ∀ (n : Node) (fuel : Nat), inlineNode [] fuel n = n
  | .data s, fuel => by cases fuel <;> simp [inlineNode]
  | .elem tag atts orig c sg ne kids, 0 => by simp [inlineNode]
  | .elem tag atts orig c sg ne kids, fuel + 1 => by
    rw [no_template_no_substitution [] fuel tag atts orig c sg ne kids (fun _ _ _ => by simp [tplLookup])]
    rw [include_free_list kids fuel]
theorem include_free_list : ∀ (ns : List Node) (fuel : Nat), inlineList [] fuel ns = ns
  | [], fuel => by simp [inlineList]
  | k :: ks, fuel => by simp [inlineList, include_free_node k fuel, include_free_list ks fuel]
end


/-! ### `exists:` / `nocall:` and the blanks around the alternation bar -/

theorem lstrip_append_bar (p rest : Str) : lstrip (p ++ 124 :: rest) = lstrip p ++ 124 :: rest := by
  induction p with
  | nil =>
    have h : isSpace 124 = false := by decide
    simp [lstrip, h]
  | cons c cs ih =>
    simp only [List.cons_append, lstrip]
    split
    · exact ih
    · rfl

theorem splitOn_head_bar (a rest : Str) (h : 124 ∉ a) : (splitOn 124 (a ++ 124 :: rest)).headD [] = a := by
  induction a with
  | nil => simp [splitOn]
  | cons c cs ih =>
    have hc : c ≠ 124 := fun e => h (by simp [e])
    have ih' := ih (fun hm => h (by simp [hm]))
    simp only [List.cons_append, splitOn, hc, if_false]
    cases hs : splitOn 124 (cs ++ 124 :: rest) with
    | nil => exact absurd hs (splitOn_ne_nil _ _)
    | cons f fs => simp [hs] at ih' ⊢; exact ih'

theorem mem_lstrip {c : Nat} {p : Str} (h : c ∈ lstrip p) : c ∈ p := by
  induction p with
  | nil => simp [lstrip] at h
  | cons d ds ih =>
    simp only [lstrip] at h
    split at h
    · exact List.mem_cons_of_mem _ (ih h)
    · exact h

theorem lstrip_idem (p : Str) : lstrip (lstrip p) = lstrip p := by
  induction p with
  | nil => rfl
  | cons c cs ih =>
    simp only [lstrip]
    split
    · exact ih
    · rename_i h; simp [lstrip, h]

/-- **`exists:` looks at its first alternative the way it is meant, blanks or not**: whenever the first alternative,
    stripped, is a path that is found, `exists: first | rest…` is true — whatever blanks stand around the bar and
    whatever follows it (before repo commit 632c47c a blank before the bar made the first alternative unfindable) -/
theorem exists_first_alternative_found (py : Str → Val) (fuel : Nat) (c : Ctx) (p rest : Str) (v : Val)
    (hbar : 124 ∉ p) (hfound : traversePath c (strip p) = some v)
    (hs : strip (lit "exists:" ++ p ++ 124 :: rest) = lit "exists:" ++ p ++ 124 :: rest) :
    evalFuel py (fuel + 1) c (lit "exists:" ++ p ++ 124 :: rest) = .val (.int 1) := by
  have e7 : lit "exists:" = [101, 120, 105, 115, 116, 115, 58] := by decide
  have e5 : lit "path:" = [112, 97, 116, 104, 58] := by decide
  unfold evalFuel
  simp only [hs]
  have hpre : isPrefixB (lit "path:") (lit "exists:" ++ p ++ 124 :: rest) = false := by
    rw [e5, e7]; simp [isPrefixB]
  have hex : isPrefixB (lit "exists:") (lit "exists:" ++ p ++ 124 :: rest) = true := by
    rw [e7]; simp [isPrefixB]
  have hdrop : (lit "exists:" ++ p ++ 124 :: rest).drop 7 = p ++ 124 :: rest := by
    rw [e7]; simp
  simp only [hpre, hex, Bool.false_eq_true, if_false, if_true, hdrop, lstripSp, lstrip_append_bar]
  have hb' : 124 ∉ lstrip p := fun hm => hbar (mem_lstrip hm)
  rw [splitOn_head_bar (lstrip p) rest hb']
  have : strip (lstrip p) = strip p := by unfold strip; rw [lstrip_idem]
  rw [this, hfound]

/-- ... and `nocall:` hands that first alternative back as it is (it used to fall through to — and call — the next one) -/
theorem nocall_first_alternative_found (py : Str → Val) (fuel : Nat) (c : Ctx) (p rest : Str) (v : Val)
    (hbar : 124 ∉ p) (hfound : traversePath c (strip p) = some v)
    (hs : strip (lit "nocall:" ++ p ++ 124 :: rest) = lit "nocall:" ++ p ++ 124 :: rest) :
    evalFuel py (fuel + 1) c (lit "nocall:" ++ p ++ 124 :: rest) = .val v := by
  have e7 : lit "nocall:" = [110, 111, 99, 97, 108, 108, 58] := by decide
  have e7' : lit "exists:" = [101, 120, 105, 115, 116, 115, 58] := by decide
  have e5 : lit "path:" = [112, 97, 116, 104, 58] := by decide
  unfold evalFuel
  simp only [hs]
  have hpre : isPrefixB (lit "path:") (lit "nocall:" ++ p ++ 124 :: rest) = false := by
    rw [e5, e7]; simp [isPrefixB]
  have hex : isPrefixB (lit "exists:") (lit "nocall:" ++ p ++ 124 :: rest) = false := by
    rw [e7, e7']; simp [isPrefixB]
  have hno : isPrefixB (lit "nocall:") (lit "nocall:" ++ p ++ 124 :: rest) = true := by
    rw [e7]; simp [isPrefixB]
  have hdrop : (lit "nocall:" ++ p ++ 124 :: rest).drop 7 = p ++ 124 :: rest := by
    rw [e7]; simp
  simp only [hpre, hex, hno, Bool.false_eq_true, if_false, if_true, hdrop, lstripSp, lstrip_append_bar]
  have hb' : 124 ∉ lstrip p := fun hm => hbar (mem_lstrip hm)
  rw [splitOn_head_bar (lstrip p) rest hb']
  have : strip (lstrip p) = strip p := by unfold strip; rw [lstrip_idem]
  rw [this, hfound]

/-- the hypotheses are met by the template that showed the defect: `exists: s | missing` with `s` defined -/
example : 124 ∉ lit " s " ∧ strip (lit "exists: s | missing") = lit "exists: s | missing" ∧
    lit "exists: s | missing" = lit "exists:" ++ lit " s " ++ 124 :: lit " missing" ∧
    (match traversePath { globals := [(lit "s", .str (lit "v"))] } (strip (lit " s ")) with
     | some (.str x) => x == lit "v" | _ => false) = true := by decide +kernel


end Pyg.Props.C17
