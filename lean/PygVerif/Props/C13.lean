import PygVerif.Generated
import PygVerif.Lemmas.Skel
import PygVerif.Lemmas.Selector
/-!
# C13 — Generated HTML, WML and Gopher+ blocks cannot be subverted by data

The page builders of `Model/Render` are the definitions the correspondence check runs
against the real `renderobjinfo` / `filenotfound` / `handlerwrite` / `HTMLURLHandler.write`.
Every builder is shown to put data only in escaped slots that the tokenizer reaches outside
tag position; `skeleton_of_shape` then gives: the element / attribute skeleton is the same
for all data.
-/
namespace Pyg.Props.C13
open Pyg

/-- a builder is *safe from `st`*: all slots outside tag position, and it ends in text state -/
def Safe (st : TState) (segs : List Seg) : Prop :=
  slotsOk st (segs.map Seg.shape) = true ∧ endState st (segs.map Seg.shape) = .text

/-- **Main theorem.** For a safe page, the skeleton and the final tokenizer state are the
    same for any other page of the same shape — i.e. for any other data whatsoever. -/
theorem data_cannot_change_structure (a b : List Seg) (st : TState)
    (hshape : a.map Seg.shape = b.map Seg.shape) (h : Safe st a) :
    run st (emit a) = run st (emit b) ∧ (run st (emit a)).1 = .text := by
  refine ⟨skeleton_of_shape a b st hshape h.1, ?_⟩
  rw [run_endState a st h.1]; exact h.2

theorem safe_append {st : TState} {a b : List Seg} (ha : Safe st a) (hb : Safe .text b) :
    Safe st (a ++ b) := by
  unfold Safe at *
  simp only [List.map_append, slotsOk_append, endState_append, ha.1, ha.2, hb.1, hb.2, Bool.and_self,
    and_self]

theorem safe_nil : Safe .text [] := ⟨rfl, rfl⟩

theorem safe_flatten (ls : List (List Seg)) (h : ∀ l ∈ ls, Safe .text l) : Safe .text ls.flatten := by
  induction ls with
  | nil => exact safe_nil
  | cons l r ih =>
    simp only [List.flatten_cons]
    exact safe_append (h l (by simp)) (ih (fun x hx => h x (by simp [hx])))

/-! ### escaping -/

theorem escape_inert (d : Str) : ∀ c ∈ htmlEscape true d, c ≠ 60 ∧ c ≠ 62 ∧ c ≠ 34 ∧ c ≠ 39 := by
  intro c hc
  have := htmlEscape_no_meta d c hc
  simp only [htmlMeta, Bool.or_eq_false_iff, beq_eq_false_iff_ne, ne_eq] at this
  exact ⟨this.1.1.1, this.1.1.2, this.1.2, this.2⟩

/-! ### HTTP directory rows -/

theorem icons_inert : ∀ kv ∈ Generated.iconMapping, kv.2.all (fun c => !htmlMeta c) = true := by
  decide +kernel

theorem iconFor_inert (e : Entry) : inert (iconFor Generated.iconMapping e) := by
  unfold iconFor
  have gen : inert (lit "generic.gif") := by
    intro c hc
    have : (lit "generic.gif").all (fun c => !htmlMeta c) = true := by decide +kernel
    simpa using List.all_eq_true.mp this c hc
  cases e.type with
  | none => exact gen
  | some t =>
    simp only
    cases hf : Generated.iconMapping.find? (·.1 == t) with
    | none => simpa using gen
    | some kv =>
      have hmem := List.mem_of_find?_eq_some hf
      have := icons_inert kv hmem
      intro c hc
      simp only [Option.map_some, Option.getD_some] at hc
      simpa using List.all_eq_true.mp this c hc

theorem httpRowHead_safe (e : Entry) : Safe .text (httpRowHead Generated.iconMapping e) := by
  unfold Safe httpRowHead
  simp only [List.map_cons, List.map_nil, Seg.shape, slotsOk, endState]
  have h1 : (run .text (lit "<TR><TD><IMG ALT=\" * \" SRC=\"/PYGOPHERD-HTTPPROTO-ICONS/")).1 = .attrDq := by
    decide +kernel
  rw [h1, run_inert .attrDq (by decide) _ (iconFor_inert e)]
  exact ⟨trivial, by decide +kernel⟩

theorem httpRowTail_safe (e : Entry) (url : Str) : Safe .text (httpRowTail e url) := by
  unfold Safe httpRowTail
  by_cases h1 : isInfoOrSearch e = true <;> by_cases h2 : (e.type == some (lit "7")) = true <;>
    simp only [h1, h2, Bool.not_true, Bool.not_false, Bool.false_eq_true, if_false, if_true,
      List.nil_append, Bool.not_eq_true] at * <;>
    (cases e.mimetype with
     | none => simp only [List.map_append, List.map_cons, List.map_nil, Seg.shape]; decide +kernel
     | some m =>
       by_cases hm : m.isEmpty = true
       · simp only [hm, if_true, List.map_append, List.map_cons, List.map_nil, Seg.shape]; decide +kernel
       · simp only [hm, Bool.false_eq_true, if_false]
         cases mimeSubtype m <;>
           (simp only [List.map_append, List.map_cons, List.map_nil, Seg.shape]; decide +kernel))

/-- every HTTP listing row, for every entry and every link URL -/
theorem httpRow_safe (e : Entry) (url : Str) : Safe .text (httpRowSegs Generated.iconMapping e url) :=
  safe_append (httpRowHead_safe e) (httpRowTail_safe e url)

/-- error page, for every message (the message echoes the selector) -/
theorem httpError_safe (msg : Str) : Safe .text (httpErrorSegs msg) := by
  unfold Safe httpErrorSegs
  simp only [List.map_cons, List.map_nil, Seg.shape]
  decide +kernel

theorem httpDirStart_safe (name : Option Str) : Safe .text (httpDirStartSegs name []) := by
  unfold Safe httpDirStartSegs
  cases name <;> (simp only [List.map_append, List.map_cons, List.map_nil, Seg.shape, List.append_nil]; decide +kernel)

/-- the URL redirect page: the URL sits in two quoted attributes and in text -/
theorem urlRedirect_safe (url : Str) : Safe .text (urlRedirectSegs url) := by
  unfold Safe urlRedirectSegs
  simp only [List.map_cons, List.map_nil, Seg.shape]
  decide +kernel

/-- belt and braces for the redirect page: a selector containing `"` never reaches it -/
theorem redirect_refuses_quote (s : Str) (h : urlSecureB Generated.urlForbidden s = true) : 34 ∉ s := by
  simp only [urlSecureB, Bool.and_eq_true, List.all_eq_true, Bool.not_eq_true'] at h
  have hq : [34] ∈ Generated.urlForbidden := by decide
  have := h.2 [34] hq
  intro hm
  rw [(isInfixB_iff [34] s).mpr (mem_infix_singleton hm)] at this
  exact absurd this (by simp)

/-! ### WML -/

theorem accesskeys_inert : Generated.accesskeys.all (fun c => !htmlMeta c) = true := by decide +kernel

theorem wapRow_safe (st : WapState) (e : Entry) (url : Str) :
    Safe .text (wapRowSegs Generated.waptop Generated.accesskeys st e url).1 := by
  unfold Safe wapRowSegs
  have hk : ∀ i, i < Generated.accesskeys.length → inert [Generated.accesskeys.getD i 0] := by
    intro i hi c hc
    simp only [List.mem_singleton] at hc
    subst hc
    have hm : Generated.accesskeys.getD i 0 ∈ Generated.accesskeys := by
      rw [List.getD_eq_getElem?_getD, List.getElem?_eq_getElem hi]; exact List.getElem_mem hi
    simpa using List.all_eq_true.mp accesskeys_inert _ hm
  by_cases h1 : isInfoOrSearch e = true <;> by_cases h2 : (e.type == some (lit "7")) = true <;>
    by_cases h3 : st.accesskeyidx < Generated.accesskeys.length <;>
    simp only [h1, h2, h3, Bool.not_true, Bool.not_false, Bool.false_eq_true, if_false, if_true,
      List.nil_append, List.map_append, List.map_cons, List.map_nil, Seg.shape, List.cons_append,
      slotsOk, endState, List.append_nil] <;>
    (try simp only [run_inert .text (by decide) _ (hk _ h3)]) <;>
    (try (have e1 : (run .text (lit " <a accesskey=\"")).1 = .attrDq := by decide +kernel
          simp only [e1, run_inert .attrDq (by decide) _ (hk _ h3)])) <;>
    decide +kernel

theorem wapError_safe (msg : Str) : Safe .text (wapErrorSegs msg) := by
  unfold Safe wapErrorSegs
  simp only [List.map_cons, List.map_nil, Seg.shape]
  decide +kernel

theorem wapDirStart_safe (name : Option Str) : Safe .text (wapDirStartSegs name) := by
  unfold Safe wapDirStartSegs
  simp only [List.map_cons, List.map_nil, Seg.shape]
  decide +kernel

/-- the text → WML page for every file content -/
theorem wapText_safe (lines : List Str) : Safe .text (wapTextSegs lines) := by
  unfold wapTextSegs
  refine safe_append (safe_append ?_ (safe_flatten _ ?_)) ?_
  · unfold Safe; simp only [List.map_cons, List.map_nil, Seg.shape]; decide +kernel
  · intro l hl
    simp only [List.mem_map] at hl
    obtain ⟨x, _, rfl⟩ := hl
    by_cases hr : (rstrip x).isEmpty = true
    · simp only [hr, if_true]; unfold Safe; simp only [List.map_cons, List.map_nil, Seg.shape]; decide +kernel
    · simp only [hr, Bool.false_eq_true, if_false]; unfold Safe
      simp only [List.map_cons, List.map_nil, Seg.shape]; decide +kernel
  · unfold Safe; simp only [List.map_cons, List.map_nil, Seg.shape]; decide +kernel

/-- a whole HTTP directory page: start, any number of rows, nothing in between -/
theorem httpPage_safe (name : Option Str) (rows : List (Entry × Str)) :
    Safe .text (httpDirStartSegs name [] ++
      (rows.map fun r => httpRowSegs Generated.iconMapping r.1 r.2).flatten) :=
  safe_append (httpDirStart_safe name) (safe_flatten _ (by
    intro l hl
    simp only [List.mem_map] at hl
    obtain ⟨r, _, rfl⟩ := hl
    exact httpRow_safe r.1 r.2))

/-- a template with a slot in an unquoted attribute position is *rejected* by `slotsOk` -/
theorem unquoted_slot_rejected :
    slotsOk .text ([Seg.lit (lit "<A HREF="), .esc [], .lit (lit ">")].map Seg.shape) = false := by
  decide +kernel

/-- ... and such a page really can be subverted: the data `x onclick=y` changes the skeleton -/
theorem unquoted_slot_subvertible :
    run .text (emit [Seg.lit (lit "<A HREF="), .esc (lit "x"), .lit (lit ">")]) ≠
    run .text (emit [Seg.lit (lit "<A HREF="), .esc (lit "x onclick=y"), .lit (lit ">")]) := by
  decide +kernel

/-! ### HTTP header lines carry only server-chosen values -/

/-- the header block is built from the fixed status line, the formatted time and the MIME
    type; no request data is a parameter of `httpHeaders` -/
theorem headers_lines (lm : Option Str) (ct : Str) :
    httpHeaders lm ct = lit "HTTP/1.0 200 OK\r\n" ++
      (match lm with | some t => lit "Last-Modified: " ++ t ++ [13,10] | none => []) ++
      lit "Content-Type: " ++ ct ++ [13,10,13,10] := rfl

/-! ### Gopher+ attribute blocks: content lines can never pass for block headers -/

theorem splitlinesAux_no_break (s cur : Str) (hc : ∀ c ∈ cur, isLineBreak c = false) :
    ∀ l ∈ splitlinesAux s cur, ∀ c ∈ l, isLineBreak c = false := by
  fun_induction splitlinesAux s cur with
  | case1 cur h => intro l hl; simp at hl
  | case2 cur h =>
    intro l hl; simp only [List.mem_singleton] at hl; subst hl; simpa using hc
  | case3 rest cur ih =>
    intro l hl; simp only [List.mem_cons] at hl
    rcases hl with rfl | hl
    · simpa using hc
    · exact ih (by simp) l hl
  | case4 c rest cur hne hbrk ih =>
    intro l hl; simp only [List.mem_cons] at hl
    rcases hl with rfl | hl
    · simpa using hc
    · exact ih (by simp) l hl
  | case5 c rest cur hne hbrk ih =>
    exact ih (by
      intro x hx
      simp only [List.mem_cons] at hx
      rcases hx with rfl | hx
      · simpa using hbrk
      · exact hc x hx)

/-- every line of `splitlines` is free of CR and LF (and of every other line boundary) -/
theorem splitlines_no_break (v : Str) : ∀ l ∈ splitlines v, 10 ∉ l ∧ 13 ∉ l := by
  intro l hl
  have := splitlinesAux_no_break v [] (by simp) l hl
  constructor
  · intro h; have := this 10 h; simp [isLineBreak] at this
  · intro h; have := this 13 h; simp [isLineBreak] at this

/-- the lines of an attribute block: the header, then each content line behind one space -/
def eaBlockLines (k v : Str) : List Str :=
  ([43] ++ k ++ [58]) :: (splitlines v).map fun l => [32] ++ l

theorem eaBlock_lines (k v : Str) :
    eaBlock k v = ((eaBlockLines k v).map fun l => l ++ [13, 10]).flatten := by
  simp [eaBlock, eaBlockLines, lit, List.map_map, Function.comp_def]

/-- **Indented.** Every content line of an attribute block starts with a space and contains no
    line break, so no content line — whatever the sidecar file holds — can be read as a block
    header (`+NAME:`). -/
theorem gplus_content_lines_indented (k v : Str) :
    ∀ l ∈ (eaBlockLines k v).tail, l.head? = some 32 ∧ l.head? ≠ some 43 ∧ 10 ∉ l ∧ 13 ∉ l := by
  intro l hl
  simp only [eaBlockLines, List.tail_cons, List.mem_map] at hl
  obtain ⟨x, hx, rfl⟩ := hl
  have := splitlines_no_break v x hx
  refine ⟨by simp, by simp, ?_, ?_⟩
  · simp only [List.cons_append, List.nil_append, List.mem_cons, not_or]; exact ⟨by decide, this.1⟩
  · simp only [List.cons_append, List.nil_append, List.mem_cons, not_or]; exact ⟨by decide, this.2⟩

/-! non-vacuity -/
example : emit (httpErrorSegs (lit "'/<b>\"' does not exist")) =
    lit "<!DOCTYPE HTML PUBLIC \"-//W3C//DTD HTML 4.0 Transitional//EN\" \"http://www.w3.org/TR/REC-html40/loose.dtd\">\n<HTML><HEAD><TITLE>Selector Not Found</TITLE>\n        <H1>Selector Not Found</H1>\n        <TT>&#x27;/&lt;b&gt;&quot;&#x27; does not exist</TT><HR>Pygopherd</BODY></HTML>\n" := by
  decide +kernel
example : eaBlockLines (lit "ABSTRACT") (lit "one\n+INFO: fake\r\nthree") =
    [lit "+ABSTRACT:", lit " one", lit " +INFO: fake", lit " three"] := by decide +kernel

/-! ### a menu line is one line -/

theorem menuField_clean (s : Str) : ∀ c ∈ menuField s, c ≠ 9 ∧ c ≠ 13 ∧ c ≠ 10 := by
  intro c hc
  unfold menuField at hc
  rw [List.mem_map] at hc
  obtain ⟨a, _, ha⟩ := hc
  by_cases h : a = 9 ∨ a = 13 ∨ a = 10
  · simp only [h, if_true] at ha; subst ha; decide
  · simp only [h, if_false] at ha; subst ha
    exact ⟨fun e => h (Or.inl e), fun e => h (Or.inr (Or.inl e)), fun e => h (Or.inr (Or.inr e))⟩

/-- text without TAB, CR, LF is left alone -/
theorem menuField_id (s : Str) (h : ∀ c ∈ s, c ≠ 9 ∧ c ≠ 13 ∧ c ≠ 10) : menuField s = s := by
  unfold menuField
  induction s with
  | nil => rfl
  | cons a r ih =>
    have ha := h a (by simp)
    have : ¬ (a = 9 ∨ a = 13 ∨ a = 10) := by
      intro hh; rcases hh with e | e | e
      · exact ha.1 e
      · exact ha.2.1 e
      · exact ha.2.2 e
    simp only [List.map_cons, this, if_false]
    rw [ih (fun c hc => h c (by simp [hc]))]

/-- **A menu line cannot be split or given extra fields by data.**  Whatever the entry's name,
    selector and host contain (a file may be called `a<CR><LF>+ADMIN:`), the line
    `GopherProtocol.renderobjinfo` writes — the `+INFO:` line of Gopher+ included — consists of the
    type, three fields free of TAB, CR and LF, the port's digits, and one final CR LF: between its
    first character and that CR LF there is no line break, provided the type has none (types
    come from one-line sources: a gophermap line's first character, a `Type=` line, the mapping). -/
theorem menu_line_is_one_line (srv : ServerId) (e : Entry) (line : Str) (h : gopher0Line srv e = some line)
    (ht : ∀ c ∈ e.type.getD (lit "0"), c ≠ 13 ∧ c ≠ 10) :
    ∃ body, line = body ++ [13, 10] ∧ ∀ c ∈ body, c ≠ 13 ∧ c ≠ 10 := by
  unfold gopher0Line at h
  cases hn : e.name with
  | none => rw [hn] at h; cases h
  | some nm =>
    rw [hn] at h
    simp only [Option.some.injEq] at h
    have hport : ∀ c ∈ portOf srv e, c ≠ 13 ∧ c ≠ 10 := by
      intro c hc
      unfold portOf at hc
      cases hp : e.port with
      | none =>
        rw [hp] at hc
        have := toDec_digits srv.port c hc
        exact ⟨by omega, by omega⟩
      | some p =>
        rw [hp] at hc
        simp only [toDecInt] at hc
        split at hc
        · have := toDec_digits _ c hc; exact ⟨by omega, by omega⟩
        · rcases List.mem_cons.mp hc with e1 | e1
          · subst e1; decide
          · have := toDec_digits _ c e1; exact ⟨by omega, by omega⟩
    have mf : ∀ s, ∀ c ∈ menuField s, c ≠ 13 ∧ c ≠ 10 := fun s c hc => ⟨(menuField_clean s c hc).2.1, (menuField_clean s c hc).2.2⟩
    have core : ∀ c ∈ e.type.getD (lit "0") ++ menuField nm ++ [9] ++ menuField e.selector ++ [9] ++ menuField (hostOf srv e) ++ [9] ++ portOf srv e,
        c ≠ 13 ∧ c ≠ 10 := by
      intro c hc
      simp only [List.mem_append, List.mem_singleton] at hc
      rcases hc with ((((((hc | hc) | hc) | hc) | hc) | hc) | hc) | hc
      · exact ht c hc
      · exact mf _ c hc
      · subst hc; decide
      · exact mf _ c hc
      · subst hc; decide
      · exact mf _ c hc
      · subst hc; decide
      · exact hport c hc
    cases hg : e.gplus with
    | false =>
      rw [hg] at h
      simp only [Bool.false_eq_true, if_false] at h
      refine ⟨_, ?_, core⟩
      rw [← h]
      have : lit "\r\n" = [13, 10] := by decide
      rw [this]
    | true =>
      rw [hg] at h
      simp only [if_true] at h
      refine ⟨e.type.getD (lit "0") ++ menuField nm ++ [9] ++ menuField e.selector ++ [9] ++ menuField (hostOf srv e) ++ [9] ++ portOf srv e ++ [9, 43], ?_, ?_⟩
      · rw [← h]
        have : lit "\t+\r\n" = [9, 43] ++ [13, 10] := by decide
        rw [this]; simp [List.append_assoc]
      · intro c hc
        rcases List.mem_append.mp hc with h1 | h1
        · exact core c h1
        · simp at h1; rcases h1 with e1 | e1 <;> (subst e1; decide)

end Pyg.Props.C13
