import PygVerif.Generated
import PygVerif.Model.Listing
/-!
# C09 — gophermap files are rendered line for line as documented

`gmLine` / `gmParse` mirror `BuckGophermapHandler.prepare`; the statements below are the
documented reading of a gophermap (doc/standards/gophermap.txt), for every line and every
file.
-/
namespace Pyg.Props.C09
open Pyg

variable (fb : List Str) (ea : List (Str × Str)) (dm base : Str) (pop : Str → Option PopInfo)

/-- **One entry per line, in file order.** -/
theorem one_per_line (ls : List Str) (es : List Entry) (h : gmParse fb ea dm base pop ls = some es) :
    es.length = ls.length ∧ ∀ i (hi : i < ls.length), ∃ e, gmLine fb ea dm base pop ls[i] = some e ∧ es[i]? = some e := by
  induction ls generalizing es with
  | nil => simp [gmParse] at h; subst h; simp
  | cons l ls ih =>
    simp only [gmParse] at h
    cases h1 : gmLine fb ea dm base pop l with
    | none => simp [h1] at h
    | some e =>
      cases h2 : gmParse fb ea dm base pop ls with
      | none => simp [h1, h2] at h
      | some es' =>
        simp [h1, h2] at h
        subst h
        obtain ⟨hl, hi⟩ := ih es' h2
        refine ⟨by simp [hl], ?_⟩
        intro i hi'
        cases i with
        | zero => exact ⟨e, by simpa using h1, by simp⟩
        | succ j =>
          have hj : j < ls.length := by simpa using hi'
          obtain ⟨e', he1, he2⟩ := hi j hj
          exact ⟨e', by simpa using he1, by simpa using he2⟩

/-- the parse of a concatenation is the concatenation of the parses (no state crosses lines) -/
theorem parse_append (a b : List Str) :
    gmParse fb ea dm base pop (a ++ b) =
      match gmParse fb ea dm base pop a, gmParse fb ea dm base pop b with
      | some x, some y => some (x ++ y)
      | _, _ => none := by
  induction a with
  | nil => simp [gmParse]; cases gmParse fb ea dm base pop b <;> rfl
  | cons l ls ih =>
    simp only [List.cons_append, gmParse, ih]
    cases gmLine fb ea dm base pop l <;> cases gmParse fb ea dm base pop ls <;>
      cases gmParse fb ea dm base pop b <;> simp

/-- **A line without a tab is informational text**: type `i`, the stripped line as name. -/
theorem info_iff_no_tab (line : Str) (h : line.contains 9 = false) :
    gmLine fb ea dm base pop line = some (infoEntry (strip line)) := by
  unfold gmLine; simp only [h, Bool.false_and, Bool.false_eq_true, if_false]

/-- so is a line whose first field is empty (it has no type character) -/
theorem info_if_no_type (line : Str) (h : (((splitOn 9 line).map strip).headD []).isEmpty = true) :
    gmLine fb ea dm base pop line = some (infoEntry (strip line)) := by
  unfold gmLine; simp only [h, Bool.not_true, Bool.and_false, Bool.false_eq_true, if_false]

/-- a line with a tab and a type character is a link line built from its tab-separated, stripped fields -/
theorem link_iff_tab (line : Str) (h : line.contains 9 = true) (h0 : (((splitOn 9 line).map strip).headD []).isEmpty = false) :
    gmLine fb ea dm base pop line =
      (gmLinkRaw base (((splitOn 9 line).map strip).headD []) ((((splitOn 9 line).map strip)[1]?).getD [])
        ((splitOn 9 line).map strip)[2]? ((splitOn 9 line).map strip)[3]?).map (gmPopulate fb ea dm pop) := by
  unfold gmLine; simp only [h, h0, Bool.not_false, Bool.and_self, if_true]

theorem wellformed_fields_total (a0 a1raw : Str) (hostF portF : Option Str)
    (h : WellFormedFields a0 portF = true) : (gmLinkRaw base a0 a1raw hostF portF).isSome = true := by
  unfold WellFormedFields at h
  simp only [Bool.and_eq_true, Bool.not_eq_true'] at h
  obtain ⟨h0, h3⟩ := h
  obtain ⟨port, hport⟩ := Option.isSome_iff_exists.mp h3
  cases a0 with
  | nil => simp at h0
  | cons t nm => simp [gmLinkRaw, hport]

/-- on well-formed lines (a port field, if present, is a number) `prepare` does not raise — whatever
    else the line lacks: a description, a selector, a type character -/
theorem wellformed_total (line : Str) (h : WellFormedLine line = true) :
    (gmLine fb ea dm base pop line).isSome = true := by
  unfold WellFormedLine at h
  by_cases ht : line.contains 9 = true
  · by_cases h0 : (((splitOn 9 line).map strip).headD []).isEmpty = true
    · rw [info_if_no_type _ _ _ _ _ _ h0]; rfl
    · have h0' : (((splitOn 9 line).map strip).headD []).isEmpty = false := by simpa using h0
      rw [link_iff_tab _ _ _ _ _ _ ht h0']
      simp only [ht, h0', Bool.not_false, Bool.and_self, if_true] at h
      simp only [Option.isSome_map]
      exact wellformed_fields_total _ _ _ _ _ (by unfold WellFormedFields; rw [h0', h]; rfl)
  · have hf : line.contains 9 = false := by simpa using ht
    rw [info_iff_no_tab _ _ _ _ _ _ hf]; rfl

/-- everything `gmLinkRaw` returns, spelled out -/
theorem linkRaw_some (a0 a1raw : Str) (hostF portF : Option Str) (e : Entry)
    (h : gmLinkRaw base a0 a1raw hostF portF = some e) :
    ∃ t port, a0.head? = some t ∧ gmPort portF = some port ∧
      e = { selector := gmSelector base (gmSelField a0 a1raw), type := some [t], name := some (a0.drop 1),
            host := gmHost hostF, port := port } := by
  unfold gmLinkRaw at h
  split at h
  · rename_i t port h1 h2
    exact ⟨t, port, h1, h2, by simpa using h.symm⟩
  · simp at h

/-- **Type and description.** The first character of the first field is the item type, the
    rest of that field the description. -/
theorem type_and_desc (t : Nat) (nm a1raw : Str) (hostF portF : Option Str) (e : Entry)
    (h : gmLinkRaw base (t :: nm) a1raw hostF portF = some e) :
    e.type = some [t] ∧ e.name = some nm := by
  obtain ⟨t', port, h1, _, rfl⟩ := linkRaw_some base _ _ _ _ _ h
  simp at h1; subst h1; simp

/-- **Selector default and relative resolution.** A missing selector defaults to the
    description; a selector that starts neither with `/` nor with `URL:` is resolved against
    the directory; any other selector is taken as it is. -/
theorem selector_rule (a0 a1raw : Str) (hostF portF : Option Str) (e : Entry)
    (h : gmLinkRaw base a0 a1raw hostF portF = some e) :
    e.selector = gmSelector base (if a1raw.isEmpty then a0.drop 1 else a1raw) := by
  obtain ⟨_, _, _, _, rfl⟩ := linkRaw_some base _ _ _ _ _ h
  rfl

theorem relative_resolved (a1 : Str) (h1 : a1.head? ≠ some 47) (h2 : ¬ lit "URL:" <+: a1) :
    gmSelector base a1 = base ++ [47] ++ a1 := by
  have : isPrefixB (lit "URL:") a1 = false := by
    cases hb : isPrefixB (lit "URL:") a1 with
    | false => rfl
    | true => exact absurd ((isPrefixB_iff _ _).mp hb) h2
  simp [gmSelector, this, h1]
where
  isPrefixB_iff (p s : Str) : isPrefixB p s = true ↔ p <+: s := by
    induction p generalizing s with
    | nil => simp [isPrefixB]
    | cons a p ih =>
      cases s with
      | nil => simp [isPrefixB]
      | cons b s => simp [isPrefixB, ih, List.cons_prefix_cons]

theorem absolute_kept (a1 : Str) (h : a1.head? = some 47) : gmSelector base a1 = a1 := by
  simp [gmSelector, h]

/-- **Host and port fields.** Taken when present and non-empty, otherwise unset (= this
    server, see `host_port_default`). -/
theorem host_port_rule (a0 a1raw : Str) (hostF portF : Option Str) (e : Entry)
    (h : gmLinkRaw base a0 a1raw hostF portF = some e) :
    e.host = gmHost hostF ∧ gmPort portF = some e.port := by
  obtain ⟨_, port, _, hp, rfl⟩ := linkRaw_some base _ _ _ _ _ h
  exact ⟨rfl, hp⟩

theorem no_host_field : gmHost none = none ∧ gmHost (some []) = none ∧ gmPort none = some none ∧
    gmPort (some []) = some none := by decide

/-- **The file system is consulted only for absolute, filter-clean authored selectors.**  For a
    selector without a leading slash (`URL:…`; `root + selector` would name a sibling of the
    document root) or one the security filter rejects, the entry is what the author wrote,
    whatever the file-system oracle `pop` would answer — for every oracle. -/
theorem populate_ignores_fs_unless_absolute_secure (pop pop' : Str → Option PopInfo) (e : Entry)
    (h : e.selector.head? ≠ some 47 ∨ secureB fb e.selector = false) :
    gmPopulate fb ea dm pop e = e ∧ gmPopulate fb ea dm pop e = gmPopulate fb ea dm pop' e := by
  have key : ∀ p : Str → Option PopInfo, gmPopulate fb ea dm p e = e := by
    intro p
    unfold gmPopulate
    rcases h with h | h
    · have : (e.selector.head? == some 47) = false := by simpa using h
      simp [this]
    · simp [h]
  exact ⟨key pop, (key pop).trans (key pop').symm⟩

/-- population from the file system never changes what the gophermap author wrote:
    selector, type, host and port are kept (and the description, unless it was empty) -/
theorem populate_keeps_authored (e : Entry) :
    (gmPopulate fb ea dm pop e).selector = e.selector ∧ (gmPopulate fb ea dm pop e).host = e.host ∧
    (gmPopulate fb ea dm pop e).port = e.port := by
  unfold gmPopulate
  split
  · split
    · rename_i pi _
      have hea : ∀ (x : Entry), (handleEaExt ea (fun ext => (pi.sidecars.find? (·.1 == ext)).map (·.2)) x).selector = x.selector ∧
          (handleEaExt ea (fun ext => (pi.sidecars.find? (·.1 == ext)).map (·.2)) x).host = x.host ∧
          (handleEaExt ea (fun ext => (pi.sidecars.find? (·.1 == ext)).map (·.2)) x).port = x.port := by
        intro x
        unfold handleEaExt
        induction ea generalizing x with
        | nil => simp
        | cons kv r ih =>
          simp only [List.foldl_cons]
          obtain ⟨a, b, c⟩ := ih (match kv with
            | (ext, blk) => if x.ea.any (·.1 == blk) then x else
              match (pi.sidecars.find? (·.1 == ext)).map (·.2) with
              | none => x
              | some ls => { x with ea := eaSet x.ea blk (joinWith 10 (ls.map rstrip)) })
          refine ⟨a.trans ?_, b.trans ?_, c.trans ?_⟩ <;>
            (obtain ⟨ext, blk⟩ := kv; simp only; split <;> (try split) <;> rfl)
      unfold populateWith populate
      split
      · simp
      · split
        · simp
        · simp only
          split
          · exact ⟨(hea _).1, (hea _).2.1, (hea _).2.2⟩
          · refine ⟨?_, ?_, ?_⟩ <;> (simp only []; split <;> (try split) <;> simp [(hea _).1, (hea _).2.1, (hea _).2.2])
    · simp
  · simp

/-- **Missing host and port mean this server**: the menu line of an entry without host/port
    carries the server's own name and port. -/
theorem host_port_default (srv : ServerId) (e : Entry) (nm : Str) (hn : e.name = some nm)
    (hh : e.host = none) (hp : e.port = none) :
    gopher0Line srv e = some (e.type.getD (lit "0") ++ menuField nm ++ [9] ++ menuField e.selector ++ [9] ++ menuField srv.name ++ [9] ++
      toDec srv.port ++ (if e.gplus then lit "\t+\r\n" else lit "\r\n")) := by
  simp [gopher0Line, hn, hostOf, portOf, hh, hp]

/-- **The same gophermap drives the listing in every protocol**: `listingBody` renders, for
    every view, the walk over the *same* parsed entry list (the parse has no protocol
    parameter). -/
theorem same_entries_every_view (c : RenderCfg) (v : View) (g : Bool) (self : Entry) (ls : List Str)
    (es : List Entry) (_h : gmParse fb ea dm base pop ls = some es) :
    listingBody c v g self es =
      renderSeq c v {} (walk c.abstractHeaders (doAbstracts c.abstractEntries (v.groksAbstract || g)) self
        (if g then es.map gplusFix else es)) := rfl

def linkEntry (t : Nat) (desc sel : Str) (host : Option Str) (port : Option Int) : Entry :=
  { selector := sel, type := some [t], name := some desc, host := host, port := port }

/-! non-vacuity (the sample of doc/standards/gophermap.txt, adapted) -/
example : gmParse Generated.forbidden Generated.eaexts Generated.defaultMime (lit "/dir") (fun _ => none)
    [lit "Welcome to the map\n", lit "0Readme here\t/README\n", lit "0relative doc\tinner.txt\n",
     lit "1Remote\t/\texample.org\t70\n", lit "1just a name\n", lit "1name only\t\n"] =
  some [infoEntry (lit "Welcome to the map"),
        linkEntry 48 (lit "Readme here") (lit "/README") none none,
        linkEntry 48 (lit "relative doc") (lit "/dir/inner.txt") none none,
        linkEntry 49 (lit "Remote") (lit "/") (some (lit "example.org")) (some 70),
        infoEntry (lit "1just a name"),
        linkEntry 49 (lit "name only") (lit "/dir/name only") none none] := by decide +kernel
example : WellFormedLine (lit "0x\t/y\th\t70\n") = true ∧ WellFormedLine (lit "\t/y\n") = true ∧ WellFormedLine (lit "1\t\n") = true ∧
    WellFormedLine (lit "0x\t/y\th\tseventy\n") = false := by decide +kernel
/-- the two degenerate lines: no type character (shown as text), neither description nor selector (the directory itself) -/
example : (gmParse [] [] (lit "text/plain") (lit "/dir") (fun _ => none) [lit "\t/y\n", lit "1\t\n"]).map (·.map fun e => (e.type, e.name, e.selector)) =
    some [(some (lit "i"), some (lit "/y"), lit "fake"), (some (lit "1"), some [], lit "/dir/")] := by decide +kernel

end Pyg.Props.C09
