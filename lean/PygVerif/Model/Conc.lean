/-!
# Model/Conc — interleaving semantics for the state shared between concurrent requests

(a) Module-level lazies (`handlers.base.rootpath`, `HandlerMultiplexer.handlers/rootpath`,
`gopherentry.mapping/eaexts`, `UMN.extstrip`): every worker runs `test; assign-if-empty; use`
on one shared cell; a schedule is any list of worker indices.
(b) The shared directory cache file: every writer opens (truncates), writes the same bytes `S`
in chunks at its own advancing offset, and closes; a write past the current end leaves a
zero-filled hole; readers may read the whole file at any moment.
-/
namespace Pyg.Conc

inductive Step | test | assign | use
  deriving DecidableEq, Repr

/-- per-worker state: remaining steps, the branch decision taken at `test`, the value seen at `use` -/
structure W where
  prog : List Step := [.test, .assign, .use]
  mustAssign : Bool := false
  seen : Option Nat := none
  deriving Repr

structure Sys where
  shared : Option Nat
  ws : List W

/-- worker `i` performs its next atomic step (`v` is the value every initialiser computes) -/
def stepW (v : Nat) (sh : Option Nat) (w : W) : Option Nat × W :=
  match w.prog with
  | [] => (sh, w)
  | .test :: r => (sh, { w with prog := r, mustAssign := sh.isNone })
  | .assign :: r => if w.mustAssign then (some v, { w with prog := r }) else (sh, { w with prog := r })
  | .use :: r => (sh, { w with prog := r, seen := sh })

def stepSys (v : Nat) (s : Sys) (i : Nat) : Sys :=
  match s.ws[i]? with
  | none => s
  | some w => let (sh', w') := stepW v s.shared w; { shared := sh', ws := s.ws.set i w' }

def runSched (v : Nat) (s : Sys) (sched : List Nat) : Sys := sched.foldl (stepSys v) s


/-! ## shared cache file -/

/-- `write(data)` at offset `off` of a file: overwrite / extend, zero-filling a hole -/
def writeAt : List Nat → Nat → List Nat → List Nat
  | f, _, [] => f                      -- write(b"") does nothing
  | f, 0, d => d ++ f.drop d.length
  | [], off + 1, d => 0 :: writeAt [] off d
  | b :: f, off + 1, d => b :: writeAt f off d

/-- a writer in progress: its file offset and the chunk lengths still to write -/
structure Writer where
  off : Nat
  todo : List Nat
  deriving Repr

inductive FOp
  | openTrunc (w : Nat)     -- writer w opens the file for writing: truncate, offset 0
  | writeNext (w : Nat)     -- writer w writes its next chunk
  | read                    -- a reader reads the whole file
  deriving Repr

structure FSys where
  file : List Nat
  writers : List Writer
  reads : List (List Nat)

/-- all writers write the same bytes `S`, cut into chunks of the given lengths -/
def fstep (S : List Nat) (chunks : List Nat) (s : FSys) : FOp → FSys
  | .openTrunc w =>
    if w < s.writers.length then { s with file := [], writers := s.writers.set w { off := 0, todo := chunks } } else s
  | .writeNext w =>
    match s.writers[w]? with
    | none => s
    | some wr =>
      match wr.todo with
      | [] => s
      | n :: r =>
        let data := (S.drop wr.off).take n
        { s with file := writeAt s.file wr.off data, writers := s.writers.set w { off := wr.off + data.length, todo := r } }
  | .read => { s with reads := s.file :: s.reads }

def frun (S : List Nat) (chunks : List Nat) (s : FSys) (sched : List FOp) : FSys := sched.foldl (fstep S chunks) s

/-- `img` agrees with `S` wherever it is not a zero hole, and is not longer than `S` -/
inductive Image : List Nat → List Nat → Prop
  | nil (s : List Nat) : Image [] s
  | cons {b c : Nat} {f s : List Nat} (h : b = c ∨ b = 0) (t : Image f s) : Image (b :: f) (c :: s)

end Pyg.Conc
