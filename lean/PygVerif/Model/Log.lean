import PygVerif.Model.Str
/-!
# Log lines (`pygopherd/logger.py`)

`log_syslog(message)`: the message — text that may hold the lone surrogates U+DC80…U+DCFF which
`surrogateescape` decoding leaves for bytes that are not UTF-8 — is encoded back to those bytes, decoded as
UTF-8 with `errors="backslashreplace"` (each such byte becomes the four characters `\xNN`), and every NUL is
written `\x00`; the result is handed to `syslog.syslog()`, which takes text that UTF-8 can encode and that
holds no NUL.

Both error handlers work on the same byte ranges, one replacement per byte, so on the decoded text the
conversion is a character-wise substitution; that is how it is modelled (`syslogText`), and the driver
compares it with the real function on every run (op `syslogtext`).
-/
namespace Pyg

def lowerHexDigit (n : Nat) : Nat := if n < 10 then 48 + n else 87 + n

/-- `\xNN`, lower-case, as `backslashreplace` writes a byte -/
def backslashX (b : Nat) : Str := [92, 120, lowerHexDigit (b / 16), lowerHexDigit (b % 16)]

def isEscapedByte (c : Nat) : Bool := 0xDC80 ≤ c && c ≤ 0xDCFF

/-- what `log_syslog` hands to `syslog.syslog()` -/
def syslogText (m : Str) : Str :=
  m.flatMap fun c =>
    if isEscapedByte c then backslashX (c - 0xDC00)
    else if c = 0 then backslashX 0
    else [c]

/-- a character `syslog.syslog()` takes: not NUL, and UTF-8 can encode it (no surrogate, escaped byte or other) -/
def okChar (c : Nat) : Bool := c != 0 && (encodeCp c).isSome && !isEscapedByte c

/-- what `syslog.syslog()` takes: no NUL, nothing UTF-8 cannot encode -/
def syslogAccepts (t : Str) : Bool := t.all okChar

/-- `log_file(message)`: the line written to standard output, `surrogateescape` undone; `none` = the encoding raises -/
def logFileBytes (m : Str) : Option Bytes := (encodeSE m).map fun bs => bs ++ [10]

end Pyg
