/-!
# Model/Fail — exception flow of a failing client connection

Mirrors `server.py: GopherRequestHandler.handle` (outer `try`: `except IOError` logs,
`except Exception` logs) and the `try/except` skeleton of the five `handle()` bodies:

* Gopher, Gopher+, HTTP(S), WAP: every write of the response happens *inside* the protocol's
  `try`; `except IOError` logs the error and calls `filenotfound`, which writes an error page
  (`errWrites` more writes) — those writes are outside any inner `try`.
* Gemini, Spartan: the inner `try` covers only handler lookup / `prepare`; the status line
  and the body are written outside it.

A connection fault is a predicate on the global write index (`failsAt i` = the `i`-th write
call on this connection raises the I/O error class `cls`).  Files opened for the request are
opened in `with` blocks: the model brackets them.
-/
namespace Pyg.Fail

inductive Frame
  | insideTry (errWrites : Nat)   -- gopher, gopher+, http, wap
  | outsideTry                    -- gemini, spartan
  deriving DecidableEq, Repr

inductive Ev
  | openFile | closeFile
  | write (i : Nat)
  | log (cls : Nat)               -- GopherExceptions.log with the client's address, class `cls`
  deriving DecidableEq, Repr

structure Outcome where
  /-- exception class leaving `GopherRequestHandler.handle` (none = contained) -/
  escaped : Option Nat
  events : List Ev
  deriving DecidableEq, Repr

/-- perform writes `start, start+1, …` (`n` of them); returns the events and the index of
    the failing write if one fails -/
def writes (failsAt : Nat → Bool) : Nat → Nat → List Ev × Option Nat
  | _, 0 => ([], none)
  | start, n + 1 =>
    if failsAt start then ([.write start], some start)
    else
      let (evs, f) := writes failsAt (start + 1) n
      (.write start :: evs, f)

/-- one request: `bodyWrites` write calls for the response, made while a file is open
    (`withFile`), under the given frame; the fault raises class `cls` -/
def flow (frame : Frame) (withFile : Bool) (bodyWrites : Nat) (failsAt : Nat → Bool) (cls : Nat) : Outcome :=
  let w := writes failsAt 0 bodyWrites
  -- `with vfs.open(...)`: the file is closed whether or not the block raised
  let body := (if withFile then [Ev.openFile] else []) ++ w.1 ++ (if withFile then [Ev.closeFile] else [])
  match w.2 with
  | none => { escaped := none, events := body }
  | some k =>
    match frame with
    | .outsideTry =>
      -- propagates to GopherRequestHandler.handle: `except IOError` → log
      { escaped := none, events := body ++ [.log cls] }
    | .insideTry m =>
      -- protocol's `except IOError`: log, then the error page; if that fails too the error
      -- reaches GopherRequestHandler.handle, which logs it again
      let e := writes failsAt (k + 1) m
      { escaped := none, events := body ++ [.log cls] ++ e.1 ++ (if e.2.isSome then [.log cls] else []) }

def isLog : Ev → Option Nat
  | .log c => some c
  | _ => none

def logsOf (o : Outcome) : List Nat := o.events.filterMap isLog
def opens (o : Outcome) : Nat := (o.events.filter (· == .openFile)).length
def closes (o : Outcome) : Nat := (o.events.filter (· == .closeFile)).length

end Pyg.Fail
