import PygVerif.Model.Render
/-!
# Model/Gophermap — `handlers/gophermap.py: BuckGophermapHandler.prepare`

One entry per line of the gophermap file, in file order.  `none` = the Python raises on
that line (`args[0][0]` / `selector[0]` on an empty string, `int()` on a non-number): the
well-formedness predicate `WellFormedLine` excludes exactly those lines.
-/
namespace Pyg

/-- what the file system knows about a local selector (library / OS oracle) -/
structure PopInfo where
  stat : StatRes
  guess : Option Str × Option Str
  /-- gopher type the configured mapping assigns to the resulting MIME type -/
  gtype : Str
  /-- sidecar files that could be read: (extension, readlines result) -/
  sidecars : List (Str × List Str)
  deriving Repr

def populateWith (eaexts : List (Str × Str)) (defaultMime : Str) (pi : PopInfo) (e : Entry) : Entry :=
  populate eaexts defaultMime (some pi.stat) pi.guess (fun _ => pi.gtype)
    (fun ext => (pi.sidecars.find? (·.1 == ext)).map (·.2)) e

/-- relative selectors (neither `/…` nor `URL:…`) are resolved against the directory -/
def gmSelector (base a1 : Str) : Str :=
  if a1.head? != some 47 && !isPrefixB (lit "URL:") a1 then base ++ [47] ++ a1 else a1

def gmHost (hostF : Option Str) : Option Str :=
  match hostF with
  | some h => if h.isEmpty then none else some h
  | none => none

/-- `none` = `int()` raises; `some none` = no port field -/
def gmPort (portF : Option Str) : Option (Option Int) :=
  match portF with
  | some p => if p.isEmpty then some none else (parseInt? p).map some
  | none => some none

/-- the selector field, defaulting to the description -/
def gmSelField (a0 a1raw : Str) : Str := if a1raw.isEmpty then a0.drop 1 else a1raw

/-- a link line after field splitting, before population from the file system:
    `a0` = first field (type + description), `a1raw` = second field, optional host / port fields.
    `none` = the Python raises (`int()` on a port that is no number). -/
def gmLinkRaw (base a0 a1raw : Str) (hostF portF : Option Str) : Option Entry :=
  -- (a line with neither description nor selector, `1<TAB>`, links to the directory itself: `base ++ "/"`)
  match a0.head?, gmPort portF with
  | some t, some port =>
    some { selector := gmSelector base (gmSelField a0 a1raw), type := some [t], name := some (a0.drop 1),
           host := gmHost hostF, port := port }
  | _, _ => none

/-- links on this server are filled in from the file system when the authored selector is a path
    below the root (leading slash: `root + selector` without one names a sibling of the root),
    passes the security filter and the object exists -/
def gmPopulate (forbidden : List Str) (eaexts : List (Str × Str)) (defaultMime : Str)
    (pop : Str → Option PopInfo) (e : Entry) : Entry :=
  if e.host.isNone && e.port.isNone && e.selector.head? == some 47 && secureB forbidden e.selector then
    match pop e.selector with
    | some pi => populateWith eaexts defaultMime pi e
    | none => e
  else e

/-- one gophermap line (as returned by `readline().decode(...)`, terminator included) -/
def gmLine (forbidden : List Str) (eaexts : List (Str × Str)) (defaultMime : Str)
    (base : Str) (pop : Str → Option PopInfo) (line : Str) : Option Entry :=
  -- a link line has a tab and starts with a type character; anything else is shown as the text it carries
  let args := (splitOn 9 line).map strip
  if line.contains 9 && !(args.headD []).isEmpty then
    (gmLinkRaw base (args.headD []) ((args[1]?).getD []) args[2]? args[3]?).map
      (gmPopulate forbidden eaexts defaultMime pop)
  else some (infoEntry (strip line))

/-- `prepare`: all lines; `none` if any line raises -/
def gmParse (forbidden : List Str) (eaexts : List (Str × Str)) (defaultMime : Str)
    (base : Str) (pop : Str → Option PopInfo) : List Str → Option (List Entry)
  | [] => some []
  | l :: ls =>
    match gmLine forbidden eaexts defaultMime base pop l, gmParse forbidden eaexts defaultMime base pop ls with
    | some e, some es => some (e :: es)
    | _, _ => none

/-- lines on which `prepare` cannot raise -/
def WellFormedFields (a0 : Str) (portF : Option Str) : Bool :=
  !a0.isEmpty && (gmPort portF).isSome

def WellFormedLine (line : Str) : Bool :=
  let args := (splitOn 9 line).map strip
  if line.contains 9 && !(args.headD []).isEmpty then (gmPort args[3]?).isSome else true

end Pyg
