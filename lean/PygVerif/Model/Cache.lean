/-!
# Model/Cache — `handlers/dir.py: loadcache / savecache / getdirlist` as a state machine

State = (directory content, cache file, clock).  Time is in milliseconds; the cache file's
`st_mtime`, as the code reads it (`statval[ST_MTIME]`, an integer), is whole seconds.
`D` = directory contents, `L` = a listing (what is pickled: the entry list, before any
protocol renders it).  `load` is the unpickler: `none` for a file that does not load.
-/
namespace Pyg.Cache

structure St (D L : Type) where
  dir : D
  /-- cache file: the stored listing and its mtime in whole seconds -/
  cache : Option (L × Nat)
  now : Nat
  /-- ghost: when and from which directory state the cache file was written -/
  birth : Option (Nat × D)
  /-- ghost: every (time, directory state) the directory has actually been in -/
  trail : List (Nat × D)

inductive Op (D : Type)
  | mutate (d : D)      -- the directory changes
  | tick (ms : Nat)     -- time passes
  | list                -- a client lists the directory (through any protocol)

/-- `time.time() - mtime < cachetime`, with `now` in ms and `mtime`, `lifetime` in s -/
def fresh (lifetime now mtime : Nat) : Bool := now < (mtime + lifetime) * 1000

/-- one operation; a `list` returns the listing sent to the client -/
def step {D L : Type} (listingOf : D → L) (lifetime : Nat) (s : St D L) : Op D → St D L × Option L
  | .mutate d => ({ s with dir := d, trail := (s.now, d) :: s.trail }, none)
  | .tick ms => ({ s with now := s.now + ms, trail := (s.now + ms, s.dir) :: s.trail }, none)
  | .list =>
    match s.cache with
    | some (l, m) =>
      if fresh lifetime s.now m then (s, some l)                       -- hit: nothing is rewritten
      else
        let l' := listingOf s.dir
        ({ s with cache := some (l', s.now / 1000), birth := some (s.now, s.dir) }, some l')
    | none =>
      let l' := listingOf s.dir
      ({ s with cache := some (l', s.now / 1000), birth := some (s.now, s.dir) }, some l')

def init {D L : Type} (d : D) : St D L :=
  { dir := d, cache := none, now := 0, birth := none, trail := [(0, d)] }

/-- run a history, collecting (time of the request, listing sent) for every `list` -/
def run {D L : Type} (listingOf : D → L) (lifetime : Nat) : St D L → List (Op D) → St D L × List (Nat × L)
  | s, [] => (s, [])
  | s, op :: ops =>
    let (s1, o) := step listingOf lifetime s op
    let (s2, outs) := run listingOf lifetime s1 ops
    (s2, (match o with | some l => [(s.now, l)] | none => []) ++ outs)

/-! ## the cache file on disk (C11) -/

/-- what `loadcache` + `prepare` compute for one request, given the bytes of the cache file
    (if it exists and is fresh), the unpickler and the regenerated listing -/
def listWithCache {L : Type} (load : List Nat → Option L) (file : Option (List Nat)) (regenerated : L) : L :=
  match file with
  | none => regenerated
  | some bytes =>
    match load bytes with
    | some l => l
    | none => regenerated          -- unreadable cache file = cache miss

/-- a concrete prefix-free serializer (length-prefixed), used to show the assumption
    "no strict prefix of a written file loads" is satisfiable -/
def ser (l : List Nat) : List Nat := l.length :: l

def deser : List Nat → Option (List Nat)
  | [] => none
  | n :: r => if r.length = n then some r else none

end Pyg.Cache
