/-!
# Model/Str — Python `str` / `bytes` operations used by the anchored pygopherd code

A Python `str` is a list of code points (`Str`), lone surrogates allowed: pygopherd
decodes every byte string with `errors="surrogateescape"`, so U+DC80…U+DCFF are
ordinary inhabitants.  `Bytes` is a list of naturals, each `< 256` (predicate
`Bytes.WF`).  This file imports nothing and contains no proofs beyond termination.
-/
namespace Pyg

abbrev Str := List Nat
abbrev Bytes := List Nat

/-- all bytes in range -/
def Bytes.WF (bs : Bytes) : Prop := ∀ b ∈ bs, b < 256

/-- string literal → code points -/
def lit (s : String) : Str := s.toList.map Char.toNat

/-! ## prefix / suffix / infix tests (`startswith`, `endswith`, `find(..) != -1`) -/

def isPrefixB : Str → Str → Bool
  | [], _ => true
  | _ :: _, [] => false
  | p :: ps, c :: cs => p == c && isPrefixB ps cs

def isInfixB (p : Str) : Str → Bool
  | [] => isPrefixB p []
  | c :: cs => isPrefixB p (c :: cs) || isInfixB p cs

def isSuffixB (p s : Str) : Bool := isPrefixB p.reverse s.reverse

/-! ## `str.split(<one char>)` — always at least one field -/

def splitOn (sep : Nat) : Str → List Str
  | [] => [[]]
  | c :: cs =>
    if c = sep then [] :: splitOn sep cs
    else match splitOn sep cs with
      | [] => [[c]]
      | f :: fs => (c :: f) :: fs

/-- `sep.join(fields)` for a one-character separator -/
def joinWith (sep : Nat) : List Str → Str
  | [] => []
  | [f] => f
  | f :: fs => f ++ sep :: joinWith sep fs

/-- prefix up to (excluding) the first element satisfying `p` -/
def takeUntil (p : Nat → Bool) : Str → Str
  | [] => []
  | c :: cs => if p c then [] else c :: takeUntil p cs

/-- suffix from (including) the first element satisfying `p` -/
def dropUntil (p : Nat → Bool) : Str → Str
  | [] => []
  | c :: cs => if p c then c :: cs else dropUntil p cs

/-! ## white space: the 29 code points for which `str.isspace()` is true (CPython 3.12) -/

def isSpace (c : Nat) : Bool :=
  (9 ≤ c && c ≤ 13) || (28 ≤ c && c ≤ 32) || c == 0x85 || c == 0xA0 || c == 0x1680 ||
  (0x2000 ≤ c && c ≤ 0x200A) || c == 0x2028 || c == 0x2029 || c == 0x202F || c == 0x205F ||
  c == 0x3000

def lstrip : Str → Str
  | [] => []
  | c :: cs => if isSpace c then lstrip cs else c :: cs

def rstrip (s : Str) : Str := (lstrip s.reverse).reverse
def strip (s : Str) : Str := rstrip (lstrip s)

/-- `bytes.rstrip()` / ASCII white space (bytes methods know only ASCII) -/
def isSpaceAscii (c : Nat) : Bool := (9 ≤ c && c ≤ 13) || c == 32

/-! ## `str.splitlines()` (no keepends) -/

def isLineBreak (c : Nat) : Bool :=
  c == 10 || c == 11 || c == 12 || c == 13 || c == 0x1c || c == 0x1d || c == 0x1e ||
  c == 0x85 || c == 0x2028 || c == 0x2029

/-- accumulate the current line in `cur` (reversed) -/
def splitlinesAux : Str → Str → List Str
  | [], cur => if cur.isEmpty then [] else [cur.reverse]
  | 13 :: 10 :: rest, cur => cur.reverse :: splitlinesAux rest []
  | c :: rest, cur =>
    if isLineBreak c then cur.reverse :: splitlinesAux rest []
    else splitlinesAux rest (c :: cur)

def splitlines (s : Str) : List Str := splitlinesAux s []

/-! ## ordering: Python `str` comparison is lexicographic on code points -/

def strLe : Str → Str → Bool
  | [], _ => true
  | _ :: _, [] => false
  | a :: as, b :: bs => a < b || (a == b && strLe as bs)

def strLt (a b : Str) : Bool := strLe a b && a != b

/-! ## numbers -/

def digitsRev : Nat → Nat → Str
  | 0, _ => []
  | fuel + 1, n => (48 + n % 10) :: (if n / 10 = 0 then [] else digitsRev fuel (n / 10))

/-- `str(n)` for a natural number -/
def toDec (n : Nat) : Str := (digitsRev (n + 1) n).reverse

/-- `str(i)` for an integer -/
def toDecInt (i : Int) : Str :=
  match i with
  | .ofNat n => toDec n
  | .negSucc n => 45 :: toDec (n + 1)

def isAsciiDigit (c : Nat) : Bool := 48 ≤ c && c ≤ 57

/-- ASCII decimal digits only (the well-formed domain of `int()` in the anchors) -/
def parseNat? (s : Str) : Option Nat :=
  if s.isEmpty || !s.all isAsciiDigit then none
  else some (s.foldl (fun a c => a * 10 + (c - 48)) 0)

def parseInt? (s : Str) : Option Int :=
  match s with
  | 45 :: r => (parseNat? r).map fun n => - (n : Int)
  | 43 :: r => (parseNat? r).map fun n => (n : Int)
  | _ => (parseNat? s).map fun n => (n : Int)

/-! ## UTF-8 with `surrogateescape` -/

def isCont (b : Nat) : Bool := 0x80 ≤ b && b ≤ 0xBF
def escByte (b : Nat) : Nat := 0xDC00 + b

/-- decode one scalar (or escape one byte): (code point, bytes consumed ≥ 1) -/
def decodeOne (b0 : Nat) (rest : List Nat) : Nat × Nat :=
  if b0 < 0x80 then (b0, 1)
  else if 0xC2 ≤ b0 ∧ b0 ≤ 0xDF then
    match rest with
    | b1 :: _ => if isCont b1 then ((b0 - 0xC0) * 64 + (b1 - 0x80), 2) else (escByte b0, 1)
    | _ => (escByte b0, 1)
  else if 0xE0 ≤ b0 ∧ b0 ≤ 0xEF then
    match rest with
    | b1 :: b2 :: _ =>
      if isCont b1 && isCont b2 && (b0 != 0xE0 || 0xA0 ≤ b1) && (b0 != 0xED || b1 ≤ 0x9F) then
        ((b0 - 0xE0) * 4096 + (b1 - 0x80) * 64 + (b2 - 0x80), 3)
      else (escByte b0, 1)
    | _ => (escByte b0, 1)
  else if 0xF0 ≤ b0 ∧ b0 ≤ 0xF4 then
    match rest with
    | b1 :: b2 :: b3 :: _ =>
      if isCont b1 && isCont b2 && isCont b3 && (b0 != 0xF0 || 0x90 ≤ b1) && (b0 != 0xF4 || b1 ≤ 0x8F) then
        ((b0 - 0xF0) * 262144 + (b1 - 0x80) * 4096 + (b2 - 0x80) * 64 + (b3 - 0x80), 4)
      else (escByte b0, 1)
    | _ => (escByte b0, 1)
  else (escByte b0, 1)

/-- `bytes.decode("utf-8", "surrogateescape")` -/
def decodeSE : Bytes → Str
  | [] => []
  | b0 :: rest => (decodeOne b0 rest).1 :: decodeSE (rest.drop ((decodeOne b0 rest).2 - 1))
termination_by bs => bs.length
decreasing_by simp [List.length_drop]; omega

def encodeCp (c : Nat) : Option Bytes :=
  if c < 0x80 then some [c]
  else if c < 0x800 then some [0xC0 + c / 64, 0x80 + c % 64]
  else if 0xDC80 ≤ c ∧ c ≤ 0xDCFF then some [c - 0xDC00]
  else if 0xD800 ≤ c ∧ c ≤ 0xDFFF then none
  else if c < 0x10000 then some [0xE0 + c / 4096, 0x80 + c / 64 % 64, 0x80 + c % 64]
  else if c < 0x110000 then
    some [0xF0 + c / 262144, 0x80 + c / 4096 % 64, 0x80 + c / 64 % 64, 0x80 + c % 64]
  else none

/-- `str.encode("utf-8", "surrogateescape")`; `none` = `UnicodeEncodeError` -/
def encodeSE : Str → Option Bytes
  | [] => some []
  | c :: cs =>
    match encodeCp c, encodeSE cs with
    | some a, some b => some (a ++ b)
    | _, _ => none

/-! ## `os.path` fragments -/

/-- `os.path.basename`: everything after the last `/` -/
def basename (s : Str) : Str := (splitOn 47 s).getLast?.getD []

/-- `GopherProtocol.menufield` (and the error line of `BaseGopherProtocol.filenotfound`): TAB, CR and LF
    delimit the fields and lines of a menu and cannot be part of a field; each becomes a blank -/
def menuField (s : Str) : Str := s.map fun c => if c = 9 ∨ c = 13 ∨ c = 10 then 32 else c

end Pyg
