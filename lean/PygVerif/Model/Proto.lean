import PygVerif.Model.Selector
/-!
# Model/Proto — protocol detection and request parsing

Mirrors `canhandlerequest` of `rfc1436.py, gopherp.py, http.py, wap.py, gemini.py,
spartan.py`, `ProtocolMultiplexer.getProtocol` (first match in configured order),
`server.py: wrap_socket` (one-byte TLS sniff) and the selector / search-string pipeline
of the five `handle()` bodies.  The request line is what `rfile.readline()` returned,
decoded with surrogateescape (so it still carries its line terminator); `rest` are the
following lines, read the same way.
-/
namespace Pyg

inductive Proto
  | wap | gemini | http | https | spartan | gopherp | sgopherp | gopher | sgopher
  deriving DecidableEq, Repr

def Proto.secure : Proto → Bool
  | .gemini | .https | .sgopherp | .sgopher => true
  | _ => false

/-- class name as written in `[protocols.ProtocolMultiplexer] protocols` -/
def Proto.ofName (n : Str) : Option Proto :=
  if n = lit "wap.WAPProtocol" then some .wap
  else if n = lit "gemini.GeminiProtocol" then some .gemini
  else if n = lit "http.HTTPProtocol" then some .http
  else if n = lit "http.HTTPSProtocol" then some .https
  else if n = lit "spartan.SpartanProtocol" then some .spartan
  else if n = lit "gopherp.GopherPlusProtocol" then some .gopherp
  else if n = lit "gopherp.SecureGopherPlusProtocol" then some .sgopherp
  else if n = lit "rfc1436.GopherProtocol" then some .gopher
  else if n = lit "rfc1436.SecureGopherProtocol" then some .sgopher
  else none

/-- python class `__name__` (what the log line shows) -/
def Proto.className : Proto → Str
  | .wap => lit "WAPProtocol" | .gemini => lit "GeminiProtocol" | .http => lit "HTTPProtocol"
  | .https => lit "HTTPSProtocol" | .spartan => lit "SpartanProtocol"
  | .gopherp => lit "GopherPlusProtocol" | .sgopherp => lit "SecureGopherPlusProtocol"
  | .gopher => lit "GopherProtocol" | .sgopher => lit "SecureGopherProtocol"

structure Conn where
  tls : Bool
  line : Str
  /-- the lines after the first (each as returned by `readline().decode(...)`) -/
  rest : List Str
  deriving Repr

/-- `[arg.strip() for arg in request.split("\t")]` -/
def requestList (line : Str) : List Str := (splitOn 9 line).map strip

/-- `[arg.strip() for arg in request.split(" ")]` -/
def requestParts (line : Str) : List Str := (splitOn 32 line).map strip

/-- the Gopher+ field: last of 2 or 3 tab fields -/
def gopherpString (line : Str) : Option Str :=
  match requestList line with
  | [_, g] => some g
  | [_, _, g] => some g
  | _ => none

def isGplusString (g : Str) : Bool :=
  match g with
  | [] => false
  | c :: _ => c == 43 || g == [33] || c == 36

def httpShape (line : Str) : Bool :=
  match requestParts line with
  | [m, _, v] => (m == lit "GET" || m == lit "HEAD") && isPrefixB (lit "HTTP/") v
  | _ => false

/-- `HTTPProtocol.headerslurp`: lines until EOF or a blank line; `key.lower() -> value` for
    lines with a colon (later duplicates overwrite: the model keeps the list, lookup = last) -/
def lowerAscii (c : Nat) : Nat := if 65 ≤ c ∧ c ≤ 90 then c + 32 else c

def headerslurp : List Str → List (Str × Str)
  | [] => []
  | l :: ls =>
    if l.isEmpty then []
    else
      let s := strip l
      if s.isEmpty then []
      else
        let k := takeUntil (· == 58) s
        if s.contains 58 then (k.map lowerAscii, (dropUntil (· == 58) s).drop 1) :: headerslurp ls
        else headerslurp ls

def hdrLookup (h : List (Str × Str)) (k : Str) : Option Str :=
  (h.reverse.find? (·.1 == k)).map (·.2)

/-- regex match at the head: pattern elements `some c` = literal, `none` = `.` (not newline) -/
def matchHere : List (Option Nat) → Str → Bool
  | [], _ => true
  | _ :: _, [] => false
  | some p :: ps, c :: cs => p == c && matchHere ps cs
  | none :: ps, c :: cs => c != 10 && matchHere ps cs

def searchPat (p : List (Option Nat)) : Str → Bool
  | [] => matchHere p []
  | c :: cs => matchHere p (c :: cs) || searchPat p cs

/-- `re.search("[, ]text/vnd.wap.wml", accept)` -/
def acceptsWml (a : Str) : Bool :=
  let tail : List (Option Nat) :=
    (lit "text/vnd").map some ++ [none] ++ (lit "wap").map some ++ [none] ++ (lit "wml").map some
  searchPat (some 44 :: tail) a || searchPat (some 32 :: tail) a

/-- does the path lie below `waptop` (prefix ending at a path boundary)? -/
def underWaptop (waptop path : Str) : Bool :=
  isPrefixB waptop path &&
    (match path.drop waptop.length with
     | [] => true
     | c :: _ => c == 47 || c == 63)

def wapCan (waptop : Str) (c : Conn) : Bool :=
  !c.tls && httpShape c.line &&
    (match requestParts c.line with
     | [_, path, _] =>
       underWaptop waptop path ||
         (let h := headerslurp c.rest
          match hdrLookup h (lit "accept") with
          | none => false
          | some a =>
            acceptsWml a &&
              ((hdrLookup h (lit "x-wap-profile")).isSome || (hdrLookup h (lit "x-up-devcap-max-pdu")).isSome))
     | _ => false)

def isAsciiStr (s : Str) : Bool := s.all (· < 128)

def spartanShape (line : Str) : Bool :=
  isAsciiStr line &&
    (match splitOn 32 (strip line) with
     | [a, b, n] => !a.isEmpty && b.head? == some 47 && !n.isEmpty && n.all isAsciiDigit   -- host, absolute path, length
     | _ => false)

/-- `canhandlerequest` of each class (after the F1 repair no branch raises) -/
def can (waptop : Str) (p : Proto) (c : Conn) : Bool :=
  match p with
  | .gopher | .sgopher => p.secure == c.tls
  | .gopherp | .sgopherp =>
    p.secure == c.tls &&
      (match gopherpString c.line with
       | some g => isGplusString g
       | none => false)
  | .http | .https => p.secure == c.tls && httpShape c.line
  | .wap => wapCan waptop c
  | .gemini => c.tls && isPrefixB (lit "gemini://") c.line
  | .spartan => !c.tls && spartanShape c.line

/-- `ProtocolMultiplexer.getProtocol`: the first class in configured order that accepts -/
def detect (waptop : Str) (ps : List Proto) (c : Conn) : Option Proto :=
  ps.find? fun p => can waptop p c

/-- `BaseServer.wrap_socket`: TLS iff the first byte is 0x16; `MSG_PEEK` consumes nothing.
    Returns (wrap?, bytes still to be read). -/
def sniff (stream : Bytes) : Bool × Bytes :=
  (stream.head? == some 0x16, stream)

/-! ## request parsing (the selector / search pipeline of each `handle()`) -/

structure Parsed where
  selector : Str
  search : Option Str
  /-- HTTP HEAD -/
  head : Bool := false
  /-- Gopher+ request string -/
  gplus : Option Str := none
  /-- gemini input prompt / redirect path (raw path below the query prefix), bad request -/
  geminiInput : Option Str := none
  badRequest : Bool := false
  deriving Repr, DecidableEq

/-- first occurrence of `searchrequest=<non-empty>` in `a=b&c=d`; values: `+` → space, then
    unquote with surrogateescape (after the F13 repair) -/
def plusToSpace (s : Str) : Str := s.map fun c => if c = 43 then 32 else c

def qsSearchAux : List Str → Option Str
  | [] => none
  | kv :: rest =>
    if kv.contains 61 then
      let k := unquote (plusToSpace (takeUntil (· == 61) kv))
      let v := (dropUntil (· == 61) kv).drop 1
      if !v.isEmpty && k == lit "searchrequest" then some (unquote (plusToSpace v))
      else qsSearchAux rest
    else qsSearchAux rest

def qsSearch (qs : Str) : Option Str := qsSearchAux (splitOn 38 qs)

/-- remove `\t \r \n` (urlsplit's `_UNSAFE_URL_BYTES_TO_REMOVE`) -/
def removeUnsafe (s : Str) : Str := s.filter fun c => !(c == 9 || c == 10 || c == 13)

def isC0OrSpace (c : Nat) : Bool := c ≤ 32

/-- `urlparse("gemini://…")`: (netloc, path, query). The URL is known to start with
    `gemini://`. Fragment is cut first, then the query. -/
def geminiSplit (url0 : Str) : Str × Str × Str :=
  let url := removeUnsafe (lstripC0 url0)
  let afterScheme := url.drop 9
  let netloc := takeUntil (fun c => c == 47 || c == 63 || c == 35) afterScheme
  let r := afterScheme.drop netloc.length
  let r1 := takeUntil (· == 35) r
  let path := takeUntil (· == 63) r1
  let query := (dropUntil (· == 63) r1).drop 1
  (netloc, path, query)
where
  lstripC0 : Str → Str
    | [] => []
    | c :: cs => if isC0OrSpace c then lstripC0 cs else c :: cs

def parseRequest (waptop queryPrefix : Str) (netlocValid : Bool) (p : Proto) (c : Conn) : Parsed :=
  match p with
  | .gopher | .sgopher =>
    let rl := requestList c.line
    { selector := slashnormalize (rl.headD []), search := rl[1]? }
  | .gopherp | .sgopherp =>
    let rl := requestList c.line
    { selector := slashnormalize (rl.headD []),
      search := if rl.length == 3 then rl[1]? else none,
      gplus := gopherpString c.line }
  | .http | .https | .wap =>
    let parts := requestParts c.line
    let path0 := parts[1]?.getD []
    let path := if p == .wap && underWaptop waptop path0 then path0.drop waptop.length else path0
    let sp := splitOn 63 path
    { selector := slashnormalize (unquote (sp.headD [])),
      search := (sp[1]?).bind qsSearch,
      head := parts.head? == some (lit "HEAD") }
  | .gemini =>
    if !netlocValid then { selector := [], search := none, badRequest := true }
    else
      let (_, path, query) := geminiSplit (strip c.line)
      if path == queryPrefix || isPrefixB (queryPrefix ++ [47]) path then
        { selector := path, search := some query, geminiInput := some (path.drop queryPrefix.length) }
      else
        { selector := slashnormalize (unquote path), search := some (unquote query) }
  | .spartan =>
    match splitOn 32 (strip c.line) with
    | [_, path, n] =>
      let len := (parseNat? n).getD 0
      -- the body: `rfile.read(len)` over the remaining bytes, decoded; the harness passes the
      -- decoded body as the single element of `rest`
      { selector := slashnormalize (unquote path),
        search := if len == 0 then none else some (c.rest.headD []) }
    | _ => { selector := [], search := none, badRequest := true }

end Pyg
