import PygVerif.Model.Render
/-!
# Model/Skel — a four-state HTML/XML tokenizer and the *skeleton* of a page

The skeleton is every character inside `<…>` except the contents of quoted attribute
values: element names, attribute names and delimiters.  "Data never changes the page's
element or attribute structure" = the skeleton does not depend on the data.
-/
namespace Pyg

inductive TState | text | tag | attrDq | attrSq
  deriving DecidableEq, Repr

def tstep : TState → Nat → TState × List Nat
  | .text, c => if c = 60 then (.tag, [c]) else (.text, [])
  | .tag, c =>
    if c = 62 then (.text, [c]) else if c = 34 then (.attrDq, [c])
    else if c = 39 then (.attrSq, [c]) else (.tag, [c])
  | .attrDq, c => if c = 34 then (.tag, [c]) else (.attrDq, [])
  | .attrSq, c => if c = 39 then (.tag, [c]) else (.attrSq, [])

def run : TState → Str → TState × List Nat
  | st, [] => (st, [])
  | st, c :: cs =>
    let (st1, e1) := tstep st c
    let (st2, e2) := run st1 cs
    (st2, e1 ++ e2)

inductive SegShape
  | lit (s : Str)
  | data
  deriving DecidableEq, Repr

def Seg.shape : Seg → SegShape
  | .lit s => .lit s
  | .esc _ => .data
  | .num _ => .data

/-- every data slot is reached in a state other than `tag` (computed on the literals only) -/
def slotsOk : TState → List SegShape → Bool
  | _, [] => true
  | st, .lit s :: r => slotsOk (run st s).1 r
  | st, .data :: r => st != .tag && slotsOk st r

/-- tokenizer state after the page, computed on the literals only -/
def endState : TState → List SegShape → TState
  | st, [] => st
  | st, .lit s :: r => endState (run st s).1 r
  | st, .data :: r => endState st r

end Pyg
