import PygVerif.Model.Zip
import PygVerif.Model.Site
/-!
# Model/ZipTree — the file tree an archive index stands for

`toTree ix data fuel p` is the object at canonical path `p` of the index as a `Node` of
`Model/Site` (the tree one gets by extracting the archive): a file member with its bytes, a
directory with one member per name `listdir` gives, each leading where `_getcacheinode`
continues (a resolved link leads to its destination's node).  Links may form cycles (a link
to an ancestor directory), so the tree is unfolded to a depth `fuel`; below it stands `.other`.

`zipStat` is the archive seen as the `StatFn` the site functions of `Model/Site` work on:
selectors below the archive are answered from the index, every other selector by the
underlying file system (`VFSZip._inarchive`).
-/
namespace Pyg.Zip

/-- where the entry `c` of the directory `p` leads (one step of `_getcacheinode`) -/
def child (ix : Index) (p : Path) (c : Str) : Option Path :=
  match ix.alias? (p ++ [c]) with
  | some t => some t
  | none => if (ix.kind? (p ++ [c])).isSome then some (p ++ [c]) else none

def toTree (ix : Index) (data : Str → Bytes) : Nat → Path → Node
  | 0, _ => .other
  | f + 1, p =>
    match ix.kind? p with
    | some .dir => .dir ((names ix p).filterMap fun c => (child ix p c).map fun t => (c, toTree ix data f t))
    | some (.file o) => .file (data o)
    | none => .other

/-- `VFSZip.stat` / `isdir` / `isfile` / `listdir` / `open` as one view -/
def zipStat (ix : Index) (data : Str → Bytes) (fuel : Nat) (zipSel : Str) (chain : StatFn) : StatFn := fun sel =>
  if inArchive zipSel sel then (lookup ix (innerPath zipSel.length sel)).map (toTree ix data fuel)
  else chain sel

end Pyg.Zip
