import PygVerif.Model.Tal
/-!
# Model/Include — templates included through `structure`

When `tal:content="structure X"` / `tal:replace="structure X"` evaluates to a compiled
template, simpleTAL pushes its program state, runs the included template *with the same
context* (the variables of the including element are in scope, global definitions made inside
stay) at the element's end tag, and pops the state.  For expressions that name the template
statically (a name the context binds to a template and nothing redefines) the document this
produces is that of a tree substitution:

* `content`: the element keeps its tag and commands, its children are the included template's
  nodes (its own children were never going to be output);
* `replace`: the same with the element's own tag omitted.

`inlineNode` is that substitution (`fuel` bounds tree depth plus inclusion nesting); the result
is a plain TAL tree, on which the compiler, machine and denotation of `Model/Tal` and their
theorems apply unchanged.  As with METAL, that simpleTAL's run-time mechanism
(`pushProgram` / `expandInline` / `popProgram`) produces the substitution's document is tied by
differential correspondence (harness `includegen`, property C17), not proved.  Elements that
include a template are not void elements (`<br>`), in the domain.
-/
namespace Pyg.Tal

def tplLookup (tpls : List (Str × List Node)) (e : Str) : Option (List Node) :=
  (tpls.find? (·.1 == strip e)).map (·.2)

/-- an expression that is true whatever the context: the substituted element's tag is omitted -/
def alwaysTrue : Str := lit "string:1"

mutual
def inlineNode (tpls : List (Str × List Node)) : Nat → Node → Node
  | _, .data s => .data s
  | 0, .elem tag atts orig c sg ne kids => .elem tag atts orig c sg ne kids
  | fuel + 1, .elem tag atts orig c sg ne kids =>
    match c.content with
    | some (rep, true, e) =>
      (match tplLookup tpls e with
       | some body =>
         .elem tag atts orig { c with content := none, omitTag := if rep then some alwaysTrue else c.omitTag } sg ne
           (inlineList tpls fuel body)
       | none => .elem tag atts orig c sg ne (inlineList tpls fuel kids))
    | _ => .elem tag atts orig c sg ne (inlineList tpls fuel kids)
def inlineList (tpls : List (Str × List Node)) : Nat → List Node → List Node
  | _, [] => []
  | fuel, k :: ks => inlineNode tpls fuel k :: inlineList tpls fuel ks
end

end Pyg.Tal
