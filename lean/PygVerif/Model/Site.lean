import PygVerif.Model.Umn
/-!
# Model/Site — a whole site: file tree, path resolution, handler dispatch, listings

The other model files take the file system's answers (stat results, directory members,
sidecar contents) as arguments.  This file supplies them from one value: an abstract file
tree.  It models

* the kernel's path resolution (`kwalk`: `""` and `.` stay, `..` climbs to the parent, a name
  descends; symbolic links are not modelled) on the *whole* file system, and the resolution
  below the document root only (`lwalk`, which does not interpret `..`);
* `VFS_Real.getfspath` / `stat` / `isfile` / `listdir` / `open` in terms of these;
* `HandlerMultiplexer.getHandler` for the core handler chain
  `[gophermap.BuckGophermapHandler?, UMN.UMNDirHandler | dir.DirHandler, file.FileHandler]`:
  security filter first, then the first handler whose own test passes;
* the `Child` records `Model/Umn.dirListing` needs and the `PopInfo` oracle
  `Model/Gophermap.gmParse` needs, computed from the tree (library answers that depend on a
  *name* only — `mimetypes.guess_type`, the type mapping, extension stripping — stay
  parameters of `SiteCfg`);
* `siteEntries`: the entries of a listing request, and `serveKind`: what a request is
  answered with.
-/
namespace Pyg

/-- a file-system object: a regular file with its bytes, a directory with named members (in
    enumeration order), or something that is neither (FIFO, socket, device) -/
inductive Node where
  | file (data : Bytes)
  | dir (kids : List (Str × Node))
  | other

def Node.isDir : Node → Bool
  | .dir _ => true
  | _ => false

def Node.isFile : Node → Bool
  | .file _ => true
  | _ => false

/-- the bytes of a regular file -/
def Node.fileData : Node → Option Bytes
  | .file d => some d
  | _ => none

/-- member names of a directory, in enumeration order -/
def Node.names : Node → Option (List Str)
  | .dir kids => some (kids.map (·.1))
  | _ => none

/-- first member with the given name -/
def kidLookup : List (Str × Node) → Str → Option Node
  | [], _ => none
  | (n, k) :: rest, c => if n = c then some k else kidLookup rest c

/-! ## path resolution -/

/-- resolution below one node without interpreting `..`: what the server *means* by a selector -/
def lwalk : Node → List Str → Option Node
  | n, [] => some n
  | .dir kids, c :: cs =>
    if c = [] ∨ c = [46] then lwalk (.dir kids) cs
    else match kidLookup kids c with
      | some k => lwalk k cs
      | none => none
  | .file _, _ :: _ => none
  | .other, _ :: _ => none

/-- the kernel's resolution on the whole file system: `anc` are the ancestors of the current
    directory, nearest first (empty at `/`, where `..` stays) -/
def kwalk : List Node → Node → List Str → Option (List Node × Node)
  | anc, n, [] => some (anc, n)
  | anc, .dir kids, c :: cs =>
    if c = [] ∨ c = [46] then kwalk anc (.dir kids) cs
    else if c = [46, 46] then
      match anc with
      | [] => kwalk [] (.dir kids) cs
      | p :: ps => kwalk ps p cs
    else match kidLookup kids c with
      | some k => kwalk (.dir kids :: anc) k cs
      | none => none
  | _, .file _, _ :: _ => none
  | _, .other, _ :: _ => none

/-- `getfspath` strips one trailing slash -/
def stripSlash (p : Str) : Str := if p.getLast? = some 47 then p.dropLast else p

/-- the path components `os.stat(root + selector)` resolves, seen from the root directory -/
def selComps (sel : Str) : List Str := splitOn 47 (stripSlash sel)

/-- `vfs.stat(selector)` below the document root `R`: `none` = `OSError` / `ValueError`
    (no such object, or a selector `os.fsencode` cannot encode) -/
def statAt (R : Node) (sel : Str) : Option Node :=
  if (encodeSE sel).isNone then none else lwalk R (selComps sel)

/-- the same `stat` as the kernel performs it: on the whole file system `W`, with the
    configured root path `rootStr` (absolute, no trailing slash) prepended textually -/
def kstat (W : Node) (rootStr sel : Str) : Option Node :=
  if (encodeSE sel).isNone then none
  else (kwalk [] W (splitOn 47 (stripSlash (rootStr ++ sel)))).map (·.2)

/-! ## text files as `readline()` sees them -/

/-- `open(..., "r")` translates `\r\n` and `\r` to `\n`; `readlines()` keeps the terminators -/
def textLinesAux : Str → Str → List Str
  | [], cur => if cur.isEmpty then [] else [cur.reverse]
  | 13 :: 10 :: rest, cur => (10 :: cur).reverse :: textLinesAux rest []
  | 13 :: rest, cur => (10 :: cur).reverse :: textLinesAux rest []
  | 10 :: rest, cur => (10 :: cur).reverse :: textLinesAux rest []
  | c :: rest, cur => textLinesAux rest (c :: cur)

def textLines (data : Bytes) : List Str := textLinesAux (decodeSE data) []

/-- binary `readline()` results, decoded (`gophermap` files): split after `\n` only -/
def binLinesAux : Str → Str → List Str
  | [], cur => if cur.isEmpty then [] else [cur.reverse]
  | 10 :: rest, cur => (10 :: cur).reverse :: binLinesAux rest []
  | c :: rest, cur => binLinesAux rest (c :: cur)

/-- lines of a file read in binary mode and decoded line by line -/
def binLines (data : Bytes) : List Str := binLinesAux (decodeSE data) []

/-! ## configuration and name-only library oracles -/

structure SiteCfg where
  forbidden : List Str
  eaexts : List (Str × Str)
  defaultMime : Str
  /-- `BuckGophermapHandler` is in the handler list (ahead of the directory handler) -/
  gophermap : Bool
  dir : DirCfg
  /-- `mimetypes.guess_type(selector, strict=False)` -/
  guess : Str → Option Str × Option Str
  /-- the configured type mapping applied to a MIME type -/
  typeOf : Str → Str
  /-- `fileext.extstrip(name, <MIME type guessed for the name>)` -/
  strip : Str → Str
  /-- modification time reported for every object (times are masked in every comparison) -/
  mtime : Nat := 1
  /-- `url.HTMLURLHandler` heads the handler list (as shipped), with its own filter table -/
  url : Bool := false
  urlForbidden : List Str := []
  /-- `html.HTMLFileTitleHandler` precedes the file handler (as shipped): `isHtml sel` is its own test
      (`mimetypes.guess_type(selector)` says `text/html`), `title sel` the complete `<title>` it finds in the
      file, white space collapsed (`html.parser` is a library oracle) -/
  htmlTitles : Bool := false
  isHtml : Str → Bool := fun _ => false
  title : Str → Option Str := fun _ => none
  /-- `[handlers.dir.DirHandler] cachefile` -/
  cachefile : Str := lit ".cache.pygopherd.dir"

/-! ## what the file system says about one selector -/

/-- The functions below see the file system through one function only: `st sel`, the object
    `vfs.stat(sel)` reaches (`none` = error).  `statAt R` is the view from inside the document
    root, `kstat W rootStr` the kernel's view of the whole file system. -/
abbrev StatFn := Str → Option Node

/-- text of a readable regular file at a selector -/
def readAt (st : StatFn) (sel : Str) : Option Bytes :=
  match st sel with
  | some (.file d) => some d
  | _ => none

/-- sidecar files of an object: `<path><ext>` for a file, `<path>/<ext>` for a directory -/
def sidecarsAt (c : SiteCfg) (st : StatFn) (sel : Str) (isDir : Bool) : List (Str × List Str) :=
  c.eaexts.filterMap fun (ext, _) =>
    (readAt st ((if isDir then stripSlash sel ++ [47] else stripSlash sel) ++ ext)).map fun d => (ext, textLines d)

/-- MIME type `populatefromfs` arrives at for a file name -/
def mimeOf (c : SiteCfg) (sel : Str) : Str :=
  match c.guess sel with
  | (m, some enc) => if enc.isEmpty then (orStr none m).getD c.defaultMime else lit "application/octet-stream"
  | (m, none) => (orStr none m).getD c.defaultMime

/-- the `PopInfo` oracle of `Model/Gophermap`, computed from the tree -/
def popAt (c : SiteCfg) (st : StatFn) (sel : Str) : Option PopInfo :=
  match st sel with
  | none => none
  | some (.dir _) =>
    some { stat := { kind := .dir, size := 0, mtime := c.mtime, ctime := c.mtime }, guess := (none, none), gtype := lit "1",
           sidecars := sidecarsAt c st sel true }
  | some (.file d) =>
    some { stat := { kind := .file, size := d.length, mtime := c.mtime, ctime := c.mtime }, guess := c.guess sel,
           gtype := c.typeOf (mimeOf c sel), sidecars := sidecarsAt c st sel false }
  | some .other =>
    some { stat := { kind := .other, size := 0, mtime := c.mtime, ctime := c.mtime }, guess := c.guess sel,
           gtype := c.typeOf (mimeOf c sel), sidecars := sidecarsAt c st sel false }

/-! ## handler dispatch -/

inductive Handler
  | notFound        -- no handler claims the selector: `FileNotFound`
  | gophermapDir    -- directory holding a `gophermap` file
  | gophermapFile   -- regular file named `*.gophermap`
  | dir             -- `UMNDirHandler` / `DirHandler`
  | file            -- `FileHandler`
  | url             -- `HTMLURLHandler`: a `URL:` selector answered with a redirect page
  | htmlFile        -- `HTMLFileTitleHandler`: a file handler whose entry is named by the document's title
  deriving DecidableEq, Repr

def endsWithGophermap (sel : Str) : Bool := isSuffixB (lit ".gophermap") sel

/-- `getHandler`: every handler's `isrequestforme` is `isrequestsecure() and canhandlerequest()` -/
def dispatch (c : SiteCfg) (st : StatFn) (sel : Str) : Handler :=
  if c.url && urlSecureB c.urlForbidden sel then .url          -- its own filter: `..` and `//` are fine inside a URL
  else if !secureB c.forbidden sel then .notFound
  else match st sel with
    | some (.dir _) =>
      if c.gophermap && (match st (sel ++ lit "/gophermap") with | some (.file _) => true | _ => false)
      then .gophermapDir else .dir
    | some (.file _) =>
      if c.gophermap && endsWithGophermap sel then .gophermapFile
      -- the directory handler's own cache files are not content (`FileHandler.isdircachefile`)
      else if isSuffixB (47 :: c.cachefile) sel then .notFound
      else if c.htmlTitles && c.isHtml sel then .htmlFile else .file
    | _ => .notFound

/-- handlers that are `FileHandler` instances (extension stripping applies to their entries) -/
def Handler.isFileHandler : Handler → Bool
  | .file | .htmlFile => true
  | _ => false

def Handler.isMenu : Handler → Bool
  | .gophermapDir | .gophermapFile | .dir => true
  | _ => false

/-- what a request for `sel` is answered with: not-found, a menu, or a document with its bytes -/
inductive Served
  | notFound
  | menu
  | document (data : Bytes)
  /-- a page the server writes itself (the URL redirect page) -/
  | generated (text : Str)

/-- the URL a `URL:` selector stands for -/
def urlOfSelector (sel : Str) : Str := if sel.head? = some 47 then sel.drop 5 else sel.drop 4

def serve (c : SiteCfg) (st : StatFn) (sel : Str) : Served :=
  match dispatch c st sel with
  | .notFound => .notFound
  | .file | .htmlFile => match st sel with
    | some (.file d) => .document d
    | _ => .notFound
  | .url => .generated (emit (urlRedirectSegs (urlOfSelector sel)))
  | _ => .menu

/-! ## entries -/

/-- the entry `handler.getentry()` gives for an existing local object (`populatefromfs`) -/
def entryAt (c : SiteCfg) (st : StatFn) (sel : Str) : Option Entry :=
  if dispatch c st sel = .url then
    -- `HTMLURLHandler.getentry`: nothing is looked up on disk
    some { selector := sel, name := some sel, mimetype := some (lit "text/html"), type := some (lit "h") }
  else
  (popAt c st sel).map fun pi =>
    -- a `*.gophermap` file claimed by the gophermap handler is a menu, not a document of its MIME type
    let e0 : Entry :=
      if dispatch c st sel = .gophermapFile then
        { selector := sel, type := some (lit "1"), mimetype := some (lit "application/gopher-menu") }
      else { selector := sel }
    let e := populateWith c.eaexts c.defaultMime pi e0
    -- `HTMLFileTitleHandler.getentry`: a complete title names the entry
    if dispatch c st sel = .htmlFile then (match c.title sel with | some t => { e with name := some t } | none => e) else e

/-- one directory member as `Model/Umn` wants it -/
def childOf (c : SiteCfg) (st : StatFn) (base : Str) (name : Str) (k : Node) : Child :=
  let sel := base ++ [47] ++ name
  { name := name
    isDir := k.isDir
    entry := match dispatch c st sel with
      | .notFound => none
      | h => (entryAt c st sel).map fun e => (e, h.isFileHandler)
    stripped := c.strip name
    cap := (readAt st (base ++ lit "/.cap/" ++ name)).map textLines
    lines := match k with
      | .file d => some (textLines d)
      | _ => none }

/-- members of the directory at `sel` (`vfs.listdir`), `none` if it is not a directory -/
def kidsAt (st : StatFn) (sel : Str) : Option (List (Str × Node)) :=
  match st sel with
  | some (.dir kids) => some kids
  | _ => none

/-- `os.path.dirname(selector)`, with the root written as the empty base -/
def dirnameSel (sel : Str) : Str :=
  let d := (sel.reverse.dropWhile (· != 47)).reverse      -- up to and including the last slash
  let d := (d.reverse.dropWhile (· == 47)).reverse          -- trailing slashes off (all of them: "/" becomes "")
  d

/-- entries of a listing request (`prepare` + `getdirlist`), by handler -/
def siteEntries (c : SiteCfg) (st : StatFn) (sel : Str) : Option (List Entry) :=
  let base := if sel = [47] then [] else sel
  match dispatch c st sel with
  | .dir =>
    (kidsAt st sel).bind fun kids =>
      dirListing c.dir sel (kids.map fun (n, k) => childOf c st base n k)
  | .gophermapDir =>
    (readAt st (base ++ lit "/gophermap")).bind fun d =>
      gmParse c.forbidden c.eaexts c.defaultMime base (popAt c st) (binLines d)
  | .gophermapFile =>
    -- relative links in a gophermap *file* are relative to the directory the file is in
    (readAt st sel).bind fun d =>
      gmParse c.forbidden c.eaexts c.defaultMime (dirnameSel sel) (popAt c st) (binLines d)
  | _ => none

/-! ## well-formed trees -/

/-- a name the kernel can store: non-empty, no `/`, no NUL, not `.` or `..` -/
def validName (n : Str) : Bool :=
  !n.isEmpty && !n.contains 47 && !n.contains 0 && n != [46] && n != [46, 46]

mutual
/-- every member name is valid (recursively); duplicates are not excluded — `kidLookup`
    finds the first, as a directory holds one object per name -/
def Node.wf : Node → Bool
  | .dir kids => kidsWf kids
  | _ => true
def kidsWf : List (Str × Node) → Bool
  | [] => true
  | (n, k) :: rest => validName n && k.wf && kidsWf rest
end

end Pyg
