import PygVerif.Model.Escape
/-!
# Model/Tal — simpleTAL: compiler, interpreter (stack machine) and tree-walking semantics

Templates enter as trees in *normal form*: a `Node.data` is a maximal run of literal output
(text and TAL-free tags, exactly what the real compiler merges into one `TAL_OUTPUT`); a
`Node.elem` is an element carrying TAL commands.  In normal form the real compiler never
merges across nodes, so `compile` is additive and mirrors `parseStartTag / addTag / popTag`.

* `compile`  — command list with resolved jump targets (the real symbol table is an
  indirection: `symbolTable[endTagSymbol]` = index of the element's `ENDTAG_ENDSCOPE`).
* `Machine.step / run` — `cmd*` of `TemplateInterpreter`, register by register.
* `denote` — TAL's order of operations as a structural recursion over the tree.
* `Tales.eval` — `simpleTALES.Context.evaluate` for the value domain below.
METAL is not part of this file's theorems; macro expansion is exercised by the oracle only.
-/
namespace Pyg.Tal

/-! ## values and the TALES context -/

inductive Val
  | none
  | default
  | int (i : Int)
  | str (s : Str)
  | list (l : List Val)
  | map (m : List (Str × Val))
  deriving Repr, Inhabited

abbrev Vars := List (Str × Val)

def Vars.get? (vs : Vars) (k : Str) : Option Val := (vs.find? (·.1 == k)).map (·.2)
/-- dict assignment: replace in place or append -/
def Vars.set : Vars → Str → Val → Vars
  | [], k, v => [(k, v)]
  | x :: r, k, v => if x.1 == k then (k, v) :: r else x :: Vars.set r k v

structure RepeatVar where
  position : Nat
  length : Nat
  deriving Repr

structure Ctx where
  locals : Vars := []
  localStack : List Vars := []
  globals : Vars := []
  repeatMap : List (Str × RepeatVar) := []
  repeatStack : List (List (Str × RepeatVar)) := []
  /-- `globals['attrs']` -/
  attrs : List (Str × Str) := []
  allowPython : Bool := false
  deriving Repr

def Ctx.pushLocals (c : Ctx) : Ctx := { c with localStack := c.locals :: c.localStack }
def Ctx.popLocals (c : Ctx) : Ctx :=
  match c.localStack with
  | [] => c
  | l :: r => { c with locals := l, localStack := r }
def Ctx.setLocal (c : Ctx) (k : Str) (v : Val) : Ctx := { c with locals := c.locals.set k v }
def Ctx.addGlobal (c : Ctx) (k : Str) (v : Val) : Ctx := { c with globals := c.globals.set k v }

def repSet : List (Str × RepeatVar) → Str → RepeatVar → List (Str × RepeatVar)
  | [], k, v => [(k, v)]
  | x :: r, k, v => if x.1 == k then (k, v) :: r else x :: repSet r k v

/-- `Context.addRepeat` -/
def Ctx.addRepeat (c : Ctx) (name : Str) (len : Nat) (first : Val) : Ctx :=
  let c1 := { c with repeatStack := c.repeatMap :: c.repeatStack, repeatMap := repSet c.repeatMap name ⟨0, len⟩ }
  (c1.pushLocals).setLocal name first
/-- `Context.removeRepeat` -/
def Ctx.removeRepeat (c : Ctx) : Ctx :=
  match c.repeatStack with
  | [] => c
  | m :: r => { c with repeatMap := m, repeatStack := r }
/-- `repeatVariable.increment()` for the variable `name` -/
def Ctx.bumpRepeat (c : Ctx) (name : Str) : Ctx :=
  { c with repeatMap := c.repeatMap.map fun x => if x.1 == name then (x.1, { x.2 with position := x.2.position + 1 }) else x }

/-- Python truthiness as the interpreter tests it (`not result`, `len(result) == 0`) -/
def truthy : Val → Bool
  | .none => false
  | .default => true
  | .int i => i != 0
  | .str s => !s.isEmpty
  | .list l => !l.isEmpty
  | .map m => !m.isEmpty

def isNone : Val → Bool | .none => true | _ => false
def isDefault : Val → Bool | .default => true | _ => false

/-- `repr(s)` of a Python string (printable domain: quotes chosen like CPython, backslash,
    quote, \n \r \t escaped) -/
def pyReprStr (s : Str) : Str :=
  let q : Nat := if s.contains 39 && !s.contains 34 then 34 else 39
  [q] ++ (s.map fun c =>
    if c == 92 then [92, 92] else if c == q then [92, q] else if c == 10 then [92, 110]
    else if c == 13 then [92, 114] else if c == 9 then [92, 116] else [c]).flatten ++ [q]

mutual
/-- `repr(v)` -/
def pyRepr : Val → Str
  | .none => lit "None"
  | .default => pyReprStr (lit "This represents a Default value.")
  | .int i => toDecInt i
  | .str s => pyReprStr s
  | .list l => [91] ++ pyReprList l ++ [93]
  | .map m => [123] ++ pyReprMap m ++ [125]
def pyReprList : List Val → Str
  | [] => []
  | [v] => pyRepr v
  | v :: r => pyRepr v ++ lit ", " ++ pyReprList r
def pyReprMap : List (Str × Val) → Str
  | [] => []
  | [(k, v)] => pyReprStr k ++ lit ": " ++ pyRepr v
  | (k, v) :: r => pyReprStr k ++ lit ": " ++ pyRepr v ++ lit ", " ++ pyReprMap r
end

/-- `str(v)` for what is written out -/
def render : Val → Str
  | .none => lit "None"
  | .default => lit "This represents a Default value."
  | .int i => toDecInt i
  | .str s => s
  | v => pyRepr v

/-! ### TALES -/

def lowerLetter (pos : Nat) : Str :=
  if pos == 0 then [97] else
  let rec go (fuel n : Nat) (acc : Str) : Str :=
    match fuel with
    | 0 => acc
    | f + 1 => if n == 0 then acc else go f (n / 26) ((97 + n % 26) :: acc)
  go (pos + 1) pos []

def romanTable : List (Str × Nat) :=
  [(lit "m", 1000), (lit "cm", 900), (lit "d", 500), (lit "cd", 400), (lit "c", 100), (lit "xc", 90), (lit "l", 50),
   (lit "xl", 40), (lit "x", 10), (lit "ix", 9), (lit "v", 5), (lit "iv", 4), (lit "i", 1)]

def lowerRoman (pos : Nat) : Str :=
  if pos > 3999 then [32] else
  let rec go (fuel num : Nat) (tab : List (Str × Nat)) (acc : Str) : Str :=
    match fuel, tab with
    | 0, _ => acc
    | _, [] => acc
    | f + 1, (r, n) :: rest => if n ≤ num then go f (num - n) ((r, n) :: rest) (acc ++ r) else go f num rest acc
  go (pos + 1 + 20) (pos + 1) romanTable []

def upperAscii (s : Str) : Str := s.map fun c => if 97 ≤ c ∧ c ≤ 122 then c - 32 else c

/-- `repeat/<name>/<key>` -/
def repeatAttr (r : RepeatVar) (key : Str) : Option Val :=
  if key == lit "index" then some (.int r.position)
  else if key == lit "number" then some (.int (r.position + 1))
  else if key == lit "even" then some (.int (if r.position % 2 != 0 then 0 else 1))
  else if key == lit "odd" then some (.int (if r.position % 2 == 0 then 0 else 1))
  else if key == lit "start" then some (.int (if r.position == 0 then 1 else 0))
  else if key == lit "end" then some (.int (if r.position + 1 == r.length then 1 else 0))
  else if key == lit "length" then some (.int r.length)
  else if key == lit "letter" then some (.str (lowerLetter r.position))
  else if key == lit "Letter" then some (.str (upperAscii (lowerLetter r.position)))
  else if key == lit "roman" then some (.str (lowerRoman r.position))
  else if key == lit "Roman" then some (.str (upperAscii (lowerRoman r.position)))
  else none

def repeatKeys : List Str :=
  [lit "index", lit "number", lit "even", lit "odd", lit "start", lit "end", lit "length",
   lit "letter", lit "Letter", lit "roman", lit "Roman"]

/-- one traversal step into a value: `temp[path]` / `temp[int(path)]` -/
def stepInto (v : Val) (seg : Str) : Option Val :=
  match v with
  | .map m => Vars.get? m seg
  | .list l => (parseNat? seg).bind fun i => l[i]?
  | _ => none

def stripQuotes (e : Str) : Str :=
  let isQ (c : Nat) : Bool := c == 34 || c == 39
  if e.head?.any isQ then
    (if e.getLast?.any isQ then (e.drop 1).dropLast else e.drop 1)
  else if e.getLast?.any isQ then e.dropLast else e

/-- `traversePath`; `none` = `PathNotFoundException` -/
def traversePath (c : Ctx) (expr : Str) : Option Val :=
  let segs := splitOn 47 (stripQuotes expr)
  match segs with
  | [] => none
  | first :: rest =>
    -- built-ins live in globals: nothing, default, repeat, attrs
    if first == lit "repeat" && (c.locals.get? first).isNone then
      match rest with
      | [name, key] => ((c.repeatMap.find? (·.1 == name)).map (·.2)).bind fun r => repeatAttr r key
      | [name] =>        -- the repeat variable as a whole: the mapping of its eleven keys
        ((c.repeatMap.find? (·.1 == name)).map (·.2)).map fun r =>
          Val.map (repeatKeys.filterMap fun k => (repeatAttr r k).map fun v => (k, v))
      | _ => none
    else if first == lit "attrs" && (c.locals.get? first).isNone then
      match rest with
      | [] => some (.map (c.attrs.map fun (k, v) => (k, Val.str v)))
      | [name] => ((c.attrs.find? (·.1 == name)).map fun kv => Val.str kv.2)
      | _ => none
    else
      let start : Option Val :=
        match c.locals.get? first with
        | some v => some v
        | none =>
          if first == lit "nothing" then some .none
          else if first == lit "default" then some .default
          else c.globals.get? first
      rest.foldl (fun acc seg => acc.bind fun v => stepInto v seg) start

inductive EvalRes
  | val (v : Val)
  | notFound
  deriving Repr, Inhabited

def lstripSp (s : Str) : Str := lstrip s

/-- the `string:` interpolation: `$$`, `${expr}` (a full TALES expression: `Context.evaluate`),
    `$name` (up to the next space; a plain path: `Context.traversePath`) -/
def evalStringAux (evalPath : Str → Option Val) (travPath : Str → Option Val) : Nat → Str → Str
  | 0, _ => []
  | _, [] => []
  | fuel + 1, c :: rest =>
    if c != 36 then c :: evalStringAux evalPath travPath fuel rest
    else
      match rest with
      | [] => []                                              -- trailing `$`: suppressed
      | 36 :: r => 36 :: evalStringAux evalPath travPath fuel r
      | 123 :: r =>
        if r.contains 125 then
          let path := takeUntil (· == 125) r
          let after := (dropUntil (· == 125) r).drop 1
          let txt := match evalPath path with
            | some .none => []
            | some v => render v
            | none => []
          txt ++ evalStringAux evalPath travPath fuel after
        else 123 :: evalStringAux evalPath travPath fuel r              -- no closing brace: the `$` is dropped, the text goes on with `{`
      | _ =>
        let name := takeUntil (· == 32) rest
        let after := dropUntil (· == 32) rest
        let txt := match travPath name with
          | some .none => []
          | some v => render v
          | none => []
        txt ++ evalStringAux evalPath travPath fuel after

/-- `Context.evaluate` (fuel bounds the nesting of prefixes / alternatives).
    `pyEval` is the oracle for `python:` expressions, consulted only when allowed. -/
def evalFuel (pyEval : Str → Val) : Nat → Ctx → Str → EvalRes
  | 0, _, _ => .notFound
  | fuel + 1, c, expr0 =>
    let expr := strip expr0
    let alt (paths : List Str) : EvalRes :=
      paths.foldl (fun acc p => match acc with
        | .notFound => evalFuel pyEval fuel c (strip p)
        | r => r) .notFound
    if isPrefixB (lit "path:") expr then evalPathE fuel c (lstripSp (expr.drop 5))
    else if isPrefixB (lit "exists:") expr then
      let e := lstripSp (expr.drop 7)
      let ps := splitOn 124 e
      match traversePath c (strip (ps.headD [])) with
      | some _ => .val (.int 1)
      | none =>
        if (ps.drop 1).any (fun p => match evalFuel pyEval fuel c (strip p) with | .val v => truthy v | .notFound => false)
        then .val (.int 1) else .val (.int 0)
    else if isPrefixB (lit "nocall:") expr then
      let e := lstripSp (expr.drop 7)
      let ps := splitOn 124 e
      match traversePath c (strip (ps.headD [])) with
      | some v => .val v
      | none => alt (ps.drop 1)
    else if isPrefixB (lit "not:") expr then
      match evalFuel pyEval fuel c (lstripSp (expr.drop 4)) with
      | .notFound => .val (.int 1)
      | .val .none => .val (.int 1)
      | .val .default => .val (.int 0)
      | .val v => .val (.int (if truthy v then 0 else 1))
    else if isPrefixB (lit "string:") expr then
      let e := lstripSp (expr.drop 7)
      .val (.str (evalStringAux (fun p => match evalFuel pyEval fuel c p with | .val v => some v | .notFound => some (.str []))
        (traversePath c) (e.length + 1) e))
    else if isPrefixB (lit "python:") expr then
      if c.allowPython then .val (pyEval (lstripSp (expr.drop 7))) else .val (.int 0)
    else evalPathE fuel c expr
where
  evalPathE (fuel : Nat) (c : Ctx) (e : Str) : EvalRes :=
    let ps := splitOn 124 e
    if ps.length > 1 then
      ps.foldl (fun acc p => match acc with
        | .notFound => evalFuel pyEval fuel c (strip p)
        | r => r) .notFound
    else match traversePath c (ps.headD []) with
      | some v => .val v
      | none => .notFound

/-- `context.evaluate(expr, originalAttributes)`: a missing path is `None` -/
def eval (pyEval : Str → Val) (c : Ctx) (expr : Str) : Val :=
  match evalFuel pyEval 8 c expr with
  | .val v => v
  | .notFound => .none

/-! ## templates -/

structure DefineArg where
  isLocal : Bool
  name : Str
  expr : Str
  deriving Repr, DecidableEq

structure Cmds where
  define : Option (List DefineArg) := none
  condition : Option Str := none
  repeat_ : Option (Str × Str) := none
  /-- content / replace: (replaceFlag, structureFlag, expression) -/
  content : Option (Bool × Bool × Str) := none
  attributes : Option (List (Str × Str)) := none
  omitTag : Option Str := none
  deriving Repr, DecidableEq

inductive Node
  | data (s : Str)
  | elem (tag : Str) (atts orig : List (Str × Str)) (cmds : Cmds) (singleton noEnd : Bool) (kids : List Node)
  deriving Repr

/-! ## byte code -/

inductive Cmd
  | startScope (orig cur : List (Str × Str))
  | define (args : List DefineArg)
  | cond (e : Str) (endIx : Nat)
  | rep (v e : Str) (endIx : Nat)
  | content (replace raw : Bool) (e : Str) (endIx : Nat)
  | attributes (args : List (Str × Str))
  | omitTag (e : Str)
  | startTag (tag : Str) (singleton : Bool)
  | output (s : Str)
  | endTag (tag : Str) (omitEnd singleton : Bool)
  deriving Repr, DecidableEq

def optLen {α : Type} (o : Option α) : Nat := if o.isSome then 1 else 0

/-- number of commands before the children of an element -/
def headLen (c : Cmds) : Nat :=
  1 + optLen c.define + optLen c.condition + optLen c.repeat_ + optLen c.content + optLen c.attributes + optLen c.omitTag + 1

mutual
def size : Node → Nat
  | .data _ => 1
  | .elem _ _ _ c _ _ kids => headLen c + sizeList kids + 1
def sizeList : List Node → Nat
  | [] => 0
  | n :: ns => size n + sizeList ns
end

def segDefine (c : Cmds) : List Cmd := match c.define with | some a => [Cmd.define a] | none => []
def segCond (c : Cmds) (endIx : Nat) : List Cmd := match c.condition with | some e => [Cmd.cond e endIx] | none => []
def segRep (c : Cmds) (endIx : Nat) : List Cmd := match c.repeat_ with | some (v, e) => [Cmd.rep v e endIx] | none => []
def segCont (c : Cmds) (endIx : Nat) : List Cmd :=
  match c.content with | some (r, s, e) => [Cmd.content r s e endIx] | none => []
def segAttr (c : Cmds) : List Cmd := match c.attributes with | some a => [Cmd.attributes a] | none => []
def segOmit (c : Cmds) : List Cmd := match c.omitTag with | some e => [Cmd.omitTag e] | none => []

def headCmds (tag : Str) (atts orig : List (Str × Str)) (c : Cmds) (singleton : Bool) (endIx : Nat) : List Cmd :=
  [Cmd.startScope orig atts] ++ segDefine c ++ segCond c endIx ++ segRep c endIx ++ segCont c endIx ++ segAttr c ++ segOmit c ++
  [Cmd.startTag tag singleton]

mutual
/-- `base` = index the first emitted command will have -/
def compile (base : Nat) : Node → List Cmd
  | .data s => [.output s]
  | .elem tag atts orig c singleton noEnd kids =>
    let endIx := base + headLen c + sizeList kids
    headCmds tag atts orig c singleton endIx ++ (compileList (base + headLen c) kids ++ [.endTag tag noEnd singleton])
def compileList (base : Nat) : List Node → List Cmd
  | [] => []
  | n :: ns => compile base n ++ compileList (base + size n) ns
end

/-- `tagAsText` -/
def tagAsText (tag : Str) (atts : List (Str × Str)) (singleton : Bool) : Str :=
  [60] ++ tag ++ (atts.map fun (k, v) => [32] ++ k ++ lit "=\"" ++ htmlEscape true v ++ [34]).flatten ++
  (if singleton then lit " />" else [62])

/-! ## the stack machine -/

structure Regs where
  movePCForward : Option Nat := none
  movePCBack : Option Nat := none
  outputTag : Bool := true
  orig : List (Str × Str) := []
  cur : List (Str × Str) := []
  /-- remaining items after the current one, and the variable's name -/
  repeatVar : Option (List Val) := none
  tagContent : Option (Bool × Val) := none
  localVarsDefined : Bool := false
  deriving Repr

inductive Frame
  | scope (r : Regs)
  | attrsCopy (a : List (Str × Str))
  deriving Repr

structure St where
  pc : Nat := 0
  regs : Regs := {}
  repeatAttrsCopy : List (Str × Str) := []
  stack : List Frame := []
  ctx : Ctx
  out : Str := []
  deriving Repr

/-- items of a value a repeat can loop over; `none` = not a sequence (no output) -/
def seqItems : Val → Option (List Val)
  | .list l => some l
  | .str s => some (s.map fun c => Val.str [c])
  | _ => none

/-- `cmdAttributes`: new / replaced attributes first (in command order), then the old ones that
    were not named -/
def applyAttributes (ev : Str → Val) (args : List (Str × Str)) (cur : List (Str × Str)) : List (Str × Str) :=
  let results := args.map fun (n, e) => (n, ev e)
  let toRemove := results.filterMap fun (n, v) => if isDefault v then none else some n
  let newAtts := results.filterMap fun (n, v) => if isNone v || isDefault v then none else some (n, render v)
  newAtts ++ cur.filter fun (k, _) => !toRemove.contains k

/-- the text `cmdEndTagEndScope` writes for `tagContent` -/
def contentText (tc : Option (Bool × Val)) : Str :=
  match tc with
  | none => []
  | some (raw, v) => if raw then render v else htmlEscape false (render v)

def runDefine (pyEval : Str → Val) (orig : List (Str × Str)) : List DefineArg → Ctx → Bool → Ctx × Bool
  | [], c, found => (c, found)
  | a :: rest, c, found =>
    let c0 := { c with attrs := orig }
    let v := eval pyEval c0 a.expr
    if a.isLocal then
      let c1 := if found then c0 else c0.pushLocals
      runDefine pyEval orig rest (c1.setLocal a.name v) true
    else runDefine pyEval orig rest (c0.addGlobal a.name v) found

def step (pyEval : Str → Val) (P : List Cmd) (s : St) : Option St :=
  match P[s.pc]? with
  | none => none
  | some (.output t) => some { s with pc := s.pc + 1, out := s.out ++ t }
  | some (.startScope orig cur) =>
    some { s with pc := s.pc + 1, stack := .scope s.regs :: s.stack, regs := { orig := orig, cur := cur } }
  | some (.define args) =>
    let (c, found) := runDefine pyEval s.regs.orig args s.ctx false
    some { s with pc := s.pc + 1, ctx := c, regs := { s.regs with localVarsDefined := found } }
  | some (.cond e endIx) =>
    let c0 := { s.ctx with attrs := s.regs.orig }
    if truthy (eval pyEval c0 e) then some { s with pc := s.pc + 1, ctx := c0 }
    else some { s with pc := endIx, ctx := c0, regs := { s.regs with outputTag := false, tagContent := none } }
  | some (.rep v e endIx) =>
    match s.regs.repeatVar with
    | some (x :: xs) =>
      some { s with pc := s.pc + 1, ctx := (s.ctx.bumpRepeat v).setLocal v x,
                    regs := { s.regs with cur := s.repeatAttrsCopy, outputTag := true, tagContent := none, movePCForward := none,
                                          repeatVar := some xs } }
    | some [] =>
      match s.stack with
      | .attrsCopy a :: rest =>
        some { s with pc := endIx, ctx := s.ctx.removeRepeat.popLocals, stack := rest, repeatAttrsCopy := a,
                      regs := { s.regs with cur := s.repeatAttrsCopy, repeatVar := none, movePCBack := none, tagContent := none,
                                            outputTag := false, movePCForward := none } }
      | _ => none
    | none =>
      let c0 := { s.ctx with attrs := s.regs.orig }
      let r := eval pyEval c0 e
      if isDefault r then some { s with pc := s.pc + 1, ctx := c0 }
      else match seqItems r with
        | some (x :: xs) =>
          some { s with pc := s.pc + 1, ctx := c0.addRepeat v (xs.length + 1) x, stack := .attrsCopy s.repeatAttrsCopy :: s.stack,
                        repeatAttrsCopy := s.regs.cur,
                        regs := { s.regs with repeatVar := some xs, movePCBack := some s.pc } }
        | _ => some { s with pc := endIx, ctx := c0, regs := { s.regs with outputTag := false } }
  | some (.content replace raw e endIx) =>
    let c0 := { s.ctx with attrs := s.regs.orig }
    let r := eval pyEval c0 e
    if isNone r then
      some { s with pc := s.pc + 1, ctx := c0,
                    regs := { s.regs with outputTag := if replace then false else s.regs.outputTag, movePCForward := some endIx } }
    else if !isDefault r then
      some { s with pc := s.pc + 1, ctx := c0,
                    regs := { s.regs with outputTag := if replace then false else s.regs.outputTag, tagContent := some (raw, r),
                                          movePCForward := some endIx } }
    else some { s with pc := s.pc + 1, ctx := c0 }
  | some (.attributes args) =>
    let c0 := { s.ctx with attrs := s.regs.orig }
    some { s with pc := s.pc + 1, ctx := c0, regs := { s.regs with cur := applyAttributes (eval pyEval c0) args s.regs.cur } }
  | some (.omitTag e) =>
    let c0 := { s.ctx with attrs := s.regs.orig }
    let r := eval pyEval c0 e
    some { s with pc := s.pc + 1, ctx := c0,
                  regs := { s.regs with outputTag := if !isNone r && truthy r then false else s.regs.outputTag } }
  | some (.startTag tag singleton) =>
    let out := if s.regs.outputTag then s.out ++ tagAsText tag s.regs.cur (singleton && s.regs.tagContent.isNone) else s.out
    match s.regs.movePCForward with
    | some t => some { s with pc := t, out := out }
    | none => some { s with pc := s.pc + 1, out := out }
  | some (.endTag tag omitEnd singleton) =>
    let out1 := s.out ++ contentText s.regs.tagContent
    let out2 := if s.regs.outputTag && !omitEnd && !(singleton && s.regs.tagContent.isNone) then out1 ++ lit "</" ++ tag ++ [62] else out1
    match s.regs.movePCBack with
    | some b => some { s with pc := b, out := out2 }
    | none =>
      let c := if s.regs.localVarsDefined then s.ctx.popLocals else s.ctx
      match s.stack with
      | .scope r :: rest => some { s with pc := s.pc + 1, out := out2, ctx := c, regs := r, stack := rest }
      | _ => none

def exec (pyEval : Str → Val) (P : List Cmd) : Nat → St → Option St
  | 0, s => if s.pc = P.length then some s else none
  | k + 1, s => if s.pc = P.length then some s else
    match step pyEval P s with
    | some s' => exec pyEval P k s'
    | none => none

/-- `Template.expand`: output and the context afterwards -/
def expand (pyEval : Str → Val) (fuel : Nat) (t : List Node) (c : Ctx) : Option (Str × Ctx) :=
  (exec pyEval (compileList 0 t) fuel { ctx := c }).map fun s => (s.out, s.ctx)

/-! ## tree-walking semantics: TAL's order of operations -/

structure Body where
  out : Str
  ctx : Ctx

/-- `tal:content` / `tal:replace`: (context, output the tag?, substituted content, skip the children?) -/
def contentPhase (pyEval : Str → Val) (orig : List (Str × Str)) (c : Cmds) (ctx : Ctx) :
    Ctx × Bool × Option (Bool × Val) × Bool :=
  match c.content with
  | none => (ctx, true, none, false)
  | some (replace, raw, e) =>
    let c0 := { ctx with attrs := orig }
    let r := eval pyEval c0 e
    if isNone r then (c0, !replace, none, true)
    else if !isDefault r then (c0, !replace, some (raw, r), true)
    else (c0, true, none, false)

/-- `tal:attributes`: (context, the element's attributes as they will be written) -/
def attrPhase (pyEval : Str → Val) (orig : List (Str × Str)) (c : Cmds) (atts : List (Str × Str)) (ctx : Ctx) :
    Ctx × List (Str × Str) :=
  match c.attributes with
  | none => (ctx, atts)
  | some args =>
    let c0 := { ctx with attrs := orig }
    (c0, applyAttributes (eval pyEval c0) args atts)

/-- `tal:omit-tag`: (context, output the tag?) -/
def omitPhase (pyEval : Str → Val) (orig : List (Str × Str)) (c : Cmds) (outputTag : Bool) (ctx : Ctx) : Ctx × Bool :=
  match c.omitTag with
  | none => (ctx, outputTag)
  | some e =>
    let c0 := { ctx with attrs := orig }
    let r := eval pyEval c0 e
    (c0, if !isNone r && truthy r then false else outputTag)

/-- the part of an element after `define / condition / repeat`: content | replace, attributes,
    omit-tag, start tag, children or substituted content, end tag.  `kidsSem` is the semantics of
    the children (supplied by the mutual recursion below). -/
def bodySem (pyEval : Str → Val) (tag : Str) (atts orig : List (Str × Str)) (c : Cmds) (singleton noEnd : Bool)
    (kidsSem : Ctx → Str × Ctx) (ctx : Ctx) : Str × Ctx :=
  let cp := contentPhase pyEval orig c ctx
  let ap := attrPhase pyEval orig c atts cp.1
  let op := omitPhase pyEval orig c cp.2.1 ap.1
  let tagContent := cp.2.2.1
  let open_ := if op.2 then tagAsText tag ap.2 (singleton && tagContent.isNone) else []
  let inner := if cp.2.2.2 then (([] : Str), op.1) else kidsSem op.1
  let close := if op.2 && !noEnd && !(singleton && tagContent.isNone) then lit "</" ++ tag ++ [62] else []
  (open_ ++ inner.1 ++ contentText tagContent ++ close, inner.2)

/-- the iterations of a repeat after the first item has been bound -/
def repeatSem (v : Str) (body : Ctx → Str × Ctx) : List Val → Ctx → Str × Ctx
  | [], ctx => ([], ctx)
  | x :: xs, ctx =>
    let b1 := body ((ctx.bumpRepeat v).setLocal v x)
    let b2 := repeatSem v body xs b1.2
    (b1.1 ++ b2.1, b2.2)

/-- `tal:define`: (context, were local variables pushed?) -/
def definePhase (pyEval : Str → Val) (orig : List (Str × Str)) (c : Cmds) (ctx : Ctx) : Ctx × Bool :=
  match c.define with
  | some args => runDefine pyEval orig args ctx false
  | none => (ctx, false)

/-- `tal:condition`: (does the element survive?, context) -/
def condPhase (pyEval : Str → Val) (orig : List (Str × Str)) (c : Cmds) (ctx : Ctx) : Bool × Ctx :=
  match c.condition with
  | some e => let c0 := { ctx with attrs := orig }; (truthy (eval pyEval c0 e), c0)
  | none => (true, ctx)

/-- `tal:repeat` around a body -/
def repeatPhase (pyEval : Str → Val) (orig : List (Str × Str)) (c : Cmds) (body : Ctx → Str × Ctx) (ctx : Ctx) : Str × Ctx :=
  match c.repeat_ with
  | none => body ctx
  | some (v, e) =>
    let c0 := { ctx with attrs := orig }
    let r := eval pyEval c0 e
    if isDefault r then body c0
    else match seqItems r with
      | some (x :: xs) =>
        let b1 := body (c0.addRepeat v (xs.length + 1) x)
        let b2 := repeatSem v body xs b1.2
        (b1.1 ++ b2.1, b2.2.removeRepeat.popLocals)
      | _ => ([], c0)

mutual
def denote (pyEval : Str → Val) : Node → Ctx → Str × Ctx
  | .data s, ctx => (s, ctx)
  | .elem tag atts orig c singleton noEnd kids, ctx =>
    let dp := definePhase pyEval orig c ctx
    let cp := condPhase pyEval orig c dp.1
    let r : Str × Ctx :=
      if cp.1 then repeatPhase pyEval orig c (bodySem pyEval tag atts orig c singleton noEnd (denoteList pyEval kids)) cp.2
      else ([], cp.2)
    (r.1, if dp.2 then r.2.popLocals else r.2)
def denoteList (pyEval : Str → Val) : List Node → Ctx → Str × Ctx
  | [], ctx => ([], ctx)
  | n :: ns, ctx =>
    let r1 := denote pyEval n ctx
    let r2 := denoteList pyEval ns r1.2
    (r1.1 ++ r2.1, r2.2)
end

end Pyg.Tal
