import PygVerif.Model.Escape
/-!
# Model/Doc — document delivery

Mirrors `handlers/base.py: VFS_Real.copyto` (the `read(n)` loop), the Gopher+ document
framing of `gopherp.py: handle`, the HTTP response framing of `http.py: handle`
(GET vs HEAD), the MIME adjustment of each protocol and the text-to-WML conversion of
`wap.py: handlerwrite`.
-/
namespace Pyg

/-- the `while 1: data = rfile.read(n); if not len(data): break; fd.write(data)` loop:
    the list of blocks written.  `read(0)` returns `b""`, so `n = 0` copies nothing. -/
def chunks (n : Nat) (bs : Bytes) : List Bytes :=
  if h : n = 0 ∨ bs = [] then []
  else bs.take n :: chunks n (bs.drop n)
termination_by bs.length
decreasing_by
  have h1 : n ≠ 0 := fun e => h (Or.inl e)
  have h2 : bs ≠ [] := fun e => h (Or.inr e)
  have : 0 < bs.length := List.length_pos_iff.mpr h2
  simp [List.length_drop]; omega

/-- what the client receives from `copyto` -/
def copyto (n : Nat) (bs : Bytes) : Bytes := (chunks n bs).flatten

/-- Gopher+ document response: `+<size or -2>\r\n` then the body -/
def gplusDoc (size : Option Nat) (body : Bytes) : Bytes :=
  (43 :: (match size with | some n => toDec n | none => lit "-2")) ++ [13, 10] ++ body

/-- split a Gopher+ response at its first CRLF: (header line, body) -/
def splitCrlf : Bytes → Bytes × Bytes
  | [] => ([], [])
  | 13 :: 10 :: r => ([], r)
  | c :: r => let (h, b) := splitCrlf r; (c :: h, b)

inductive Method | get | head deriving DecidableEq, Repr

/-- HTTP/1.0 success response: status line, optional Last-Modified, Content-Type, blank line,
    then the body for GET only -/
def httpHeaders (lastModified : Option Str) (ctype : Str) : Bytes :=
  lit "HTTP/1.0 200 OK\r\n" ++
  (match lastModified with | some t => lit "Last-Modified: " ++ t ++ [13, 10] | none => []) ++
  lit "Content-Type: " ++ ctype ++ [13, 10, 13, 10]

def httpResp (m : Method) (lastModified : Option Str) (ctype : Str) (body : Bytes) : Bytes :=
  httpHeaders lastModified ctype ++ (match m with | .get => body | .head => [])

/-- `GopherEntry.populatefromfs`: the entry's MIME type from `mimetypes.guess_type` -/
def entryMime (guess : Option Str × Option Str) (defaultMime : Str) : Str :=
  match guess with
  | (_, some _) => lit "application/octet-stream"
  | (some m, none) => if m.isEmpty then defaultMime else m
  | (none, none) => defaultMime

def httpAdjust (m : Option Str) : Str :=
  match m with
  | none => lit "text/plain"
  | some t => if t = lit "application/gopher-menu" then lit "text/html" else t

def geminiAdjust (m : Option Str) : Str :=
  match m with
  | none => lit "text/plain"
  | some t => if t = lit "application/gopher-menu" then lit "text/gemini" else t

/-- WAP: (content type, needs text→WML conversion) -/
def wapAdjust (m : Option Str) : Str × Bool :=
  match m with
  | none => (lit "text/vnd.wap.wml", true)
  | some t =>
    if t = lit "text/plain" then (lit "text/vnd.wap.wml", true)
    else if t = lit "application/gopher-menu" then (lit "text/vnd.wap.wml", false)
    else (t, false)

/-! ## text → WML (`WAPProtocol.handlerwrite`) at the level of decoded lines -/

def paraBreak : Str := lit "</p>\n<p>"

def wmlLine (l : Str) : Str :=
  let r := rstrip l
  if r.isEmpty then paraBreak else htmlEscape true r ++ [10]

def wmlBody (ls : List Str) : Str := (ls.map wmlLine).flatten

/-- inverse of `html.escape(quote=True)` on its own output -/
def htmlUnescape : Str → Str
  | 38 :: 97 :: 109 :: 112 :: 59 :: r => 38 :: htmlUnescape r
  | 38 :: 108 :: 116 :: 59 :: r => 60 :: htmlUnescape r
  | 38 :: 103 :: 116 :: 59 :: r => 62 :: htmlUnescape r
  | 38 :: 113 :: 117 :: 111 :: 116 :: 59 :: r => 34 :: htmlUnescape r
  | 38 :: 35 :: 120 :: 50 :: 55 :: 59 :: r => 39 :: htmlUnescape r
  | c :: r => c :: htmlUnescape r
  | [] => []

/-- client-side reading of the WML body back into lines -/
def unwml : Nat → Str → List Str
  | 0, _ => []
  | _, [] => []
  | fuel + 1, s =>
    if isPrefixB paraBreak s then [] :: unwml fuel (s.drop paraBreak.length)
    else
      let l := takeUntil (· == 10) s
      htmlUnescape l :: unwml fuel ((dropUntil (· == 10) s).drop 1)

/-- split file bytes into `readline()` results (terminator kept) -/
def readlinesB : Nat → Bytes → List Bytes
  | 0, _ => []
  | _, [] => []
  | fuel + 1, bs =>
    let l := takeUntil (· == 10) bs
    let r := dropUntil (· == 10) bs
    match r with
    | [] => [l]
    | _ :: r' => (l ++ [10]) :: readlinesB fuel r'

end Pyg
