import PygVerif.Model.Selector
/-!
# Model/Entry — `gopherentry.py: GopherEntry`

Fields, `geturl`, `getinfoentry`, and the file-system population (`populatefromfs`,
`handleeaext`, `guesstype`) with library answers (stat, `mimetypes.guess_type`, sidecar file
contents) passed in as arguments.
-/
namespace Pyg

structure Entry where
  selector : Str
  type : Option Str := none
  name : Option Str := none
  host : Option Str := none
  port : Option Int := none
  mimetype : Option Str := none
  encodedmimetype : Option Str := none
  encoding : Option Str := none
  language : Option Str := none
  size : Option Nat := none
  mtime : Option Nat := none
  ctime : Option Nat := none
  num : Option Int := some 0
  gplus : Bool := false
  populated : Bool := false
  /-- extended attributes in insertion order (a Python dict) -/
  ea : List (Str × Str) := []
  deriving DecidableEq, Repr

structure ServerId where
  name : Str
  port : Nat
  deriving DecidableEq, Repr

def Entry.getea (e : Entry) (k : Str) : Option Str := (e.ea.find? (·.1 == k)).map (·.2)

/-- dict assignment: replace in place if the key exists, else append -/
def eaSet (ea : List (Str × Str)) (k v : Str) : List (Str × Str) :=
  if ea.any (·.1 == k) then ea.map fun kv => if kv.1 == k then (k, v) else kv else ea ++ [(k, v)]

/-- `gopherentry.getinfoentry` -/
def infoEntry (text : Str) : Entry :=
  { selector := lit "fake", name := some text, host := some (lit "(NULL)"), port := some 0,
    type := some (lit "i") }

/-- `entry.gettype("0")`: an entry without a type is a document, in the menu line and in its URL alike
    (before repo commit "an entry without a type is a document in its gopher:// URL too" the URL said `None`) -/
def pyStrOpt : Option Str → Str
  | none => lit "0"
  | some s => s

/-- `GopherEntry.geturl(defaulthost, defaultport)`; `none` = `UnicodeEncodeError` from quote -/
def Entry.geturl (e : Entry) (dhost : Str) (dport : Nat) : Option Str :=
  if isUrlSel e.selector then
    some (if e.selector.head? = some 47 then e.selector.drop 5 else e.selector.drop 4)
  else
    (quote (pyStrOpt e.type ++ e.selector)).map fun q =>
      lit "gopher://" ++ e.host.getD dhost ++ [58] ++
        (match e.port with | some p => toDecInt p | none => toDec dport) ++ [47] ++ q

/-- truthiness of `entry.gethost()` / `entry.getport()` in `not gethost() and not getport()` -/
def Entry.isLocal (e : Entry) : Bool :=
  (match e.host with | none => true | some h => h.isEmpty) &&
  (match e.port with | none => true | some p => p == 0)

/-- `re.match("(/|)URL:", selector)` -/
def startsUrl (s : Str) : Bool :=
  isPrefixB (lit "URL:") s || isPrefixB (lit "/URL:") s

/-- `re.match("(/|)URL:(.+)$", selector).group(2)`: the rest after `URL:`; `.+` needs at least
    one non-newline character and `$` tolerates one trailing `\n`.  `none` = no match
    (`AttributeError` in the renderers). -/
def urlTail (s : Str) : Option Str :=
  let r := if isPrefixB (lit "/URL:") s then s.drop 5 else s.drop 4
  let body := takeUntil (· == 10) r
  let after := r.drop body.length
  if body.isEmpty then none
  else if after == [] || after == [10] then some body
  else none

/-! ## population from the file system -/

inductive Kind | dir | file | other deriving DecidableEq, Repr

structure StatRes where
  kind : Kind
  size : Nat
  mtime : Nat
  ctime : Nat
  deriving DecidableEq, Repr

/-- first matching rule of `[GopherEntry] mapping`; the regexes are evaluated by the caller
    (library oracle) and passed as the list of (matched?, type) in configured order -/
def guessType (rules : List (Bool × Str)) : Str :=
  match rules.find? (·.1) with
  | some (_, t) => t
  | none => lit "0"

/-- `x = x or y` on optional naturals: 0 counts as unset -/
def orNat (a : Option Nat) (b : Nat) : Option Nat :=
  match a with
  | some n => if n = 0 then some b else some n
  | none => some b

def orStr (a : Option Str) (b : Option Str) : Option Str :=
  match a with
  | some s => if s.isEmpty then b else some s
  | none => b

/-- `handleeaext`: for each configured (extension, block) whose block is not yet set and whose
    sidecar file could be read, set the block to the right-stripped lines joined with `\n`.
    `read ext` is the sidecar's `readlines(20480)` result, `none` if it cannot be opened. -/
def handleEaExt (eaexts : List (Str × Str)) (read : Str → Option (List Str)) (e : Entry) : Entry :=
  eaexts.foldl (fun e (ext, blk) =>
    if e.ea.any (·.1 == blk) then e
    else match read ext with
      | none => e
      | some ls => { e with ea := eaSet e.ea blk (joinWith 10 (ls.map rstrip)) }) e

/-- `populatefromfs` given the stat result, the `guess_type` answer, the mapping verdicts for
    the resulting MIME type and the sidecar reader -/
def populate (eaexts : List (Str × Str)) (defaultMime : Str) (st : Option StatRes)
    (guess : Option Str × Option Str) (typeOf : Str → Str) (read : Str → Option (List Str))
    (e : Entry) : Entry :=
  if e.populated then e
  else if !(e.host.isNone && e.port.isNone) then e
  else match st with
  | none => e
  | some s =>
    let e1 := { e with populated := true, gplus := true,
                       ctime := orNat e.ctime s.ctime, mtime := orNat e.mtime s.mtime,
                       name := orStr e.name (some (basename e.selector)) }
    if s.kind == .dir then
      handleEaExt eaexts read
        { e1 with type := orStr e1.type (some (lit "1")),
                  mimetype := orStr e1.mimetype (some (lit "application/gopher-menu")) }
    else
      let e2 := handleEaExt eaexts read e1
      let e3 := { e2 with size := orNat e2.size s.size }
      let e4 :=
        match guess with
        | (m, some enc) =>
          if enc.isEmpty then { e3 with mimetype := orStr e3.mimetype m }
          else { e3 with mimetype := orStr e3.mimetype (some (lit "application/octet-stream")),
                         encoding := orStr e3.encoding (some enc),
                         encodedmimetype := orStr e3.encodedmimetype m }
        | (m, none) => { e3 with mimetype := orStr e3.mimetype m }
      let e5 := { e4 with mimetype := orStr e4.mimetype (some defaultMime) }
      { e5 with type := orStr e5.type (some (typeOf (e5.mimetype.getD []))) }

end Pyg
