import PygVerif.Model.Tal
/-!
# Model/Metal — METAL macros: `define-macro`, `use-macro`, `define-slot`, `fill-slot`

simpleTAL implements macros at run time: a macro or a slot filler is a sub-range of the
command list, `use-macro` records the fillers of its element in a slot map and jumps to the
element's end tag, where the macro range is executed in a pushed program frame; inside,
`define-slot` looks its name up in that map and, if present, executes the filler's range
instead of its own element.  For macro expressions that name a macro statically (a path into
a table of compiled macros, as templates do) the document this produces is that of a tree
substitution:

* a `use-macro` element is replaced by the macro's own element (its tag included, the
  `metal:` attributes gone), expanded with the fillers found below the `use-macro` element;
  the `use-macro` element's own tag and content are not output;
* a `define-slot` element whose name has a filler is replaced by the filler element (tag
  included); otherwise it is an ordinary element;
* `define-macro` and `fill-slot` elements met outside these roles are ordinary elements.

`expandMetal` is that substitution, from a tree with METAL annotations to a plain TAL tree
(`Tal.Node`), on which the compiler, the machine and the denotation of `Model/Tal` — and the
theorems about them — apply unchanged.  That simpleTAL's run-time mechanism produces the same
document as this substitution is tied by differential correspondence (harness `talgen`,
property C17), not proved: the program stack is not in the model.
-/
namespace Pyg.Tal

inductive MNode
  | data (s : Str)
  | elem (tag : Str) (atts orig : List (Str × Str)) (cmds : Cmds) (singleton noEnd : Bool)
      (useMacro defineSlot fillSlot : Option Str) (kids : List MNode)

mutual
/-- the fillers below a `use-macro` element: `fill-slot` elements, not looking inside nested
    `use-macro` elements (those own their fillers); first filler of a name wins (a second one
    is a compile error in simpleTAL) -/
def fillers : MNode → List (Str × MNode)
  | .data _ => []
  | .elem tag atts orig c sg ne um ds fs kids =>
    match um with
    | some _ => []
    | none =>
      match fs with
      | some n => [(n, .elem tag atts orig c sg ne um ds fs kids)]
      | none => fillersList kids
def fillersList : List MNode → List (Str × MNode)
  | [] => []
  | k :: ks => fillers k ++ fillersList ks
end

def slotLookup (slots : List (Str × MNode)) (n : Str) : Option MNode := (slots.find? (·.1 == n)).map (·.2)

mutual
/-- macro expansion; `fuel` bounds macro-in-macro and filler-in-slot nesting -/
def expandMetal (macros : List (Str × MNode)) : Nat → List (Str × MNode) → MNode → List Node
  | _, _, .data s => [.data s]
  | 0, _, .elem .. => []
  | fuel + 1, slots, .elem tag atts orig c sg ne um ds fs kids =>
    match um with
    | some m =>
      (match slotLookup macros m with
       | some body => expandMetal macros fuel (fillersList kids) (stripUse body)
       | none => [])                                   -- the expression gives None: nothing is output
    | none =>
      match ds.bind (slotLookup slots) with
      | some filler => expandMetal macros fuel slots (stripSlot filler)
      | none => [.elem tag atts orig c sg ne (expandMetalList macros fuel slots kids)]
def expandMetalList (macros : List (Str × MNode)) : Nat → List (Str × MNode) → List MNode → List Node
  | _, _, [] => []
  | fuel, slots, k :: ks => expandMetal macros fuel slots k ++ expandMetalList macros fuel slots ks
/-- the macro's own element is an ordinary element when it is expanded at a use site -/
def stripUse : MNode → MNode
  | .data s => .data s
  | .elem tag atts orig c sg ne _ ds fs kids => .elem tag atts orig c sg ne none ds fs kids
/-- a filler standing in for a slot is an ordinary element (it is not itself a slot to fill) -/
def stripSlot : MNode → MNode
  | .data s => .data s
  | .elem tag atts orig c sg ne um _ fs kids => .elem tag atts orig c sg ne um none fs kids
end

mutual
/-- a plain TAL tree as a METAL tree without annotations -/
def embed : Node → MNode
  | .data s => .data s
  | .elem tag atts orig c sg ne kids => .elem tag atts orig c sg ne none none none (embedList kids)
def embedList : List Node → List MNode
  | [] => []
  | k :: ks => embed k :: embedList ks
end

/-- expansion of a whole template -/
def expandTemplate (macros : List (Str × MNode)) (fuel : Nat) (t : List MNode) : List Node :=
  expandMetalList macros fuel [] t

end Pyg.Tal
