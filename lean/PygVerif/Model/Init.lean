/-!
# Model/Init — start-up order and privilege dropping

Mirrors `initialization.py: initialize` (order of `init_ssl_context`, `get_server`,
`init_security`) and `init_security` statement by statement.  A *trace* is the ordered
list of privileged or order-relevant calls; a fault at position `i` makes the `i`-th call
raise, which ends the trace there with `raised = true` (no `try` surrounds these calls).
-/
namespace Pyg.Init

inductive Call
  | loadKeys      -- SSLContext.load_cert_chain
  | bind          -- socket.bind of the listening socket
  | getpwnam | getgrnam
  | chroot        -- os.chroot(<configured root>)
  | chdirRoot     -- os.chdir("/")
  | setgroups     -- os.setgroups(())
  | setregid      -- os.setregid(gid, gid) with the looked-up gid
  | setreuid      -- os.setreuid(uid, uid) with the looked-up uid
  | other         -- any other substituted call, or one of the above with unexpected arguments
  deriving DecidableEq, Repr

structure Cfg where
  tls : Bool
  chroot : Bool
  setuid : Bool
  setgid : Bool
  deriving DecidableEq, Repr

structure Row where
  cfg : Cfg
  fault : Option Nat
  trace : List Call
  raised : Bool
  /-- `config.get("pygopherd","root") == "/"` after a successful start-up -/
  rootSlash : Bool
  deriving DecidableEq, Repr

/-- the calls `initialize` makes when nothing fails -/
def plan (c : Cfg) : List Call :=
  (if c.tls then [.loadKeys] else []) ++ [.bind] ++
  (if c.setuid then [.getpwnam] else []) ++ (if c.setgid then [.getgrnam] else []) ++
  (if c.chroot then [.chroot, .chdirRoot] else []) ++
  (if c.setuid || c.setgid then [.setgroups] else []) ++
  (if c.setgid then [.setregid] else []) ++ (if c.setuid then [.setreuid] else [])

def run (c : Cfg) (fault : Option Nat) : Row :=
  match fault with
  | none => { cfg := c, fault := none, trace := plan c, raised := false, rootSlash := c.chroot }
  | some i =>
    if i < (plan c).length then
      { cfg := c, fault := some i, trace := (plan c).take (i + 1), raised := true, rootSlash := false }
    else { cfg := c, fault := some i, trace := plan c, raised := false, rootSlash := c.chroot }

def allCfgs : List Cfg :=
  [false, true].flatMap fun t => [false, true].flatMap fun r => [false, true].flatMap fun u =>
    [false, true].map fun g => { tls := t, chroot := r, setuid := u, setgid := g }

/-- failure classes the executed table injects at every position (`harness/c19_trace.py: CLASSES`):
    a private `OSError` subclass, `PermissionError`, `FileNotFoundError`, `KeyError`, `ssl.SSLError`,
    `RuntimeError`.  The model's behaviour does not depend on the class: nothing in the start-up
    path may catch any of them. -/
def nClasses : Nat := 8

/-- the complete behaviour table: every configuration, no fault and every (fault class, fault position);
    each row is tagged with its fault class (0 for the fault-free row) -/
def table : List (Nat × Row) :=
  allCfgs.flatMap fun c => (0, run c none) ::
    (List.range nClasses).flatMap fun k => (List.range (plan c).length).map fun i => (k, run c (some i))

/-- working directories the executed table starts the server from besides the source tree
    (`harness/c19_trace.py`): the document root, a directory below it, a sibling whose path
    starts with the root's path (`<root>-staging`), a directory below such a sibling -/
def nStartDirs : Nat := 7

/-- start-up does not depend on where the server is started from: for every chroot configuration
    (without TLS) the fault-free row, once per start directory -/
def cwdTable : List Row :=
  (allCfgs.filter fun c => c.chroot && !c.tls).flatMap fun c => List.replicate nStartDirs (run c none)

/-- `a` occurs before every occurrence of `b` (vacuous when `b` does not occur) -/
def before (a b : Call) : List Call → Bool
  | [] => true
  | x :: xs => if x = b then false else if x = a then true else before a b xs

/-- `b` immediately follows the first `a` (false when `a` does not occur) -/
def followedBy (a b : Call) : List Call → Bool
  | [] => false
  | x :: xs => if x = a then xs.head? = some b else followedBy a b xs

end Pyg.Init
