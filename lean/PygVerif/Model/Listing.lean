import PygVerif.Model.Gophermap
/-!
# Model/Listing — a whole directory body per protocol (`writedir` minus start/end boilerplate)
-/
namespace Pyg

inductive View
  | gopher            -- RFC 1436 menu (also a Gopher+ `+` request for a directory)
  | gplusDir          -- Gopher+ `$`: all blocks per entry
  | http | wap | gemini | spartan
  deriving DecidableEq, Repr

def View.groksAbstract : View → Bool
  | .gplusDir => true
  | _ => false

structure RenderCfg where
  srv : ServerId
  iconmapping : List (Str × Str)
  waptop : Str
  accesskeys : Str
  queryPrefix : Str
  admin : Str
  /-- formatted modification dates by mtime (time formatting is an oracle) -/
  modDate : Nat → Option Str
  abstractHeaders : Bool
  abstractEntries : Str

/-- render the walked entries one after the other; WAP threads its two counters -/
def renderSeq (c : RenderCfg) (v : View) : WapState → List Entry → Option Str
  | _, [] => some []
  | st, e :: es =>
    match v with
    | .wap =>
      (linkUrl c.srv e).bind fun url =>
        let (segs, st') := wapRowSegs c.waptop c.accesskeys st e url
        (renderSeq c v st' es).map fun r => emit segs ++ r
    | _ =>
      let one : Option Str :=
        match v with
        | .gopher => gopher0Line c.srv e
        | .gplusDir => gplusBlocks c.srv c.admin ((e.mtime.bind c.modDate)) e
        | .http => httpRow c.srv c.iconmapping e
        | .gemini => geminiLine c.srv c.queryPrefix e
        | .spartan => spartanLine c.srv e
        | .wap => none
      match one, renderSeq c v st es with
      | some a, some r => some (a ++ r)
      | _, _ => none

/-- the body of a directory response between the protocol's start and end strings -/
def listingBody (c : RenderCfg) (v : View) (gplusRequest : Bool) (self : Entry) (es : List Entry) : Option Str :=
  let groks := v.groksAbstract || gplusRequest
  let es' := if gplusRequest then es.map gplusFix else es
  renderSeq c v {} (walk c.abstractHeaders (doAbstracts c.abstractEntries groks) self es')

end Pyg
