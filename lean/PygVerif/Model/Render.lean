import PygVerif.Model.Entry
/-!
# Model/Render — per-protocol rendering of entries and directories

Mirrors `renderobjinfo`, `renderdirstart/end`, `filenotfound`, `writedir`, `renderabstract`
of `rfc1436.py, gopherp.py, http.py, wap.py, gemini.py, spartan.py`.  HTML and WML are
produced as segment lists (`Seg.lit` = server-chosen text, `Seg.esc d` = data `d` emitted
through `html.escape`), so that the skeleton theorems of C13 talk about the very
definitions the correspondence check runs.  `none` = the Python raises (TypeError on a
missing name, AttributeError on an empty `URL:` tail, UnicodeEncodeError in `quote`).
-/
namespace Pyg

inductive Seg
  | lit (s : Str)
  | esc (d : Str)
  /-- a decimal counter (`%d`) -/
  | num (n : Nat)
  deriving DecidableEq, Repr

def emit : List Seg → Str
  | [] => []
  | .lit s :: r => s ++ emit r
  | .esc d :: r => htmlEscape true d ++ emit r
  | .num n :: r => toDec n ++ emit r

/-! ## Gopher (RFC 1436) -/

def hostOf (srv : ServerId) (e : Entry) : Str := e.host.getD srv.name
def portOf (srv : ServerId) (e : Entry) : Str :=
  match e.port with | some p => toDecInt p | none => toDec srv.port

/-- `GopherProtocol.renderobjinfo` -/
def gopher0Line (srv : ServerId) (e : Entry) : Option Str :=
  match e.name with
  | none => none
  | some nm =>
    some (e.type.getD (lit "0") ++ menuField nm ++ [9] ++ menuField e.selector ++ [9] ++ menuField (hostOf srv e) ++ [9] ++ portOf srv e ++
      (if e.gplus then lit "\t+\r\n" else lit "\r\n"))

/-! ## link target shared by HTTP / WAP / Gemini / Spartan -/

/-- the `url` computed at the top of `renderobjinfo` (HTTP flavour: `quote(str)`) -/
def linkUrl (srv : ServerId) (e : Entry) : Option Str :=
  if startsUrl e.selector then urlTail e.selector
  else if e.isLocal then (quote e.selector).map fun q => if q.isEmpty then [47] else q   -- `quote(selector) or "/"`
  else e.geturl srv.name srv.port

/-- Gemini / Spartan flavour: empty quoted selector becomes "/", type 7 gets the query prefix -/
def gemUrl (srv : ServerId) (queryPrefix : Option Str) (e : Entry) : Option Str :=
  if startsUrl e.selector then urlTail e.selector
  else if e.isLocal then
    (quote e.selector).map fun q =>
      let u : Str := if q.isEmpty then [47] else q
      match queryPrefix with
      | some qp => if e.type == some (lit "7") then qp ++ u else u
      | none => u
  else e.geturl srv.name srv.port

/-! ## HTTP -/

def iconFor (iconmapping : List (Str × Str)) (e : Entry) : Str :=
  match e.type with
  | none => lit "generic.gif"
  | some t => ((iconmapping.find? (·.1 == t)).map (·.2)).getD (lit "generic.gif")

/-- `re.search("/.+$", mimetype)` then `[1:]`: text after the first `/` that is followed by at
    least one non-newline character running to the end -/
def mimeSubtype : Str → Option Str
  | [] => none
  | c :: cs =>
    if c == 47 then
      let body := takeUntil (· == 10) cs
      let after := cs.drop body.length
      if !body.isEmpty && (after == [] || after == [10]) then some body
      else mimeSubtype cs
    else mimeSubtype cs

def isInfoOrSearch (e : Entry) : Bool := e.type == some (lit "i") || e.type == some (lit "7")

/-- `HTTPProtocol.getrenderstr` after the image tag -/
def httpRowTail (e : Entry) (url : Str) : List Seg :=
  (if !isInfoOrSearch e then [.lit (lit "<A HREF=\""), .esc url, .lit (lit "\">")] else []) ++
  [.lit (lit "<TT>"), .esc (e.name.getD e.selector), .lit (lit "</TT>")] ++
  (if !isInfoOrSearch e then [.lit (lit "</A>")] else []) ++
  (if e.type == some (lit "7") then
    [.lit (lit "<BR><FORM METHOD=\"GET\" ACTION=\""), .esc url,
     .lit (lit "\"><INPUT TYPE=\"text\" NAME=\"searchrequest\" SIZE=\"30\"><INPUT TYPE=\"submit\" NAME=\"Submit\" VALUE=\"Submit\"></FORM>")]
   else []) ++
  [.lit (lit "</TD><TD><FONT SIZE=\"-2\">")] ++
  (match e.mimetype with
   | some m => if m.isEmpty then [] else
       (match mimeSubtype m with | some s => [.esc s] | none => [])
   | none => []) ++
  [.lit (lit "</FONT></TD></TR>\n")]

/-- `getimgtag` + the cell opening; the icon file name (from the configured mapping) is its
    own literal segment -/
def httpRowHead (iconmapping : List (Str × Str)) (e : Entry) : List Seg :=
  [.lit (lit "<TR><TD><IMG ALT=\" * \" SRC=\"/PYGOPHERD-HTTPPROTO-ICONS/"), .lit (iconFor iconmapping e),
   .lit (lit "\" WIDTH=\"20\" HEIGHT=\"22\" BORDER=\"0\"></TD>\n<TD>&nbsp;")]

/-- `HTTPProtocol.getrenderstr` -/
def httpRowSegs (iconmapping : List (Str × Str)) (e : Entry) (url : Str) : List Seg :=
  httpRowHead iconmapping e ++ httpRowTail e url

def httpRow (srv : ServerId) (iconmapping : List (Str × Str)) (e : Entry) : Option Str :=
  (linkUrl srv e).map fun url => emit (httpRowSegs iconmapping e url)

/-- `HTTPProtocol.filenotfound` body (after the headers) -/
def httpErrorSegs (msg : Str) : List Seg :=
  [.lit (lit "<!DOCTYPE HTML PUBLIC \"-//W3C//DTD HTML 4.0 Transitional//EN\" \"http://www.w3.org/TR/REC-html40/loose.dtd\">\n<HTML><HEAD><TITLE>Selector Not Found</TITLE>\n        <H1>Selector Not Found</H1>\n        <TT>"),
   .esc msg, .lit (lit "</TT><HR>Pygopherd</BODY></HTML>\n")]

/-- `HTTPProtocol.renderdirstart` without the configurable page topper (`nameOpt` = the
    directory entry's name when truthy) -/
def httpDirStartSegs (nameOpt : Option Str) (topper : List Seg) : List Seg :=
  [.lit (lit "<!DOCTYPE HTML PUBLIC \"-//W3C//DTD HTML 4.0 Transitional//EN\" \"http://www.w3.org/TR/REC-html40/loose.dtd\">\n<HTML><HEAD><TITLE>Gopher")] ++
  (match nameOpt with | some n => [.lit (lit ": "), .esc n] | none => []) ++
  [.lit (lit "</TITLE></HEAD><BODY>")] ++ topper ++ [.lit (lit "<H1>Gopher")] ++
  (match nameOpt with | some n => [.lit (lit ": "), .esc n] | none => []) ++
  [.lit (lit "</H1><TABLE WIDTH=\"100%\" CELLSPACING=\"1\" CELLPADDING=\"0\">")]

/-- `HTMLURLHandler.write`: the redirect page (the URL is escaped in all four places) -/
def urlRedirectSegs (url : Str) : List Seg :=
  [.lit (lit "<HTML><HEAD>\n<META HTTP-EQUIV=\"refresh\" content=\"5;URL="),
   .esc url,
   .lit (lit "\"></HEAD><BODY>\n\n        You are following a link from gopher to a website.  You will be\n        automatically taken to the web site shortly.  If you do not get\n        sent there, please click <A HREF=\""),
   .esc url,
   .lit (lit "\">here</A> to go to the web site.\n        <P>\n        The URL linked is:\n        <P><A HREF=\""),
   .esc url,
   .lit (lit "\">"),
   .esc url,
   .lit (lit "</A><P>\n        Thanks for using gopher!\n        <P>\n        Document generated by pygopherd handlers.url.HTMLURLHandler\n        </BODY></HTML>")]

/-! ## WAP / WML -/

structure WapState where
  accesskeyidx : Nat := 0
  postfieldidx : Nat := 0
  deriving DecidableEq, Repr

/-- `WAPProtocol.getrenderstr` (url already computed by `linkUrl`) -/
def wapRowSegs (waptop accesskeys : Str) (st : WapState) (e : Entry) (url0 : Str) :
    List Seg × WapState :=
  let url := if url0.head? = some 47 then waptop ++ url0 else url0
  let link := !isInfoOrSearch e
  let (open_, st1) :=
    if link then
      if st.accesskeyidx < accesskeys.length then
        let k := [accesskeys.getD st.accesskeyidx 0]
        ([Seg.lit k, .lit (lit " <a accesskey=\""), .lit k, .lit (lit "\" href=\""), .esc url, .lit (lit "\">")],
         { st with accesskeyidx := st.accesskeyidx + 1 })
      else ([Seg.lit (lit "<a href=\""), .esc url, .lit (lit "\">")], st)
    else ([], st)
  let body := [Seg.esc (e.name.getD e.selector)]
  let close := if link then [Seg.lit (lit "</a>")] else []
  let search :=
    if e.type == some (lit "7") then
      [Seg.lit (lit "<br/>\n  <input name=\"sr"), .num st1.postfieldidx,
       .lit (lit "\"/>\n<anchor>Go\n  <go method=\"get\" href=\""),
       .esc url,
       .lit (lit "\">\n    <postfield name=\"searchrequest\" value=\"$(sr"), .num st1.postfieldidx,
       .lit (lit ")\"/>\n  </go>\n</anchor>\n")]
    else []
  (open_ ++ body ++ close ++ search ++ [.lit (lit "<br/>\n")],
   { st1 with postfieldidx := st1.postfieldidx + 1 })

def wmlHeader : Str :=
  lit "<?xml version=\"1.0\"?>\n<!DOCTYPE wml PUBLIC \"-//WAPFORUM//DTD WML 1.1//EN\"\n\"http://www.wapforum.org/DTD/wml_1.1.xml\">\n<wml>\n"

/-- `WAPProtocol.filenotfound` body -/
def wapErrorSegs (msg : Str) : List Seg :=
  [.lit (wmlHeader ++ lit "<card id=\"index\" title=\"404 Error\" newcontext=\"true\">\n<p><b>Gopher Error</b></p><p>\n"),
   .esc msg, .lit (lit "\n</p>\n</card>\n</wml>\n")]

/-- `WAPProtocol.renderdirstart`: the title is escaped twice in the attribute, once... as written -/
def wapDirStartSegs (nameOpt : Option Str) : List Seg :=
  let title : Str := match nameOpt with | some n => htmlEscape true n | none => lit "Gopher"
  [.lit (wmlHeader ++ lit "<card id=\"index\" title=\""), .esc title,
   .lit (lit "\" newcontext=\"true\">\n<p>\n<b>"), .esc title, .lit (lit "</b><br/>\n")]

/-- text → WML page (`handlerwrite`): escaped lines between fixed markup -/
def wapTextSegs (lines : List Str) : List Seg :=
  [.lit (wmlHeader ++ lit "<card id=\"index\" title=\"Text File\" newcontext=\"true\">\n<p>\n")] ++
  (lines.map fun l =>
    let r := rstrip l
    if r.isEmpty then [Seg.lit (lit "</p>\n<p>")] else [Seg.esc r, Seg.lit [10]]).flatten ++
  [.lit (lit "</p>\n</card>\n</wml>\n")]

/-! ## Gemini / Spartan -/

/-- `description.encode(errors="surrogateescape").decode(errors="backslashreplace")`:
    an escaped byte U+DCxx becomes the four characters `\xNN` (lower-case hex) -/
def hexLower (n : Nat) : Nat := if n < 10 then 48 + n else 87 + n
def backslashReplace : Str → Str
  | [] => []
  | c :: cs =>
    if 0xDC80 ≤ c ∧ c ≤ 0xDCFF then
      let b := c - 0xDC00
      92 :: 120 :: hexLower (b / 16) :: hexLower (b % 16) :: backslashReplace cs
    else c :: backslashReplace cs

def geminiLine (srv : ServerId) (queryPrefix : Str) (e : Entry) : Option Str :=
  (gemUrl srv (some queryPrefix) e).map fun url =>
    let d := backslashReplace (e.name.getD [])
    if e.type == some (lit "i") then d ++ [10] else lit "=> " ++ url ++ [32] ++ d ++ [10]

def spartanLine (srv : ServerId) (e : Entry) : Option Str :=
  (gemUrl srv none e).map fun url =>
    let d := backslashReplace (e.name.getD [])
    if e.type == some (lit "i") then d ++ [10]
    else if e.type == some (lit "7") then lit "=: " ++ url ++ [32] ++ d ++ [10]
    else lit "=> " ++ url ++ [32] ++ d ++ [10]

/-! ## Gopher+ blocks -/

/-- `getblock` for an extended attribute: `+NAME:` then every line indented by one space -/
def eaBlock (k v : Str) : Str :=
  [43] ++ k ++ lit ":\r\n" ++ ((splitlines v).map fun l => [32] ++ l ++ [13, 10]).flatten

def viewsBlock (e : Entry) : Str :=
  match e.mimetype with
  | none => []
  | some m =>
    if m.isEmpty then [] else
    lit "+VIEWS:\r\n " ++ m ++
      (match e.language with | some l => if l.isEmpty then [] else [32] ++ l | none => []) ++ [58] ++
      (match e.size with | some n => lit " <" ++ toDec (n / 1024) ++ lit "k>" | none => []) ++ [13, 10]

/-- `+ADMIN` block; the formatted modification date is an oracle string (time formatting) -/
def adminBlock (admin : Str) (modDate : Option Str) : Str :=
  lit "+ADMIN:\r\n Admin: " ++ admin ++ [13, 10] ++
  (match modDate with | some d => lit " Mod-Date: " ++ d ++ [13, 10] | none => [])

/-- `GopherPlusProtocol.renderobjinfo` (info / directory form): all blocks.  The in-place
    rewrite of the MIME type for Gopher+ menus happens first. -/
def gplusFix (e : Entry) : Entry :=
  if e.mimetype == some (lit "application/gopher-menu") && e.gplus then
    { e with mimetype := some (lit "application/gopher+-menu") } else e

def gplusBlocks (srv : ServerId) (admin : Str) (modDate : Option Str) (e0 : Entry) : Option Str :=
  let e := gplusFix e0
  (gopher0Line srv e).map fun info =>
    (if e.ea.any (·.1 == lit "INFO") then eaBlock (lit "INFO") ((e.getea (lit "INFO")).getD [])
     else lit "+INFO: " ++ info) ++
    (if e.ea.any (·.1 == lit "ADMIN") then eaBlock (lit "ADMIN") ((e.getea (lit "ADMIN")).getD [])
     else adminBlock admin (if e.mtime.getD 0 == 0 then none else modDate)) ++
    (if e.ea.any (·.1 == lit "VIEWS") then eaBlock (lit "VIEWS") ((e.getea (lit "VIEWS")).getD [])
     else viewsBlock e) ++
    (e.ea.map fun (k, v) => eaBlock k v).flatten

/-! ## abstracts and the directory walk (`BaseGopherProtocol.writedir`) -/

/-- which abstract lines does `writedir` add? -/
def doAbstracts (abstractEntries : Str) (groks : Bool) : Bool :=
  abstractEntries == lit "always" || (abstractEntries == lit "unsupported" && !groks)

/-- the sequence of entries `writedir` renders, in order: optional header abstract lines, then
    for each entry the entry itself followed by its abstract lines -/
def walk (abstractHeaders : Bool) (doAbs : Bool) (self : Entry) (es : List Entry) : List Entry :=
  (if abstractHeaders then
     (match self.getea (lit "ABSTRACT") with
      | some a => if a.isEmpty then [] else (splitlines a).map infoEntry
      | none => [])
   else []) ++
  (es.map fun e =>
    e :: (if doAbs then
            (match e.getea (lit "ABSTRACT") with
             | some a => if a.isEmpty then [] else (splitlines a).map infoEntry
             | none => [])
          else [])).flatten

end Pyg
