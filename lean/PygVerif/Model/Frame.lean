import PygVerif.Model.Proto
import PygVerif.Model.Doc
import PygVerif.Model.Render
/-!
# Model/Frame — one response per request: the framing each protocol puts around a handler outcome

Mirrors the `try/except` skeleton of the five `handle()` bodies with the handler chain's
result as an argument (`notFound msg` for `FileNotFound`, `ioError msg` for an `IOError`
raised while preparing, `listing rows`, `document …`), plus the Gemini input / redirect /
bad-request answers.  `respond` is total: every outcome yields exactly one byte string.
Validators `wf…` state what "syntactically valid for the protocol" means here.
-/
namespace Pyg

inductive HOutcome
  | notFound (msg : Str)
  | ioError (msg : Str)
  /-- a directory: the rendered rows (already protocol-specific bytes) and page start/end -/
  | listing (start rows fin : Bytes)
  /-- a document: MIME type as the protocol adjusts it, optional size, last-modified text, body -/
  | document (ctype : Str) (size : Option Nat) (lastMod : Option Str) (body : Bytes)
  /-- Gopher+ `!`: the attribute blocks of the item -/
  | info (blocks : Bytes)
  deriving Repr

/-- CR and LF runs collapsed to one space (`re.sub("[\r\n]+", " ", meta)`) -/
def collapseAux : Bool → Str → Str
  | _, [] => []
  | inBreak, c :: cs =>
    if c == 13 || c == 10 then (if inBreak then collapseAux true cs else 32 :: collapseAux true cs)
    else c :: collapseAux false cs

def collapseCrLf (s : Str) : Str := collapseAux false s

def statusLine (code : Str) (mt : Str) : Bytes := code ++ [32] ++ collapseCrLf mt ++ [13, 10]

inductive Wire | gopher | gopherp | http | wap | gemini | spartan deriving DecidableEq, Repr

def Wire.ofProto : Proto → Wire
  | .gopher | .sgopher => .gopher
  | .gopherp | .sgopherp => .gopherp
  | .http | .https => .http
  | .wap => .wap
  | .gemini => .gemini
  | .spartan => .spartan

/-- the response of protocol `w` for a handler outcome.  `enc` stands for
    `.encode(errors=…)` of text the protocol generates (identity on the model's byte/str lists). -/
def respond (w : Wire) (admin : Str) (head : Bool) (o : HOutcome) : Bytes :=
  match w, o with
  | .gopher, .notFound m | .gopher, .ioError m => [51] ++ menuField m ++ lit "\t\terror.host\t1\r\n"
  | .gopher, .listing s r f => s ++ r ++ f
  | .gopher, .document _ _ _ b => b
  | .gopher, .info b => b
  | .gopherp, .notFound m | .gopherp, .ioError m => lit "--2\r\n1 " ++ admin ++ [13, 10] ++ m ++ [13, 10]
  | .gopherp, .listing s r f => lit "+-2\r\n" ++ s ++ r ++ f
  | .gopherp, .document _ sz _ b => gplusDoc sz b
  | .gopherp, .info b => lit "+-2\r\n" ++ b
  | .http, .notFound m | .http, .ioError m =>
    lit "HTTP/1.0 404 Not Found\r\nContent-Type: text/html\r\n\r\n" ++ emit (httpErrorSegs m)
  | .http, .listing s r f => httpResp (if head then .head else .get) none (lit "text/html") (s ++ r ++ f)
  | .http, .document ct _ lm b => httpResp (if head then .head else .get) lm ct b
  | .http, .info b => b
  | .wap, .notFound m | .wap, .ioError m =>
    lit "HTTP/1.0 200 Not Found\r\nContent-Type: text/vnd.wap.wml\r\n\r\n" ++ emit (wapErrorSegs m)
  | .wap, .listing s r f => httpResp (if head then .head else .get) none (lit "text/vnd.wap.wml") (s ++ r ++ f)
  | .wap, .document ct _ lm b => httpResp (if head then .head else .get) lm ct b
  | .wap, .info b => b
  | .gemini, .notFound m | .gemini, .ioError m => statusLine (lit "51") m
  | .gemini, .listing s r f => statusLine (lit "20") (lit "text/gemini") ++ s ++ r ++ f
  | .gemini, .document ct _ _ b => statusLine (lit "20") ct ++ b
  | .gemini, .info b => b
  | .spartan, .notFound m => statusLine (lit "4") m
  | .spartan, .ioError m => statusLine (lit "5") m
  | .spartan, .listing s r f => statusLine (lit "2") (lit "text/gemini") ++ s ++ r ++ f
  | .spartan, .document ct _ _ b => statusLine (lit "2") ct ++ b
  | .spartan, .info b => b

/-- Gemini answers that never reach a handler -/
def geminiInputPrompt : Bytes := statusLine (lit "10") (lit "Enter input")
def geminiRedirect (path query : Str) : Bytes := statusLine (lit "30") (path ++ [63] ++ query)
def geminiBadRequest : Bytes := statusLine (lit "59") (lit "Bad request")

/-! ## validators -/

/-- the first line (up to the first CRLF) and what follows it -/
def firstLine (b : Bytes) : Bytes × Bytes := splitCrlf b

/-- a Gemini / Spartan response: `<digits> <meta>CRLF`; `meta` free of CR and LF -/
def wfStatus (b : Bytes) : Bool :=
  let (l, _) := firstLine b
  let code := takeUntil (· == 32) l
  !code.isEmpty && code.all isAsciiDigit && l.contains 32 && !l.contains 13 && !l.contains 10

/-- error statuses carry no body: nothing follows the status line -/
def errorHasNoBody (isError : Bytes → Bool) (b : Bytes) : Bool :=
  let (l, rest) := firstLine b
  !isError l || rest.isEmpty

def geminiIsError (l : Bytes) : Bool := l.head? == some 52 || l.head? == some 53 || l.head? == some 54   -- 4x 5x 6x
def spartanIsError (l : Bytes) : Bool := l.head? == some 52 || l.head? == some 53                          -- 4 5

/-- HTTP/1.0: status line `HTTP/1.0 NNN text`, header lines `Name: value`, blank line -/
def wfHttpHead (b : Bytes) : Bool :=
  let (l, _) := firstLine b
  isPrefixB (lit "HTTP/1.0 ") l && ((l.drop 9).take 3).all isAsciiDigit && ((l.drop 9).take 3).length == 3 &&
    isInfixB [13, 10, 13, 10] b

/-- Gopher+: `+<digits>`, `+-2` or `--2` on the first line -/
def wfGplus (b : Bytes) : Bool :=
  let (l, _) := firstLine b
  l == lit "+-2" || l == lit "--2" || l == lit "--1" || (l.head? == some 43 && !(l.drop 1).isEmpty && (l.drop 1).all isAsciiDigit)

end Pyg
