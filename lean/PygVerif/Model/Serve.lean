import PygVerif.Model.Site
import PygVerif.Model.Listing
import PygVerif.Model.Frame
/-!
# Model/Serve — from a request line to the response, end to end

Composes the layers: `Proto.detect` / `parseRequest` (which protocol, which selector),
`Site.dispatch` / `siteEntries` / `entryAt` (which handler, which entries, which bytes),
`Listing.listingBody` / `gplusBlocks` (rendering) and the `handle()` skeleton of each protocol
(status line or header, then menu or document; `FileNotFound` → the protocol's own not-found
answer).  Covered: Gopher, Gopher+ (`+`, `!`, `$`), Gemini and Spartan; HTTP documents and HTTP/WAP
not-found answers (the core handler chain ignores search strings).  HTTP/WAP directory pages carry
page boilerplate that is not modelled here (their rows are, in `Model/Listing`); for those
`answer` is `none`.

A response is a list of pieces: text the server generates (code points, encoded by the protocol
on the way out) and bytes copied from a file.
-/
namespace Pyg

inductive Piece
  | text (s : Str)
  | bytes (b : Bytes)

structure ServeCfg where
  site : SiteCfg
  render : RenderCfg
  waptop : Str
  protos : List Proto
  geminiFooter : Option Str := none
  spartanFooter : Option Str := none

/-- `str(FileNotFound(selector, "no handler found"))` -/
def notFoundMsg (sel : Str) : Str := [39] ++ sel ++ lit "' does not exist (no handler found)"

/-- what the handler chain hands to a protocol's `handle()` -/
inductive Handled
  | notFound (msg : Str)
  | menu (self : Entry) (entries : List Entry)
  | document (entry : Entry) (data : Bytes)
  /-- `prepare()` raised something the protocols do not answer (malformed content) -/
  | crash

def handled (c : ServeCfg) (st : StatFn) (sel : Str) : Handled :=
  match dispatch c.site st sel with
  | .notFound => .notFound (notFoundMsg sel)
  | .file =>
    match st sel, entryAt c.site st sel with
    | some (.file d), some e => .document e d
    | _, _ => .crash
  | _ =>
    match entryAt c.site st sel, siteEntries c.site st sel with
    | some self, some es => .menu self es
    | _, _ => .crash

def footerText (f : Option Str) : Str :=
  match f with
  | some t => [10] ++ t ++ [10]
  | none => []

/-- the response to one parsed request; `none` = outside what this file models -/
def respondParsed (c : ServeCfg) (st : StatFn) (p : Proto) (rq : Parsed) : Option (List Piece) :=
  -- the core handler chain ignores the search string
  if rq.geminiInput.isSome || rq.badRequest then none else
  let h := handled c st rq.selector
  match Wire.ofProto p with
  | .gopher =>
    (match h with
     | .notFound m => some [.text ([51] ++ m ++ lit "\t\terror.host\t1\r\n")]
     | .menu self es => (listingBody c.render .gopher false self es).map fun r => [.text r]
     | .document _ d => some [.bytes d]
     | .crash => none)
  | .gopherp =>
    (match rq.gplus with
     | none => none
     | some g =>
       let nf (m : Str) : List Piece := [.text (lit "--2\r\n1 " ++ c.render.admin ++ [13, 10] ++ m ++ [13, 10])]
       if g == lit "!" then
         match h with
         | .notFound m => some (nf m)
         | .menu self _ => (gplusBlocks c.render.srv c.render.admin none self).map fun b => [.text (lit "+-2\r\n" ++ b)]
         | .document e _ => (gplusBlocks c.render.srv c.render.admin none e).map fun b => [.text (lit "+-2\r\n" ++ b)]
         | .crash => none
       else
         let view : View := if g.head? = some 36 then .gplusDir else .gopher
         match h with
         | .notFound m => some (nf m)
         | .menu self es => (listingBody c.render view true self es).map fun r => [.text (lit "+-2\r\n" ++ r)]
         | .document e d =>
           some [.text ([43] ++ (match e.size with | some n => toDec n | none => lit "-2") ++ [13, 10]), .bytes d]
         | .crash => none)
  | .gemini =>
    (match h with
     | .notFound m => some [.text (statusLine (lit "51") m)]
     | .menu self es =>
       (listingBody c.render .gemini false self es).map fun r =>
         [.text (statusLine (lit "20") (lit "text/gemini") ++ r ++ footerText c.geminiFooter)]
     | .document e d => some [.text (statusLine (lit "20") (geminiAdjust e.mimetype)), .bytes d]
     | .crash => none)
  | .spartan =>
    (match h with
     | .notFound m => some [.text (statusLine (lit "4") m)]
     | .menu self es =>
       (listingBody c.render .spartan false self es).map fun r =>
         [.text (statusLine (lit "2") (lit "text/gemini") ++ r ++ footerText c.spartanFooter)]
     | .document e d => some [.text (statusLine (lit "2") (geminiAdjust e.mimetype)), .bytes d]
     | .crash => none)
  | .http =>
    (match h with
     | .notFound m => some [.text (lit "HTTP/1.0 404 Not Found\r\nContent-Type: text/html\r\n\r\n" ++ emit (httpErrorSegs m))]
     | .document e d =>
       some ([.text (httpHeaders none (httpAdjust e.mimetype))] ++ (if rq.head then [] else [.bytes d]))
     | _ => none)
  | .wap =>
    (match h with
     | .notFound m => some [.text (lit "HTTP/1.0 200 Not Found\r\nContent-Type: text/vnd.wap.wml\r\n\r\n" ++ emit (wapErrorSegs m))]
     | _ => none)

/-- **One request, one response**: detect the protocol in the configured order, parse, respond -/
def answer (c : ServeCfg) (st : StatFn) (queryPrefix : Str) (conn : Conn) : Option (List Piece) :=
  match detect c.waptop c.protos conn with
  | none => none
  | some p => respondParsed c st p (parseRequest c.waptop queryPrefix true p conn)

/-- the bytes of a response whose text pieces are ASCII / already bytes -/
def Piece.raw : Piece → Bytes
  | .text s => s
  | .bytes b => b

def flattenPieces (ps : List Piece) : Bytes := (ps.map Piece.raw).flatten

end Pyg
