import PygVerif.Model.Escape
/-!
# Model/Selector — selector normalisation and the security filters

Mirrors `protocols/base.py: slashnormalize`, `handlers/base.py: isrequestsecure,
VFS_Real.getfspath`, `handlers/url.py: canhandlerequest / isrequestsecure`,
`handlers/virtual.py: __init__` (split at the first `?`, else the first `|`).
The forbidden-substring tables are parameters; the property files instantiate
them with `Generated.forbidden` / `Generated.urlForbidden`, which are re-extracted
from `/repo` on every run.
-/
namespace Pyg

/-- `BaseGopherProtocol.slashnormalize` -/
def slashnormalize (s : Str) : Str :=
  let s1 := if s.getLast? = some 47 then s.dropLast else s
  match s1 with
  | [] => [47]
  | c :: cs => if c = 47 then c :: cs else 47 :: c :: cs

/-- `BaseHandler.isrequestsecure`: no forbidden substring anywhere, and the last component is
    not a single dot (`not selector.endswith("/.")`) -/
def secureB (forbidden : List Str) (s : Str) : Bool :=
  (forbidden.all fun f => !isInfixB f s) && !isSuffixB [47, 46] s

/-- does `.+://` match at the start of `s`: at least one non-newline char then `://`,
    everything before the `://` free of `\n` (regex `.` does not match newline) -/
def dotPlusColonSlashSlash : Str → Bool
  | [] => false
  | c :: cs => c != 10 && (isPrefixB [58,47,47] cs || dotPlusColonSlashSlash cs)

/-- `re.search("^(/|)URL:.+://", selector)` -/
def isUrlSel (s : Str) : Bool :=
  let s' := match s with
    | 47 :: r => if isPrefixB [85,82,76,58] r then r else s
    | _ => s
  isPrefixB [85,82,76,58] s' && dotPlusColonSlashSlash (s'.drop 4)

/-- `HTMLURLHandler.isrequestsecure` -/
def urlSecureB (urlForbidden : List Str) (s : Str) : Bool :=
  isUrlSel s && urlForbidden.all fun f => !isInfixB f s

/-- `Virtual.__init__`: (real, args) — split at the first `?` if any, else the first `|` -/
def virtualSplit (s : Str) : Str × Str :=
  if s.contains 63 then (takeUntil (· == 63) s, (dropUntil (· == 63) s).drop 1)
  else if s.contains 124 then (takeUntil (· == 124) s, (dropUntil (· == 124) s).drop 1)
  else (s, [])

/-- `VFS_Real.getfspath`: `root + selector` minus one trailing slash.
    (`fspath[-1]` on an empty string raises; the model returns `none` there.) -/
def fspath (root sel : Str) : Option Str :=
  let p := root ++ sel
  match p.getLast? with
  | none => none
  | some c => some (if c = 47 then p.dropLast else p)

/-- POSIX lexical normalisation of a component list: drop `""` and `"."`, pop on `".."`.
    Works on a reversed accumulator. -/
def normAux : List Str → List Str → List Str
  | acc, [] => acc.reverse
  | acc, c :: cs =>
    if c = [] ∨ c = [46] then normAux acc cs
    else if c = [46,46] then normAux (acc.drop 1) cs
    else normAux (c :: acc) cs

def norm (cs : List Str) : List Str := normAux [] cs

end Pyg
