import PygVerif.Model.Str
/-!
# Model/Escape — `html.escape`, `urllib.parse.quote` / `unquote`

Mirrors CPython 3.12: `html.escape(s, quote)`, `quote_from_bytes(bs, safe='/')`,
`quote(str, errors='surrogateescape')`, `_unquote_impl`, and
`unquote(str, errors='surrogateescape')` which decodes every maximal ASCII run
separately and passes non-ASCII characters through.
-/
namespace Pyg

/-- `html.escape(s, quote=q)` -/
def htmlEscape (q : Bool) : Str → Str
  | [] => []
  | c :: cs =>
    (if c = 38 then [38,97,109,112,59]                 -- &amp;
     else if c = 60 then [38,108,116,59]               -- &lt;
     else if c = 62 then [38,103,116,59]               -- &gt;
     else if q && c = 34 then [38,113,117,111,116,59]  -- &quot;
     else if q && c = 39 then [38,35,120,50,55,59]     -- &#x27;
     else [c]) ++ htmlEscape q cs

def hexDigit (n : Nat) : Nat := if n < 10 then 48 + n else 55 + n

def hexVal? (c : Nat) : Option Nat :=
  if 48 ≤ c ∧ c ≤ 57 then some (c - 48)
  else if 65 ≤ c ∧ c ≤ 70 then some (c - 55)
  else if 97 ≤ c ∧ c ≤ 102 then some (c - 87)
  else none

/-- `_ALWAYS_SAFE` ∪ {'/'} -/
def urlSafe (b : Nat) : Bool :=
  (48 ≤ b && b ≤ 57) || (65 ≤ b && b ≤ 90) || (97 ≤ b && b ≤ 122) ||
  b == 45 || b == 46 || b == 95 || b == 126 || b == 47

/-- `urllib.parse.quote_from_bytes(bs, safe='/')` -/
def quoteBytes : Bytes → Str
  | [] => []
  | b :: bs =>
    if urlSafe b then b :: quoteBytes bs
    else 37 :: hexDigit (b / 16) :: hexDigit (b % 16) :: quoteBytes bs

/-- `urllib.parse.quote(s, errors="surrogateescape")`; `none` = `UnicodeEncodeError` -/
def quote (s : Str) : Option Str := (encodeSE s).map quoteBytes

/-- `_unquote_impl` on an ASCII string -/
def unquoteToBytes : Str → Bytes
  | [] => []
  | 37 :: h :: l :: rest =>
    match hexVal? h, hexVal? l with
    | some a, some b => (a * 16 + b) :: unquoteToBytes rest
    | _, _ => 37 :: unquoteToBytes (h :: l :: rest)
  | c :: rest => c :: unquoteToBytes rest

/-- longest prefix of ASCII characters -/
def asciiRun : Str → Str × Str
  | [] => ([], [])
  | c :: cs => if c < 128 then let (a, r) := asciiRun cs; (c :: a, r) else ([], c :: cs)

def nonAsciiRun : Str → Str × Str
  | [] => ([], [])
  | c :: cs => if c < 128 then ([], c :: cs) else let (a, r) := nonAsciiRun cs; (c :: a, r)

/-- `unquote(s, errors="surrogateescape")`: run by run (fuel = length suffices) -/
def unquoteAux : Nat → Str → Str
  | 0, _ => []
  | _, [] => []
  | fuel + 1, s =>
    let (a, r) := asciiRun s
    let (n, r') := nonAsciiRun r
    decodeSE (unquoteToBytes a) ++ n ++ unquoteAux fuel r'

def unquote (s : Str) : Str := unquoteAux (s.length + 1) s

end Pyg
