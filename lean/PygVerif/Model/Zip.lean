import PygVerif.Model.Selector
/-!
# Model/Zip — `handlers/ZIP.py: VFSZip` index and look-ups

The index `populate_cache` builds is modelled as a flat map from canonical component paths to
node kinds (directories and files created while scanning the members) plus a list of
*aliases*: a resolved symbolic-link member adds, in the directory where the link lives, an
entry pointing at the inode of its destination — i.e. the link's location resolves to the
destination's canonical path.  Look-ups walk the components exactly like `_getcacheinode`
(every intermediate node must be a directory).  The two memo tables (`entrycache`,
`invalid_paths`) are transparent after the F19 repair and are not modelled.  The archive's
byte format and decompression are `zipfile`'s: members enter as a list.
-/
namespace Pyg.Zip

abbrev Path := List Str

structure Member where
  /-- member name as shown (transcoded with surrogateescape) -/
  name : Str
  /-- `info.filename` as `zipfile` knows it -/
  orig : Str
  isLink : Bool
  /-- link target (`zip.read` of the member, decoded) -/
  dest : Str
  deriving DecidableEq, Repr

inductive Kind
  | dir
  | file (orig : Str)
  deriving DecidableEq, Repr

structure Pending where
  loc : Path          -- canonical directory path ++ [link name]
  origPath : Str
  dest : Str
  deriving DecidableEq, Repr

structure Index where
  nodes : List (Path × Kind) := []
  /-- newest first: a later assignment to the same directory entry wins -/
  aliases : List (Path × Path) := []
  deriving DecidableEq, Repr

def Index.kind? (ix : Index) (p : Path) : Option Kind :=
  if p = [] then some .dir else (ix.nodes.find? (·.1 = p)).map (·.2)

def Index.alias? (ix : Index) (p : Path) : Option Path := (ix.aliases.find? (·.1 = p)).map (·.2)

/-- `os.path.split`: (head, tail) at the last slash; trailing slashes of the head stripped
    unless it consists of slashes only -/
def dropTrailingSlashes (s : Str) : Str :=
  let r := (s.reverse.dropWhile (· == 47)).reverse
  if r.isEmpty then s else r

def pathSplit (p : Str) : Str × Str :=
  if p.contains 47 then
    let rev := p.reverse
    let tail := (rev.takeWhile (· != 47)).reverse
    let head := (rev.drop (tail.length)).reverse       -- up to and including the last slash
    (dropTrailingSlashes head, tail)
  else ([], p)

def dirname (p : Str) : Str := (pathSplit p).1

/-- `os.path.normpath` -/
def normpath (p : Str) : Str :=
  if p.isEmpty then [46] else
  let slashes : Nat :=
    if p.head? = some 47 then (if isPrefixB [47, 47] p && !isPrefixB [47, 47, 47] p then 2 else 1) else 0
  let comps := splitOn 47 p
  let step (acc : List Str) (c : Str) : List Str :=   -- acc is reversed
    if c.isEmpty || c == [46] then acc
    else if c != [46, 46] || (slashes == 0 && acc.isEmpty) || (acc.head? == some [46, 46]) then c :: acc
    else acc.drop 1
  let out := (comps.foldl step []).reverse
  let body := joinWith 47 out
  let res := List.replicate slashes 47 ++ body
  if res.isEmpty then [46] else res

/-- set / replace a node (a dict assignment: replace the value where the key exists, else
    append) -/
def setNode : List (Path × Kind) → Path → Kind → List (Path × Kind)
  | [], p, k => [(p, k)]
  | x :: r, p, k => if x.1 = p then (p, k) :: r else x :: setNode r p k

/-- `if level not in dirlevel: create a directory` -/
def addDirIfAbsent (nodes : List (Path × Kind)) (p : Path) : List (Path × Kind) :=
  if (nodes.find? (·.1 = p)).isSome then nodes else nodes ++ [(p, Kind.dir)]

/-- create the directories along `comps` that do not exist yet -/
def ensureDirs (nodes : List (Path × Kind)) : Path → Path → List (Path × Kind)
  | _, [] => nodes
  | pre, c :: cs =>
    ensureDirs (addDirIfAbsent nodes (pre ++ [c])) (pre ++ [c]) cs

/-- first loop of `populate_cache`: one member -/
def scanMember (st : Index × List Pending) (m : Member) : Index × List Pending :=
  let (ix, pend) := st
  let (d0, fn) := pathSplit m.name
  let d := if d0 == [47] then [] else d0
  let comps := (splitOn 47 d).filter (!·.isEmpty)
  let nodes1 := ensureDirs ix.nodes [] comps
  if fn.isEmpty then ({ ix with nodes := nodes1 }, pend)
  else if m.isLink then ({ ix with nodes := nodes1 }, pend ++ [{ loc := comps ++ [fn], origPath := m.orig, dest := m.dest }])
  else ({ ix with nodes := setNode nodes1 (comps ++ [fn]) (.file m.orig) }, pend)

/-- `_getcacheinode`: canonical path of the node `comps` leads to (every intermediate node a
    directory; an aliased entry continues at its destination) -/
def walk (ix : Index) : Path → Path → Option Path
  | cur, [] => some cur
  | cur, c :: cs =>
    if ix.kind? cur != some .dir then none
    else
      let nxt := cur ++ [c]
      match ix.alias? nxt with
      | some t => walk ix t cs
      | none => if (ix.kind? nxt).isSome then walk ix nxt cs else none

/-- look a zip-internal path string up: `""` is the root -/
def lookup (ix : Index) (fspath : Str) : Option Path :=
  if fspath.isEmpty then some [] else walk ix [] (splitOn 47 fspath)

/-- destination path of a pending link as the resolution loop computes it; `none` = an empty
    target (a link to nothing) -/
def destOf (p : Pending) : Option Str :=
  match p.dest with
  | [] => none
  | 47 :: r => some r
  | _ =>
    let dn := dirname p.origPath
    some (normpath (if dn.isEmpty then p.dest else (if dn.getLast? = some 47 then dn ++ p.dest else dn ++ [47] ++ p.dest)))

/-- one pass over the pending links, in order -/
def resolvePass (ix : Index) : List Pending → Option (Index × List Pending)
  | [] => some (ix, [])
  | p :: ps =>
    match destOf p with
    | none => resolvePass ix ps          -- a link to nothing dangles: it is dropped
    | some d =>
      match lookup ix d with
      | some target =>
        (resolvePass { ix with aliases := (p.loc, target) :: ix.aliases } ps)
      | none => (resolvePass ix ps).map fun (ix', rest) => (ix', p :: rest)

/-- `while len(symlinkinodes) and len(symlinkinodes) != lastsymlinklen` -/
def resolveAll : Nat → Index → List Pending → Option Index
  | 0, ix, _ => some ix
  | fuel + 1, ix, pend =>
    if pend.isEmpty then some ix
    else
      match resolvePass ix pend with
      | none => none
      | some (ix', rest) => if rest.length == pend.length then some ix' else resolveAll fuel ix' rest

/-- `populate_cache` -/
def buildIndex (ms : List Member) : Option Index :=
  let (ix, pend) := ms.foldl scanMember ({}, [])
  resolveAll (pend.length + 1) ix pend

/-! ## VFS answers -/

/-- `_getfspathfinal`: drop the archive's own selector (by length), one leading and one
    trailing slash -/
def innerPath (zipSelLen : Nat) (selector : Str) : Str :=
  let s := selector.drop zipSelLen
  let s := if s.head? = some 47 then s.drop 1 else s
  if s.getLast? = some 47 then s.dropLast else s

def kindAt (ix : Index) (fspath : Str) : Option Kind := (lookup ix fspath).bind ix.kind?

def isdir (ix : Index) (fspath : Str) : Bool := kindAt ix fspath == some .dir
def isfile (ix : Index) (fspath : Str) : Bool :=
  match kindAt ix fspath with | some (.file _) => true | _ => false
def exists_ (ix : Index) (fspath : Str) : Bool := (kindAt ix fspath).isSome

/-- names in the directory with canonical path `p`: children created by the scan plus link
    entries living there -/
def names (ix : Index) (p : Path) : List Str :=
  let kids := ix.nodes.filterMap fun (q, _) => if q.dropLast = p ∧ q ≠ [] then q.getLast? else none
  let links := ix.aliases.filterMap fun (q, _) => if q.dropLast = p ∧ q ≠ [] then q.getLast? else none
  (kids ++ links.filter fun n => !kids.contains n).eraseDups

def listdir (ix : Index) (fspath : Str) : Option (List Str) :=
  match lookup ix fspath with
  | none => none
  | some p => if ix.kind? p != some .dir then none else some (names ix p)

/-- `VFSZip._inarchive`: the selector is the archive's own or lies below it; every other
    selector is the underlying file system's -/
def inArchive (zipSel sel : Str) : Bool := sel == zipSel || isPrefixB (zipSel ++ [47]) sel

end Pyg.Zip
