import PygVerif.Model.Gophermap
/-!
# Model/Umn — directory listings: `handlers/dir.py: DirHandler` and `handlers/UMN.py`

* the ignore-pattern fragment of `re` (alternation of literal / `.` / `\x` items with an
  optional `$`), `re.search`;
* `getLinkItem` / `processLinkFile` as the line-by-line state machine it is;
* `mergeentries`, `.cap` handling (`prep_entriesappend`), `MergeLinkFiles`, `entrycmp`;
* `DirHandler.prepare` (filter, `files.sort()`, per-child entry, skip of unservable children)
  and `UMNDirHandler.prepare`.
Library answers (stat, MIME guess, HTML title, extension stripping, file contents as
`readline` results) are arguments.  `none` = the Python raises.
-/
namespace Pyg

/-! ## regular-expression fragment -/

inductive RItem | ch (c : Nat) | any deriving DecidableEq, Repr

structure RAlt where
  items : List RItem
  anchorEnd : Bool
  deriving DecidableEq, Repr

def isRegexMeta (c : Nat) : Bool :=
  c == 46 || c == 36 || c == 124 || c == 92 || c == 40 || c == 41 || c == 91 || c == 93 || c == 42 ||
  c == 43 || c == 63 || c == 123 || c == 125 || c == 94

/-- parse one alternative; unsupported syntax → `none` -/
def parseAlt : Str → List RItem → Option RAlt
  | [], acc => some ⟨acc.reverse, false⟩
  | [36], acc => some ⟨acc.reverse, true⟩
  | 92 :: c :: r, acc =>
    -- `\x`: only escapes of non-alphanumeric characters are literal
    if (48 ≤ c ∧ c ≤ 57) ∨ (65 ≤ c ∧ c ≤ 90) ∨ (97 ≤ c ∧ c ≤ 122) then none else parseAlt r (.ch c :: acc)
  | 46 :: r, acc => parseAlt r (.any :: acc)
  | c :: r, acc => if isRegexMeta c then none else parseAlt r (.ch c :: acc)

def parseRegex (p : Str) : Option (List RAlt) :=
  (splitOn 124 p).mapM fun a => parseAlt a []

def matchItems : List RItem → Str → Option Str
  | [], s => some s
  | _ :: _, [] => none
  | .ch p :: ps, c :: cs => if p == c then matchItems ps cs else none
  | .any :: ps, c :: cs => if c != 10 then matchItems ps cs else none

/-- `$` matches at the very end or just before a final newline -/
def atEnd (s : Str) : Bool := s == [] || s == [10]

def matchAltHere (a : RAlt) (s : Str) : Bool :=
  match matchItems a.items s with
  | some rest => !a.anchorEnd || atEnd rest
  | none => false

def searchAlt (a : RAlt) : Str → Bool
  | [] => matchAltHere a []
  | c :: cs => matchAltHere a (c :: cs) || searchAlt a cs

/-- `re.search(pattern, s) is not None` -/
def reSearch (alts : List RAlt) (s : Str) : Bool := alts.any fun a => searchAlt a s

/-! ## link files -/

structure LinkEntry where
  e : Entry
  needsmerge : Bool := false
  needsabspath : Bool := false
  deriving DecidableEq, Repr

/-- `os.path.normpath` for a path that starts with exactly one `/` -/
def normpathAbs (p : Str) : Str :=
  let comps := norm (splitOn 47 p)
  if comps.isEmpty then [47] else (comps.map fun c => 47 :: c).flatten

structure LinkState where
  le : LinkEntry
  donePath : Bool
  deriving Repr

inductive Step | cont | stop deriving DecidableEq, Repr

/-- read the continuation lines of an `Abstract=` value: returns (value, remaining lines) -/
def readAbstract : Nat → Str → Str → List Str → Str × List Str
  | 0, acc, cur, rest => (acc ++ cur, rest)
  | fuel + 1, acc, cur, rest =>
    if cur.getLast? = some 92 then
      match rest with
      | [] => (acc ++ cur.dropLast ++ [10], [])          -- readline() at EOF gives "" → loop ends
      | l :: ls => readAbstract fuel (acc ++ cur.dropLast ++ [10]) (strip l) ls
    else (acc ++ cur, rest)

/-- one `getLinkItem` call: consumes lines, returns (nextstep, entry?, remaining lines);
    `none` = the Python raises (`Type=` with nothing after it, non-numeric `Port=`) -/
def getLinkItem (base : Str) : Nat → LinkState → List Str → Option (Step × Option LinkEntry × List Str)
  | 0, _, _ => none
  | fuel + 1, st, lines =>
    let finish (step : Step) (rest : List Str) : Option (Step × Option LinkEntry × List Str) :=
      if st.donePath then
        let le := st.le
        let le' :=
          if le.needsabspath && le.e.host.isNone && le.e.port.isNone then
            { le with e := { le.e with selector := normpathAbs (base ++ [47] ++ le.e.selector) } }
          else le
        some (step, some le', rest)
      else some (step, none, rest)
    match lines with
    | [] => finish .stop []
    | raw :: rest =>
      if raw.isEmpty then finish .stop rest else
      let line := strip raw
      if line.isEmpty then finish .cont rest
      else if line.head? = some 35 then
        if st.donePath then finish .cont rest else getLinkItem base fuel st rest
      else if isPrefixB (lit "Type=") line then
        match line.drop 5 with
        | [] => none
        | t :: _ => getLinkItem base fuel { st with le := { st.le with e := { st.le.e with type := some [t] } } } rest
      else if isPrefixB (lit "Name=") line then
        getLinkItem base fuel { st with le := { st.le with e := { st.le.e with name := some (line.drop 5) } } } rest
      else if isPrefixB (lit "Path=") line then
        let p0 := line.drop 5
        let pathname := if p0.getLast? = some 47 then p0.dropLast else p0
        let le :=
          if line.length ≥ 7 && (p0.take 2 == lit "./" || p0.take 2 == lit "~/") then
            { st.le with e := { st.le.e with selector := base ++ [47] ++ pathname.drop 2 }, needsmerge := true }
          else if !pathname.isEmpty && pathname.head? != some 47 && !isPrefixB (lit "URL:") pathname then
            { st.le with e := { st.le.e with selector := pathname }, needsabspath := true }
          else { st.le with e := { st.le.e with selector := pathname } }
        getLinkItem base fuel { le := le, donePath := true } rest
      else if isPrefixB (lit "Host=") line then
        let h := line.drop 5
        getLinkItem base fuel (if h == [43] then st else { st with le := { st.le with e := { st.le.e with host := some h } } }) rest
      else if isPrefixB (lit "Port=") line then
        let p := line.drop 5
        if p == [43] then getLinkItem base fuel st rest
        else match parseInt? p with
          | none => none
          | some n => getLinkItem base fuel { st with le := { st.le with e := { st.le.e with port := some n } } } rest
      else if isPrefixB (lit "Numb=") line then
        match parseInt? (line.drop 5) with
        | none => getLinkItem base fuel st rest
        | some n => getLinkItem base fuel { st with le := { st.le with e := { st.le.e with num := some n } } } rest
      else if isPrefixB (lit "Abstract=") line then
        let (v, rest') := readAbstract (rest.length + 1) [] (line.drop 9) rest
        let st' := if v.isEmpty then st else
          { st with le := { st.le with e := { st.le.e with ea := eaSet st.le.e.ea (lit "ABSTRACT") v } } }
        getLinkItem base fuel st' rest'
      else if isPrefixB (lit "Admin=") line || isPrefixB (lit "URL=") line || isPrefixB (lit "TTL=") line then
        getLinkItem base fuel st rest
      else finish .cont rest

/-- a fresh link entry: the directory's selector, number unset -/
def freshLink (dirSel : Str) (capPath : Option Str) : LinkState :=
  match capPath with
  | some p => { le := { e := { selector := p, num := none } }, donePath := true }
  | none => { le := { e := { selector := dirSel, num := none } }, donePath := false }

/-- `processLinkFile`: repeat `getLinkItem` until it says stop -/
def processLinkFile (dirSel base : Str) (capPath : Option Str) : Nat → List Str → Option (List LinkEntry)
  | 0, _ => some []
  | fuel + 1, lines =>
    match getLinkItem base (lines.length + 1) (freshLink dirSel capPath) lines with
    | none => none
    | some (step, ent, rest) =>
      let here := match ent with | some e => [e] | none => []
      match step with
      | .stop => some here
      | .cont => (processLinkFile dirSel base capPath fuel rest).map fun r => here ++ r

/-! ## merging and ordering -/

/-- `mergeentries(old, new)`: every field `new` sets, and every extended attribute -/
def mergeEntries (old new : Entry) : Entry :=
  let o1 := { old with
    selector := new.selector,
    type := new.type.orElse fun _ => old.type,
    name := new.name.orElse fun _ => old.name,
    host := new.host.orElse fun _ => old.host,
    port := new.port.orElse fun _ => old.port,
    num := new.num.orElse fun _ => old.num }
  new.ea.foldl (fun e kv => { e with ea := eaSet e.ea kv.1 kv.2 }) o1

def sgn (a : Int) : Int := if a = 0 then 0 else if a < 0 then -1 else 1

def cmpInt (a b : Int) : Int := (if a > b then 1 else 0) - (if a < b then 1 else 0)
def cmpStr (a b : Str) : Int := (if strLt b a then 1 else 0) - (if strLt a b then 1 else 0)

/-- `UMNDirHandler.entrycmp` -/
def entrycmp (a b : Entry) : Int :=
  match a.name, b.name with
  | none, _ => 1
  | _, none => -1
  | some na, some nb =>
    let x := a.num.getD 0
    let y := b.num.getD 0
    if x = y then cmpStr na nb
    else if sgn x = sgn y then cmpInt x y
    else if x > y then -1 else 1

def entryLe (a b : Entry) : Bool := entrycmp a b ≤ 0

/-! ## directory walk -/

/-- what the harness knows about one directory member -/
structure Child where
  name : Str
  /-- `vfs.isdir` (for dot files) -/
  isDir : Bool
  /-- entry the handler chain produced for `<base>/<name>` (`none` = no handler / IOError:
      the child is unservable), and whether the handler is a `FileHandler` -/
  entry : Option (Entry × Bool)
  /-- `fileext.extstrip(name, mime)` (library oracle) -/
  stripped : Str
  /-- `.cap/<name>` as readline results, if it can be opened -/
  cap : Option (List Str)
  /-- the file's own lines, for dot files read as link files (`none` = cannot be opened) -/
  lines : Option (List Str)
  deriving Repr

structure DirCfg where
  ignore : List RAlt
  extstrip : Str
  /-- UMN handler (dot-file processing, .cap, merge, entrycmp sort) or plain DirHandler -/
  umn : Bool

/-- `prep_initfiles`: names that survive the ignore pattern, and (UMN) are not dot files -/
def visibleName (c : DirCfg) (base : Str) (ch : Child) : Bool :=
  !reSearch c.ignore (base ++ [47] ++ ch.name) && !(c.umn && ch.name.head? = some 46)

/-- link entries one member contributes (dot files that are not directories and pass the
    ignore pattern are read as link files; an unreadable one contributes nothing) -/
def linksOf (c : DirCfg) (dirSel base : Str) (ch : Child) : Option (List LinkEntry) :=
  if c.umn && !reSearch c.ignore (base ++ [47] ++ ch.name) && ch.name.head? = some 46 && !ch.isDir then
    match ch.lines with
    | none => some []
    | some ls => processLinkFile dirSel base none (ls.length + 1) ls
  else some []

/-- link entries collected from dot files, in the order given (name order, see `dirListing`) -/
def collectLinks (c : DirCfg) (dirSel base : Str) : List Child → Option (List LinkEntry)
  | [] => some []
  | ch :: rest =>
    match linksOf c dirSel base ch, collectLinks c dirSel base rest with
    | some a, some b => some (a ++ b)
    | _, _ => none

/-- `prep_entriesappend` for one child: extension stripping, `.cap` override; `some none` = hidden -/
def childEntry (c : DirCfg) (dirSel base : Str) (ch : Child) : Option (Option Entry) :=
  match ch.entry with
  | none => some none                         -- unservable: skipped
  | some (e0, isFile) =>
    if !c.umn then some (some e0) else
    let e1 :=
      if c.extstrip != lit "none" && isFile &&
         (c.extstrip == lit "full" || (c.extstrip == lit "nonencoded" && (e0.encoding.getD []).isEmpty)) then
        { e0 with name := some ch.stripped } else e0
    match ch.cap with
    | none => some (some e1)
    | some ls =>
      match processLinkFile dirSel base (some e1.selector) (ls.length + 1) ls with
      | none => none
      | some [] => some (some e1)
      | some (ci :: _) =>
        if ci.e.type == some (lit "X") || ci.e.type == some (lit "-") then some none
        else some (some (mergeEntries e1 ci.e))

def childEntries (c : DirCfg) (dirSel base : Str) : List Child → Option (List Entry)
  | [] => some []
  | ch :: rest =>
    match childEntry c dirSel base ch, childEntries c dirSel base rest with
    | some (some e), some es => some (e :: es)
    | some none, some es => some es
    | _, _ => none

/-- a link block hides its target: `Type=X` or `Type=-` -/
def LinkEntry.hides (l : LinkEntry) : Bool := l.e.type == some (lit "X") || l.e.type == some (lit "-")

/-- `MergeLinkFiles` over entries tagged with their original index; the dict maps the
    *original* selector to the *last* entry carrying it -/
def mergeLinks : List LinkEntry → List (Nat × Str × Option Entry) → Option (List (Nat × Str × Option Entry))
  | [], es => some es
  | l :: ls, es =>
    if !l.needsmerge then
      -- an entry needs a name to be listed
      if l.e.name.isNone then mergeLinks ls es else mergeLinks ls (es ++ [(es.length, [], some l.e)])
    else
      -- dict lookup by original selector among directory entries (tag ≠ [] marks them)
      match (es.reverse.find? fun x => x.2.1 == l.e.selector && !x.2.1.isEmpty) with
      | some (i, _, _) =>
        if l.hides then
          -- `if hidden in self.fileentries: remove(hidden)`: hiding what is already hidden does nothing
          mergeLinks ls (es.map fun x => if x.1 == i then (x.1, x.2.1, none) else x)
        else
          mergeLinks ls (es.map fun x =>
            if x.1 == i then (x.1, x.2.1, x.2.2.map fun old => mergeEntries old l.e) else x)
      | none =>
        -- a hide block for a file that is not listed hides nothing and adds nothing; nor does a block that names nothing
        if l.hides || l.e.name.isNone then mergeLinks ls es
        else mergeLinks ls (es ++ [(es.length, [], some l.e)])

/-- the whole `prepare()` for a directory whose members are `kids` (in `listdir` order) -/
def dirListing (c : DirCfg) (dirSel : Str) (kids : List Child) : Option (List Entry) :=
  let base := if dirSel == [47] then [] else dirSel
  -- the members are walked in name order (`for file in sorted(dirfiles)`)
  let sorted := kids.mergeSort fun a b => strLe a.name b.name
  match collectLinks c dirSel base sorted with
  | none => none
  | some links =>
    let files := sorted.filter (visibleName c base)
    match childEntries c dirSel base files with
    | none => none
    | some es =>
      if !c.umn then some es
      else
        let tagged := es.mapIdx fun i e => (i, (e.selector, some e))
        match mergeLinks links tagged with
        | none => none
        | some merged => some ((merged.filterMap fun x => x.2.2).mergeSort entryLe)

end Pyg
