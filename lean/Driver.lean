import PygVerif.Generated
import PygVerif.Model.Selector
import PygVerif.Model.Proto
import PygVerif.Model.Doc
import PygVerif.Model.Listing
import PygVerif.Model.Skel
import PygVerif.Model.Umn
import PygVerif.Model.Cache
import PygVerif.Model.Fail
import PygVerif.Model.Zip
import PygVerif.Model.ZipTree
import PygVerif.Model.Frame
import PygVerif.Model.Site
import PygVerif.Model.Serve
import PygVerif.Model.Log
import PygVerif.Driver.TalIO
/-!
# Driver — line protocol between the Python harness and the executable model

One operation per line, fields separated by TAB.  A string is a dotted-hex list of code
points (`-` = empty); a list of strings is comma separated (`~` = empty list); an optional
string is `!` for none.  One output line per input line.  This is the only `partial`
code in the project and no theorem mentions it.
-/
open Pyg

def hexValC (c : Char) : Nat :=
  if c.isDigit then c.toNat - 48
  else if 'a' ≤ c ∧ c ≤ 'f' then c.toNat - 87
  else if 'A' ≤ c ∧ c ≤ 'F' then c.toNat - 55 else 0

def decStr (s : String) : Str :=
  if s == "-" || s.isEmpty then [] else (s.splitOn ".").map fun t => t.foldl (fun a c => a * 16 + hexValC c) 0

def hexOf (n : Nat) : String := String.ofList (Nat.toDigits 16 n)

def encStr (s : Str) : String :=
  if s.isEmpty then "-" else ".".intercalate (s.map hexOf)

def decList (s : String) : List Str :=
  if s == "~" then [] else (s.splitOn ",").map decStr

def encList (l : List Str) : String :=
  if l.isEmpty then "~" else ",".intercalate (l.map encStr)

def decOpt (s : String) : Option Str := if s == "!" then none else some (decStr s)
def encOpt : Option Str → String
  | none => "!"
  | some s => encStr s

def encBool (b : Bool) : String := if b then "T" else "F"
def decBool (s : String) : Bool := s == "T"

def protoOfShort (s : String) : Option Proto :=
  match s with
  | "wap" => some .wap | "gemini" => some .gemini | "http" => some .http | "https" => some .https
  | "spartan" => some .spartan | "gopherp" => some .gopherp | "sgopherp" => some .sgopherp
  | "gopher" => some .gopher | "sgopher" => some .sgopher | _ => none

def encParsed (p : Parsed) : String :=
  "\t".intercalate [encStr p.selector, encOpt p.search, encBool p.head, encOpt p.gplus,
    encOpt p.geminiInput, encBool p.badRequest]

def decKind (s : String) : Kind := if s == "d" then .dir else if s == "f" then .file else .other

/-- `ext:line|line&ext:…` (`~` = no lines, `!` = no sidecars) -/
def decSidecars (s : String) : List (Str × List Str) :=
  if s == "!" then [] else
  (s.splitOn "&").map fun it =>
    match it.splitOn ":" with
    | [e, ls] => (decStr e, if ls == "~" then [] else (ls.splitOn "|").map decStr)
    | _ => ([], [])

/-- `sel;kind;size;mtime;ctime;guessmime;guessenc;gtype;sidecars` -/
def decPop (s : String) : List (Str × PopInfo) :=
  if s == "~" then [] else
  (s.splitOn " ").filterMap fun r =>
    match r.splitOn ";" with
    | [sel, k, sz, mt, ct, gm, ge, gt, sc] =>
      some (decStr sel, { stat := { kind := decKind k, size := sz.toNat!, mtime := mt.toNat!, ctime := ct.toNat! },
                          guess := (decOpt gm, decOpt ge), gtype := decStr gt, sidecars := decSidecars sc })
    | _ => none

def decLines (s : String) : Option (List Str) :=
  if s == "!" then none else if s == "~" then some [] else some ((s.splitOn "|").map decStr)

/-- `name;isDir;kind;popfields(8, '/'-separated);nameOverride;stripped;cap;lines`
    kind: `!` unservable, `F` FileHandler entry, `O` other handler entry (both built by populate) -/
def decChild (base : Str) (r : String) : Option Child :=
  match r.splitOn ";" with
  | [nm, isd, kind, pop, nover, stripped, cap, lines] =>
    let name := decStr nm
    let entry : Option (Entry × Bool) :=
      if kind == "!" then none else
      match pop.splitOn "/" with
      | [k, sz, mt, ct, gm, ge, gt, sc] =>
        let pi : PopInfo := { stat := { kind := decKind k, size := sz.toNat!, mtime := mt.toNat!, ctime := ct.toNat! },
                              guess := (decOpt gm, decOpt ge), gtype := decStr gt, sidecars := decSidecars sc }
        let e1 := populateWith Generated.eaexts Generated.defaultMime pi { selector := base ++ [47] ++ name }
        let e2 := match decOpt nover with | some n => { e1 with name := some n } | none => e1
        some (e2, kind == "F")
      | _ => none
    some { name := name, isDir := decBool isd, entry := entry, stripped := decStr stripped,
           cap := decLines cap, lines := decLines lines }
  | _ => none

def viewOf (s : String) : View :=
  match s with
  | "gopher" => .gopher | "gplusdir" => .gplusDir | "http" => .http | "wap" => .wap
  | "gemini" => .gemini | _ => .spartan

def mkRenderCfg (srvName : Str) (srvPort : Nat) (absHeaders : Bool) (absEntries : Str) : RenderCfg :=
  { srv := ⟨srvName, srvPort⟩, iconmapping := Generated.iconMapping, waptop := Generated.waptop,
    accesskeys := Generated.accesskeys, queryPrefix := Generated.queryPrefix, admin := Generated.gplusAdmin,
    modDate := fun _ => none, abstractHeaders := absHeaders, abstractEntries := absEntries }


/-- build a tree from `path;kind;data` records (parents may be implicit) -/
partial def insertNode (n : Node) (path : List Str) (x : Node) : Node :=
  match path with
  | [] => x
  | c :: cs =>
    match n with
    | .dir kids =>
      if kids.any (·.1 == c) then .dir (kids.map fun (nm, k) => if nm == c then (nm, insertNode k cs x) else (nm, k))
      else .dir (kids ++ [(c, insertNode (.dir []) cs x)])
    | other => other

def decTree (s : String) : Node :=
  if s == "~" then .dir [] else
  (s.splitOn " ").foldl (fun root r =>
    match r.splitOn ";" with
    | [p, k, d] =>
      let comps := (splitOn 47 (decStr p)).filter (· != [])
      let x : Node := if k == "d" then .dir [] else if k == "f" then .file (decStr d) else .other
      if comps.isEmpty then root else insertNode root comps x
    | _ => root) (.dir [])

def decTable2 (s : String) : List (Str × Str) :=
  if s == "~" then [] else (s.splitOn " ").filterMap fun r =>
    match r.splitOn ";" with
    | [a, b] => some (decStr a, decStr b)
    | _ => none

def decGuess (s : String) : List (Str × (Option Str × Option Str)) :=
  if s == "~" then [] else (s.splitOn " ").filterMap fun r =>
    match r.splitOn ";" with
    | [a, m, e] => some (decStr a, (decOpt m, decOpt e))
    | _ => none

/-- `chain`: `U` = url.HTMLURLHandler first, `G` = gophermap handler, `M` = UMN (else plain) directory handler,
    `H` = html.HTMLFileTitleHandler before the file handler.  `titles`: `sel;isHtml(T/F);title-or-!` records. -/
def mkSiteCfg (chain : String) (alts : List RAlt) (g : String) (t : String) (st : String) (titles : String := "~") : SiteCfg :=
  let gt := decGuess g
  let tt := decTable2 t
  let stt := decTable2 st
  let tl : List (Str × Bool × Option Str) := if titles == "~" then [] else (titles.splitOn " ").filterMap fun r =>
    match r.splitOn ";" with
    | [a, h, ti] => some (decStr a, decBool h, decOpt ti)
    | _ => none
  let has (c : Char) : Bool := chain.toList.contains c
  { forbidden := Generated.forbidden, eaexts := Generated.eaexts, defaultMime := Generated.defaultMime, gophermap := has 'G',
    dir := { ignore := alts, extstrip := Generated.extstrip, umn := has 'M' },
    guess := fun sel => ((gt.find? (·.1 == sel)).map (·.2)).getD (none, none),
    typeOf := fun m => ((tt.find? (·.1 == m)).map (·.2)).getD (lit "0"),
    strip := fun n => ((stt.find? (·.1 == n)).map (·.2)).getD n,
    url := has 'U', urlForbidden := Generated.urlForbidden, htmlTitles := has 'H',
    isHtml := fun sel => ((tl.find? (·.1 == sel)).map (·.2.1)).getD false,
    title := fun sel => ((tl.find? (·.1 == sel)).bind (·.2.2)) }

def tstateOf (s : String) : TState :=
  match s with | "tag" => .tag | "dq" => .attrDq | "sq" => .attrSq | _ => .text

def step (fields : List String) : String :=
  match fields with
  | ["secure", s] => encBool (secureB Generated.forbidden (decStr s))
  | ["urlsecure", s] => encBool (urlSecureB Generated.urlForbidden (decStr s))
  | ["isurl", s] => encBool (isUrlSel (decStr s))
  | ["slashnorm", s] => encStr (slashnormalize (decStr s))
  | ["unquote", s] => encStr (unquote (decStr s))
  | ["quote", s] => encOpt (quote (decStr s))
  | ["quotebytes", s] => encStr (quoteBytes (decStr s))
  | ["decode", s] => encStr (decodeSE (decStr s))
  | ["encode", s] => encOpt (encodeSE (decStr s))
  | ["vsplit", s] => let (a, b) := virtualSplit (decStr s); encStr a ++ "\t" ++ encStr b
  | ["fspath", r, s] => encOpt (fspath (decStr r) (decStr s))
  | ["htmlescape", q, s] => encStr (htmlEscape (decBool q) (decStr s))
  | ["syslogtext", s] => encStr (syslogText (decStr s))
  | ["logfilebytes", s] => encOpt (logFileBytes (decStr s))
  | ["strip", s] => encStr (strip (decStr s))
  | ["rstrip", s] => encStr (rstrip (decStr s))
  | ["splitlines", s] => encList (splitlines (decStr s))
  | ["split", c, s] => encList (splitOn c.toNat! (decStr s))
  | ["basename", s] => encStr (basename (decStr s))
  | ["todec", n] => encStr (toDec n.toNat!)
  | ["detect", ps, tls, line, rest] =>
    let protos := (decList ps).filterMap Proto.ofName
    (match detect Generated.waptop protos ⟨decBool tls, decStr line, decList rest⟩ with
     | some p => encStr p.className
     | none => "NONE")
  | ["can", p, tls, line, rest] =>
    (match protoOfShort p with
     | some pr => encBool (can Generated.waptop pr ⟨decBool tls, decStr line, decList rest⟩)
     | none => "bad-proto")
  | ["parse", p, tls, line, rest, nv] =>
    (match protoOfShort p with
     | some pr => encParsed (parseRequest Generated.waptop Generated.queryPrefix (decBool nv) pr
                    ⟨decBool tls, decStr line, decList rest⟩)
     | none => "bad-proto")
  | ["parse", p, tls, line, rest, nv, wt] =>      -- with another configured WAP prefix
    (match protoOfShort p with
     | some pr => encParsed (parseRequest (decStr wt) Generated.queryPrefix (decBool nv) pr
                    ⟨decBool tls, decStr line, decList rest⟩)
     | none => "bad-proto")
  | ["sniff", s] => let (b, r) := sniff (decStr s); encBool b ++ "\t" ++ encStr r
  | ["copyto", n, bs] =>
    let b := decStr bs
    let cs := chunks n.toNat! b
    encStr cs.flatten ++ "\t" ++ " ".intercalate (cs.map fun c => toString c.length)
  | ["gplusdoc", size, body] =>
    encStr (gplusDoc (if size == "!" then none else some size.toNat!) (decStr body))
  | ["wmlbody", ls] => encStr (wmlBody (decList ls))
  | ["unwml", s] => let x := decStr s; encList (unwml (x.length + 1) x)
  | ["entrymime", m, e, d] => encStr (entryMime (decOpt m, decOpt e) (decStr d))
  | ["httpadjust", m] => encStr (httpAdjust (decOpt m))
  | ["geminiadjust", m] => encStr (geminiAdjust (decOpt m))
  | ["wapadjust", m] => let (t, c) := wapAdjust (decOpt m); encStr t ++ "\t" ++ encBool c
  | ["httpresp", m, lm, ct, body] =>
    encStr (httpResp (if m == "HEAD" then .head else .get) (decOpt lm) (decStr ct) (decStr body))
  | ["gmlisting", view, gplusReq, srvName, srvPort, base, absH, absE, selfAbs, lines, pop] =>
    let popTab := decPop pop
    let popf : Str → Option PopInfo := fun s => (popTab.find? (·.1 == s)).map (·.2)
    (match gmParse Generated.forbidden Generated.eaexts Generated.defaultMime (decStr base) popf (decList lines) with
     | none => "CRASH-PARSE"
     | some es =>
       let self : Entry := { selector := decStr base,
                             ea := match decOpt selfAbs with | some a => [(lit "ABSTRACT", a)] | none => [] }
       match listingBody (mkRenderCfg (decStr srvName) srvPort.toNat! (decBool absH) (decStr absE))
               (viewOf view) (decBool gplusReq) self es with
       | none => "CRASH-RENDER"
       | some b => encStr b)
  | ["iteminfo", srvName, srvPort, sel, nameOverride, pop] =>
    (match (decPop pop).head? with
     | none => "NO-POP"
     | some (_, pi) =>
       let e0 : Entry := { selector := decStr sel }
       let e1 := populateWith Generated.eaexts Generated.defaultMime pi e0
       let e2 := match decOpt nameOverride with | some n => { e1 with name := some n } | none => e1
       match gplusBlocks ⟨decStr srvName, srvPort.toNat!⟩ Generated.gplusAdmin none e2 with
       | some b => encStr b
       | none => "CRASH-RENDER")
  | ["dirlisting", view, gplusReq, umn, srvName, srvPort, dirSel, absH, absE, selfPop, kids] =>
    let ds := decStr dirSel
    let base := if ds == [47] then [] else ds
    (match parseRegex Generated.ignorePatt with
     | none => "REGEX-UNSUPPORTED"
     | some alts =>
       let children := if kids == "~" then [] else (kids.splitOn " ").filterMap (decChild base)
       match dirListing { ignore := alts, extstrip := Generated.extstrip, umn := decBool umn } ds children with
       | none => "CRASH-LISTING"
       | some es =>
         let self : Entry :=
           match (decPop selfPop).head? with
           | some (_, pi) => populateWith Generated.eaexts Generated.defaultMime pi { selector := ds }
           | none => { selector := ds }
         match listingBody (mkRenderCfg (decStr srvName) srvPort.toNat! (decBool absH) (decStr absE))
                 (viewOf view) (decBool gplusReq) self es with
         | none => "CRASH-RENDER"
         | some b => encStr b)
  | ["site", chain, titles, view, gplusReq, srvName, srvPort, absH, absE, tree, g, t, st, queries] =>
    (match parseRegex Generated.ignorePatt with
     | none => "REGEX-UNSUPPORTED"
     | some alts =>
       let R := decTree tree
       let c := mkSiteCfg chain alts g t st titles
       let sf : StatFn := statAt R
       " ".intercalate ((decList queries).map fun q =>
         (match serve c sf q with
          | .notFound => "N"
          | .menu => "M"
          | .document d => "D:" ++ encStr d
          | .generated tx => "G:" ++ encStr tx) ++ "|" ++
         (match dispatch c sf q with
          | .notFound => "n" | .gophermapDir => "gd" | .gophermapFile => "gf" | .dir => "d" | .file => "f"
          | .url => "u" | .htmlFile => "h") ++ "|" ++
         (if (dispatch c sf q).isMenu then
            match siteEntries c sf q with
            | none => "CRASH-LISTING"
            | some es =>
              let self : Entry := (entryAt c sf q).getD { selector := q }
              match listingBody (mkRenderCfg (decStr srvName) srvPort.toNat! (decBool absH) (decStr absE))
                      (viewOf view) (decBool gplusReq) self es with
              | none => "CRASH-RENDER"
              | some b => encStr b
          else "!")))
  | ["answer", chain, titles, srvName, srvPort, absH, absE, gemFoot, spaFoot, protos, tree, g, t, st, requests] =>
    -- requests: space separated `tls;line;rest-lines`; output per request: pieces `T:<str>` / `B:<bytes>` joined by `;`, or NONE
    (match parseRegex Generated.ignorePatt with
     | none => "REGEX-UNSUPPORTED"
     | some alts =>
       let R := decTree tree
       let sc := mkSiteCfg chain alts g t st titles
       let c : ServeCfg := { site := sc, render := mkRenderCfg (decStr srvName) srvPort.toNat! (decBool absH) (decStr absE),
                             waptop := Generated.waptop, protos := (decList protos).filterMap Proto.ofName,
                             geminiFooter := decOpt gemFoot, spartanFooter := decOpt spaFoot }
       let sf : StatFn := statAt R
       " ".intercalate ((requests.splitOn " ").map fun r =>
         -- an optional fourth field says whether `urlparse` accepts the line (an oracle of the model: default yes)
         let fields := r.splitOn ";"
         match fields.take 3 with
         | [tls, line, rest] =>
           (match answer c sf Generated.queryPrefix ⟨decBool tls, decStr line, decList rest⟩ (fields[3]? != some "I") with
            | none => "NONE"
            | some ps => if ps.isEmpty then "EMPTY" else ";".intercalate (ps.map fun p =>
                match p with
                | .text s => "T:" ++ encStr s
                | .bytes b => "B:" ++ encStr b))
         | _ => "BAD"))
  | ["kstat", tree, rootStr, queries] =>
    -- the kernel's view: the whole file system `tree`, the configured root path, selectors
    let W := decTree tree
    " ".intercalate ((decList queries).map fun q =>
      match kstat W (decStr rootStr) q with
      | none => "-"
      | some (.dir kids) => "d:" ++ encList (kids.map (·.1))
      | some (.file d) => "f:" ++ encStr d
      | some .other => "o")
  | ["research", s] =>
    (match parseRegex Generated.ignorePatt with
     | none => "REGEX-UNSUPPORTED"
     | some alts => encBool (reSearch alts (decStr s)))
  | ["linkfile", dirSel, capPath, lines] =>
    let ds := decStr dirSel
    let base := if ds == [47] then [] else ds
    let ls := decList lines
    (match processLinkFile ds base (decOpt capPath) (ls.length + 1) ls with
     | none => "CRASH"
     | some es => ";".intercalate (es.map fun l =>
         "\t".intercalate [encStr l.e.selector, encOpt l.e.type, encOpt l.e.name, encOpt l.e.host,
           (match l.e.port with | some p => toString p | none => "!"),
           (match l.e.num with | some p => toString p | none => "!"), encBool l.needsmerge,
           encOpt (l.e.getea (lit "ABSTRACT"))]))
  | ["cacherun", lifetime, ops] =>
    -- ops: space separated `m<version>` | `t<ms>` | `l`; directory = version number, listing = version
    let parsed : List (Cache.Op Nat) := (ops.splitOn " ").filterMap fun o =>
      if o.startsWith "m" then some (.mutate (o.drop 1).toNat!)
      else if o.startsWith "t" then some (.tick (o.drop 1).toNat!)
      else if o == "l" then some .list else none
    let (_, outs) := Cache.run (D := Nat) (L := Nat) id lifetime.toNat! (Cache.init 0) parsed
    " ".intercalate (outs.map fun (t, l) => toString t ++ ":" ++ toString l)
  | ["failflow", frame, errWrites, withFile, n, mode, arg, cls] =>
    let fr : Fail.Frame := if frame == "inside" then .insideTry errWrites.toNat! else .outsideTry
    let k := arg.toNat!
    let failsAt : Nat → Bool := if mode == "at" then (fun i => i == k) else if mode == "from" then (fun i => k ≤ i) else (fun _ => false)
    let o := Fail.flow fr (decBool withFile) n.toNat! failsAt cls.toNat!
    (match o.escaped with | some c => toString c | none => "-") ++ "\t" ++
      " ".intercalate ((Fail.logsOf o).map toString) ++ "\t" ++ toString (Fail.opens o) ++ "\t" ++ toString (Fail.closes o) ++ "\t" ++
      toString (o.events.filter fun e => match e with | .write _ => true | _ => false).length
  | ["zipindex", members, queries] =>
    -- members: space separated `name;orig;L|F;dest`; queries: list of zip-internal path strings
    let ms : List Zip.Member := if members == "~" then [] else (members.splitOn " ").filterMap fun r =>
      match r.splitOn ";" with
      | [n, o, l, d] => some { name := decStr n, orig := decStr o, isLink := l == "L", dest := decStr d }
      | _ => none
    (match Zip.buildIndex ms with
     | none => "CRASH"
     | some ix =>
       " ".intercalate ((decList queries).map fun q =>
         (match Zip.kindAt ix q with
          | some .dir => "d"
          | some (.file o) => "f:" ++ encStr o
          | none => "-") ++ "|" ++
         (match Zip.listdir ix q with
          | some l => encList l
          | none => "!")))
  | ["ziptree", members, queries] =>
    -- the same answers read off the tree the index stands for (`toTree`, unfolded two levels deeper than the path)
    let ms : List Zip.Member := if members == "~" then [] else (members.splitOn " ").filterMap fun r =>
      match r.splitOn ";" with
      | [n, o, l, d] => some { name := decStr n, orig := decStr o, isLink := l == "L", dest := decStr d }
      | _ => none
    (match Zip.buildIndex ms with
     | none => "CRASH"
     | some ix =>
       " ".intercalate ((decList queries).map fun q =>
         let comps := if q.isEmpty then [] else splitOn 47 q
         if comps.any (fun c => c.isEmpty || c == [46]) then "~" else
         match lwalk (Zip.toTree ix (fun o => o) (comps.length + 2) []) comps with
         | some (.dir kids) => "d|" ++ encList (kids.map (·.1))
         | some (.file d) => "f:" ++ encStr d ++ "|!"
         | some .other => "o|!"
         | none => "-|!"))
  | ["inarchive", z, s] => encBool (Zip.inArchive (decStr z) (decStr s))
  | ["normpath", s] => encStr (Zip.normpath (decStr s))
  | ["pathsplit", s] => let (a, b) := Zip.pathSplit (decStr s); encStr a ++ "\t" ++ encStr b
  | ["respond", wire, head, kind, a, b, c] =>
    let w : Wire := match wire with
      | "gopher" => .gopher | "gopherp" => .gopherp | "http" => .http | "wap" => .wap | "gemini" => .gemini | _ => .spartan
    let o : HOutcome := match kind with
      | "notfound" => .notFound (decStr a)
      | "ioerror" => .ioError (decStr a)
      | "doc" => .document (decStr a) (if b == "!" then none else some b.toNat!) (decOpt c) []
      | _ => .info []
    encStr (respond w Generated.gplusAdmin (decBool head) o)
  | ["statusline", code, mt] => encStr (statusLine (decStr code) (decStr mt))
  | ["talcompile", nodes] =>
    ";".intercalate ((Tal.compileList 0 (TalIO.parseNodes nodes)).map TalIO.encCmd)
  | ["talexpand", allowPy, globals, nodes] =>
    let t := TalIO.parseNodes nodes
    let g := match TalIO.parseVal globals with | .map m => m | _ => []
    let ctx : Tal.Ctx := { globals := g, allowPython := decBool allowPy }
    let py : Str → Tal.Val := fun _ => .str (lit "PYTHON-ORACLE")
    let prog := Tal.compileList 0 t
    let viaMachine := Tal.expand py (200000) t ctx
    let (dOut, dCtx) := Tal.denoteList py t ctx
    (match viaMachine with
     | none => "MACHINE-STUCK"
     | some (o, c) =>
       encStr o ++ "\t" ++ TalIO.encVars c.locals ++ "\t" ++ TalIO.encVars c.globals ++ "\t" ++ toString c.localStack.length ++ "\t" ++
         toString c.repeatStack.length ++ "\t" ++ toString c.repeatMap.length ++ "\t" ++ toString prog.length) ++ "\t" ++
      encStr dOut ++ "\t" ++ TalIO.encVars dCtx.locals ++ "\t" ++ TalIO.encVars dCtx.globals ++ "\t" ++ toString dCtx.localStack.length
  | ["talmetal", allowPy, globals, macros, nodes] =>
    -- macro expansion (Model/Metal) into a plain TAL tree, then the machine and the denotation on that tree
    let t := Tal.expandTemplate (TalIO.parseMacros macros) 64 (TalIO.parseMNodes nodes)
    let g := match TalIO.parseVal globals with | .map m => m | _ => []
    let ctx : Tal.Ctx := { globals := g, allowPython := decBool allowPy }
    let py : Str → Tal.Val := fun _ => .str (lit "PYTHON-ORACLE")
    let (dOut, dCtx) := Tal.denoteList py t ctx
    (match Tal.expand py 200000 t ctx with
     | none => "MACHINE-STUCK"
     | some (o, _) => encStr o) ++ "\t" ++ encStr dOut ++ "\t" ++ TalIO.encVars dCtx.locals ++ "\t" ++ toString dCtx.localStack.length
  | ["talinclude", allowPy, globals, tpls, nodes] =>
    -- templates included through `structure` (Model/Include) substituted into a plain TAL tree, then machine and denotation
    let t := Tal.inlineList (TalIO.parseTpls tpls) 64 (TalIO.parseNodes nodes)
    let g := match TalIO.parseVal globals with | .map m => m | _ => []
    let ctx : Tal.Ctx := { globals := g, allowPython := decBool allowPy }
    let py : Str → Tal.Val := fun _ => .str (lit "PYTHON-ORACLE")
    let (dOut, dCtx) := Tal.denoteList py t ctx
    (match Tal.expand py 200000 t ctx with
     | none => "MACHINE-STUCK"
     | some (o, _) => encStr o) ++ "\t" ++ encStr dOut ++ "\t" ++ TalIO.encVars dCtx.locals ++ "\t" ++ toString dCtx.localStack.length
  | ["tales", allowPy, globals, locals, expr] =>
    let g := match TalIO.parseVal globals with | .map m => m | _ => []
    let l := match TalIO.parseVal locals with | .map m => m | _ => []
    let ctx : Tal.Ctx := { globals := g, locals := l, allowPython := decBool allowPy }
    TalIO.encVal (Tal.eval (fun _ => .str (lit "PYTHON-ORACLE")) ctx (decStr expr))
  | ["skeleton", st, page] =>
    let (s, k) := run (tstateOf st) (decStr page)
    (match s with | .text => "text" | .tag => "tag" | .attrDq => "dq" | .attrSq => "sq") ++ "\t" ++ encStr k
  | ["httperror", msg] => encStr (emit (httpErrorSegs (decStr msg)))
  | ["waperror", msg] => encStr (emit (wapErrorSegs (decStr msg)))
  | ["waptext", ls] => encStr (emit (wapTextSegs (decList ls)))
  | _ => "bad-op"

partial def loop (h : IO.FS.Stream) (out : IO.FS.Stream) : IO Unit := do
  let line ← h.getLine
  if line.isEmpty then return ()
  let l := if line.endsWith "\n" then (line.dropEnd 1).toString else line
  out.putStrLn (step (l.splitOn "\t"))
  loop h out

def main : IO Unit := do
  let out ← IO.getStdout
  loop (← IO.getStdin) out
