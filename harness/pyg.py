"""Drive the real pygopherd code (from /repo's working tree) in-process.

Nothing here is imported from /verif's model; this is the implementation side of
every correspondence and every property oracle.  See DESIGN.md §4.2 for the traps
this file is built around (module-level lazies, cwd, BytesIO vs descriptors).
"""
import configparser
import io
import os
import shutil
import signal
import socket
import ssl
import sys
import tempfile
import threading
import warnings

REPO = os.environ.get("PYG_REPO", "/repo")
GUARD = "PYGOPHERD_VERIF"
os.environ.setdefault(GUARD, "1")
if REPO not in sys.path:
    sys.path.insert(0, REPO)
warnings.filterwarnings("ignore")

_cwd0 = os.getcwd()
os.chdir(REPO)
try:
    from pygopherd import GopherExceptions, initialization, logger  # noqa: E402
    from pygopherd.server import GopherRequestHandler  # noqa: E402
    import pygopherd.handlers.base as _hb  # noqa: E402
    import pygopherd.handlers.HandlerMultiplexer as _hm  # noqa: E402
    import pygopherd.gopherentry as _ge  # noqa: E402
    import pygopherd.handlers.UMN as _umn  # noqa: E402
finally:
    os.chdir(_cwd0)

CONF = os.path.join(REPO, "conf", "pygopherd.conf")

SHIPPED_HANDLERS = None  # filled by base_config()
FULL_HANDLERS = (
    "[url.HTMLURLHandler, gophermap.BuckGophermapHandler, mbox.MaildirFolderHandler, "
    "mbox.MaildirMessageHandler, ZIP.ZIPHandler, tal.TALFileHandler, UMN.UMNDirHandler, "
    "html.HTMLFileTitleHandler, mbox.MBoxMessageHandler, mbox.MBoxFolderHandler, "
    "pyg.PYGHandler, scriptexec.ExecHandler, file.CompressedFileHandler, file.FileHandler]"
)
DIR_HANDLERS = (
    "[url.HTMLURLHandler, gophermap.BuckGophermapHandler, dir.DirHandler, "
    "html.HTMLFileTitleHandler, file.FileHandler]"
)

degraded = []  # names of internal hooks that were not found ("tie degraded: ...")


def reset_globals():
    """Forget configuration cached in module globals (one call per config switch)."""
    for mod, names in ((_hb, ["rootpath"]), (_hm, ["handlers", "rootpath"]),
                       (_ge, ["mapping", "eaexts"]), (_umn, ["extstrip"])):
        for n in names:
            if hasattr(mod, n):
                setattr(mod, n, None)
            else:
                if n not in degraded:
                    degraded.append(f"{mod.__name__}.{n}")


_module_state = None


def fresh_process_state():
    """Put every module-level container of pygopherd.* and simpletal.* back to what it held right after import, and the known
    configuration lazies back to unset: what a freshly started server process has.  (A memo or cache a change adds at module
    level is emptied here too, so that a reply can be compared with the reply of a process that has served nothing yet.)"""
    global _module_state
    import copy
    import types
    mods = [m for n, m in list(sys.modules.items()) if m is not None and (n.startswith("pygopherd") or n.startswith("simpletal"))]
    if _module_state is None:
        _module_state = {}
        for m in mods:
            for k, v in list(vars(m).items()):
                if k.startswith("__") or isinstance(v, (types.ModuleType, types.FunctionType, type)):
                    continue
                if isinstance(v, (dict, list, set)):
                    try:
                        _module_state[(m.__name__, k)] = copy.deepcopy(v)
                    except Exception:  # noqa
                        pass
        return
    for m in mods:
        for k, v in list(vars(m).items()):
            if k.startswith("__") or isinstance(v, (types.ModuleType, types.FunctionType, type)):
                continue
            if isinstance(v, (dict, list, set)):
                if m.__name__ in ("pygopherd.logger",):
                    continue
                saved = _module_state.get((m.__name__, k))
                try:
                    if saved is None:
                        v.clear()                      # a container that did not exist (or was not a container) at import time
                    elif isinstance(v, dict):
                        v.clear()
                        v.update(copy.deepcopy(saved))
                    elif isinstance(v, list):
                        v[:] = copy.deepcopy(saved)
                    else:
                        v.clear()
                        v.update(copy.deepcopy(saved))
                except Exception:  # noqa
                    pass
    reset_globals()


_log_lines = []


LOG_THROUGH = None      # None | "file" | "syslog": also pass every log line through the real logging function of that method


def _syslog_standin(prio, m):
    """What syslog.syslog() asks of its message (measured on CPython 3.12): text UTF-8 can encode, with no NUL in it."""
    m.encode("utf-8")
    if "\0" in m:
        raise ValueError("embedded null character")


def _log(msg):
    _log_lines.append(msg)
    if LOG_THROUGH == "file":
        class _Out:
            buffer = io.BytesIO()
        old = sys.stdout
        sys.stdout = _Out
        try:
            logger.log_file(msg)            # (a failure to log is the server's failure, as in production)
        finally:
            sys.stdout = old
    elif LOG_THROUGH == "syslog":
        logger.syslogfunc = _syslog_standin
        logger.priority = 0
        logger.log_syslog(msg)


_mime_done = False


def base_config():
    """The shipped configuration, parsed from /repo/conf/pygopherd.conf."""
    global SHIPPED_HANDLERS
    c = configparser.ConfigParser()
    c.read(CONF)
    if SHIPPED_HANDLERS is None:
        SHIPPED_HANDLERS = c.get("handlers.HandlerMultiplexer", "handlers")
    return c


def init_once():
    global _mime_done
    if _mime_done:
        return
    c = base_config()
    c.set("logger", "logmethod", "none")
    logger.init(c)
    logger.log = _log
    cwd = os.getcwd()
    os.chdir(REPO)
    try:
        initialization.init_mimetypes(c)
    finally:
        os.chdir(cwd)
    _log_lines.clear()
    _mime_done = True
    if _module_state is None:
        fresh_process_state()       # first call: remember the state right after import and initialisation


def make_config(root, handlers=None, **kw):
    """kw: section__option=value with '.' in section written as '_' is ambiguous,
    so keys are 'section|option'."""
    init_once()
    c = base_config()
    c.set("pygopherd", "root", root)
    if handlers:
        c.set("handlers.HandlerMultiplexer", "handlers", handlers)
    for k, v in kw.items():
        sec, opt = k.split("|")
        if not c.has_section(sec):
            c.add_section(sec)
        c.set(sec, opt, v)
    return c


class FakeServer:
    """The attributes of BaseServer that request handling reads."""

    def __init__(self, config, name="srv.example", port=7070, context=None):
        self.config = config
        self.server_name = name
        self.server_port = port
        self.context = context


class _PlainReq:
    pass


class _TLSReq(ssl.SSLSocket):
    def __init__(self):  # noqa
        pass

    def __del__(self):
        pass


class _Handler(GopherRequestHandler):
    def __init__(self, request, client_address, server, rfile, wfile):  # noqa
        self.request = request
        self.client_address = client_address
        self.server = server
        self.rfile = rfile
        self.wfile = wfile


class Resp:
    __slots__ = ("out", "log", "exc", "proto", "handler", "selector")

    def __init__(self, out, log, exc):
        self.out = out
        self.log = log
        self.exc = exc
        self.proto = None
        self.handler = None
        self.selector = None
        for ln in log:
            # "<ip> [Proto/Handler]: selector"   (BaseGopherProtocol.log)
            i = ln.find(" [")
            j = ln.find("]: ", i)
            if i >= 0 and j >= 0 and "EXCEPTION" not in ln[i:j + 12]:
                ph = ln[i + 2:j].split("/")
                if len(ph) == 2:
                    self.proto, self.handler = ph
                    self.selector = ln[j + 3:]
                    break

    def exceptions(self):
        """Classes after 'EXCEPTION' in the log, in order."""
        res = []
        for ln in self.log:
            k = ln.find("] EXCEPTION ")
            if k >= 0:
                rest = ln[k + 12:]
                res.append(rest.split(":", 1)[0])
        return res


class Hang(BaseException):
    """A request that did not return within its time limit (blocked on a FIFO, a socket, a lock...).
    BaseException so that no `except Exception` in the code under test swallows it."""


def _on_alarm(signum, frame):
    raise Hang("request did not return within the time limit")


REQUEST_TIMEOUT = float(os.environ.get("VERIF_REQUEST_TIMEOUT", "6"))


def request(req, config, tls=False, cwd=None, wfile=None, server=None, reset=True,
            quiet=True, rfile=None):
    """Run one request line (bytes, including what follows the first line) through the
    real GopherRequestHandler.handle.  Returns Resp.  A request that blocks longer than
    REQUEST_TIMEOUT seconds is interrupted (main thread only) and reported as exc=Hang."""
    init_once()
    if reset:
        reset_globals()
    del _log_lines[:]
    if rfile is None:
        rfile = io.BytesIO(req)
    own = wfile is None
    if own:
        wfile = io.BytesIO()
    server = server or FakeServer(config)
    h = _Handler(_TLSReq() if tls else _PlainReq(), ("10.77.77.77", "7777"), server,
                 rfile, wfile)
    exc = None
    old = os.getcwd()
    olderr = sys.stderr
    if quiet:
        sys.stderr = io.StringIO()
    if cwd:
        os.chdir(cwd)
    timed = threading.current_thread() is threading.main_thread()
    if timed:
        prev = signal.signal(signal.SIGALRM, _on_alarm)
        signal.setitimer(signal.ITIMER_REAL, REQUEST_TIMEOUT)
    try:
        GopherRequestHandler.handle(h)
    except BaseException as e:  # noqa
        if isinstance(e, (KeyboardInterrupt, SystemExit)):
            raise
        exc = e
    finally:
        if timed:
            signal.setitimer(signal.ITIMER_REAL, 0)
            signal.signal(signal.SIGALRM, prev)
        sys.stderr = olderr
        if cwd:
            os.chdir(old)
    out = wfile.getvalue() if own else None
    return Resp(out, list(_log_lines), exc)


def request_segmented(req, config, cuts, tls=False, gap=0.015, **kw):
    """The same request arriving in pieces over a real socket: req[:cuts[0]], a pause, req[cuts[0]:cuts[1]], ... then the
    client's write side is closed.  The server side reads through socket.makefile("rb") as StreamRequestHandler does, so a
    read that does not wait for all the bytes it was asked for (read1, a bare recv) sees only what has arrived."""
    import socket
    import time
    a, b = socket.socketpair()
    rf = b.makefile("rb")

    def feed():
        prev = 0
        try:
            for c in list(cuts) + [len(req)]:
                if c > prev:
                    a.sendall(req[prev:c])
                    prev = c
                    time.sleep(gap)
            a.shutdown(socket.SHUT_WR)
        except OSError:
            pass
    th = threading.Thread(target=feed, daemon=True)
    th.start()
    try:
        return request(b"", config, tls=tls, rfile=rf, **kw)
    finally:
        th.join(2)
        for x in (rf, a, b):
            try:
                x.close()
            except OSError:
                pass


def request_live(req, config, tls=False, limit=3.0, **kw):
    """The request over a real socket whose client keeps its sending side open (as a browser or netcat does) while it waits
    for the answer.  -> (Resp or None, answered_in_time).  A server that goes on reading after the request is complete
    blocks here until `limit`; the client then closes and the late answer (if any) is returned with answered_in_time False."""
    import socket
    a, b = socket.socketpair()
    rf = b.makefile("rb")
    box = {}

    def serve():
        box["r"] = request(b"", config, tls=tls, rfile=rf, **kw)
    a.sendall(req)
    th = threading.Thread(target=serve, daemon=True)
    th.start()
    th.join(limit)
    in_time = not th.is_alive()
    try:
        a.shutdown(socket.SHUT_WR)
    except OSError:
        pass
    th.join(10)
    for x in (rf, a, b):
        try:
            x.close()
        except OSError:
            pass
    return box.get("r"), in_time


def get_protocol(line, config, tls=False, rest=b""):
    """Class name of the protocol the real multiplexer selects (or the exception)."""
    init_once()
    from pygopherd.protocols import ProtocolMultiplexer
    rfile = io.BytesIO(rest)
    wfile = io.BytesIO()
    h = _Handler(_TLSReq() if tls else _PlainReq(), ("10.77.77.77", "7777"),
                 FakeServer(config), rfile, wfile)
    try:
        p = ProtocolMultiplexer.getProtocol(line, h.server, h, rfile, wfile, config)
    except Exception as e:  # noqa
        return "EXC:" + type(e).__name__, None
    return (type(p).__name__ if p is not None else "NONE"), p


# ---------------------------------------------------------------------------
# scratch trees


class Tree:
    """A content tree under a fresh temp directory: <tmp>/root is the document root;
    <tmp> itself is 'outside'."""

    def __init__(self, prefix="pygverif-"):
        base = "/dev/shm" if os.path.isdir("/dev/shm") and os.access("/dev/shm", os.W_OK) else None
        self.tmp = tempfile.mkdtemp(prefix=prefix, dir=base)
        self.root = os.path.join(self.tmp, "root")
        os.mkdir(self.root)

    def path(self, rel):
        if isinstance(rel, str):
            rel = os.fsencode(rel)
        return os.path.join(os.fsencode(self.root), rel.lstrip(b"/"))

    def write(self, rel, data=b"", mode=None):
        p = self.path(rel)
        os.makedirs(os.path.dirname(p), exist_ok=True)
        if isinstance(data, str):
            data = data.encode("utf-8", "surrogateescape")
        with open(p, "wb") as f:
            f.write(data)
        if mode is not None:
            os.chmod(p, mode)
        return p

    def mkdir(self, rel):
        os.makedirs(self.path(rel), exist_ok=True)

    def outside(self, rel, data=b""):
        p = os.path.join(os.fsencode(self.tmp), os.fsencode(rel) if isinstance(rel, str) else rel)
        os.makedirs(os.path.dirname(p), exist_ok=True)
        with open(p, "wb") as f:
            f.write(data if isinstance(data, bytes) else data.encode())
        return p

    def close(self):
        shutil.rmtree(self.tmp, ignore_errors=True)

    def __enter__(self):
        return self

    def __exit__(self, *a):
        self.close()


# ---------------------------------------------------------------------------
# audit of file-system access

_audit_sink = None
_audit_installed = False


def _audit(event, args):
    sink = _audit_sink
    if sink is None:
        return
    if event in ("open", "os.listdir", "os.scandir", "os.chroot", "os.mkdir",
                 "os.remove", "os.rename", "subprocess.Popen", "os.exec", "os.posix_spawn"):
        try:
            a0 = args[0]
            if event == "open" and isinstance(a0, int):
                return
            sink.append((event, a0))
        except Exception:  # noqa
            pass


class audit:
    """with audit() as events: ...  — events is a list of (event, first argument)."""

    def __enter__(self):
        global _audit_sink, _audit_installed
        if not _audit_installed:
            sys.addaudithook(_audit)
            _audit_installed = True
        self.events = []
        _audit_sink = self.events
        return self.events

    def __exit__(self, *a):
        global _audit_sink
        _audit_sink = None


def fsdecode(p):
    return p.decode("utf-8", "surrogateescape") if isinstance(p, bytes) else p


# ---------------------------------------------------------------------------
# recording handler: what selector / search string does a protocol hand to the handlers?

_rec_log = []


def _make_recorder():
    from pygopherd.handlers.base import BaseHandler
    from pygopherd import gopherentry

    class VerifRecorder(BaseHandler):
        def isrequestforme(self):
            _rec_log.append((self.selector, self.searchrequest))
            return True

        def getentry(self):
            e = gopherentry.GopherEntry(self.selector, self.config)
            e.type = "0"
            e.mimetype = "text/plain"
            e.name = "rec"
            return e

        def write(self, wfile):
            wfile.write(b"REC")
    return VerifRecorder


def recorder_config(root="/nonexistent-root", **kw):
    """A configuration whose only handler records (selector, searchrequest)."""
    if not hasattr(_hm, "VerifRecorder"):
        _hm.VerifRecorder = _make_recorder()
    return make_config(root, "[VerifRecorder]", **kw)


def parse_via_recorder(req, cfg, tls=False, cuts=None):
    """-> (selector, search, Resp).  selector is None when no handler was consulted.  cuts: deliver the request in pieces."""
    del _rec_log[:]
    r = request(req, cfg, tls=tls) if cuts is None else request_segmented(req, cfg, cuts, tls=tls)
    if _rec_log:
        return _rec_log[0][0], _rec_log[0][1], r
    return None, None, r
