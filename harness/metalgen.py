"""METAL macros: template generator (a macro library and a page that uses it, fills slots, nests macro uses, defines macros of
its own), serialisation for the real compiler, encoding for Model/Metal, the real expansion, and an independent evaluator
(macro use as tree substitution, then the TAL evaluator of talgen).

Node forms (in addition to talgen's ("text", s) and ("elem", tag, attrs, tal, kids)):
    ("melem", tag, attrs, tal, kids, metal)       metal: dict with at most one of use-macro / define-macro and any of define-slot / fill-slot
"""
import html
import io

import talgen
from leanio import enc_str
from talgen import simpleTAL, simpleTALES

SLOTS = ["title", "foot", "extra", "inner"]


def _tal_kid(rnd, depth=2):
    """a TAL (macro-free) node from the C17 grammar"""
    return talgen.gen(rnd, depth)


def gen_slot(rnd, name):
    kids = [("text", rnd.choice(["default " + name, "d:", ""]))] + [_tal_kid(rnd) for _ in range(rnd.randint(0, 2))]
    # no TAL command on the slot element itself (TAL commands run before METAL ones on one element: outside the substitution reading)
    return ("melem", rnd.choice(["h2", "span", "em", "li"]), [("class", "slot")] if rnd.random() < 0.4 else [], {}, kids, {"define-slot": name})


def gen_macro(rnd, name, earlier):
    kids = []
    for _ in range(rnd.randint(1, 4)):
        r = rnd.random()
        if r < 0.35:
            kids.append(gen_slot(rnd, rnd.choice(SLOTS)))
        elif r < 0.5 and earlier:
            kids.append(gen_use(rnd, "mac/" + rnd.choice(earlier), SLOTS))
        elif r < 0.8:
            kids.append(_tal_kid(rnd))
        else:
            kids.append(("text", rnd.choice(["macro text ", "m ", "\n"])))
    # a slot name defined twice in one macro is legal (both are filled)
    tal = {}
    if rnd.random() < 0.15:
        tal["define"] = "mv string:in-" + name
    return ("melem", rnd.choice(["div", "ul", "p", "td"]), [("class", name)] if rnd.random() < 0.6 else [], tal, kids, {"define-macro": name})


NAMES = []        # macro names of the case being generated (set by gen_case)


def gen_fill(rnd, name, depth=0):
    kids = [("text", "filled " + name + " ")] + [_tal_kid(rnd) for _ in range(rnd.randint(0, 2))]
    if NAMES and depth < 2 and rnd.random() < 0.3:
        # a macro used inside a filler, with fillers of its own: they belong to the inner use, not to the enclosing one
        kids.insert(rnd.randint(0, len(kids)), gen_use(rnd, "mac/" + rnd.choice(NAMES), SLOTS, depth=depth + 1))
    tal = {}
    r = rnd.random()
    if r < 0.15:
        tal["repeat"] = "fx lst"
    elif r < 0.3:
        tal["content"] = rnd.choice(["s", "title", "string:f ${n}"])
    return ("melem", rnd.choice(["b", "h3", "span", "li"]), [("id", "f-" + name)] if rnd.random() < 0.3 else [], tal, kids, {"fill-slot": name})


def gen_use(rnd, expr, slotnames, resolved=None, depth=0):
    """`expr` is what the template says; `resolved` (default: the same) names the macro it denotes at that point"""
    kids = [("text", rnd.choice(["ignored text", "", " "]))]
    used = set()
    for _ in range(rnd.randint(0, 3)):
        n = rnd.choice(slotnames + ["nosuchslot"])
        if n in used:
            continue
        used.add(n)
        f = gen_fill(rnd, n, depth)
        if rnd.random() < 0.3:
            f = ("elem", "div", [], {}, [("text", "wrapper (not output) "), f])      # a filler below a plain wrapper still belongs to this use
        kids.append(f)
    if rnd.random() < 0.2:
        kids.append(_tal_kid(rnd))        # TAL inside a use-macro element that is not a filler: never evaluated
    metal = {"use-macro": expr}
    if resolved is not None and resolved != expr:
        metal["_resolved"] = resolved
    return ("melem", rnd.choice(["div", "section", "span"]), [("class", "use")] if rnd.random() < 0.3 else [], {}, kids, metal)


def gen_case(rnd):
    """-> (library ast, page ast)"""
    names = ["box", "lister", "plain", "outer"][:rnd.randint(1, 4)]
    NAMES[:] = []          # (the library's own macros do not use macros inside fillers: `earlier` governs what a macro may use)
    lib, earlier = [], []
    for n in names:
        lib.append(gen_macro(rnd, n, earlier))
        lib.append(("text", "\n"))
        earlier.append(n)
    page = []
    own = []
    NAMES[:] = names
    # a second library with the same macro names: which one `lib/<name>` denotes depends on the tal:define in force
    lib2 = []
    for n in names:
        lib2.append(gen_macro(rnd, n, []))
        lib2.append(("text", "\n"))
    gen_case.lib2 = lib2
    if rnd.random() < 0.5:
        for which in rnd.sample(["mac", "mac2", "mac"], 2):
            n = rnd.choice(names)
            page.append(("elem", "div", [("class", "scope")], {"define": "lib " + which},
                         [gen_use(rnd, "lib/" + n, SLOTS, resolved=which + "/" + n), ("text", " ")]))
    if rnd.random() < 0.5:
        # a macro use (and, inside the macro, filled slots) below a repeated element with attributes of its own
        n = rnd.choice(names)
        page.append(("elem", "ul", [], {}, [("elem", "li", [("class", "row"), ("title", "static")], {"repeat": "r lst"},
                                           [("elem", "b", [], {"content": "r"}, []), gen_use(rnd, "mac/" + n, SLOTS), ("text", ";")])]))
    for _ in range(rnd.randint(2, 5)):
        r = rnd.random()
        if r < 0.45:
            page.append(gen_use(rnd, "mac/" + rnd.choice(names + ["missingmacro"] if rnd.random() < 0.1 else names), SLOTS))
        elif r < 0.55:
            nm = "own%d" % len(own)
            own.append(nm)
            page.append(gen_macro(rnd, nm, names))      # a macro defined in the page itself: rendered in place, usable below
        elif r < 0.65 and own:
            page.append(gen_use(rnd, "own/" + rnd.choice(own), SLOTS))
        elif r < 0.75:
            page.append(gen_slot(rnd, rnd.choice(SLOTS)))          # a slot outside any macro expansion: an ordinary element
        else:
            page.append(_tal_kid(rnd, 1))
    return lib, page


def second_library():
    """the library generated alongside the last gen_case (same macro names, other bodies)"""
    return gen_case.lib2


def ser(n):
    if n[0] == "text":
        return n[1]
    if n[0] == "elem":
        _, tag, attrs, tal, kids = n
        metal = {}
    else:
        _, tag, attrs, tal, kids, metal = n
    a = "".join(' %s="%s"' % (k, html.escape(v)) for k, v in attrs) + "".join(' tal:%s="%s"' % (k, html.escape(v)) for k, v in tal.items()) + \
        "".join(' metal:%s="%s"' % (k, html.escape(v)) for k, v in metal.items() if not k.startswith("_"))
    if tag in talgen.FORBIDDEN_END:
        return "<%s%s>" % (tag, a)
    return "<%s%s>%s</%s>" % (tag, a, "".join(ser(k) for k in kids), tag)


def has_metal(n):
    if n[0] == "melem":
        return True
    if n[0] == "elem":
        return any(has_metal(k) for k in n[4])
    return False


def nf(nodes):
    """normal form with METAL: ('D', s) | ('E', tag, attrs, orig, tal, noend, kids, metal)"""
    out = []

    def data(s):
        if out and out[-1][0] == "D":
            out[-1] = ("D", out[-1][1] + s)
        else:
            out.append(("D", s))
    for n in nodes:
        if n[0] == "text":
            data(n[1])
            continue
        tag, attrs, tal, kids = n[1], n[2], n[3], n[4]
        metal = n[5] if n[0] == "melem" else {}
        if not tal and not metal:
            data(talgen.tagtext(tag, attrs))
            if tag not in talgen.FORBIDDEN_END:
                for k in nf(kids):
                    if k[0] == "D":
                        data(k[1])
                    else:
                        out.append(k)
                data("</%s>" % tag)
            continue
        orig = list(attrs) + [("tal:" + k, v) for k, v in tal.items()] + [("metal:" + k, v) for k, v in metal.items() if not k.startswith("_")]
        out.append(("E", tag, attrs, orig, tal, tag in talgen.FORBIDDEN_END, nf(kids), metal))
    return out


def _opt(metal, k):
    return "s " + enc_str(metal[k]) if k in metal else "-"      # an optional field: marker token, then the value


def enc_mnode(n):
    if n[0] == "D":
        return "D " + enc_str(n[1])
    _, tag, attrs, orig, tal, noend, kids, metal = n
    m2 = dict(metal)
    if "_resolved" in m2:
        m2["use-macro"] = m2["_resolved"]          # the macro the expression denotes at this point of the template
    return " ".join(["E", enc_str(tag), talgen.enc_pairs(attrs), talgen.enc_pairs(orig), talgen.enc_cmds(tal), "F", "T" if noend else "F",
                     _opt(m2, "use-macro"), _opt(m2, "define-slot"), _opt(m2, "fill-slot"), enc_mnodes(kids)])


def enc_mnodes(nodes):
    return " ".join([str(len(nodes))] + [enc_mnode(n) for n in nodes])


def macro_table(prefix, nodes_nf, acc=None):
    """every define-macro element of a normal form, keyed by the expression a use site writes"""
    acc = [] if acc is None else acc
    for n in nodes_nf:
        if n[0] == "E":
            if "define-macro" in n[7]:
                acc.append((prefix + n[7]["define-macro"], n))
            macro_table(prefix, n[6], acc)
    return acc


def enc_macros(table):
    return " ".join([str(len(table))] + [enc_str(k) + " " + enc_mnode(n) for k, n in table])


# ---------------------------------------------------------------------------
# the real thing

def real_expand(lib_src, page_src, g, lib2_src=None):
    lib = simpleTAL.compileHTMLTemplate(lib_src)
    page = simpleTAL.compileHTMLTemplate(page_src)
    lib2 = simpleTAL.compileHTMLTemplate(lib2_src) if lib2_src is not None else None
    ctx = simpleTALES.Context(allowPythonPath=0)
    for k, v in g.items():
        ctx.addGlobal(k, v)
    ctx.addGlobal("mac", lib.macros)
    if lib2 is not None:
        ctx.addGlobal("mac2", lib2.macros)
    ctx.addGlobal("own", page.macros)
    o = talgen.Sink()
    with talgen.time_limit():
        page.expand(ctx, o)
    return o.getvalue(), ctx


# ---------------------------------------------------------------------------
# independent evaluator: substitution, then talgen's TAL evaluator

def _fillers(kids, acc):
    for k in kids:
        if k[0] == "melem":
            if "use-macro" in k[5]:
                continue
            if "fill-slot" in k[5]:
                acc.setdefault(k[5]["fill-slot"], k)
                continue
            _fillers(k[4], acc)
        elif k[0] == "elem":
            _fillers(k[4], acc)
    return acc


def _macros_of(prefix, nodes, acc):
    for n in nodes:
        if n[0] in ("elem", "melem"):
            if n[0] == "melem" and "define-macro" in n[5]:
                acc.setdefault(prefix + n[5]["define-macro"], n)
            _macros_of(prefix, n[4], acc)
    return acc


def substitute(nodes, macros, slots, depth=0):
    """METAL tree -> plain TAL tree (talgen node forms)"""
    out = []
    for n in nodes:
        if n[0] == "text":
            out.append(n)
        elif n[0] == "elem":
            out.append(("elem", n[1], n[2], n[3], substitute(n[4], macros, slots, depth)))
        else:
            _, tag, attrs, tal, kids, metal = n
            if depth > 10:
                continue
            if "use-macro" in metal:
                m = macros.get(metal.get("_resolved", metal["use-macro"]))
                if m is None:
                    continue
                body = ("melem", m[1], m[2], m[3], m[4], {k: v for k, v in m[5].items() if k not in ("define-macro", "use-macro")})
                out.extend(substitute([body], macros, _fillers(kids, {}), depth + 1))
            elif "define-slot" in metal and metal["define-slot"] in slots:
                f = slots[metal["define-slot"]]
                body = ("melem", f[1], f[2], f[3], f[4], {k: v for k, v in f[5].items() if k != "define-slot"})
                out.extend(substitute([body], macros, slots, depth + 1))
            else:
                out.append(("elem", tag, attrs, tal, substitute(kids, macros, slots, depth)))
    return out


def oracle_expand(lib, page, g, lib2=None):
    macros = _macros_of("mac/", lib, {})
    if lib2 is not None:
        _macros_of("mac2/", lib2, macros)
    _macros_of("own/", page, macros)
    plain = substitute(page, macros, {})
    return talgen.oracle_expand(plain, g, False)[0], plain
