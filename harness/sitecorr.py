"""Whole-site correspondence: Model/Site (file tree -> path resolution -> handler dispatch -> entries -> rendering)
against the real server on the same tree.

A seeded tree is written to disk and encoded for the driver; for every query selector the model's answer
(not-found / menu rows / document bytes, and the handler class) is compared with the real response to the same
selector through the core handler chains [gophermap?, UMN | dir, file].  Library answers that depend on a name only
(mimetypes.guess_type, the type mapping, extension stripping) are sent as tables computed with the real functions.
"""
import mimetypes
import os
import re

import listing
import pyg
import reqs
from leanio import enc_str, enc_list, enc_opt, dec_str

CHAINS = {
    # name: (handler list or None for the shipped configuration, chain code for the model:
    #        U = url.HTMLURLHandler first, G = gophermap handler, M = UMN (else plain) directory handler, H = HTML title handler)
    "gm+umn": ("[gophermap.BuckGophermapHandler, UMN.UMNDirHandler, file.FileHandler]", "GM"),
    "gm+dir": ("[gophermap.BuckGophermapHandler, dir.DirHandler, file.FileHandler]", "G"),
    "umn": ("[UMN.UMNDirHandler, file.FileHandler]", "M"),
    "dir": ("[dir.DirHandler, file.FileHandler]", ""),
    "url+gm+umn+html": ("[url.HTMLURLHandler, gophermap.BuckGophermapHandler, UMN.UMNDirHandler, html.HTMLFileTitleHandler, file.FileHandler]", "UGMH"),
    "url+dir+html": ("[url.HTMLURLHandler, dir.DirHandler, html.HTMLFileTitleHandler, file.FileHandler]", "UH"),
    # the shipped handler list itself: on trees without mailboxes the Maildir / mbox handlers claim nothing
    "shipped": (None, "UGMH"),
}

HANDLER_NAME = {"n": None, "gd": "BuckGophermapHandler", "gf": "BuckGophermapHandler", "f": "FileHandler", "u": "HTMLURLHandler", "h": "HTMLFileTitleHandler"}

NAMES = ["a.txt", "b.html", "index.html", "b.html", "README", "data.bin", "x.tar.gz", "dump.gz", "sp ace.txt", "q?mark.txt", "am&p.txt", "caf\xe9.txt", "\udcae.txt", "a..b",
         "dot.", "trail.", "UPPER.TXT", "noext", "x.gophermap", "menu.gophermap", "img.gif", "~tilde", "0", "per%41cent", "plus+.txt", "semi;colon",
         "hash#tag", "pipe|bar", "ti\tab", "lib", "backup~", "core", "z.3d", "k.ask"]
DIRNAMES = ["sub", "docs", "pics", "d.ir", "sp ace", "caf\xe9", "deep", "a..d", "arch.zip", "x.gophermap"]
DOTFILES = [".hidden", ".Links", ".names", ".abstract", ".cache-old"]

LINK_BLOCKS = [
    b"Name=Remote server\nType=1\nPath=/\nHost=gopher.example.net\nPort=70\n",
    b"Name=Relative link\nType=0\nPath=a.txt\n",
    b"Path=./%s\nName=Renamed %s\nNumb=2\n",
    b"Path=./%s\nType=X\n",
    b"Name=Negative\nType=0\nPath=/elsewhere\nNumb=-3\nHost=+\nPort=+\n",
    b"# a comment\nName=With abstract\nType=0\nPath=/x\nAbstract=first\\\nsecond\n",
    b"Name=Url link\nType=h\nPath=URL:http://example.org/x\n",
]
GM_LINES = [b"An info line\n", b"0A doc\t%s\n", b"1A dir\t%s\n", b"0Relative\ta.txt\n", b"1Remote\t/\texample.org\t70\n", b"hWeb\tURL:http://example.org/\n",
            b"0No selector given\n", b"0Missing\t/nothing-here\n", b"\n", b"0mail\tURL:mailto:a@b\n", b"7Search\t/sub\n", b"0Insecure\t/a..b\n", b"0CR LF line\t/README\r\n"]


class SiteTree:
    def __init__(self, rng, specials=True):
        self.rng = rng
        self.tree = pyg.Tree()
        self.records = []      # (selector, kind, data)
        self.dirs = ["/"]
        self.files = []
        self._build("", 0, specials)

    def _w(self, sel, data):
        self.tree.write(sel.encode("utf-8", "surrogateescape"), data)
        self.records.append((sel, "f", data))
        self.files.append(sel)

    def _d(self, sel):
        self.tree.mkdir(sel.encode("utf-8", "surrogateescape"))
        self.records.append((sel, "d", b""))
        self.dirs.append(sel)

    def _build(self, base, depth, specials):
        rng = self.rng
        names = rng.sample(NAMES, rng.randint(2, 7))
        made = []
        for n in names:
            sel = base + "/" + n
            if n.endswith(".gophermap"):
                data = self._gm(base, made)
            elif n.endswith(".html"):
                data = rng.choice([b"<html><head><title>A page title</title></head><body>x</body></html>\n",
                                   b"<html><head>\n<title>Spread  over\n two lines </title>\n</head></html>\n",
                                   b"<html><body>no title here</body></html>\n", b"<title>unterminated", b"",
                                   b"<HTML><HEAD><TITLE>Upper case tags</TITLE></HEAD></HTML>"])
            elif rng.random() < 0.15:
                data = bytes(rng.randrange(256) for _ in range(rng.randint(0, 40)))
            else:
                data = ("content of " + n + "\n").encode("utf-8", "surrogateescape") * rng.randint(0, 3)
            self._w(sel, data)
            made.append(n)
            if rng.random() < 0.25:
                self._w(sel + ".abstract", rng.choice([b"An abstract\n", b"two\nlines\n", b"trailing  \n", b"cr\r\nlf\r\n", b""]))
            if rng.random() < 0.08:
                self._w(sel + ".keywords", b"key words\n")
        if rng.random() < 0.5 and made:
            # link files
            for lf in rng.sample([".Links", ".names", ".renames", ".names~"], rng.randint(1, 2)):
                blocks = []
                for _ in range(rng.randint(1, 3)):
                    b = rng.choice(LINK_BLOCKS)
                    if b"%s" in b:
                        t = rng.choice(made).encode("utf-8", "surrogateescape")
                        b = b.replace(b"%s", t)
                    blocks.append(b)
                self._w(base + "/" + lf, b"\n".join(blocks))
        if rng.random() < 0.3 and made:
            t = rng.choice(made)
            self._w(base + "/.cap/" + t, rng.choice([b"Name=Capped name\nNumb=1\n", b"Type=X\n", b"Name=Only name\n", b"Numb=-1\n", b"Type=-\n"]))
        if rng.random() < 0.3:
            self._w(base + "/.abstract", b"Directory abstract\n")
        if rng.random() < 0.3:
            self._w(base + "/" + rng.choice([".hidden", ".cache-old"]), b"not a link file, just text\n")
        if rng.random() < 0.3:
            self._w(base + "/gophermap", self._gm(base, made))
        if specials and rng.random() < 0.2:
            p = self.tree.path((base + "/fifo-" + str(depth)).encode())
            os.mkfifo(p)
            self.records.append((base + "/fifo-" + str(depth), "o", b""))
        if depth < 2:
            for n in rng.sample(DIRNAMES, rng.randint(0, 3 if depth == 0 else 2)):
                if n in made:
                    continue
                self._d(base + "/" + n)
                self._build(base + "/" + n, depth + 1, specials)

    def _gm(self, base, made):
        rng = self.rng
        out = []
        for _ in range(rng.randint(1, 6)):
            ln = rng.choice(GM_LINES)
            if b"%s" in ln:
                t = (base + "/" + rng.choice(made)) if made and rng.random() < 0.7 else rng.choice(["/", "/sub", "/docs/a.txt", "/nothing"])
                ln = ln.replace(b"%s", t.encode("utf-8", "surrogateescape"))
            out.append(ln)
        return b"".join(out)

    def encode(self):
        recs = []
        for sel, kind, data in self.records:
            recs.append(";".join([enc_str(sel), kind, enc_str(data.decode("latin-1")) if data else "-"]))
        return " ".join(recs) if recs else "~"

    def tables(self, cfg):
        import pygopherd.fileext
        from pygopherd import gopherentry
        sels = set()
        for sel, kind, _ in self.records:
            sels.add(sel)
        # selectors gophermaps may point at
        for extra in ("/", "/sub", "/docs/a.txt", "/nothing", "/nothing-here", "/x", "/elsewhere", "/a..b", "/README"):
            sels.add(extra)
        g, mimes, names = [], set(), set()
        default = cfg.get("GopherEntry", "defaultmimetype")
        for s in sorted(sels):
            gm, ge = mimetypes.guess_type(s, strict=False)
            g.append(";".join([enc_str(s), enc_opt(gm), enc_opt(ge)]))
            mime = ("application/octet-stream" if ge else (gm or default))
            mimes.add(mime)
            n = s.rsplit("/", 1)[-1]
            mime_for_strip = (gm or "application/octet-stream") if ge else (gm or default)
            names.add((n, pygopherd.fileext.extstrip(n, mime_for_strip)))
        mapping = eval(cfg.get("GopherEntry", "mapping"))
        t = []
        for m in sorted(mimes):
            gt = "0"
            for rule in mapping:
                if re.match(rule[0], m):
                    gt = rule[1]
                    break
            t.append(enc_str(m) + ";" + enc_str(gt))
        st = [enc_str(a) + ";" + enc_str(b) for a, b in sorted(names)]
        return " ".join(g) or "~", " ".join(t) or "~", " ".join(st) or "~"

    def titles(self):
        """per file selector: does the HTML title handler claim it (strict guess_type says text/html), and the complete title it finds"""
        import dirmodel
        out = []
        for sel, kind, data in self.records:
            if kind != "f":
                continue
            ishtml = mimetypes.guess_type(sel)[0] == "text/html"
            title = dirmodel.html_title(self.tree.path(sel.encode("utf-8", "surrogateescape"))) if ishtml else None
            out.append(";".join([enc_str(sel), "T" if ishtml else "F", enc_opt(title)]))
        return " ".join(out) or "~"

    def queries(self, n_extra=12):
        rng = self.rng
        qs = list(self.dirs) + list(self.files)
        for sel, kind, _ in self.records:
            if kind == "o":
                qs.append(sel)
        for _ in range(n_extra):
            b = rng.choice(self.dirs + self.files)
            qs.append(rng.choice([b + "/nope", b + "x", b + "/.", b + "/..", b + "//a.txt", "/" + b.strip("/").upper(), b + "/.cap", b + "/gophermap",
                                  b + ".abstract", b + "/\udcff", b + "/\ud800"]))
        qs += ["URL:http://example.org/x", "/URL:https://a.b/c?d=e&f", "URL:http://h/\"quoted", "URL:mailto:a@b", "/URL:gopher://h:70/1/a..b//c"]
        seen, out = set(), []
        for q in qs:
            if q not in seen and "\n" not in q and "\r" not in q and "\t" not in q:      # TAB, CR, LF delimit a Gopher request
                seen.add(q)
                out.append(q)
        return out

    def close(self):
        self.tree.close()


def model_line(st, cfg, chain, view, gplus, queries):
    _, code = CHAINS[chain]
    g, t, s = st.tables(cfg)
    return "\t".join(["site", code or "-", st.titles(), view, "T" if gplus else "F", enc_str(listing.SRV[0]), str(listing.SRV[1]),
                      "T" if cfg.getboolean("pygopherd", "abstract_headers") else "F", enc_str(cfg.get("pygopherd", "abstract_entries")),
                      st.encode(), g, t, s, enc_list(queries)])


def real_answer(cfg, view, gplus, sel):
    """-> (kind, handlerclass, payload) with kind in N / M / D"""
    rq, tls = listing.request_for(view, gplus, sel)
    r = pyg.request(rq, cfg, tls=tls)
    proto = {"gopher": "gopherp" if gplus else "gopher", "gplusdir": "gopherp"}.get(view, view)
    cls, _ = reqs.classify(proto, r.out)
    return r, cls


def compare(ctx, res, n_trees, tag):
    """run the correspondence; disagreements go to res.disagree(tag + '.site…')"""
    rng = ctx.rng
    for ti in range(n_trees):
        st = SiteTree(rng)
        try:
            for chain in rng.sample(sorted(CHAINS), 2):
                hl, code = CHAINS[chain]
                umn = "M" in code
                cfg = pyg.make_config(st.tree.root, hl, **{"handlers.dir.DirHandler|cachetime": "0"})
                view, gplus = rng.choice([("gopher", False), ("gopher", False), ("gplusdir", True), ("http", False), ("gemini", False)])
                qs = st.queries()
                # selectors os.fsencode cannot encode never arrive over the wire as such; keep one form of them for the stat model
                out = ctx.driver.run([model_line(st, cfg, chain, view, gplus, qs)])[0]
                if out in ("REGEX-UNSUPPORTED", "bad-op"):
                    res.degraded.append("site model: " + out)
                    return
                answers = out.split(" ")
                for q, a in zip(qs, answers):
                    kind, hcls, body = a.split("|", 2)
                    try:
                        q.encode("utf-8", "surrogateescape")
                    except UnicodeEncodeError:
                        if kind != "N":
                            res.disagree(tag + ".site-unencodable", {"selector": q}, kind, "N (cannot be a path)")
                        continue
                    res.evaluations += 1
                    # document bytes and not-found through plain gopher; menus through the chosen view
                    r = pyg.request(reqs.build("gopher", q), cfg)
                    cls, _ = reqs.classify("gopher", r.out)
                    inp = {"chain": chain, "selector": q, "view": view, "tree_seed": f"{ctx.pid}:{ctx.seed}:{ti}"}
                    real_handler = r.handler
                    want_h = ("UMNDirHandler" if umn else "DirHandler") if hcls == "d" else HANDLER_NAME[hcls]
                    res.count(f"site:{chain}:{hcls}")
                    if kind == "N":
                        if cls != "notfound":
                            res.disagree(tag + ".site-serve", inp, "not found", {"class": cls, "out": (r.out or b"")[:80], "handler": real_handler})
                        continue
                    if cls == "notfound" or r.exc is not None:
                        res.disagree(tag + ".site-serve", inp, {"kind": kind, "handler": want_h}, {"class": cls, "out": (r.out or b"")[:80], "exc": repr(r.exc)})
                        continue
                    if real_handler != want_h:
                        res.disagree(tag + ".site-dispatch", inp, want_h, real_handler)
                    if kind.startswith("G:"):
                        text = dec_str(kind[2:]).encode("utf-8", "surrogateescape")
                        res.nontrivial.add(("site-generated", ti, chain, q))
                        if r.out != text:
                            res.disagree(tag + ".site-generated-page", inp, text[:120], (r.out or b"")[:120])
                    elif kind.startswith("D:"):
                        data = dec_str(kind[2:]).encode("latin-1")
                        res.nontrivial.add(("site-doc", ti, chain, q))
                        if r.out != data:
                            res.disagree(tag + ".site-document", inp, data[:80], (r.out or b"")[:80])
                    else:
                        rows, rr = listing.real_rows(view, gplus, cfg, q)
                        res.nontrivial.add(("site-menu", ti, chain, q, view))
                        model = body if body.startswith("CRASH") else dec_str(body).encode("utf-8", "surrogateescape")
                        if rows is None:
                            if not (isinstance(model, str) and rr.exc is not None):
                                res.disagree(tag + ".site-listing", inp, str(model)[:300], {"out": (rr.out or b"")[:120], "exc": repr(rr.exc)})
                        elif model != rows:
                            res.disagree(tag + ".site-listing", inp, str(model)[:400], str(rows)[:400])
        finally:
            if os.environ.get("VERIF_KEEP_FAIL") and res.disagreements and not getattr(res, "_kept", False):
                import shutil
                res._kept = True
                shutil.rmtree(os.environ["VERIF_KEEP_FAIL"], ignore_errors=True)
                shutil.copytree(st.tree.root, os.environ["VERIF_KEEP_FAIL"], symlinks=True)
            st.close()


def compare_answers(ctx, res, n_trees, tag):
    """Model/Serve.answer (request line -> whole response) vs the real server, byte for byte: Gopher, Gopher+ (+ ! $), Gemini,
    Spartan for every query selector; HTTP documents and not-found pages.  Time stamps are removed on the real side."""
    import re as _re
    from props.c02 import readlines
    rng = ctx.rng
    for ti in range(n_trees):
        st = SiteTree(rng)
        try:
            chain = rng.choice(sorted(CHAINS))
            hl, code = CHAINS[chain]
            cfg = pyg.make_config(st.tree.root, hl, **{"handlers.dir.DirHandler|cachetime": "0"})
            if cfg.has_option("protocols.http.HTTPProtocol", "pagetopper"):
                cfg.remove_option("protocols.http.HTTPProtocol", "pagetopper")      # administrator's markup: not modelled
            shipped = [s_.strip() for s_ in cfg.get("protocols.ProtocolMultiplexer", "protocols").strip()[1:-1].split(",")]
            g, t, s_tab = st.tables(cfg)
            foot = {}
            for k_, sec in (("gemini", "protocols.gemini.GeminiProtocol"), ("spartan", "protocols.gemini.SpartanProtocol")):
                foot[k_] = cfg.get(sec, "footer") if cfg.has_option(sec, "footer") else None
            reqlist = []
            for q in st.queries(6):
                try:
                    q.encode("utf-8", "surrogateescape")
                except UnicodeEncodeError:
                    continue
                for p, gp in (("gopher", "+"), ("gopherp", "+"), ("gopherp", "!"), ("gopherp", "$"), ("gemini", "+"), ("spartan", "+"), ("http", "+"),
                              ("http", "HEAD"), ("wap", "+"), ("wap", "HEAD"), ("https", "+")):
                    if rng.random() < 0.5:
                        continue
                    rq = reqs.build(p, q, gplus=gp, head=(gp == "HEAD"))
                    i = rq.find(b"\n")
                    line, rest = rq[:i + 1], rq[i + 1:]
                    if b"\n" in line[:-1] or b" " in rq.split(b"\r\n")[0] and p in ("gemini",):
                        pass
                    reqlist.append((p, gp, q, rq, line, rest))
            # Gemini's own answers: a URL urlparse refuses, the query prefix without and with a query
            qp = cfg.get("protocols.gemini.GeminiProtocol", "query_prefix") if cfg.has_option("protocols.gemini.GeminiProtocol", "query_prefix") else "/GEMINI-QUERY"
            for raw in (b"gemini://[::1/x\r\n", b"gemini://h" + qp.encode() + b"/docs\r\n", b"gemini://h" + qp.encode() + b"/s%20x?two%20words&a=b\r\n",
                        b"gemini://h" + qp.encode() + b"?q\r\n", b"gemini://h" + qp.encode() + b"/a?\r\n"):
                reqlist.append(("gemini", "+", raw.decode("latin-1"), raw, raw, b""))
            enc = []
            for p, gp, q, rq, line, rest in reqlist:
                rl = [x.decode("utf-8", "surrogateescape") for x in readlines(rest)] if p != "spartan" else [rest.decode("utf-8", "surrogateescape")]
                fields = ["T" if reqs.TLS[p] else "F", enc_str(line.decode("utf-8", "surrogateescape")), enc_list(rl)]
                if p == "gemini":
                    import urllib.parse as _up
                    try:
                        _up.urlparse(line.decode("utf-8", "surrogateescape").strip())
                    except ValueError:
                        fields.append("I")        # urlparse refuses the line: the model's library oracle
                enc.append(";".join(fields))
            if not enc:
                continue
            linem = "\t".join(["answer", code or "-", st.titles(), enc_str(listing.SRV[0]), str(listing.SRV[1]),
                               "T" if cfg.getboolean("pygopherd", "abstract_headers") else "F", enc_str(cfg.get("pygopherd", "abstract_entries")),
                               enc_opt(foot["gemini"]), enc_opt(foot["spartan"]), enc_list(shipped), st.encode(), g, t, s_tab, " ".join(enc)])
            out = ctx.driver.run([linem])[0]
            if out in ("REGEX-UNSUPPORTED", "bad-op"):
                res.degraded.append("serve model: " + out)
                return
            for (p, gp, q, rq, line, rest), o in zip(reqlist, out.split(" ")):
                r = pyg.request(rq, cfg, tls=reqs.TLS[p])
                res.evaluations += 1
                real = r.out or b""
                real = _re.sub(rb" Mod-Date: [^\r\n]*\r\n", b"", real)
                real = _re.sub(rb"Last-Modified: [^\r\n]*\r\n", b"", real)
                inp = {"chain": chain, "protocol": p, "gplus": gp, "selector": q, "request": rq[:120], "tree_seed": f"{ctx.pid}:{ctx.seed}:a{ti}"}
                res.count(f"answer:{p}{gp if p == 'gopherp' else ''}:{'modelled' if o not in ('NONE',) else 'unmodelled'}")
                if o == "NONE":
                    continue        # outside the end-to-end model (HTTP/WAP directory pages, content the code crashes on)
                errors = "backslashreplace" if p in ("gemini", "spartan") else "surrogateescape"
                model = b""
                if o != "EMPTY":
                    for piece in o.split(";"):
                        if piece.startswith("T:"):
                            model += dec_str(piece[2:]).encode("utf-8", errors)
                        else:
                            model += dec_str(piece[2:]).encode("latin-1")
                res.nontrivial.add(("answer", ti, p, gp, q))
                if model != real:
                    k = next((i_ for i_, (x, y) in enumerate(zip(model, real)) if x != y), min(len(model), len(real)))
                    res.disagree(tag + ".serve-answer", inp, {"at": k, "model": model[max(0, k - 40):k + 80], "len": len(model)},
                                 {"real": real[max(0, k - 40):k + 80], "len": len(real), "exc": repr(r.exc)})
        finally:
            st.close()
