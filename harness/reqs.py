"""Request syntaxes of the six protocols (client side) and response classification.

Written from the protocol documents (RFC 1436, Gopher+, HTTP/1.0, Gemini, Spartan), not
from pygopherd's parsers: this is the independent half used by the oracles.
"""
import urllib.parse

PROTOS = ["gopher", "gopherp", "http", "wap", "gemini", "spartan", "sgopher", "sgopherp", "https"]
TLS = {"gopher": False, "gopherp": False, "http": False, "wap": False, "gemini": True,
       "spartan": False, "sgopher": True, "sgopherp": True, "https": True}
HOST = "srv.example"


def quote_sel(sel):
    """Percent-encode a selector (str with surrogateescapes) for a URL path."""
    return urllib.parse.quote(sel.encode("utf-8", "surrogateescape"), safe="/")


def build(proto, sel, search=None, layers=1, gplus="+", head=False, waptop="/wap", literal_query=False):
    """Request bytes to fetch selector `sel` (a str, possibly with surrogate escapes).
    layers = number of percent-encoding layers for URL-based protocols (0 = raw)."""
    raw = sel.encode("utf-8", "surrogateescape")
    if proto in ("gopher", "sgopher"):
        r = raw
        if search is not None:
            r += b"\t" + search.encode("utf-8", "surrogateescape")
        return r + b"\r\n"
    if proto in ("gopherp", "sgopherp"):
        r = raw
        if search is not None:
            r += b"\t" + search.encode("utf-8", "surrogateescape")
        return r + b"\t" + gplus.encode() + b"\r\n"
    path = sel
    for _ in range(layers):
        path = quote_sel(path)
    pb = path.encode("utf-8", "surrogateescape")
    if not pb.startswith(b"/"):
        pb = b"/" + pb
    if proto in ("http", "https", "wap"):
        if proto == "wap":
            pb = waptop.encode() + pb
        q = b""
        if search is not None:
            q = b"?searchrequest=" + urllib.parse.quote_plus(
                search.encode("utf-8", "surrogateescape")).encode()
        return (b"HEAD " if head else b"GET ") + pb + q + b" HTTP/1.0\r\nHost: " + HOST.encode() + b"\r\n\r\n"
    if proto == "gemini":
        q = b""
        if search is not None:
            # a client may leave the query's sub-delimiters literal (RFC 3986): '+' is a plus sign in a Gemini query
            q = b"?" + urllib.parse.quote(search.encode("utf-8", "surrogateescape"), safe="+&=!$'()*,;:@/?" if literal_query else "/").encode()
        return b"gemini://" + HOST.encode() + pb + q + b"\r\n"
    if proto == "spartan":
        body = b"" if search is None else search.encode("utf-8", "surrogateescape")
        return HOST.encode() + b" " + pb + b" " + str(len(body)).encode() + b"\r\n" + body
    raise ValueError(proto)


def classify(proto, out):
    """-> (cls, detail) with cls in {'none','notfound','ok','error','malformed'}.

    notfound = the protocol's own "no such object" form."""
    if out is None or len(out) == 0:
        return "none", ""
    if proto in ("gopher", "sgopher"):
        # an error is a single type-3 line with the error host
        if out.startswith(b"3") and out.endswith(b"\r\n") and out.count(b"\r\n") == 1 and b"\terror.host\t" in out:
            return "notfound", out[1:60]
        return "ok", ""
    if proto in ("gopherp", "sgopherp"):
        if out.startswith(b"--"):
            return "notfound", out[:40]
        if out.startswith(b"+"):
            return "ok", out[:out.find(b"\r\n")]
        return "malformed", out[:40]
    if proto in ("http", "https", "wap"):
        line = out[:out.find(b"\r\n")] if b"\r\n" in out else out
        if not line.startswith(b"HTTP/1."):
            return "malformed", line[:40]
        parts = line.split(b" ", 2)
        if len(parts) < 2:
            return "malformed", line[:40]
        if parts[1] == b"404" or (len(parts) == 3 and parts[2].strip() == b"Not Found"):
            return "notfound", line
        if parts[1] == b"200":
            return "ok", line
        return "error", line
    if proto == "gemini":
        line = out[:out.find(b"\r\n")] if b"\r\n" in out else out
        if line[:2] == b"51":
            return "notfound", line[:60]
        if line[:1] == b"2":
            return "ok", line[:60]
        if line[:1] in (b"1", b"3"):
            return "ok", line[:60]
        return "error", line[:60]
    if proto == "spartan":
        line = out[:out.find(b"\r\n")] if b"\r\n" in out else out
        if line[:2] == b"4 ":
            return "notfound", line[:60]
        if line[:2] == b"2 ":
            return "ok", line[:60]
        if line[:2] == b"3 ":
            return "ok", line[:60]
        return "error", line[:60]
    raise ValueError(proto)


def body_of(proto, out):
    """Document body bytes of a success response (headers removed)."""
    if proto in ("gopher", "sgopher"):
        return out
    if proto in ("gopherp", "sgopherp"):
        i = out.find(b"\r\n")
        return out[i + 2:]
    if proto in ("http", "https", "wap"):
        i = out.find(b"\r\n\r\n")
        return out[i + 4:] if i >= 0 else b""
    i = out.find(b"\r\n")
    return out[i + 2:]
