"""Lean side: build (under a lock), axiom audit, and the line-protocol driver."""
import fcntl
import json
import os
import re
import subprocess
import time

HERE = os.path.dirname(os.path.abspath(__file__))
VERIF = os.path.dirname(HERE)
LEAN = os.path.join(VERIF, "lean")
ALLOWED_AXIOMS = {"propext", "Classical.choice", "Quot.sound"}
FORBIDDEN_TOKENS = re.compile(
    r"\b(sorry|admit|native_decide|bv_decide|implemented_by|unsafe)\b|^\s*axiom\s|maxHeartbeats\s+0\b",
    re.M)


class ToolError(Exception):
    pass


class _Lock:
    def __init__(self):
        self.path = os.path.join(LEAN, ".build.lock")

    def __enter__(self):
        self.f = open(self.path, "w")
        fcntl.flock(self.f, fcntl.LOCK_EX)

    def __exit__(self, *a):
        fcntl.flock(self.f, fcntl.LOCK_UN)
        self.f.close()


def _run(cmd, timeout=1800, inp=None):
    env = dict(os.environ)
    env["PATH"] = "/opt/veriftools/lean/bin:" + env.get("PATH", "")
    try:
        p = subprocess.run(cmd, cwd=LEAN, env=env, input=inp, capture_output=True, text=True,
                           timeout=timeout)
    except FileNotFoundError as e:
        raise ToolError(f"cannot run {cmd[0]}: {e}")
    except subprocess.TimeoutExpired:
        raise ToolError(f"timeout running {' '.join(cmd)}")
    return p.returncode, p.stdout + p.stderr


def build(targets):
    """lake build the given targets. Returns (ok, log)."""
    with _Lock():
        rc, out = _run(["lake", "build"] + list(targets))
    return rc == 0, out


def strip_comments(text):
    # remove /- ... -/ (nested not handled beyond one level is fine for a scan) and -- ...
    out = []
    i = 0
    depth = 0
    n = len(text)
    while i < n:
        if text.startswith("/-", i):
            depth += 1
            i += 2
        elif depth and text.startswith("-/", i):
            depth -= 1
            i += 2
        elif depth:
            i += 1
        elif text.startswith("--", i):
            j = text.find("\n", i)
            i = n if j < 0 else j
        else:
            out.append(text[i])
            i += 1
    return "".join(out)


def _strip_strings(text):
    return re.sub(r'"(\\.|[^"\\])*"', '""', text)


def scan_sources():
    """Forbidden tokens outside comments/strings in every .lean file of the library
    (the driver, which is the only `partial` code, is scanned too)."""
    hits = []
    for dp, dn, fn in os.walk(os.path.join(LEAN, "PygVerif")):
        for f in fn:
            if f.endswith(".lean"):
                p = os.path.join(dp, f)
                txt = _strip_strings(strip_comments(open(p, encoding="utf-8").read()))
                for m in FORBIDDEN_TOKENS.finditer(txt):
                    hits.append(f"{os.path.relpath(p, LEAN)}: {m.group(0).strip()}")
    return hits


AUDIT_TEMPLATE = """import Lean
import PygVerif.Props.{pid}
open Lean Elab Command in
#eval show CommandElabM Unit from do
  let env ← getEnv
  let ns : Name := `Pyg.Props.{pid}
  let mut names : Array Name := #[]
  for (n, ci) in env.constants.toList do
    if ns.isPrefixOf n then
      if let .thmInfo _ := ci then
        if !n.isInternal && !(n.toString.endsWith ".eq_def") && !((n.toString.splitOn ".eq_").length > 1) then
          names := names.push n
  for n in names.qsort (·.toString < ·.toString) do
    let axs ← liftCoreM (Lean.collectAxioms n)
    IO.println s!"THEOREM {{n}} AXIOMS {{axs.toList}}"
"""


def audit(pid):
    """Returns list of (theorem, [axioms]) for namespace Pyg.Props.<pid>."""
    d = os.path.join(LEAN, ".audit")
    os.makedirs(d, exist_ok=True)
    f = os.path.join(d, f"Audit{pid}.lean")
    with open(f, "w") as fh:
        fh.write(AUDIT_TEMPLATE.format(pid=pid))
    with _Lock():
        rc, out = _run(["lake", "env", "lean", f])
    if rc != 0:
        raise ToolError("audit failed:\n" + out[-2000:])
    res = []
    for ln in out.splitlines():
        m = re.match(r"THEOREM (\S+) AXIOMS \[(.*)\]", ln)
        if m:
            axs = [a.strip() for a in m.group(2).split(",") if a.strip()]
            res.append((m.group(1), axs))
    return res


def leanchecker(pid):
    with _Lock():
        rc, out = _run(["lake", "env", "leanchecker", f"PygVerif.Props.{pid}"], timeout=3600)
    return rc == 0, out


# ---------------------------------------------------------------------------
# line protocol

def enc_str(s):
    """str (code points) or list of ints -> dotted hex; '-' for empty."""
    if isinstance(s, (bytes, bytearray)):
        cps = list(s)
    elif isinstance(s, str):
        cps = [ord(c) for c in s]
    else:
        cps = list(s)
    if not cps:
        return "-"
    return ".".join("%x" % c for c in cps)


def dec_str(t):
    if t == "-" or t == "":
        return ""
    return "".join(chr(int(x, 16)) for x in t.split("."))


def dec_bytes(t):
    if t == "-" or t == "":
        return b""
    return bytes(int(x, 16) for x in t.split("."))


def enc_list(xs):
    xs = list(xs)
    if not xs:
        return "~"
    return ",".join(enc_str(x) for x in xs)


def dec_list(t):
    if t == "~":
        return []
    return [dec_str(x) for x in t.split(",")]


def enc_opt(s):
    return "!" if s is None else enc_str(s)


def dec_opt(t):
    return None if t == "!" else dec_str(t)


class Driver:
    """Batch interface: collect request lines, run the Lean driver once, get lines back."""

    def __init__(self):
        self.exe = os.path.join(LEAN, ".lake", "build", "bin", "driver")
        self.mode = "exe" if os.path.exists(self.exe) else "interp"

    def run(self, lines):
        if not lines:
            return []
        data = "".join(l + "\n" for l in lines)
        t0 = time.time()
        if self.mode == "exe":
            try:
                p = subprocess.run([self.exe], input=data, capture_output=True, text=True,
                                   timeout=3600)
            except subprocess.TimeoutExpired:
                raise ToolError("lean driver timeout")
            out = p.stdout
            if p.returncode != 0:
                raise ToolError("lean driver failed: " + p.stderr[-1000:])
        else:
            rc, out = _run(["lake", "env", "lean", "--run", "Driver.lean"], inp=data, timeout=3600)
            if rc != 0:
                raise ToolError("lean driver failed: " + out[-1000:])
        res = out.split("\n")
        if res and res[-1] == "":
            res.pop()
        if len(res) != len(lines):
            raise ToolError(f"lean driver returned {len(res)} lines for {len(lines)} requests; "
                            f"first output: {res[:3]}")
        self.last_wall = time.time() - t0
        return res
