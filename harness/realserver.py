"""A real pygopherd server process for the concurrency oracle: single-threaded accept loop in
its own process, exactly as deployed (forking inside a multi-threaded harness process would copy
locks held by client threads into the children).  argv: repo, config file.  Prints the port."""
import configparser
import os
import sys

repo, conf = sys.argv[1], sys.argv[2]
sys.path.insert(0, repo)
sys.dont_write_bytecode = True
from pygopherd import initialization, logger  # noqa: E402

c = configparser.ConfigParser()
c.read(conf)
logger.init(c)
os.chdir(repo)
initialization.init_mimetypes(c)
sctx = initialization.init_ssl_context(c)
srv = initialization.get_server(c, context=sctx)
print(srv.socket.getsockname()[1], flush=True)
try:
    srv.serve_forever(poll_interval=0.05)
except KeyboardInterrupt:
    pass
