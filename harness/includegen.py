"""Templates included through `structure` (tal:content / tal:replace evaluating to a compiled template).

A case is a table of named templates (tplA, tplB includes tplA, tplC includes tplB) and a page that includes them from
elements carrying other TAL commands as well (define / condition / repeat around the inclusion, attributes, omit-tag).
The real engine gets compiled templates in the context; the model (Model/Include.inlineList, then machine and
denotation) and the independent evaluator get the tree with the included nodes substituted."""
import copy

import talgen

NAMES = ["tplA", "tplB", "tplC"]
HOST_TAGS = ["div", "p", "span", "ul", "td", "b"]


def _body(rnd):
    """top-level nodes of a template: at least one TAL element with children and no content/replace of its own"""
    out = [talgen.gen(rnd, 1) for _ in range(rnd.randint(0, 2))]
    kids = [talgen.gen(rnd, 2) for _ in range(rnd.randint(1, 3))]
    tal = rnd.choice([{"condition": "s"}, {"define": "v n"}, {"repeat": "x lst"}, {"omit-tag": "s"}, {"attributes": "class s"},
                      {"condition": "n", "define": "w string:W"}, {"repeat": "y people", "attributes": "id repeat/y/number"}])
    out.insert(rnd.randint(0, len(out)), ("elem", rnd.choice(["ul", "div", "p"]), [("class", "inc")], dict(tal), kids))
    out.append(("text", rnd.choice(["", " tail", "\n"])))
    return [n for n in out if not (n[0] == "text" and n[1] == "")]


def include_elem(rnd, name):
    tal = {}
    if rnd.random() < 0.3:
        tal["define"] = rnd.choice(["v s", "v n; w string:W", "global g s", "x title"])
    if rnd.random() < 0.25:
        tal["condition"] = rnd.choice(["s", "n", "lst", "missing | s", "nothing", "elst"])
    if rnd.random() < 0.3:
        tal["repeat"] = rnd.choice(["x lst", "y people", "x elst", "item lst"])
    tal[rnd.choice(["content", "content", "replace"])] = "structure " + name
    if rnd.random() < 0.3:
        tal["attributes"] = rnd.choice(["class s", "id n", "title attrs/class | string:none"])
    if rnd.random() < 0.2:
        tal["omit-tag"] = rnd.choice(["", "s", "nothing"])
    attrs = [("class", "host")] if rnd.random() < 0.5 else []
    kids = [talgen.gen(rnd, 2) for _ in range(rnd.randint(0, 2))]        # never output
    return ("elem", rnd.choice(HOST_TAGS), attrs, tal, kids)


def gen_case(rnd):
    tpls = {}
    tpls["tplA"] = _body(rnd)
    b = _body(rnd)
    b.insert(rnd.randint(0, len(b)), include_elem(rnd, "tplA"))
    tpls["tplB"] = b
    c = _body(rnd)
    c.insert(rnd.randint(0, len(c)), include_elem(rnd, "tplB"))
    tpls["tplC"] = c
    page = [talgen.gen(rnd) for _ in range(rnd.randint(0, 2))]
    for _ in range(rnd.randint(1, 3)):
        page.insert(rnd.randint(0, len(page)), include_elem(rnd, rnd.choice(NAMES)))
    if rnd.random() < 0.4:
        # an inclusion below a repeated element, after a sibling with TAL of its own (jump registers, scopes)
        page.append(("elem", "ul", [], {"repeat": "x lst"}, [("elem", "li", [], {"content": "x"}, []), include_elem(rnd, rnd.choice(NAMES))]))
    return tpls, page


# fixed cases that run first (seed-independent)
FIXED = [
    # the including page's jump target must not leak into the included template: an element with children and no
    # content/replace of its own inside the included template, included by replace and by content
    ({"tplA": [("elem", "ul", [("class", "inc")], {"condition": "s"}, [("elem", "li", [], {}, [("text", "one")]), ("elem", "li", [], {"content": "n"}, [("text", "x")])]),
               ("text", " after")],
      "tplB": [("text", "b")], "tplC": [("text", "c")]},
     [("elem", "div", [], {"replace": "structure tplA"}, [("text", "dummy")]), ("elem", "p", [], {"content": "structure tplA"}, []),
      ("elem", "span", [], {"content": "s"}, [("text", "later sibling")])]),
    ({"tplA": [("elem", "div", [], {"define": "v n"}, [("elem", "b", [], {"content": "v"}, []), ("text", "!")])],
      "tplB": [("elem", "p", [], {"content": "structure tplA"}, []), ("elem", "i", [], {"condition": "s"}, [("text", "kept")])], "tplC": [("text", "c")]},
     [("elem", "td", [("class", "host")], {"repeat": "x lst", "content": "structure tplB"}, [])]),
]


def ser_all(nodes):
    return "".join(talgen.ser(x) for x in nodes)


def real_expand(tpls, page, g):
    from simpletal import simpleTALES
    import io
    compiled = {k: talgen.real_compile(ser_all(v))[0] for k, v in tpls.items()}
    t, _ = talgen.real_compile(ser_all(page))
    ctx = simpleTALES.Context(allowPythonPath=0)
    for k, v in g.items():
        ctx.addGlobal(k, v)
    for k, v in compiled.items():
        ctx.addGlobal(k, v)
    o = talgen.Sink()
    with talgen.time_limit():
        t.expand(ctx, o)
    return o.getvalue(), ctx


def inline(nodes, tpls, fuel=12):
    """the substitution, independently of the Lean function"""
    out = []
    for n in nodes:
        if n[0] == "text":
            out.append(n)
            continue
        _, tag, attrs, tal, kids = n
        tal = dict(tal)
        target = None
        for key in ("content", "replace"):
            if key in tal and tal[key].startswith("structure ") and tal[key][len("structure "):].strip() in tpls:
                target = (key, tal[key][len("structure "):].strip())
        if target is not None and fuel > 0:
            key, name = target
            # keep the order of the commands as written (dict order decides nothing: TAL has its own order)
            del tal[key]
            if key == "replace":
                tal["omit-tag"] = "string:1"
            out.append(("elem", tag, attrs, tal, inline(copy.deepcopy(tpls[name]), tpls, fuel - 1)))
        else:
            out.append(("elem", tag, attrs, tal, inline(kids, tpls, fuel)))
    return out


def enc_tpls(tpls):
    from leanio import enc_str
    items = sorted(tpls.items())
    return str(len(items)) + "".join(" " + enc_str(k) + " " + talgen.enc_nodes(talgen.nf(v)) for k, v in items)
