"""Further Generated.lean sections (class attributes read by import, executed traces)."""
import os
import sys

from extract import REPO, lstr, llist  # noqa


def class_attrs(info):
    sys.path.insert(0, REPO)
    out = []
    try:
        from pygopherd.protocols.gemini import GeminiProtocol
        qp = GeminiProtocol.query_prefix
        info["queryPrefix"] = "exact"
    except Exception:  # noqa
        qp = ""
        info["queryPrefix"] = "tie degraded"
    out.append(f"def queryPrefix : Str := {lstr(qp)}")
    try:
        from pygopherd.protocols import wap
        ak = wap.accesskeys
        info["accesskeys"] = "exact"
    except Exception:  # noqa
        ak = ""
        info["accesskeys"] = "tie degraded"
    out.append(f"def accesskeys : Str := {lstr(ak)}")
    return out


def tal_opcodes(info):
    sys.path.insert(0, REPO)
    names = ["TAL_DEFINE", "TAL_CONDITION", "TAL_REPEAT", "TAL_CONTENT", "TAL_REPLACE",
             "TAL_ATTRIBUTES", "TAL_OMITTAG", "TAL_START_SCOPE", "TAL_OUTPUT", "TAL_STARTTAG",
             "TAL_ENDTAG_ENDSCOPE", "TAL_NOOP", "METAL_USE_MACRO", "METAL_DEFINE_SLOT",
             "METAL_FILL_SLOT", "METAL_DEFINE_MACRO"]
    out = []
    try:
        from simpletal import simpleTAL
        for n in names:
            out.append(f"def {n} : Nat := {int(getattr(simpleTAL, n))}")
        info["talOpcodes"] = "exact"
    except Exception as e:  # noqa
        out = [f"def {n} : Nat := 0" for n in names]
        info["talOpcodes"] = f"tie degraded: {e}"
    return out


SECTIONS = [class_attrs, tal_opcodes]
