"""Further Generated.lean sections (class attributes read by import, executed traces)."""
import os
import sys

from extract import REPO, lstr, llist  # noqa


def class_attrs(info):
    sys.path.insert(0, REPO)
    out = []
    try:
        from pygopherd.protocols.gemini import GeminiProtocol
        qp = GeminiProtocol.query_prefix
        info["queryPrefix"] = "exact"
    except Exception:  # noqa
        qp = ""
        info["queryPrefix"] = "tie degraded"
    out.append(f"def queryPrefix : Str := {lstr(qp)}")
    try:
        from pygopherd.protocols import wap
        ak = wap.accesskeys
        info["accesskeys"] = "exact"
    except Exception:  # noqa
        ak = ""
        info["accesskeys"] = "tie degraded"
    out.append(f"def accesskeys : Str := {lstr(ak)}")
    return out


def tal_opcodes(info):
    sys.path.insert(0, REPO)
    names = ["TAL_DEFINE", "TAL_CONDITION", "TAL_REPEAT", "TAL_CONTENT", "TAL_REPLACE",
             "TAL_ATTRIBUTES", "TAL_OMITTAG", "TAL_START_SCOPE", "TAL_OUTPUT", "TAL_STARTTAG",
             "TAL_ENDTAG_ENDSCOPE", "TAL_NOOP", "METAL_USE_MACRO", "METAL_DEFINE_SLOT",
             "METAL_FILL_SLOT", "METAL_DEFINE_MACRO"]
    out = []
    try:
        from simpletal import simpleTAL
        for n in names:
            out.append(f"def {n} : Nat := {int(getattr(simpleTAL, n))}")
        info["talOpcodes"] = "exact"
    except Exception as e:  # noqa
        out = [f"def {n} : Nat := 0" for n in names]
        info["talOpcodes"] = f"tie degraded: {e}"
    return out



def _c19_rows(info):
    import hashlib, json, subprocess, glob
    h = hashlib.sha256()
    files = sorted(glob.glob(os.path.join(REPO, "pygopherd", "*.py"))) + [os.path.join(REPO, "conf", "pygopherd.conf"),
             os.path.join(os.path.dirname(os.path.abspath(__file__)), "c19_trace.py")]
    for f in files:
        h.update(f.encode() + b"\0" + open(f, "rb").read())
    key = h.hexdigest()
    cache = os.path.join(os.path.dirname(os.path.dirname(os.path.abspath(__file__))), "lean", ".audit", "c19cache.json")
    try:
        d = json.load(open(cache))
        if d.get("key") == key:
            info["initTable"] = "executed (cached for identical sources)"
            return d["rows"]
    except Exception:  # noqa
        pass
    p = subprocess.run([sys.executable, "-B", os.path.join(os.path.dirname(os.path.abspath(__file__)), "c19_trace.py"), REPO],
                       capture_output=True, text=True, timeout=600)
    if p.returncode != 0:
        raise RuntimeError("c19_trace failed: " + p.stderr[-400:])
    rows = json.loads(p.stdout)
    info["initTable"] = "executed"
    try:
        os.makedirs(os.path.dirname(cache), exist_ok=True)
        json.dump({"key": key, "rows": rows}, open(cache, "w"))
    except Exception:  # noqa
        pass
    return rows


def _c19_call(t, root):
    n = t[0]
    a = t[1:]
    if n in ("loadKeys", "bind", "getpwnam", "getgrnam"):
        return "." + n
    if n == "chroot":
        return ".chroot" if a[:1] == [root] else ".other"
    if n == "chdir":
        return ".chdirRoot" if a == ["/"] else ".other"
    if n == "setgroups":
        return ".setgroups" if a == ["()"] or a == ["[]"] else ".other"
    if n == "setregid":
        return ".setregid" if a == ["4321", "4321"] else ".other"
    if n == "setreuid":
        return ".setreuid" if a == ["1234", "1234"] else ".other"
    return ".other"


def c19_table(info):
    rows = _c19_rows(info)
    out = ["def initTable : List (Nat × Pyg.Init.Row) := ["]
    items = []
    cwd_items = []
    b = lambda x: "true" if x else "false"  # noqa
    for r in rows:
        root = None
        for t in r["trace"]:
            if t[0] == "chroot" and len(t) > 1:
                root = t[1]
        # the configured root is the one the trace script wrote: <tmp>/root
        calls = ", ".join(_c19_call(t, root if (root or "").endswith("/root") else None) for t in r["trace"])
        fault = "none" if r["fault"] is None else f"some {r['fault']}"
        row = (f"{{ cfg := {{ tls := {b(r['tls'])}, chroot := {b(r['chroot'])}, setuid := {b(r['setuid'])}, setgid := {b(r['setgid'])} }}, "
               f"fault := {fault}, trace := [{calls}], raised := {b(r['raised'] is not None)}, rootSlash := {b(r['root_after'] == '/')} }}")
        if r.get("start_cwd"):
            cwd_items.append("  " + row)      # the same start-up from another working directory (the root, below it, siblings of it)
        else:
            items.append(f"  ({r.get('fclass', 0)}, {row})")
    out.append(",\n".join(items))
    out.append("]")
    out.append("def initTableCwd : List Pyg.Init.Row := [")
    out.append(",\n".join(cwd_items))
    out.append("]")
    return out


SECTIONS = [class_attrs, tal_opcodes, c19_table]
