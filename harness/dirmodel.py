"""Build the line-protocol request that makes the model list a real directory
(Model/Umn.dirListing): children in enumeration order with the library/OS answers."""
import os
import re
import stat as st

import listing
import pyg
from leanio import enc_str, enc_opt

INSECURE = ("./", "..", "//", ".\\", "\\\\", "\0")


def _lines(path):
    if not os.path.isfile(path):
        return None          # (nothing to read lines from: absent, a directory, a FIFO -- which an open would wait on)
    try:
        with open(path, "r", errors="surrogateescape") as f:
            return f.readlines()
    except OSError:
        return None


def enc_lines(ls):
    if ls is None:
        return "!"
    if not ls:
        return "~"
    return "|".join(enc_str(l) for l in ls)


def html_title(path):
    if not os.path.isfile(path):
        return None
    try:
        data = open(path, "rb").read().decode("utf-8", "replace")
    except OSError:
        return None
    m = re.search(r"<title>(.*?)</title>", data, re.S | re.I)
    if not m:
        return None
    return re.sub(r"[\s]+", " ", m.group(1))


def child_record(tree, cfg, base, name):
    import mimetypes
    import pygopherd.fileext
    sel = base + "/" + name
    p = tree.path(sel)
    isdir = os.path.isdir(p)
    kind = "!"
    popf = "!"
    nover = None
    stripped = name
    try:
        s = os.stat(p)
    except (OSError, ValueError):
        s = None
    secure = not any(x in sel for x in INSECURE) and not sel.endswith("/.")
    if s is not None and secure and (st.S_ISREG(s.st_mode) or st.S_ISDIR(s.st_mode)):
        pi = listing.pop_info(tree, cfg, sel)
        kind = "F" if st.S_ISREG(s.st_mode) else "O"
        sc = "!"
        if pi["sidecars"]:
            sc = "&".join(enc_str(e) + ":" + ("|".join(enc_str(l) for l in ls) if ls else "~") for e, ls in pi["sidecars"])
        popf = "/".join([pi["kind"], str(pi["size"]), str(pi["mtime"]), str(pi["ctime"]), enc_opt(pi["gm"]), enc_opt(pi["ge"]),
                         enc_str(pi["gtype"]), sc])
        if kind == "F":
            gm, ge = mimetypes.guess_type(sel, strict=False)
            if mimetypes.guess_type(sel)[0] == "text/html":
                nover = html_title(p)
            mime_for_strip = (gm or "application/octet-stream") if ge else (gm or cfg.get("GopherEntry", "defaultmimetype"))
            stripped = pygopherd.fileext.extstrip(name, mime_for_strip)
    cap = _lines(tree.path(base + "/.cap/" + name))
    lines = _lines(p) if name.startswith(".") and not isdir else None
    return ";".join([enc_str(name), "T" if isdir else "F", kind, popf, enc_opt(nover), enc_str(stripped), enc_lines(cap), enc_lines(lines)])


def request(tree, cfg, dirsel, names, view="gopher", gplus=False, umn=True):
    """names: the directory's members in the order the code enumerates them"""
    base = "" if dirsel == "/" else dirsel
    kids = " ".join(child_record(tree, cfg, base, n) for n in names) or "~"
    selfpop = listing.enc_pop([listing.pop_info(tree, cfg, dirsel)])
    return "\t".join(["dirlisting", view, "T" if gplus else "F", "T" if umn else "F", enc_str(listing.SRV[0]), str(listing.SRV[1]),
                      enc_str(dirsel), "T" if cfg.getboolean("pygopherd", "abstract_headers") else "F",
                      enc_str(cfg.get("pygopherd", "abstract_entries")), selfpop, kids])
