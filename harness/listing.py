"""Directory listings through every protocol: the rows region of the real response, and the
line-protocol request that makes the model render the same gophermap."""
import os
import re

import pyg
import reqs
from leanio import enc_str, enc_list, enc_opt, dec_str

VIEWS = [("gopher", False), ("gopher", True), ("gplusdir", True), ("http", False), ("wap", False),
         ("gemini", False), ("spartan", False)]
SRV = ("srv.example", 7070)


def request_for(view, gplus, sel):
    if view == "gopher":
        return (reqs.build("gopherp", sel, gplus="+"), False) if gplus else (reqs.build("gopher", sel), False)
    if view == "gplusdir":
        return reqs.build("gopherp", sel, gplus="$"), False
    if view == "http":
        return reqs.build("http", sel), False
    if view == "wap":
        return reqs.build("wap", sel), False
    if view == "gemini":
        return reqs.build("gemini", sel), True
    return reqs.build("spartan", sel), False


def rows_region(view, gplus, out, cfg):
    """-> bytes of the rows region, or None if the response is not a listing."""
    if out is None:
        return None
    if view == "gopher":
        if gplus:
            if not out.startswith(b"+"):
                return None
            return out[out.find(b"\r\n") + 2:]
        return out
    if view == "gplusdir":
        if not out.startswith(b"+"):
            return None
        body = out[out.find(b"\r\n") + 2:]
        return re.sub(rb" Mod-Date: [^\r\n]*\r\n", b"", body)
    if view == "http":
        i = out.find(b'CELLPADDING="0">')
        j = out.rfind(b"</TABLE><HR>")
        if i < 0 or j < 0:
            return None
        return out[i + len(b'CELLPADDING="0">'):j]
    if view == "wap":
        i = out.find(b"</b><br/>\n")
        j = out.rfind(b"</p>\n</card>\n</wml>\n")
        if i < 0 or j < 0:
            return None
        return out[i + len(b"</b><br/>\n"):j]
    # gemini / spartan
    k = out.find(b"\r\n")
    if k < 0 or not out[:1] == b"2":
        return None
    body = out[k + 2:]
    sec = "protocols.gemini.GeminiProtocol" if view == "gemini" else "protocols.gemini.SpartanProtocol"
    if cfg.has_option(sec, "footer"):
        foot = ("\n" + cfg.get(sec, "footer") + "\n").encode()
        if body.endswith(foot):
            body = body[:-len(foot)]
    return body


def real_rows(view, gplus, cfg, sel, reset=True):
    rq, tls = request_for(view, gplus, sel)
    r = pyg.request(rq, cfg, tls=tls, reset=reset)
    return rows_region(view, gplus, r.out, cfg), r


def gm_lines(data):
    """readline() results of the gophermap bytes, decoded"""
    out = []
    i = 0
    while i < len(data):
        j = data.find(b"\n", i)
        j = len(data) if j < 0 else j + 1
        out.append(data[i:j].decode("utf-8", "surrogateescape"))
        i = j
    return out


def enc_pop(pop):
    """pop: list of dicts {sel, kind, size, mtime, ctime, gm, ge, gtype, sidecars: [(ext, [lines])]}"""
    if not pop:
        return "~"
    recs = []
    for p in pop:
        sc = "!"
        if p["sidecars"]:
            sc = "&".join(enc_str(e) + ":" + ("|".join(enc_str(l) for l in ls) if ls else "~") for e, ls in p["sidecars"])
        recs.append(";".join([enc_str(p["sel"]), p["kind"], str(p["size"]), str(p["mtime"]), str(p["ctime"]),
                              enc_opt(p["gm"]), enc_opt(p["ge"]), enc_str(p["gtype"]), sc]))
    return " ".join(recs)


def model_request(view, gplus, base, abs_headers, abs_entries, self_abs, lines, pop=None):
    return "\t".join(["gmlisting", view, "T" if gplus else "F", enc_str(SRV[0]), str(SRV[1]), enc_str(base),
                      "T" if abs_headers else "F", enc_str(abs_entries), enc_opt(self_abs), enc_list(lines), enc_pop(pop)])


def pop_info(tree, cfg, sel):
    """Library/OS answers for one local selector, for the model's populate."""
    import mimetypes
    import stat as st
    p = tree.path(sel)
    try:
        s = os.stat(p)
    except OSError:
        return None
    kind = "d" if st.S_ISDIR(s.st_mode) else "f" if st.S_ISREG(s.st_mode) else "o"
    gm, ge = mimetypes.guess_type(sel, strict=False)
    # resulting mime type -> gopher type through the configured mapping (regex oracle)
    if kind == "d":
        mime = "application/gopher-menu"
    elif ge:
        mime = "application/octet-stream"
    else:
        mime = gm or cfg.get("GopherEntry", "defaultmimetype")
    gtype = "0"
    for patt, t in eval(cfg.get("GopherEntry", "mapping")):
        if re.match(patt, mime):
            gtype = t
            break
    sidecars = []
    for ext in eval(cfg.get("GopherEntry", "eaexts")):
        q = p + (b"/" if kind == "d" else b"") + ext.encode()
        if not os.path.isfile(q):
            continue         # absent, a directory, a FIFO (an open would wait for a writer)
        try:
            with open(q, "r", errors="surrogateescape") as f:
                sidecars.append((ext, f.readlines(20480)))
        except OSError:
            pass
    return {"sel": sel, "kind": kind, "size": s.st_size, "mtime": int(s.st_mtime), "ctime": int(s.st_ctime),
            "gm": gm, "ge": ge, "gtype": gtype, "sidecars": sidecars}
