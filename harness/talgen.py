"""simpleTAL: template generator, serialisation for the real compiler, normal-form encoding for
the Lean model, the real compile/expand with context snapshot, and an independent
tree-walking evaluator (the oracle; written from TAL's order of operations, not from
simpleTAL's machine)."""
import html
import io
import logging
import sys

import pyg  # noqa  (puts /repo on sys.path)
from leanio import enc_str

logging.disable(logging.CRITICAL)
from simpletal import simpleTAL, simpleTALES  # noqa: E402

FORBIDDEN_END = {"br", "img", "input", "hr"}


def ctxvals(payload='<b>&"x'):
    return dict(s=payload, n=7, z=0, e="", lst=["a", "<b>", "c"], elst=[], m={"k": "v&", "lst": [1, 2]}, none=None,
                nested=[[1, 2], [3]], people=[{"name": "Ann", "age": 30}, {"name": "Bo<b>", "age": 0}], title="A 'title' & more",
                mixed=[{"name": "alpha"}, {"name": None}, {"name": "gamma"}, {}, {"name": ""}, {"name": "last"}])


PATHS = ["s", "n", "z", "e", "lst", "elst", "m/k", "m/lst", "none", "missing", "missing/x", "nothing", "default", "x", "y",
         "repeat/x/number", "repeat/x/index", "repeat/y/even", "repeat/x/odd", "repeat/x/start", "repeat/x/end", "repeat/x/length",
         "repeat/x/letter", "repeat/y/Letter", "repeat/x/roman", "repeat/y/Roman", "x | s", "missing | n", "missing | nothing",
         "missing | default", "not:lst", "not:elst", "not:missing", "not:default", "exists:missing", "exists:s", "exists:missing | m/k",
         "string:lit ${s} $$ ${missing} $n end", "string:$title!", "string:trailing $", "nocall:n", "attrs/class | string:noattr", "nested",
         "people/0/name", "people/1/age", "x/name", "path:title", "python: 'PYTHON-ORACLE'", "title", "lst/1", "lst/9", "m/missing | z",
         # a numeric step on a value that cannot be subscripted is a path that is not found, like any other
         "n/0 | string:alt", "none/2 | default", "not:exists:n/10", "string:[${n/3}]", "n/1", "nothing/0 | s", "exists:n/0",
         # values that differ from one repeat pass to the next (a value, then nothing / default / missing)
         "x/name | default", "x/name | nothing", "y/name", "x/name | string:(unnamed)",
         # full TALES expressions inside ${...}: alternation and prefixes; $name is a plain path
         "string:t=${missing/title | title};", "string:${not:z}-${exists:s}-${exists:missing}", "string:${string:in ${n} ner}", "string:${x/name | string:none}!",
         "string:$missing|s $n|z", "string:${nocall:n}${path:s}", " s", "  python: 'PYTHON-ORACLE'", "string:${ python: 'PYTHON-ORACLE' }", "\tn",
         # the first alternative of exists: / nocall: is a path like the others, blanks around `|` included
         "exists:s | missing", "exists: s | missing", "nocall:s | n", "nocall: missing | n", "not:exists: m/k | missing", "exists: missing/x | missing",
         "string:${exists: s | z}${nocall: n | s}"]
TRUE_PATHS = ["s", "n", "lst", "m/k", "title", "default", "not:missing", "exists:s", "people"]
SEQ_PATHS = ["lst", "lst", "people", "nested", "m/lst", "elst", "s", "x", "none", "missing", "n", "default", "mixed", "mixed"]


DEFINES = ["v s", "v n; w string:W", "global g s", "v lst", "v missing | string:dflt", "local v people; global h n", "v nothing", "x title",
           "v string:a; global g2 string:b", "v missing; global g3 nothing", "global gg string:G; v string:uses ${gg}", "global gg2 s; w gg2",
           "v string:L; global gl string:after ${v}", "global ga n; global gb ga; v gb", "v n; w v; global gw w", "global gx string:1; global gx string:2; v gx",
           # runs of blanks and a tab inside the expression are part of the text it denotes
           "v string:NAME      SIZE  TYPE", "global gsp string:a\tb   c; w gsp", "v string:  two  leading and  inner"]


# templates that once separated a seeded defect from the real thing: they always run first
FIXED = [
    # white space inside a defined string: fixed-width text keeps its columns
    [("elem", "pre", [], {"define": "row string:NAME      SIZE  TYPE; global sep string:a\tb   c", "content": "row"}, [("text", "x")]),
     ("elem", "i", [], {"content": "sep"}, [])],
    # exists: / nocall: with blanks around the alternation bar, and on a repeat variable as a whole
    [("elem", "b", [], {"condition": "exists: s | missing"}, [("text", "x")]), ("elem", "i", [], {"content": "nocall: s | n"}, [("text", "y")]),
     ("elem", "u", [], {"condition": "not:exists: missing | s"}, [("text", "z")])],
    [("elem", "ul", [], {}, [("elem", "li", [], {"repeat": "x lst"}, [("elem", "b", [], {"condition": "exists: repeat/x"}, [("text", "in")]),
                                                                        ("elem", "i", [], {"condition": "exists:repeat/x/index"}, [("text", "dex")]),
                                                                        ("elem", "u", [], {"condition": "not:exists:repeat/y"}, [("text", "noy")])])])],
    # the `text` keyword of content / replace (the default, said explicitly)
    [("elem", "b", [], {"content": "text s"}, [("text", "x")]), ("elem", "i", [], {"replace": "text n"}, []), ("elem", "u", [], {"content": "text missing | string:alt"}, [])],
    [("elem", "p", [], {"content": "n/0 | string:alt"}, [("text", "d")]), ("elem", "p", [], {"condition": "not:exists:n/10", "content": "string:[${n/3}]"}, []),
     ("elem", "i", [], {"replace": "none/2 | default"}, [("text", "kept")])],
    # an inner loop re-using the outer loop's variable name: afterwards `repeat/x` and `x` are the outer loop's again
    [("elem", "ul", [], {}, [("elem", "li", [], {"repeat": "x people"},
                              [("elem", "b", [], {"repeat": "x lst", "content": "x"}, []), ("elem", "i", [], {"content": "repeat/x/number"}, []),
                               ("elem", "u", [], {"content": "x/name | string:?", "attributes": "class repeat/x/end"}, [])])])],
    [("elem", "div", [], {"repeat": "y lst"}, [("elem", "span", [], {"repeat": "y lst"}, [("elem", "em", [], {"repeat": "y elst"}, [("text", "never")]), ("text", ".")]),
                                                  ("elem", "i", [], {"content": "string:${repeat/y/index}/${repeat/y/length}=${y}"}, [])])],
    [("elem", "ul", [], {}, [("elem", "li", [], {"repeat": "x mixed", "content": "x/name | default"}, [("text", "(unnamed)")])])],
    [("elem", "ul", [], {}, [("elem", "li", [], {"repeat": "x mixed", "replace": "x/name | nothing"}, [("text", "gone")])])],
    [("elem", "ul", [], {}, [("elem", "li", [("class", "row")], {"repeat": "x lst", "attributes": "title attrs/class"},
                              [("elem", "b", [("class", "name")], {"content": "x"}, [("text", "n")])])])],
    [("elem", "ul", [], {}, [("elem", "li", [("class", "row"), ("id", "r1")], {"repeat": "x people", "omit-tag": "attrs/nosuch | nothing", "attributes": "alt attrs/id"},
                              [("elem", "i", [("class", "inner")], {"define": "v x/name", "content": "v"}, [])])])],
    [("elem", "div", [], {"define": "global gg string:G; v string:uses ${gg}"}, [("elem", "b", [], {"content": "v"}, [("text", "x")])])],
    [("elem", "div", [], {"define": "v string:L; global gl string:after ${v}"}, [("elem", "b", [], {"content": "gl"}, [("text", "x")])]),
     ("elem", "p", [], {"content": "gl | string:unset"}, [])],
    [("elem", "p", [], {"content": " python: 'PYTHON-ORACLE'"}, [("text", "t")]), ("elem", "p", [], {"define": "v  python: 'PYTHON-ORACLE'", "content": "v"}, [])],
    [("elem", "p", [], {"content": "string:t=${missing/title | title}; ${not:z} $n|z"}, [])],
    [("elem", "div", [], {"define": "a string:x; global g string:y"}, [("text", "in")]), ("elem", "i", [], {"content": "a | string:UNSET"}, [])],
    [("elem", "span", [], {"define": "msg string:x; extra missing", "condition": "extra"}, [("text", "hidden")]), ("elem", "i", [], {"content": "msg | string:nobody"}, [])],
]


def gen_define_use(rnd):
    """an element that defines names and children / a following sibling that read every one of them: what a definition
    binds, in which order, and how long it lives, is visible in the output"""
    d = rnd.choice(DEFINES)
    names = [nm for _isl, nm, _ex in parse_define(d)]
    tal = {"define": d}
    if rnd.random() < 0.3:
        tal["condition"] = rnd.choice(["s", "missing", "elst", names[0]])
    if rnd.random() < 0.3:
        tal["repeat"] = "r " + rnd.choice(["lst", "elst", "mixed"])
    if rnd.random() < 0.3:
        tal["attributes"] = "title " + rnd.choice(names)
    kids = [("elem", "b", [], {"content": nm + " | string:(unset)"}, [("text", "x")]) for nm in names]
    if rnd.random() < 0.5:
        kids.append(("elem", "i", [("class", "c1")], {"define": rnd.choice(DEFINES), "content": rnd.choice(names)}, []))
    after = ("elem", "u", [], {"content": "string:" + " ".join("${%s | string:-}" % nm for nm in names)}, [])
    return ("elem", "div", [], {}, [("elem", "p", [("class", "c1")] if rnd.random() < 0.5 else [], tal, kids), after])


def gen(rnd, depth=0):
    if depth == 0 and rnd.random() < 0.15:
        return gen_define_use(rnd)
    r = rnd.random()
    if depth > 3 or r < 0.28:
        return ("text", rnd.choice(["t", "x y", " ", "end.", "caf\xe9", "\n  ", "1 2 3"]))
    tag = rnd.choice(["div", "p", "span", "b", "ul", "li", "td", "br", "img", "input"])
    attrs = [("class", "c1")] if rnd.random() < 0.4 else []
    if rnd.random() < 0.2:
        attrs.append(("title", 'a"b\'c<d'))
    if rnd.random() < 0.1:
        attrs.append(("id", "i d"))
    tal = {}
    if rnd.random() < 0.62:
        if rnd.random() < 0.25:
            tal["define"] = rnd.choice(["v s", "v n; w string:W", "global g s", "v lst", "v missing | string:dflt", "local v people; global h n",
                                        "v nothing", "x title", "v  python: 'PYTHON-ORACLE'", "v string:a; global g2 string:b", "v missing; global g3 nothing",
                                        # definitions take effect left to right, whatever the mix of local and global
                                        "global gg string:G; v string:uses ${gg}", "global gg2 s; w gg2", "v string:L; global gl string:after ${v}",
                                        "global ga n; global gb ga; v gb"])
        if rnd.random() < 0.3:
            tal["condition"] = rnd.choice(TRUE_PATHS) if rnd.random() < 0.7 else rnd.choice(PATHS)
        if rnd.random() < 0.35:
            tal["repeat"] = rnd.choice(["x", "y"]) + " " + rnd.choice(SEQ_PATHS)
        r2 = rnd.random()
        if r2 < 0.25:
            tal["content"] = rnd.choice(["", "structure ", "text "]) + rnd.choice(PATHS + ["v", "w", "g", "x", "x/name", "v", "w", "gl", "gg", "attrs/class | string:noclass"])
        elif r2 < 0.4:
            tal["replace"] = rnd.choice(["", "structure "]) + rnd.choice(PATHS + ["v", "x"])
        if rnd.random() < 0.25:
            tal["attributes"] = rnd.choice(["class s", "class nothing", "class default; id n", "href x", "title missing | string:t", "class v",
                                            "alt title; class z", "id repeat/x/number", "href  python: 'PYTHON-ORACLE'", "title x/name | default",
                                            # the element's own original attributes, also on later repeat passes and after children with TAL of their own
                                            "title attrs/class", "alt attrs/class | string:none; id attrs/id | nothing", "title attrs/title | default"])
        if rnd.random() < 0.2:
            tal["omit-tag"] = rnd.choice(["", "s", "elst", "nothing", "missing", "default", "z"])
    kids = [] if tag in FORBIDDEN_END else [gen(rnd, depth + 1) for _ in range(rnd.randint(0, 3))]
    return ("elem", tag, attrs, tal, kids)


def ser(n):
    if n[0] == "text":
        return n[1]
    _, tag, attrs, tal, kids = n
    a = "".join(' %s="%s"' % (k, html.escape(v)) for k, v in attrs) + "".join(' tal:%s="%s"' % (k, html.escape(v)) for k, v in tal.items())
    if tag in FORBIDDEN_END:
        return "<%s%s>" % (tag, a)
    return "<%s%s>%s</%s>" % (tag, a, "".join(ser(k) for k in kids), tag)


# ---------------------------------------------------------------------------
# normal form + encoding for the Lean model

def tagtext(tag, attrs):
    return "<" + tag + "".join(' %s="%s"' % (k, html.escape(v, quote=True)) for k, v in attrs) + ">"


def nf(nodes):
    """-> list of ('D', str) | ('E', tag, attrs, orig, tal, noend, kids_nf) with adjacent data merged"""
    out = []

    def data(s):
        if out and out[-1][0] == "D":
            out[-1] = ("D", out[-1][1] + s)
        else:
            out.append(("D", s))
    for n in nodes:
        if n[0] == "text":
            data(n[1])
            continue
        _, tag, attrs, tal, kids = n
        if not tal:
            data(tagtext(tag, attrs))
            if tag not in FORBIDDEN_END:
                for k in nf(kids):
                    if k[0] == "D":
                        data(k[1])
                    else:
                        out.append(k)
                data("</%s>" % tag)
            continue
        orig = list(attrs) + [("tal:" + k, v) for k, v in tal.items()]
        out.append(("E", tag, attrs, orig, tal, tag in FORBIDDEN_END, nf(kids)))
    return out


def parse_define(arg):
    res = []
    for stmt in arg.split(";"):
        bits = stmt.lstrip().split(" ")
        isl = True
        if len(bits) > 2 and bits[0] == "global":
            isl, name, ex = False, bits[1], " ".join(bits[2:])
        elif len(bits) > 2 and bits[0] == "local":
            name, ex = bits[1], " ".join(bits[2:])
        else:
            name, ex = bits[0], " ".join(bits[1:])
        res.append((isl, name, ex))
    return res


def parse_content(arg):
    structure = False
    bits = arg.split(" ")
    ex = arg
    if len(bits) > 1:
        if bits[0] == "structure":
            structure, ex = True, " ".join(bits[1:])
        elif bits[0] == "text":
            ex = " ".join(bits[1:])
    return structure, ex


def enc_pairs(l):
    return " ".join([str(len(l))] + [enc_str(k) + " " + enc_str(v) for k, v in l])


def enc_cmds(tal):
    toks = []
    if "define" in tal:
        d = parse_define(tal["define"])
        toks.append("d " + str(len(d)) + "".join(" %s %s %s" % ("T" if l else "F", enc_str(n), enc_str(e)) for l, n, e in d))
    else:
        toks.append("-")
    toks.append("c " + enc_str(tal["condition"]) if "condition" in tal else "-")
    if "repeat" in tal:
        bits = tal["repeat"].split(" ")
        toks.append("r " + enc_str(bits[0]) + " " + enc_str(" ".join(bits[1:])))
    else:
        toks.append("-")
    if "content" in tal or "replace" in tal:
        rep = "replace" in tal
        st, ex = parse_content(tal["replace"] if rep else tal["content"])
        toks.append("k %s %s %s" % ("T" if rep else "F", "T" if st else "F", enc_str(ex)))
    else:
        toks.append("-")
    if "attributes" in tal:
        a = []
        for stmt in tal["attributes"].split(";"):
            bits = stmt.lstrip().split(" ")
            a.append((bits[0], " ".join(bits[1:])))
        toks.append("a " + enc_pairs(a))
    else:
        toks.append("-")
    if "omit-tag" in tal:
        toks.append("o " + enc_str(tal["omit-tag"] or "default"))
    else:
        toks.append("-")
    return " ".join(toks)


def enc_nodes(nodes):
    parts = [str(len(nodes))]
    for n in nodes:
        if n[0] == "D":
            parts.append("D " + enc_str(n[1]))
        else:
            _, tag, attrs, orig, tal, noend, kids = n
            parts.append(" ".join(["E", enc_str(tag), enc_pairs(attrs), enc_pairs(orig), enc_cmds(tal), "F", "T" if noend else "F", enc_nodes(kids)]))
    return " ".join(parts)


def enc_val(v):
    if v is None:
        return "n"
    if isinstance(v, bool):
        return "i " + str(int(v))
    if isinstance(v, int):
        return "i " + str(v)
    if isinstance(v, str):
        return "d" if v == simpleTALES.DEFAULTVALUE else "s " + enc_str(v)
    if isinstance(v, (list, tuple)):
        return " ".join(["l", str(len(v))] + [enc_val(x) for x in v])
    if isinstance(v, dict):
        return " ".join(["m", str(len(v))] + [enc_str(k) + " " + enc_val(x) for k, x in v.items()])
    return "s " + enc_str(str(v))


def dec_val(toks):
    """inverse of the Lean encVal on a token list (consumed from the front)"""
    t = toks.pop(0)
    if t == "n":
        return None
    if t == "d":
        return simpleTALES.DEFAULTVALUE
    if t == "i":
        return int(toks.pop(0))
    if t == "s":
        from leanio import dec_str
        return dec_str(toks.pop(0))
    if t == "l":
        n = int(toks.pop(0))
        return [dec_val(toks) for _ in range(n)]
    if t == "m":
        n = int(toks.pop(0))
        from leanio import dec_str
        out = {}
        for _ in range(n):
            k = dec_str(toks.pop(0))
            out[k] = dec_val(toks)
        return out
    raise ValueError(t)


# ---------------------------------------------------------------------------
# the real thing

BUILTIN_GLOBALS = {"nothing", "default", "options", "repeat", "attrs", "CONTEXTS"}


def real_compile(tpl):
    t = simpleTAL.compileHTMLTemplate(tpl)
    prog = []
    st = t.symbolTable
    for op, arg in t.commandList:
        if op == simpleTAL.TAL_START_SCOPE:
            prog.append(("SCOPE", sorted(arg[0].items()), list(arg[1])))
        elif op == simpleTAL.TAL_DEFINE:
            prog.append(("DEFINE", [(bool(a), b, c) for a, b, c in arg]))
        elif op == simpleTAL.TAL_CONDITION:
            prog.append(("COND", arg[0], st[arg[1]]))
        elif op == simpleTAL.TAL_REPEAT:
            prog.append(("REPEAT", arg[0], arg[1], st[arg[2]]))
        elif op == simpleTAL.TAL_CONTENT:
            prog.append(("CONTENT", bool(arg[0]), bool(arg[1]), arg[2], st[arg[3]]))
        elif op == simpleTAL.TAL_ATTRIBUTES:
            prog.append(("ATTRS", list(arg)))
        elif op == simpleTAL.TAL_OMITTAG:
            prog.append(("OMIT", arg))
        elif op == simpleTAL.TAL_STARTTAG:
            prog.append(("STARTTAG", arg[0], bool(arg[1])))
        elif op == simpleTAL.TAL_OUTPUT:
            prog.append(("OUT", arg))
        elif op == simpleTAL.TAL_ENDTAG_ENDSCOPE:
            prog.append(("ENDTAG", arg[0], bool(arg[1]), bool(arg[2])))
        else:
            prog.append(("OTHER", op))
    return t, prog


def dec_prog(s):
    from leanio import dec_str
    out = []
    if not s:
        return out
    for c in s.split(";"):
        t = c.split(" ")
        op = t.pop(0)

        def pairs():
            n = int(t.pop(0))
            return [(dec_str(t.pop(0)), dec_str(t.pop(0))) for _ in range(n)]
        if op == "SCOPE":
            o = pairs()
            cu = pairs()
            out.append(("SCOPE", sorted(o), cu))
        elif op == "DEFINE":
            n = int(t.pop(0))
            out.append(("DEFINE", [(t.pop(0) == "T", dec_str(t.pop(0)), dec_str(t.pop(0))) for _ in range(n)]))
        elif op == "COND":
            out.append(("COND", dec_str(t[0]), int(t[1])))
        elif op == "REPEAT":
            out.append(("REPEAT", dec_str(t[0]), dec_str(t[1]), int(t[2])))
        elif op == "CONTENT":
            out.append(("CONTENT", t[0] == "T", t[1] == "T", dec_str(t[2]), int(t[3])))
        elif op == "ATTRS":
            out.append(("ATTRS", pairs()))
        elif op == "OMIT":
            out.append(("OMIT", dec_str(t[0])))
        elif op == "STARTTAG":
            out.append(("STARTTAG", dec_str(t[0]), t[1] == "T"))
        elif op == "OUT":
            out.append(("OUT", dec_str(t[0])))
        elif op == "ENDTAG":
            out.append(("ENDTAG", dec_str(t[0]), t[1] == "T", t[2] == "T"))
    return out


class Runaway(Exception):
    """the real engine did not finish: output beyond any template of the generators, or no end within the time limit"""


class Sink(io.StringIO):
    LIMIT = 2_000_000

    def write(self, x):
        if self.tell() > self.LIMIT:
            raise Runaway("more than %d characters of output" % self.LIMIT)
        return super().write(x)


class time_limit:
    """SIGALRM-based limit around one expansion (main thread only; a no-op elsewhere)"""

    def __init__(self, seconds=5):
        self.seconds = seconds

    def __enter__(self):
        import signal
        import threading
        self.on = threading.current_thread() is threading.main_thread()
        if self.on:
            def fire(signum, frame):
                raise Runaway("no end within %s s" % self.seconds)
            self.prev = signal.signal(signal.SIGALRM, fire)
            signal.setitimer(signal.ITIMER_REAL, self.seconds)
        return self

    def __exit__(self, *a):
        import signal
        if self.on:
            signal.setitimer(signal.ITIMER_REAL, 0)
            signal.signal(signal.SIGALRM, self.prev)
        return False


def real_expand(t, g, allow_python=False):
    ctx = simpleTALES.Context(allowPythonPath=1 if allow_python else 0)
    for k, v in g.items():
        ctx.addGlobal(k, v)
    o = Sink()
    with time_limit():
        t.expand(ctx, o)
    snap = {"locals": dict(ctx.locals), "globals": {k: v for k, v in ctx.globals.items() if k not in BUILTIN_GLOBALS},
            "localStack": len(ctx.localStack), "repeatStack": len(ctx.repeatStack), "repeatMap": len(ctx.repeatMap)}
    return o.getvalue(), snap


# ---------------------------------------------------------------------------
# independent evaluator (TAL order: define, condition, repeat, content|replace, attributes, omit-tag)

class NotFound(Exception):
    pass


DEFAULT = object()


class OCtx:
    def __init__(s, g, allow_python=False):
        s.g = dict(g)
        s.l = {}
        s.rep = {}
        s.allow = allow_python


ROMAN = (("m", 1000), ("cm", 900), ("d", 500), ("cd", 400), ("c", 100), ("xc", 90), ("l", 50), ("xl", 40), ("x", 10), ("ix", 9), ("v", 5),
         ("iv", 4), ("i", 1))


class RepV:
    def __init__(s, seq):
        s.seq = seq
        s.pos = 0

    def letter(s):
        if s.pos == 0:
            return "a"
        n, r = s.pos, ""
        while n > 0:
            n, c = divmod(n, 26)
            r = chr(ord("a") + c) + r
        return r

    def roman(s):
        num, r = s.pos + 1, ""
        for ro, i in ROMAN:
            while num >= i:
                r += ro
                num -= i
        return r

    def map(s):
        return {"index": s.pos, "number": s.pos + 1, "even": 1 if s.pos % 2 == 0 else 0, "odd": 0 if s.pos % 2 == 0 else 1,
                "start": 1 if s.pos == 0 else 0, "end": 1 if s.pos == len(s.seq) - 1 else 0, "length": len(s.seq),
                "letter": s.letter(), "Letter": s.letter().upper(), "roman": s.roman(), "Roman": s.roman().upper()}


def path1(c, p, attrs):
    p = p.strip()
    if p.startswith('"') or p.startswith("'"):
        p = p[1:-1] if (p.endswith('"') or p.endswith("'")) else p[1:]
    elif p.endswith('"') or p.endswith("'"):
        p = p[:-1]
    parts = p.split("/")
    h = parts[0]
    if h in c.l:
        v = c.l[h]
    elif h == "nothing":
        v = None
    elif h == "default":
        v = DEFAULT
    elif h == "repeat":
        v = c.rep
    elif h == "attrs":
        v = attrs
    elif h in c.g:
        v = c.g[h]
    else:
        raise NotFound
    for q in parts[1:]:
        t = v.map() if isinstance(v, RepV) else v
        try:
            try:
                v = t[q]
            except TypeError:
                v = t[int(q)]
        except Exception:  # noqa
            raise NotFound
    return v.map() if isinstance(v, RepV) else v


def tostr(v):
    if v is DEFAULT:
        return simpleTALES.DEFAULTVALUE
    return v if isinstance(v, str) else str(v)


def ev(c, e, attrs):
    e = e.strip()
    if e.startswith("path:"):
        return evpath(c, e[5:].lstrip(), attrs)
    if e.startswith("exists:"):
        ps = e[7:].lstrip().split("|")
        try:
            path1(c, ps[0], attrs)
            return 1
        except NotFound:
            pass
        for p in ps[1:]:
            try:
                if ev(c, p.strip(), attrs):
                    return 1
            except NotFound:
                pass
        return 0
    if e.startswith("nocall:"):
        ps = e[7:].lstrip().split("|")
        try:
            return path1(c, ps[0], attrs)
        except NotFound:
            pass
        for p in ps[1:]:
            try:
                return ev(c, p.strip(), attrs)
            except NotFound:
                pass
        raise NotFound
    if e.startswith("not:"):
        try:
            v = ev(c, e[4:].lstrip(), attrs)
        except NotFound:
            return 1
        if v is None:
            return 1
        if v is DEFAULT:
            return 0
        try:
            return 0 if len(v) > 0 else 1
        except TypeError:
            pass
        return 0 if v else 1
    if e.startswith("string:"):
        return evstring(c, e[7:].lstrip(), attrs)
    if e.startswith("python:"):
        return "PYTHON-ORACLE" if c.allow else 0
    return evpath(c, e, attrs)


def evpath(c, e, attrs):
    ps = e.split("|")
    if len(ps) > 1:
        for p in ps:
            try:
                return ev(c, p.strip(), attrs)
            except NotFound:
                pass
        raise NotFound
    return path1(c, ps[0], attrs)


def evstring(c, e, attrs):
    out, i = "", 0
    while i < len(e):
        ch = e[i]
        if ch == "$":
            if i + 1 >= len(e):
                i += 1
                continue
            if e[i + 1] == "$":
                out += "$"
                i += 2
                continue
            if e[i + 1] == "{":
                j = e.find("}", i + 1)
                if j > 0:
                    try:
                        v = ev(c, e[i + 2:j], attrs)
                    except NotFound:
                        v = ""
                    if v is not None:
                        out += tostr(v)
                    i = j + 1
                    continue
                i += 1          # no closing brace: TALES leaves this open; simpleTAL drops the '$' and goes on with '{'
                continue
            j = e.find(" ", i + 1)
            if j == -1:
                j = len(e)
            try:
                v = path1(c, e[i + 1:j], attrs)
            except NotFound:
                v = ""
            if v is not None:
                out += tostr(v)
            i = j
            continue
        out += ch
        i += 1
    return out


def evo(c, e, attrs):
    try:
        return ev(c, e, attrs)
    except NotFound:
        return None


def truthy_cond(v):
    if v is None:
        return False
    if v is DEFAULT:
        return True
    if not v:
        return False
    try:
        if len(v) == 0:
            return False
    except TypeError:
        pass
    return True


def den(c, n, out):
    if n[0] == "text":
        out.append(n[1])
        return
    _, tag, attrs, tal, kids = n
    noend = tag in FORBIDDEN_END
    if not tal:
        out.append(tagtext(tag, attrs))
        if not noend:
            for k in kids:
                den(c, k, out)
            out.append("</%s>" % tag)
        return
    orig = dict(attrs)
    orig.update({"tal:" + k: v for k, v in tal.items()})
    saved_l = c.l
    pushed = False
    if "define" in tal:
        for isl, name, ex in parse_define(tal["define"]):
            v = evo(c, ex, orig)
            if isl:
                if not pushed:
                    c.l = dict(c.l)
                    pushed = True
                c.l[name] = v
            else:
                c.g[name] = v

    def body():
        cur, outtag, content, skipkids = list(attrs), True, None, False
        if "content" in tal or "replace" in tal:
            rep = "replace" in tal
            structure, arg = parse_content(tal["replace"] if rep else tal["content"])
            v = evo(c, arg, orig)
            if v is None:
                if rep:
                    outtag = False
                skipkids = True
            elif v is not DEFAULT:
                if rep:
                    outtag = False
                content, skipkids = (structure, v), True
        if "attributes" in tal:
            rm, new = set(), []
            for stmt in tal["attributes"].split(";"):
                bits = stmt.lstrip().split(" ")
                an, ex = bits[0], " ".join(bits[1:])
                v = evo(c, ex, orig)
                if v is None:
                    rm.add(an)
                elif v is not DEFAULT:
                    rm.add(an)
                    new.append((an, tostr(v)))
            cur = new + [(k, v) for k, v in cur if k not in rm]
        if "omit-tag" in tal:
            v = evo(c, tal["omit-tag"] or "default", orig)
            if v is not None and (v is DEFAULT or v):
                outtag = False
        if outtag:
            out.append(tagtext(tag, cur))
        if not skipkids:
            for k in kids:
                den(c, k, out)
        if content is not None:
            st, v = content
            out.append(tostr(v) if st else html.escape(tostr(v), quote=False))
        if outtag and not noend:
            out.append("</%s>" % tag)
    ok = True
    if "condition" in tal:
        ok = truthy_cond(evo(c, tal["condition"], orig))
    if ok:
        if "repeat" in tal:
            bits = tal["repeat"].split(" ")
            var, ex = bits[0], " ".join(bits[1:])
            v = evo(c, ex, orig)
            if v is DEFAULT:
                body()
            else:
                try:
                    seq = v if len(v) else []
                except TypeError:
                    seq = []
                if isinstance(seq, dict):
                    seq = []
                if len(seq):
                    rv = RepV(seq)
                    old_rep, c.rep = c.rep, dict(c.rep)
                    c.rep[var] = rv
                    old_l, c.l = c.l, dict(c.l)
                    for i, x in enumerate(seq):
                        rv.pos = i
                        c.l[var] = x
                        body()
                    c.l, c.rep = old_l, old_rep
        else:
            body()
    if pushed:
        c.l = saved_l


def oracle_expand(ast, g, allow_python=False):
    c = OCtx(g, allow_python)
    out = []
    for n in ast:
        den(c, n, out)
    return "".join(out), c
