"""./check <Cnn> [quick|thorough] [--replay file]      (DESIGN.md §2.2, §2.3)

1 extract  /repo -> Generated.lean
2 prove    lake build PygVerif.Props.Cnn + axiom audit + forbidden-token scan
3 correspond + 4 oracle   harness/props/cnn.py : run(ctx)
5 verdict  evidence/Cnn.json, replays/…, exit code
"""
import importlib
import json
import os
import random
import re
import sys
import time
import traceback

HERE = os.path.dirname(os.path.abspath(__file__))
VERIF = os.path.dirname(HERE)
sys.path.insert(0, HERE)

import extract  # noqa: E402
import extract_more  # noqa: E402
import leanio  # noqa: E402


class Ctx:
    def __init__(self, pid, tier, seed):
        self.pid = pid
        self.tier = tier
        self.seed = seed
        self.rng = random.Random(f"{pid}:{seed}")
        self.thorough = tier == "thorough"
        self.deepen = False
        self.proof_ok = True
        self.driver = None

    def n(self, quick, thorough):
        """case budget per tier; the deepened search uses the thorough budget"""
        return thorough if (self.thorough or self.deepen) else quick


class Result:
    """What a property module returns."""

    def __init__(self):
        self.evaluations = 0
        self.nontrivial = set()       # keys of distinct non-trivial cases
        self.rule = ""
        self.samples = []
        self.distribution = {}
        self.disagreements = []       # model vs code: {corr, input, model, impl}
        self.violations = []          # oracle on real code: {key, what, input, observed, required, replay}
        self.assumptions = []
        self.degraded = []
        self.extra = {}

    def count(self, key, n=1):
        self.distribution[key] = self.distribution.get(key, 0) + n

    def sample(self, s, cap=6):
        if len(self.samples) < cap:
            self.samples.append(s)

    def violation(self, key, what, inp, observed=None, required=None, replay=None):
        if len(self.violations) < 50:
            self.violations.append({"key": key, "what": what, "input": inp,
                                    "observed": observed, "required": required,
                                    "replay": replay})

    def disagree(self, corr, inp, model, impl):
        if len(self.disagreements) < 50:
            self.disagreements.append({"corr": corr, "input": inp, "model": model, "impl": impl})


def jsonable(x):
    if isinstance(x, bytes):
        return x.decode("latin-1")
    if isinstance(x, str):
        return x.encode("utf-8", "backslashreplace").decode("utf-8")
    if isinstance(x, dict):
        return {str(jsonable(k)): jsonable(v) for k, v in x.items()}
    if isinstance(x, (list, tuple, set)):
        return [jsonable(v) for v in x]
    if isinstance(x, (int, float, bool)) or x is None:
        return x
    return repr(x)


def load_known():
    p = os.path.join(VERIF, "known_findings.json")
    if not os.path.exists(p):
        return []
    return json.load(open(p))


def source_theorems(pid):
    p = os.path.join(leanio.LEAN, "PygVerif", "Props", f"{pid}.lean")
    if not os.path.exists(p):
        return []
    txt = leanio.strip_comments(open(p, encoding="utf-8").read())
    return re.findall(r"^\s*theorem\s+([A-Za-z0-9_'.]+)", txt, re.M)


def write_replay(pid, seed, idx, data):
    d = os.path.join(VERIF, "replays")
    os.makedirs(d, exist_ok=True)
    path = os.path.join(d, f"{pid}-seed{seed}-{idx}.json")
    with open(path, "w") as f:
        json.dump(jsonable(data), f, indent=1)
    return os.path.relpath(path, VERIF)


def main(argv):
    if not argv:
        print("usage: check <Cnn> [quick|thorough] [--replay file]")
        return 2
    pid = argv[0]
    tier = os.environ.get("VERIF_TIER", "quick")
    replay = None
    i = 1
    while i < len(argv):
        if argv[i] in ("quick", "thorough"):
            tier = argv[i]
        elif argv[i] == "--replay":
            replay = argv[i + 1]
            i += 1
        i += 1
    try:
        seed = int(os.environ.get("VERIF_SEED", "0"))
    except ValueError:
        seed = 0
    t0 = time.time()
    try:
        mod = importlib.import_module(f"props.{pid.lower()}")
    except ImportError as e:
        print(f"tool error: no property module for {pid}: {e}")
        traceback.print_exc()
        return 2
    if replay:
        data = json.load(open(replay))
        return mod.replay(data) if hasattr(mod, "replay") else 2

    # watchdog: a run that exceeds its budget is tool trouble (exit 2), never a verdict.  (A single *request* that hangs is
    # interrupted by pyg.request and judged by the property's oracle.)
    import threading

    def _timeout():
        print(f"tool error: {pid} {tier} exceeded its time budget (watchdog)", flush=True)
        os._exit(2)
    wd = threading.Timer(int(os.environ.get("VERIF_WATCHDOG", "1500" if tier == "quick" else "14400")), _timeout)
    wd.daemon = True
    wd.start()
    ctx = Ctx(pid, tier, seed)
    # 1 extract ------------------------------------------------------------
    try:
        info = extract.generate(extract_more.SECTIONS)
    except Exception as e:  # noqa
        print(f"tool error: extraction failed: {type(e).__name__}: {e}")
        traceback.print_exc()
        return 2
    # 2 prove --------------------------------------------------------------
    broken = []
    theorems = []
    try:
        okd, logd = leanio.build(["driver"])
        ok, log = leanio.build([f"PygVerif.Props.{pid}"])
        scan = leanio.scan_sources()
        if ok:
            theorems = leanio.audit(pid)
        else:
            errs = re.findall(r"error: (\S+?\.lean:\d+:\d+: .*)", log)
            broken.append({"what": "lake build PygVerif.Props.%s failed" % pid, "errors": errs[:8]})
        for t, axs in theorems:
            bad = [a for a in axs if a not in leanio.ALLOWED_AXIOMS]
            if bad:
                broken.append({"what": f"theorem {t} depends on axioms {bad}"})
        if scan:
            broken.append({"what": "forbidden tokens in Lean sources", "hits": scan})
        if ok and not theorems:
            broken.append({"what": "no theorems found in namespace Pyg.Props.%s" % pid})
    except leanio.ToolError as e:
        print(f"tool error: {e}")
        return 2
    src_thms = source_theorems(pid)
    obligations = max(len(theorems), len(src_thms))
    discharged = 0 if broken else len(theorems)
    ctx.proof_ok = not broken
    ctx.driver = leanio.Driver()
    if not okd:
        ctx.driver.mode = "interp"
    # 3+4 correspond + oracle ---------------------------------------------
    try:
        res = mod.run(ctx)
        if (broken or res.disagreements) and not _unlisted(res, pid):
            # deepened search near the disagreement, thorough budget
            ctx.deepen = True
            ctx.rng = random.Random(f"{pid}:{seed}:deep")
            res2 = mod.run(ctx)
            res.violations.extend(res2.violations)
            res.evaluations += res2.evaluations
            res.nontrivial |= res2.nontrivial
    except leanio.ToolError as e:
        print(f"tool error: {e}")
        return 2
    except Exception as e:  # noqa
        print(f"tool error: property module crashed: {type(e).__name__}: {e}")
        traceback.print_exc()
        return 2
    # 5 verdict ------------------------------------------------------------
    known = [k for k in load_known() if k.get("property") == pid and k.get("status") == "open"]
    known_keys = {k["key"]: k for k in known}
    unlisted = [v for v in res.violations if v["key"] not in known_keys]
    listed = {}
    for v in res.violations:
        if v["key"] in known_keys:
            listed.setdefault(v["key"], v)
    lines = []
    rc = 0
    for k in sorted(listed):
        lines.append(f"KNOWN-FINDING: property={pid} {known_keys[k]['what']}")
    if unlisted:
        seen = set()
        idx = 0
        for v in unlisted:
            if v["key"] in seen:
                continue
            seen.add(v["key"])
            path = write_replay(pid, seed, idx, {
                "property": pid, "kind": "failing-input", "seed": seed, "tier": tier,
                "violation": v, "broken_proof": broken, "disagreements": res.disagreements[:3],
                "rerun": f"./check {pid} --replay <this file>"})
            lines.append(f"VIOLATION property={pid} replay={path}")
            idx += 1
            if idx >= 5:
                break
        rc = 1
    elif broken or res.disagreements:
        path = write_replay(pid, seed, 0, {
            "property": pid, "kind": "proof-or-correspondence-broken", "seed": seed, "tier": tier,
            "broken_proof": broken, "disagreements": res.disagreements[:10],
            "generated_tables": info,
            "note": "the property is no longer shown to hold; the failing-input search on the "
                    "implementation (thorough budget) found no violating input"})
        lines.append(f"VIOLATION property={pid} replay={path} no-failing-input-found")
        rc = 1
    wall = time.time() - t0
    ev = {
        "property_id": pid, "tier": tier, "seed": seed, "level": "proof",
        "coverage": {
            "obligations": obligations, "discharged": discharged,
            "checker_cmd": f"cd lean && lake build PygVerif.Props.{pid} && lake env lean .audit/Audit{pid}.lean"
                           + (f" && lake env leanchecker PygVerif.Props.{pid}" if tier == "thorough" else ""),
            "trusted_base": [
                "Lean 4.33.0 kernel", "axioms allowed: propext, Classical.choice, Quot.sound (audited per theorem below)",
                "harness/extract.py (Generated.lean tables)", "harness correspondence + oracle (Python)",
                "Lean compiler/interpreter evaluating the model definitions in the driver",
            ],
            "theorems": [{"name": t, "axioms": a} for t, a in theorems],
            "broken": broken,
            "generated_tables": {k: v for k, v in info.items() if not k.startswith("_")},
            "evaluations": res.evaluations,
            "distinct_nontrivial": len(res.nontrivial),
            "rule": res.rule,
            "samples": jsonable(res.samples),
            "distribution": jsonable(res.distribution),
            "correspondence_disagreements": len(res.disagreements),
            "known_findings_seen": sorted(listed),
            "tie_degraded": res.degraded,
            "driver_mode": ctx.driver.mode,
        },
        "assumptions": res.assumptions,
        "wall_s": round(wall, 2),
        "violations": len(unlisted) + (1 if (rc == 1 and not unlisted) else 0),
    }
    ev["coverage"].update(jsonable(res.extra))
    if tier == "thorough" and not broken:
        try:
            okc, outc = leanio.leanchecker(pid)
            ev["coverage"]["leanchecker"] = "ok" if okc else outc[-500:]
            if not okc:
                lines.append(f"tool warning: leanchecker did not accept PygVerif.Props.{pid}")
        except leanio.ToolError as e:
            ev["coverage"]["leanchecker"] = f"not run: {e}"
    ev["wall_s"] = round(time.time() - t0, 2)
    evdir = os.environ.get("VERIF_EVIDENCE_DIR") or os.path.join(VERIF, "evidence")   # seeded-change runs keep the committed evidence untouched
    os.makedirs(evdir, exist_ok=True)
    with open(os.path.join(evdir, f"{pid}.json"), "w") as f:
        json.dump(ev, f, indent=1)
    for ln in lines:
        print(ln)
    print(f"{pid} {tier} seed={seed}: obligations={obligations} discharged={discharged} "
          f"evaluations={res.evaluations} nontrivial={len(res.nontrivial)} "
          f"disagreements={len(res.disagreements)} violations={len(unlisted)} "
          f"known={len(listed)} wall={ev['wall_s']}s -> exit {rc}")
    return rc


def _unlisted(res, pid):
    known = {k["key"] for k in load_known() if k.get("property") == pid and k.get("status") == "open"}
    return [v for v in res.violations if v["key"] not in known]


if __name__ == "__main__":
    sys.exit(main(sys.argv[1:]))
