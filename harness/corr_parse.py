"""Correspondence of request parsing: the (selector, search string) a protocol hands to the
handlers, real code (recording handler) vs Model/Proto.parseRequest."""
import urllib.parse

import pyg
import reqs
from leanio import enc_str, enc_list, dec_str, dec_opt
from props.c02 import SHORT, gen_line, readlines

SEL_ALPHA = ["a", "b", "/", ".", "..", "%", "2", "e", "f", "5", "c", "0", " ", "?", "|", "#", "&", "=", "+",
             "\xe9", "\udcff", "\\", "%2e", "%2F", "%5c", "%00", "%25", "%C3%A9", "%ff", "wap", "GEMINI-QUERY", ";", ":"]


def rand_sel(rng, lo=0, hi=8):
    return "/" * rng.randrange(2) + "".join(rng.choice(SEL_ALPHA) for _ in range(rng.randint(lo, hi)))


def gen_requests(rng, n):
    out = []
    for _ in range(n):
        k = rng.random()
        if k < 0.2:
            line, rest = gen_line(rng)
            tls = rng.random() < 0.4
            out.append((line + rest, tls))
            continue
        p = rng.choice(reqs.PROTOS)
        sel = rand_sel(rng)
        search = None
        if rng.random() < 0.4:
            search = "".join(rng.choice(["q", " ", "+", "%", "4", "1", "&", "=", "\xe9", "\udcff", "x", "\t", "?"]) for _ in range(rng.randint(0, 6)))
            if p in ("gopher", "gopherp", "sgopher", "sgopherp"):
                search = search.replace("\t", "")
        layers = rng.choice([0, 1, 1, 2])
        if p in ("gopher", "gopherp", "sgopher", "sgopherp"):
            sel = sel.replace("\t", "")
        try:
            rq = reqs.build(p, sel, search=search, layers=layers, gplus=rng.choice(["+", "!", "$", "+text/plain"]),
                            head=rng.random() < 0.2)
        except UnicodeError:
            continue
        first = rq.split(b"\n", 1)[0]
        if b"\n" in sel.encode("utf-8", "surrogateescape"):
            continue
        if rng.random() < 0.1:
            rq = rq.replace(b"?searchrequest=", rng.choice([b"?x=1&searchrequest=", b"?searchrequest=&searchrequest=", b"?y&searchrequest="]), 1)
        out.append((rq, reqs.TLS[p]))
    return out


def run(ctx, res, n, tag):
    cfg = pyg.recorder_config()
    cases = gen_requests(ctx.rng, n)
    lines = []
    impl = []
    kept = []
    for rq, tls in cases:
        i = rq.find(b"\n")
        line = rq if i < 0 else rq[:i + 1]
        rest = b"" if i < 0 else rq[i + 1:]
        sel, search, r = pyg.parse_via_recorder(rq, cfg, tls)
        dl = line.decode("utf-8", "surrogateescape")
        if r.proto:
            short = SHORT.get(r.proto)
        else:
            name, _ = pyg.get_protocol(dl, cfg, tls, rest)
            short = SHORT.get(name)
        if short is None:
            continue
        if short == "spartan":
            f = dl.strip().split(" ")
            try:
                ln = int(f[2])
            except Exception:  # noqa
                ln = 0
            rl = [rest[:ln].decode("utf-8", "surrogateescape")]
        else:
            rl = [x.decode("utf-8", "surrogateescape") for x in readlines(rest)]
        nv = True
        if short == "gemini":
            try:
                urllib.parse.urlparse(dl.strip())
            except ValueError:
                nv = False
        lines.append("parse\t%s\t%s\t%s\t%s\t%s" % (short, "T" if tls else "F", enc_str(dl), enc_list(rl), "T" if nv else "F"))
        impl.append((sel, search, r))
        kept.append((rq, tls, short))
    outs = ctx.driver.run(lines)
    for (rq, tls, short), (sel, search, r), o in zip(kept, impl, outs):
        f = o.split("\t")
        msel, msearch, mhead, mgplus, minput, mbad = dec_str(f[0]), dec_opt(f[1]), f[2] == "T", dec_opt(f[3]), dec_opt(f[4]), f[5] == "T"
        res.evaluations += 1
        res.count(f"{tag}:{short}:{'consulted' if sel is not None else 'not-consulted'}")
        if sel is None:
            # handlers not consulted: gemini input prompt / bad request / built-in HTTP icon
            if minput is not None or mbad:
                exp = None
                if mbad:
                    ok = r.out.startswith(b"59")
                elif not msearch:
                    ok = r.out.startswith(b"10 ")
                else:
                    ok = r.out == f"30 {minput}?{msearch}\r\n".encode("utf-8", "backslashreplace")
                if not ok:
                    res.disagree(f"{tag}.parse.gemini-input", {"request": rq, "tls": tls}, {"input": minput, "search": msearch, "bad": mbad}, r.out[:80])
            elif short in ("http", "https", "wap") and msel.startswith("/PYGOPHERD-HTTPPROTO-ICONS/"):
                pass
            else:
                res.disagree(f"{tag}.parse.consulted", {"request": rq, "tls": tls}, {"selector": msel}, {"selector": None, "out": r.out[:60], "exc": repr(r.exc)})
            continue
        if minput is not None or mbad:
            res.disagree(f"{tag}.parse.consulted", {"request": rq, "tls": tls}, {"input": minput, "bad": mbad}, {"selector": sel})
            continue
        # search: the handler sees None or "" alike as "no search"; compare exactly otherwise
        if msel != sel or (msearch or None) != (search or None):
            res.disagree(f"{tag}.parse", {"request": rq, "tls": tls, "proto": short}, {"selector": msel, "search": msearch}, {"selector": sel, "search": search})
        if msel != "/" + rq.split(b"\r\n")[0].decode("latin-1"):
            res.nontrivial.add((rq, tls))
    if kept:
        res.sample({"correspondence": "parse", "request": kept[0][0], "tls": kept[0][1], "selector_seen": impl[0][0], "search_seen": impl[0][1]})
