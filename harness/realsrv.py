"""A real pygopherd server in its own process (harness/realserver.py) plus a minimal socket client."""
import os
import signal
import socket
import ssl
import subprocess
import sys

import pyg

HERE = os.path.dirname(os.path.abspath(__file__))


def client_context():
    c = ssl.create_default_context()
    c.check_hostname = False
    c.verify_mode = ssl.CERT_NONE
    return c


def tls_options():
    return {"pygopherd|enable_tls": "yes", "pygopherd|tls_certfile": os.path.join(pyg.REPO, "testdata", "demo.crt"),
            "pygopherd|tls_keyfile": os.path.join(pyg.REPO, "testdata", "demo.key")}


class RealServer:
    def __init__(self, cfg, tmpdir, name="server"):
        cfg.set("logger", "logmethod", "none")
        self.confpath = os.path.join(tmpdir, name + ".conf")
        with open(self.confpath, "w") as fh:
            cfg.write(fh)
        self.proc = subprocess.Popen([sys.executable, "-B", os.path.join(HERE, "realserver.py"), pyg.REPO, self.confpath],
                                     stdout=subprocess.PIPE, stderr=subprocess.PIPE, start_new_session=True)
        line = self.proc.stdout.readline()
        if not line.strip().isdigit():
            err = self.proc.stderr.read().decode(errors="replace")[-400:]
            self.close()
            raise RuntimeError("real server did not start: " + err)
        self.port = int(line)
        self.pid = self.proc.pid

    def children(self):
        try:
            return open("/proc/%d/task/%d/children" % (self.pid, self.pid)).read().split()
        except OSError:
            return []

    def threads(self):
        import re
        try:
            return int(re.search(r"Threads:\s*(\d+)", open("/proc/%d/status" % self.pid).read()).group(1))
        except (OSError, AttributeError):
            return None

    def alive(self):
        return self.proc.poll() is None

    def close(self):
        try:
            os.killpg(self.proc.pid, signal.SIGKILL)
        except ProcessLookupError:
            pass
        try:
            self.proc.wait(10)
        except Exception:  # noqa
            pass
        self.proc.stdout.close()
        self.proc.stderr.close()

    def __enter__(self):
        return self

    def __exit__(self, *a):
        self.close()


def ask(port, req, tls=False, cctx=None, timeout=30):
    """Send req, read until EOF.  Returns bytes; TLS/transport errors after the first byte end the read."""
    s = socket.create_connection(("127.0.0.1", port), timeout=timeout)
    try:
        if tls:
            s = (cctx or client_context()).wrap_socket(s)
        s.sendall(req)
        buf = b""
        while True:
            try:
                c = s.recv(65536)
            except (ssl.SSLError, ConnectionResetError):
                break
            if not c:
                break
            buf += c
        return buf
    finally:
        try:
            s.close()
        except Exception:  # noqa
            pass
