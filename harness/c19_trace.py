"""Execute /repo's initialization.initialize under substituted privileged calls and print,
as JSON, the ordered call trace for every (tls, chroot, setuid, setgid) combination and
every fault position.  Runs in its own process (it changes process group and signal
handlers).  Usage: python c19_trace.py <repo>
"""
import errno
import json
import os
import socket
import ssl
import sys
import tempfile

repo = sys.argv[1] if len(sys.argv) > 1 else "/repo"
sys.path.insert(0, repo)
os.chdir(repo)
import warnings  # noqa: E402

warnings.filterwarnings("ignore")

import grp  # noqa: E402
import pwd  # noqa: E402

from pygopherd import initialization, logger  # noqa: E402

TRACE = []
FAULT_AT = [None]
FAULT_CLASS = [0]


class Injected(OSError):
    pass


# the classes a failing start-up step can raise: every one of them must abort start-up
CLASSES = [
    lambda n: Injected(errno.EIO, "injected fault at " + n),
    lambda n: PermissionError(errno.EPERM, "Operation not permitted: " + n),
    lambda n: FileNotFoundError(errno.ENOENT, "No such file or directory: " + n),
    lambda n: KeyError("name not found: " + n),
    lambda n: ssl.SSLError(1, "injected SSL error at " + n),
    lambda n: RuntimeError("injected fault at " + n),
    # errors a caller might be tempted to retry: they persist (every later call of the same step fails the same way)
    lambda n: BlockingIOError(errno.EAGAIN, "Resource temporarily unavailable: " + n),
    lambda n: InterruptedError(errno.EINTR, "Interrupted system call: " + n),
]
STICKY = (6, 7)
STUCK = [None]


def rec(name, *args):
    idx = len(TRACE)
    TRACE.append([name] + [str(a) for a in args])
    if FAULT_AT[0] is not None and idx == FAULT_AT[0]:
        if FAULT_CLASS[0] in STICKY:
            STUCK[0] = name
        raise CLASSES[FAULT_CLASS[0]](name)
    if STUCK[0] == name:
        raise CLASSES[FAULT_CLASS[0]](name)


def mk(name, ret=None):
    def f(*a, **k):
        rec(name, *a)
        return ret
    return f


real_bind = socket.socket.bind
real_chdir = os.chdir
real_getuid, real_geteuid = os.getuid, os.geteuid


def fake_bind(self, addr):
    rec("bind")
    return real_bind(self, addr)


def fake_load(self, certfile, keyfile=None, password=None):
    rec("loadKeys")


class FakePw(tuple):
    pass


def install(tmp):
    os.chroot = mk("chroot")
    os.chdir = mk("chdir")
    os.setgroups = mk("setgroups")
    os.setregid = mk("setregid")
    os.setreuid = mk("setreuid")
    for n in ("setgid", "setuid", "setegid", "seteuid", "setresgid", "setresuid", "initgroups"):
        if hasattr(os, n):
            setattr(os, n, mk(n))
    os.fork = mk("fork", 0)
    pwd.getpwnam = mk("getpwnam", ("u", "x", 1234, 1234, "", "/", ""))
    grp.getgrnam = mk("getgrnam", ("g", "x", 4321, []))
    socket.socket.bind = fake_bind
    ssl.SSLContext.load_cert_chain = fake_load


def run(tls, chroot, setuid, setgid, fault, tmp, fclass=0, start_cwd=None):
    """start_cwd: where the server is started from (None: the source tree) -- 'root', 'below' (a directory below the
    document root), 'sibling' (a directory next to the root whose path starts with the root's path), 'sibling-sub'"""
    if start_cwd is not None:
        root_ = os.path.join(tmp, "root")
        where = {"root": root_, "below": os.path.join(root_, "pub", "sub"), "sibling": root_ + "-staging",
                 "sibling-sub": os.path.join(root_ + ".old", "run"),
                 # the file system's root (where init scripts and service managers start daemons), and two start-ups that are
                 # not made by real root: an ordinary user (the stubs stand for a kernel that would refuse) and a set-uid launcher
                 "slash": "/", "uid-user": root_, "uid-launcher": root_}[start_cwd]
        os.makedirs(where, exist_ok=True)
        real_chdir(where)
        if start_cwd == "uid-user":
            os.getuid, os.geteuid = (lambda: 1000), (lambda: 1000)
        elif start_cwd == "uid-launcher":
            os.getuid, os.geteuid = (lambda: 1000), (lambda: 0)
    try:
        row = _run(tls, chroot, setuid, setgid, fault, tmp, fclass)
    finally:
        real_chdir(repo)
        os.getuid, os.geteuid = real_getuid, real_geteuid
    row["start_cwd"] = start_cwd
    return row


def _run(tls, chroot, setuid, setgid, fault, tmp, fclass=0):
    del TRACE[:]
    STUCK[0] = None
    FAULT_AT[0] = fault
    FAULT_CLASS[0] = fclass
    root = os.path.join(tmp, "root")
    os.makedirs(root, exist_ok=True)
    conf = os.path.join(tmp, "c.conf")
    base = open(os.path.join(repo, "conf", "pygopherd.conf")).read()
    import configparser
    c = configparser.ConfigParser()
    c.read_string(base)
    c.set("pygopherd", "root", root)
    c.set("pygopherd", "port", "0")
    c.set("pygopherd", "interface", "127.0.0.1")
    c.set("pygopherd", "servername", "srv.example")
    c.set("pygopherd", "detach", "no")
    c.set("pygopherd", "pidfile", os.path.join(tmp, "pid"))
    c.set("pygopherd", "servertype", "ThreadingTCPServer")
    c.set("pygopherd", "usechroot", "yes" if chroot else "no")
    c.set("pygopherd", "mimetypes", os.path.join(repo, "conf", "mime.types"))
    c.set("logger", "logmethod", "none")
    c.set("pygopherd", "enable_tls", "yes" if tls else "no")
    if tls:
        c.set("pygopherd", "tls_certfile", os.path.join(repo, "testdata", "demo.crt"))
        c.set("pygopherd", "tls_keyfile", os.path.join(repo, "testdata", "demo.key"))
    for opt, on in (("setuid", setuid), ("setgid", setgid)):
        if c.has_option("pygopherd", opt):
            c.remove_option("pygopherd", opt)
        if on:
            c.set("pygopherd", opt, "nobody")
    with open(conf, "w") as f:
        c.write(f)
    raised = None
    server = None
    root_after = None
    try:
        server = initialization.initialize(conf)
        root_after = server.config.get("pygopherd", "root")
    except BaseException as e:  # noqa
        raised = type(e).__name__
    finally:
        if server is not None:
            try:
                server.server_close()
            except Exception:  # noqa
                pass
    return {"tls": tls, "chroot": chroot, "setuid": setuid, "setgid": setgid, "fault": fault, "fclass": fclass,
            "trace": [t for t in TRACE], "raised": raised, "root_after": root_after}


def memo_mime():
    """init_mimetypes rebuilds the same global tables on every call (about 1 s); after the
    first real call make the rebuild a no-op.  Falls back to the slow path if the names moved."""
    try:
        import mimetypes
        import pygopherd.fileext as fe
        real_fe, real_mi = fe.init, mimetypes.init
        state = {"n": 0}

        def fe_init():
            if state["n"] == 0:
                real_fe()
            state["n"] += 1
        fe.init = fe_init
    except Exception:  # noqa
        pass


def main():
    tmp = tempfile.mkdtemp(prefix="pygverif-c19-")
    install(tmp)
    memo_mime()
    rows = []
    try:
        for tls in (False, True):
            for chroot in (False, True):
                for su in (False, True):
                    for sg in (False, True):
                        r0 = run(tls, chroot, su, sg, None, tmp)
                        rows.append(r0)
                        if chroot and not tls:
                            for where in ("root", "below", "sibling", "sibling-sub", "slash", "uid-user", "uid-launcher"):
                                rows.append(run(tls, chroot, su, sg, None, tmp, start_cwd=where))
                        for k in range(len(CLASSES)):
                            for i in range(len(r0["trace"])):
                                rows.append(run(tls, chroot, su, sg, i, tmp, k))
    finally:
        import shutil
        os.chdir = real_chdir
        shutil.rmtree(tmp, ignore_errors=True)
    json.dump(rows, sys.stdout)


main()
