"""Content-tree generators (seeded)."""
import os
import zipfile

MBOX = (b"From alice@example.org Sat Jan  5 09:43:01 2002\nFrom: alice@example.org\n"
        b"Subject: first message\n\nbody one\n\n"
        b"From bob@example.org Sun Jan  6 10:00:00 2002\nFrom: bob@example.org\n"
        b"Subject: second <b>message</b>\n\nbody two\n\n")

HTML = b"<html><head><title>A page &amp; title</title></head><body><p>hi</p></body></html>\n"


def standard(tree, rng=None, hostile_content=True, specials=False):
    """A tree with every content kind the shipped handler list serves.
    Returns the list of (selector, kind) for existing objects; kind in dir|file."""
    w = tree.write
    w("README", b"Hello world\nsecond line\n")
    w("README.abstract", b"The readme abstract\nline two\n")
    w("about.txt", b"About text \xe9 \xff non-utf8\r\nCRLF line\r\n")
    w("page.html", HTML)
    w("data.bin", bytes(range(256)) * 3)
    w("empty.txt", b"")
    w("space name.txt", b"with spaces\n")
    w("q?mark&amp;.txt", b"reserved chars\n")
    w(b"\xae.txt", b"Hello, \xae!")
    w("pics/img.gif", b"GIF89a....")
    w("pics/.abstract", b"Pictures directory abstract\n")
    w("docs/a.txt", b"doc a\n")
    w("docs/b.txt", b"doc b\n")
    w("docs/.cap/a.txt", b"Name=Alpha document\nNumb=2\n")
    w("docs/.names", b"Path=./b.txt\nName=Beta document\nNumb=1\n\n"
                     b"Name=Floodgap\nType=1\nPath=/\nHost=gopher.floodgap.com\nPort=70\n")
    w("docs/sub/deep.txt", b"deep\n")
    w("mail/box.mbox", MBOX)
    w("map/gophermap",
      b"Welcome to the map\n"
      b"0Readme here\t/README\n"
      b"0relative doc\tinner.txt\n"
      b"1Docs\t/docs\n"
      b"1Remote\t/\texample.org\t70\n"
      b"hWeb\tURL:http://example.org/\n"
      b"\n")
    w("map/inner.txt", b"inner\n")
    # (relative links in a gophermap *file* are relative to the directory the file is in)
    w("menu.gophermap", b"iinfo line\tfake\t(NULL)\t0\n0Readme\t/README\n0Relative readme\tREADME\n1Relative docs\tdocs\n")
    w("docs/sub/more.gophermap", b"0Deep, relative\tdeep.txt\n0Up and over\t/docs/a.txt\n")
    os.symlink("README", tree.path("link-to-readme"))
    os.symlink("docs", tree.path("link-to-docs"))
    if hostile_content:
        # content-authored selectors that point outside the root (C01 F11)
        w("evilmap/gophermap",
          b"0climb\t/../secret.txt\n"
          b"0climb2\t../../secret.txt\n"
          b"1climbdir\t/..\n"
          b"0sibling of the root\tURL:mailto:a\n")     # no leading slash: root + selector names a sibling of the root
        w("evillinks/.Links", b"Name=climb\nType=0\nPath=/../secret.txt\n\n"
                              b"Name=climbrel\nType=0\nPath=../../secret.txt\n")
        w("evillinks/x.txt", b"x\n")
    objs = [("/", "dir"), ("/README", "file"), ("/about.txt", "file"), ("/page.html", "file"),
            ("/data.bin", "file"), ("/empty.txt", "file"), ("/space name.txt", "file"),
            ("/q?mark&amp;.txt", "file"), ("/\udcae.txt", "file"), ("/pics", "dir"),
            ("/pics/img.gif", "file"), ("/docs", "dir"), ("/docs/a.txt", "file"),
            ("/docs/b.txt", "file"), ("/docs/sub", "dir"), ("/docs/sub/deep.txt", "file"),
            ("/mail", "dir"), ("/mail/box.mbox", "dir"), ("/map", "dir"), ("/map/inner.txt", "file"),
            ("/menu.gophermap", "dir"), ("/link-to-readme", "file"), ("/link-to-docs", "dir")]
    if hostile_content:
        objs += [("/evilmap", "dir"), ("/evillinks", "dir"), ("/evillinks/x.txt", "file")]
    return objs


ZIP_SCRIPT = b"#!/bin/sh\necho member-script-output\n"


def add_full_list_content(tree):
    """Content for the full handler list: ZIP archive, PYG, executable script, TAL, gz."""
    zpath = tree.path("arch.zip")
    with zipfile.ZipFile(os.fsdecode(zpath), "w") as z:
        z.writestr("inside.txt", "inside zip\n")
        z.writestr("zd/nested.txt", "nested\n")
        z.writestr("box.mbox", MBOX.decode())
        z.writestr("md/new/1", "Subject: x\n\nbody\n")
        z.writestr("md/cur/2", "Subject: y\n\nbody\n")
        z.writestr("run.pyg", PYG_SRC)
        z.writestr("zd/page.html", "<html><head><title>Page inside the archive</title></head><body>x</body></html>\n")
        z.writestr("old.zip/notes.txt", "a directory that is named like an archive\n")
        z.writestr("zd/broken.zip", "a file that is named like an archive but is none\n")
        # members recorded as executable (Unix mode 0755): still archive members, never programs
        for nm, body in (("tools/report.sh", ZIP_SCRIPT), ("tools/gen.pyg", PYG_SRC.encode() if isinstance(PYG_SRC, str) else PYG_SRC)):
            zi = zipfile.ZipInfo(nm)
            zi.create_system = 3
            zi.external_attr = (0o100755) << 16
            z.writestr(zi, body)
    tree.write("hello.pyg", PYG_SRC)
    tree.write("script.sh", b"#!/bin/sh\necho script-output\n", mode=0o755)
    tree.write("tmpl.html.tal", b"<html><body><p tal:content=\"selector\">x</p></body></html>\n")
    # a template whose path expressions try to step out of the root through the loaders the handler provides
    tree.write("escape.html.tal", b"<html><body><p tal:content=\"root/../getchildrennames | string:refused\">a</p>"
                                  b"<p tal:content=\"dir/../../getchildrennames | string:refused\">b</p>"
                                  b"<p tal:content=\"rroot/../getchildrennames | string:refused\">c</p>"
                                  b"<div tal:replace=\"structure root/../outside-tpl | string:refused\">d</div>"
                                  b"<p tal:content=\"root/docs/../../getpath | string:refused\">e</p>"
                                  b"<p tal:content=\"root/docs/sub/getpath\">inside is fine</p></body></html>\n")
    return [("/arch.zip", "dir"), ("/arch.zip/inside.txt", "file"), ("/arch.zip/zd", "dir"),
            ("/arch.zip/zd/nested.txt", "file"), ("/arch.zip/old.zip", "dir"), ("/arch.zip/old.zip/notes.txt", "file"),
            ("/arch.zip/zd/broken.zip", "file"), ("/arch.zip/zd/page.html", "file"), ("/arch.zip/box.mbox", "file"), ("/arch.zip/md", "dir"),
            ("/arch.zip/run.pyg", "file"), ("/arch.zip/tools", "dir"), ("/arch.zip/tools/report.sh", "file"), ("/arch.zip/tools/gen.pyg", "file"),
            ("/arch.zip/box.mbox|/MBOX-MESSAGE/1", "file"),
            ("/arch.zip/md|/MAILDIR-MESSAGE/1", "file"), ("/mail/box.mbox|/MBOX-MESSAGE/1", "file"), ("/hello.pyg", "file"), ("/script.sh", "file"), ("/escape.html.tal", "file"),
            ("/tmpl.html.tal", "file")]


PYG_SRC = '''from pygopherd.handlers.pyg import PYGBase
from pygopherd.gopherentry import GopherEntry

class PYGMain(PYGBase):
    def canhandlerequest(self):
        return 1
    def getentry(self):
        e = GopherEntry(self.selector, self.config)
        e.type = '0'
        e.mimetype = 'text/plain'
        e.name = 'pyg out'
        return e
    def isdir(self):
        return 0
    def write(self, wfile):
        wfile.write(("pyg:" + str(self.searchrequest)).encode(errors="surrogateescape"))
'''
