"""C14 — concurrent clients are isolated from one another.

Oracle / tie to the runtime: N simultaneous real clients (all protocols, plaintext and TLS)
against the real ThreadingTCPServer and ForkingTCPServer on loopback, first requests after
start-up included (cold module lazies), cache enabled on shared directories; each response ==
its sequential response; afterwards the server still accepts and finished workers are reaped.
Tie of the Lean model's vocabulary to the code: a static scan of pygopherd/ for module-level
names assigned inside functions (the shared state) — exactly the lazies the model covers, each
assigned only under an 'is it still unset' guard from configuration.
"""
import ast
import glob
import os
import re
import shutil
import signal
import socket
import ssl
import subprocess
import sys
import threading
import time

import pyg
import reqs
import trees
from main import Result

KNOWN_LAZIES = {("pygopherd/handlers/base.py", "rootpath"), ("pygopherd/handlers/HandlerMultiplexer.py", "handlers"),
                ("pygopherd/handlers/HandlerMultiplexer.py", "rootpath"), ("pygopherd/gopherentry.py", "mapping"),
                ("pygopherd/gopherentry.py", "eaexts"), ("pygopherd/handlers/UMN.py", "extstrip")}
# assigned once at start-up, before any request is served (not shared request state)
STARTUP_GLOBALS = {("pygopherd/GopherExceptions.py", "tracebacks"), ("pygopherd/logger.py", "log"), ("pygopherd/logger.py", "priority"),
                   ("pygopherd/logger.py", "facility"), ("pygopherd/logger.py", "syslogfunc"), ("pygopherd/sighandlers.py", "pid")}


def scan_globals():
    """-> (set of (file, name) declared `global` in a function and assigned there, list of guard problems)"""
    found = set()
    problems = []
    for path in glob.glob(os.path.join(pyg.REPO, "pygopherd", "**", "*.py"), recursive=True):
        rel = os.path.relpath(path, pyg.REPO)
        if rel.startswith("pygopherd/testutil"):
            continue
        try:
            tree = ast.parse(open(path).read())
        except SyntaxError:
            continue
        for fn in ast.walk(tree):
            if not isinstance(fn, (ast.FunctionDef, ast.AsyncFunctionDef)):
                continue
            names = set()
            for n in ast.walk(fn):
                if isinstance(n, ast.Global):
                    names.update(n.names)
            for name in names:
                assigned = [n for n in ast.walk(fn) if isinstance(n, ast.Assign) and any(isinstance(t, ast.Name) and t.id == name for t in n.targets)]
                if not assigned:
                    continue
                found.add((rel, name))
                if (rel, name) in STARTUP_GLOBALS:
                    continue
                # every assignment must sit under `if not NAME` / `if NAME is None`
                for a in assigned:
                    ok = False
                    for iff in ast.walk(fn):
                        if isinstance(iff, ast.If) and any(a is x for b in iff.body for x in ast.walk(b)):
                            src = ast.unparse(iff.test)
                            if src in [f"not {g}" for g in names] + [f"{g} is None" for g in names]:
                                ok = True
                    if not ok:
                        problems.append(f"{rel}: {name} assigned outside an unset-guard in {fn.name}()")
                    used = {n.id for n in ast.walk(a.value) if isinstance(n, ast.Name)}
                    if not used <= {"config", "self", "eval"}:
                        problems.append(f"{rel}: {name} initialised from {sorted(used)} (expected configuration only)")
    return found, problems


def children(pid):
    try:
        return open("/proc/%d/task/%d/children" % (pid, pid)).read().split()
    except OSError:
        return []


def ask(port, req, tls, cctx, timeout=30):
    s = socket.create_connection(("127.0.0.1", port), timeout=timeout)
    try:
        if tls:
            s = cctx.wrap_socket(s)
        s.sendall(req)
        buf = b""
        while True:
            try:
                c = s.recv(65536)
            except (ssl.SSLError, ConnectionResetError):
                break
            if not c:
                break
            buf += c
        return buf
    finally:
        try:
            s.close()
        except Exception:  # noqa
            pass


def forced_interleavings(ctx, res):
    """The shared cache file's interleavings (Model/Conc: a writer's open-truncate / partial write / finish against a
    reader), forced on the real code instead of waiting for the scheduler: while request A is inside savecache's
    pickle.dump with only the first k bytes of the cache file written (k = 0: truncated, nothing flushed), request B for
    the same directory runs to completion; then A finishes; then C asks again.  A, B and C must each get the response
    a lone client gets."""
    import pickle as real_pickle
    import pygopherd.handlers.dir as dirmod
    tree = pyg.Tree()
    try:
        trees.standard(tree, hostile_content=False)
        cfg = pyg.make_config(tree.root, **{"handlers.dir.DirHandler|cachetime": "180"})
        pyg.reset_globals()          # (the requests below keep module state between them: start from this tree's configuration)
        cachefile = cfg.get("handlers.dir.DirHandler", "cachefile")
        views = [("gopher", "+"), ("gopherp", "$"), ("http", "+"), ("gemini", "+"), ("wap", "+"), ("spartan", "+")]
        dirs = ["/", "/docs", "/pics"]

        def drop_cache(d):
            pth = tree.path((d if d != "/" else "") + "/" + cachefile)
            if os.path.exists(pth):
                os.unlink(pth)

        def req(view, d):
            p_, g_ = view
            return pyg.request(reqs.build(p_, d, gplus=g_), cfg, tls=reqs.TLS[p_], reset=False)

        def mask(b):
            return re.sub(rb"(Last-Modified|Mod-Date):[^\r\n]*", b"T", b or b"")
        for d in dirs:
            alone = {}
            for v in views:
                drop_cache(d)
                alone[v] = mask(req(v, d).out)
            drop_cache(d)
            size = len(real_pickle.dumps(("x", []), 1))
            # learn the size of this directory's cache file
            req(views[0], d)
            try:
                size = os.path.getsize(tree.path((d if d != "/" else "") + "/" + cachefile))
            except OSError:
                pass
            cuts = sorted({0, 1, size // 2, max(size - 1, 0)} | ({ctx.rng.randrange(size)} if size else set()))
            for k in cuts:
                va, vb, vc = ctx.rng.choice(views), ctx.rng.choice(views), ctx.rng.choice(views)
                drop_cache(d)
                state = {"fired": False, "b": None}

                class Shim:
                    load = staticmethod(real_pickle.load)
                    loads = staticmethod(real_pickle.loads)
                    dumps = staticmethod(real_pickle.dumps)
                    UnpicklingError = real_pickle.UnpicklingError
                    PickleError = real_pickle.PickleError
                    PicklingError = real_pickle.PicklingError
                    HIGHEST_PROTOCOL = real_pickle.HIGHEST_PROTOCOL

                    @staticmethod
                    def dump(obj, fp, *a, **kw):
                        data = real_pickle.dumps(obj, *a, **kw)
                        if state["fired"]:
                            fp.write(data)
                            return
                        state["fired"] = True
                        fp.write(data[:k])
                        fp.flush()
                        state["b"] = req(vb, d)       # the racing reader, start to finish
                        fp.write(data[k:])
                orig = dirmod.pickle
                dirmod.pickle = Shim
                try:
                    ra = req(va, d)
                finally:
                    dirmod.pickle = orig
                rc = req(vc, d)
                res.evaluations += 3
                res.count("forced:" + ("fired" if state["fired"] else "writer-did-not-run"))
                if not state["fired"]:
                    continue
                res.nontrivial.add(("forced", d, k, va, vb, vc))
                for who, v, r in (("writer A", va, ra), ("reader B racing the half-written cache file", vb, state["b"]), ("later client C", vc, rc)):
                    if r is None or r.exc is not None or mask(r.out) != alone[v]:
                        res.violation("C14:forced-interleaving:" + who.split()[0], "a client racing a cache rewrite does not get the response it would get alone",
                                      {"directory": d, "bytes_written_when_B_runs": k, "cache_file_size": size, "who": who, "view": v},
                                      observed={"out": (r.out[:200] if r is not None and r.out is not None else None), "exc": repr(getattr(r, "exc", None))},
                                      required=alone[v][:200], replay={"forced": True, "directory": d, "k": k, "views": [va, vb, vc]})
    finally:
        tree.close()
        pyg.reset_globals()


def lazy_functions():
    """(absolute file name, function name) of every function in pygopherd/ that declares a module-level name `global`"""
    out = set()
    for path in glob.glob(os.path.join(pyg.REPO, "pygopherd", "**", "*.py"), recursive=True):
        try:
            t = ast.parse(open(path).read())
        except SyntaxError:
            continue
        for fn in ast.walk(t):
            if isinstance(fn, (ast.FunctionDef, ast.AsyncFunctionDef)) and any(isinstance(n, ast.Global) for n in ast.walk(fn)):
                out.add((os.path.realpath(path), fn.name))
    return out


def forced_lazy_interleavings(ctx, res):
    """The module lazies' interleavings (Model/Conc: `if unset: X = f(config)` in two threads), forced on the real code: a cold
    request A is pre-empted at the k-th executed line inside the functions that initialise module-level state, request B runs to
    completion there (as another thread of the threading server would), then A goes on.  For every k: A and B each get the
    response they get alone."""
    lazy = lazy_functions()
    res.extra["lazy_functions"] = sorted(f"{os.path.relpath(a, pyg.REPO)}:{b}" for a, b in lazy)
    tree = pyg.Tree()
    try:
        trees.standard(tree, hostile_content=False)
        tree.write("pics/photo.jpg", b"\xff\xd8\xff")
        tree.write("pics/song.mp3", b"ID3")
        tree.write("pics/archive.hqx", b"x")
        tree.write("pics/prog.bin", b"\0\1")
        cfg = pyg.make_config(tree.root, **{"handlers.dir.DirHandler|cachetime": "0"})
        pairs = [(reqs.build("http", "/pics"), reqs.build("gopher", "/pics")), (reqs.build("gopher", "/"), reqs.build("gopherp", "/pics/img.gif", gplus="!")),
                 (reqs.build("gopherp", "/docs", gplus="$"), reqs.build("http", "/")), (reqs.build("gopher", "/pics/photo.jpg"), reqs.build("gopherp", "/pics", gplus="$"))]

        def mask(b):
            return re.sub(rb"(Last-Modified|Mod-Date):[^\r\n]*", b"T", b or b"")
        for pa, pb in pairs:
            alone = {}
            for rq in (pa, pb):
                pyg.reset_globals()
                alone[rq] = mask(pyg.request(rq, cfg, reset=False).out)

            def run_at(k):
                state = {"n": 0, "b": None, "fired": False}

                def local(frame, event, arg):
                    if event == "line":
                        state["n"] += 1
                        if state["n"] == k and not state["fired"]:
                            state["fired"] = True
                            sys.settrace(None)
                            try:
                                state["b"] = pyg.request(pb, cfg, reset=False)
                            finally:
                                sys.settrace(tracer)
                    return local

                first_calls = set()

                def tracer(frame, event, arg):
                    # the first two invocations of each initialising function: the cold one, and the first that finds the state set
                    key = (os.path.realpath(frame.f_code.co_filename), frame.f_code.co_name)
                    if event == "call" and key in lazy:
                        n_ = sum(1 for x in first_calls if x[0] == key)
                        if n_ < 2:
                            first_calls.add((key, n_))
                            return local
                    return None
                pyg.reset_globals()
                sys.settrace(tracer)
                try:
                    ra = pyg.request(pa, cfg, reset=False)
                finally:
                    sys.settrace(None)
                return ra, state
            _ra, st0 = run_at(-1)
            total = st0["n"]
            res.count("lazy-preemption-points", total)
            ks = list(range(1, total + 1))
            cap = ctx.n(60, 600)
            if len(ks) > cap:
                ks = sorted(ctx.rng.sample(ks, cap))
            for k in ks:
                ra, st_ = run_at(k)
                res.evaluations += 2
                if not st_["fired"]:
                    continue
                res.nontrivial.add(("lazy", pa, pb, k))
                for who, rq, r in (("A (pre-empted while initialising shared state)", pa, ra), ("B (served in between)", pb, st_["b"])):
                    if r is None or r.exc is not None or mask(r.out) != alone[rq]:
                        res.violation("C14:lazy-interleaving:" + who[:1], "a client served while another thread is initialising shared state does not get the response it gets alone",
                                      {"preempted_at_line_event": k, "of": total, "who": who, "request": rq[:80], "other_request": (pb if rq is pa else pa)[:80]},
                                      observed={"out": (r.out[:200] if r is not None and r.out is not None else None), "exc": repr(getattr(r, "exc", None))},
                                      required=alone[rq][:200], replay={"lazy": True, "k": k, "a": pa.decode("latin-1"), "b": pb.decode("latin-1")})
    finally:
        sys.settrace(None)
        tree.close()
        pyg.reset_globals()


def run(ctx):
    res = Result()
    res.rule = ("forced interleavings of the shared cache file (reader runs while the writer has written k bytes, k in {0, 1, half, all but "
                "one, seeded}) on 3 directories x seeded protocol views, in-process; bursts of N in {16, 48} (thorough: up to 96) simultaneous real clients with seeded request mixes over 12 request forms "
                "(6 protocols, plaintext and TLS) against the real threading and forking servers, cold start included, cache enabled; "
                "non-trivial = concurrent requests whose sequential response is a success, distinct by (server type, burst, index)")
    res.assumptions = ["real thread/process schedules, the GIL and the accept queue are sampled, not enumerated",
                       "the Lean theorems cover the two shared-state mechanisms (module lazies, shared cache file) over all interleavings of their atomic steps",
                       "HolesFail: a damaged copy of a pickle (zero holes / truncation) does not unpickle — validated for truncation by C11"]
    found, problems = scan_globals()
    res.extra["shared_globals_found"] = sorted(f"{a}:{b}" for a, b in found)
    unknown = found - KNOWN_LAZIES - STARTUP_GLOBALS
    for u in sorted(unknown):
        res.disagree("C14.shared-state-vocabulary", {"global": u}, "not in the model (known lazies: %d)" % len(KNOWN_LAZIES), "assigned inside a function")
    for pr in problems:
        res.disagree("C14.lazy-shape", pr, "if unset: X = f(config)", "different shape")
    forced_interleavings(ctx, res)
    forced_lazy_interleavings(ctx, res)
    tree = pyg.Tree()
    try:
        shutil.rmtree(tree.root)
        shutil.copytree(os.path.join(pyg.REPO, "testdata"), tree.root, symlinks=True, ignore=shutil.ignore_patterns(".cache*"))
        # a directory no burst touches: its listing through one protocol before and after it has been listed through another
        tree.write("c14only/sub/x.txt", b"x\n")
        tree.write("c14only/doc.txt", b"d\n")
        tree.mkdir("c14only/sub2")
        from pygopherd import initialization, logger
        cctx = ssl.create_default_context()
        cctx.check_hostname = False
        cctx.verify_mode = ssl.CERT_NONE
        forms = [(b"/\r\n", 0), (b"/\t$\r\n", 0), (b"GET / HTTP/1.0\r\n\r\n", 0), (b"GET /wap/ HTTP/1.0\r\n\r\n", 0), (b"gemini://localhost/\r\n", 1),
                 (b"localhost / 0\r\n", 0), (b"/testfile.txt\r\n", 1), (b"/python-dev.mbox\r\n", 0), (b"GET /gopherplus HTTP/1.0\r\n\r\n", 1),
                 (b"/gopherplus\t$\r\n", 0), (b"/bucktooth\r\n", 0), (b"/nope\r\n", 0), (b"/testfile.txt\t+\r\n", 0), (b"localhost /testfile.txt 0\r\n", 0),
                 # a WAP handset (recognised by its headers) next to browsers that send other headers or none: what one
                 # connection's header block says is that connection's alone
                 (b"GET /testfile.txt HTTP/1.0\r\nAccept: text/html, text/vnd.wap.wml\r\nX-Wap-Profile: http://wap.example/p.xml\r\n\r\n", 0),
                 (b"GET /testfile.txt HTTP/1.0\r\nUser-Agent: plain browser\r\n\r\n", 0), (b"GET /gopherplus HTTP/1.0\r\nHost: localhost\r\n\r\n", 0)]
        for stype in ("ThreadingTCPServer", "ForkingTCPServer"):
            pyg.reset_globals()
            for dp, dn, fn in os.walk(tree.root):
                for f in fn:
                    if f.startswith(".cache"):
                        os.unlink(os.path.join(dp, f))
            cfg = pyg.make_config(tree.root, **{"pygopherd|servertype": stype, "pygopherd|port": "0", "pygopherd|interface": "127.0.0.1",
                                                "pygopherd|servername": "localhost", "pygopherd|timeout": "5",
                                                "pygopherd|enable_tls": "yes", "pygopherd|tls_certfile": os.path.join(pyg.REPO, "testdata", "demo.crt"),
                                                "pygopherd|tls_keyfile": os.path.join(pyg.REPO, "testdata", "demo.key")})
            cfg.set("logger", "logmethod", "none")
            confpath = os.path.join(tree.tmp, "server-%s.conf" % stype)
            with open(confpath, "w") as fh:
                cfg.write(fh)
            proc = subprocess.Popen([sys.executable, "-B", os.path.join(os.path.dirname(os.path.dirname(os.path.abspath(__file__))), "realserver.py"), pyg.REPO, confpath],
                                    stdout=subprocess.PIPE, stderr=subprocess.PIPE, start_new_session=True)
            line = proc.stdout.readline()
            if not line.strip().isdigit():
                raise RuntimeError("real server did not start: " + proc.stderr.read().decode(errors="replace")[-400:])
            port = int(line)
            try:
                def mask(b):
                    b = re.sub(rb"(Last-Modified|Mod-Date):[^\r\n]*", b"T", b)
                    return b.replace(str(port).encode(), b"PORT")
                bursts = [16, 48] if not (ctx.thorough or ctx.deepen) else [16, 48, 96, 64]
                allres = []
                for bi, N in enumerate(bursts):
                    picks = [ctx.rng.randrange(len(forms)) for _ in range(N)]
                    results = [None] * N
                    errs = [None] * N

                    def worker(i):
                        try:
                            results[i] = mask(ask(port, forms[picks[i]][0], forms[picks[i]][1], cctx))
                        except Exception as e:  # noqa
                            errs[i] = repr(e)
                    ths = [threading.Thread(target=worker, args=(i,)) for i in range(N)]
                    for x in ths:
                        x.start()
                    for x in ths:
                        x.join(90)
                    # a client that ran into its own 30 s timeout while the machine was busy (listen backlog of 5, up to 96 connects
                    # at once, other jobs on the cores) is asked again, alone: a server that answers now was slow, not dead
                    for i in range(N):
                        if errs[i] is not None and "imed out" in errs[i]:
                            try:
                                results[i] = mask(ask(port, forms[picks[i]][0], forms[picks[i]][1], cctx, timeout=60))
                                errs[i] = None
                                res.count(f"{stype}:slow-under-load-answered-on-retry")
                            except Exception as e:  # noqa
                                errs[i] = repr(e)
                    allres.append((N, picks, results, errs))
                # sequential baseline afterwards (warm), which is what "alone" means for a read-only site
                seq = [mask(ask(port, f[0], f[1], cctx)) for f in forms]
                for bi, (N, picks, results, errs) in enumerate(allres):
                    for i in range(N):
                        res.evaluations += 1
                        inp = {"server": stype, "burst": N, "index": i, "request": forms[picks[i]][0], "tls": bool(forms[picks[i]][1])}
                        rp = {"server": stype, "burst": N}
                        if seq[picks[i]] and not seq[picks[i]].startswith((b"3", b"--")):
                            res.nontrivial.add((stype, bi, i))
                        if errs[i] is not None or results[i] is None:
                            res.violation("C14:client-error:" + stype, "a concurrent client got no response", inp, observed=errs[i], required="a response", replay=rp)
                        elif results[i] != seq[picks[i]]:
                            res.violation("C14:response-differs:" + stype, "a concurrent response differs from the response the client would get alone", inp,
                                          observed=results[i][:200], required=seq[picks[i]][:200], replay=rp)
                        res.count(f"{stype}:{'same' if results[i] == seq[picks[i]] else 'DIFF'}")
                # ---- one directory, one cache entry, several protocols one after the other: what a protocol does to the entries it
                # renders stays with that request (the later ones are served from the cache file the first one wrote)
                seq_ = [b"GET /c14only HTTP/1.0\r\n\r\n", b"/c14only\t$\r\n", b"GET /c14only HTTP/1.0\r\n\r\n", b"/c14only\t+\r\n", b"/c14only\r\n",
                        b"GET /c14only HTTP/1.0\r\n\r\n", b"/c14only\t$\r\n"]
                outs_ = [mask(ask(port, rq_, 0, cctx)) for rq_ in seq_]
                for a_, b_ in ((0, 2), (0, 5), (1, 6)):
                    res.evaluations += 1
                    res.nontrivial.add((stype, "one-cache-entry", a_, b_))
                    if outs_[a_] != outs_[b_]:
                        res.violation("C14:response-differs:" + stype, "a listing differs after the same directory was listed through another protocol",
                                      {"server": stype, "scenario": "one directory through several protocols", "request": seq_[b_], "after": [x.decode("latin-1") for x in seq_[:b_]]},
                                      observed=outs_[b_][:300], required=outs_[a_][:300], replay={"server": stype, "burst": 0})
                # ---- a handset's header block is its own: browsers served after it (no Accept line of their own) get HTML ------
                ask(port, forms[-3][0], 0, cctx)
                for rq_ in (forms[-2][0], b"GET / HTTP/1.0\r\n\r\n", forms[-1][0]):
                    out_ = ask(port, rq_, 0, cctx)
                    res.evaluations += 1
                    res.nontrivial.add((stype, "after-handset", rq_))
                    if b"text/vnd.wap.wml" in out_.split(b"\r\n\r\n")[0] or b"<wml>" in out_[:400]:
                        res.violation("C14:response-differs:" + stype, "a client without WAP headers is answered as the WAP handset served before it",
                                      {"server": stype, "scenario": "after a request with WAP headers", "request": rq_}, observed=out_[:160],
                                      required="the HTTP answer (HTML / the document's own type)", replay={"server": stype, "burst": 0})
                # ---- clients that misbehave: the others are served as if alone, the server keeps accepting -----------------
                # (a) clients that connect and stay silent while others are served
                silent = [socket.create_connection(("127.0.0.1", port), timeout=10) for _ in range(3)]
                t_silent = time.time()
                try:
                    time.sleep(0.2)
                    M = 8
                    picks2 = [ctx.rng.randrange(len(forms)) for _ in range(M)]
                    got = [None] * M

                    def worker2(i):
                        try:
                            got[i] = mask(ask(port, forms[picks2[i]][0], forms[picks2[i]][1], cctx, timeout=12))
                        except Exception as e:  # noqa
                            got[i] = e
                    ths = [threading.Thread(target=worker2, args=(i,)) for i in range(M)]
                    for x in ths:
                        x.start()
                    for x in ths:
                        x.join(30)
                    for i in range(M):
                        res.evaluations += 1
                        res.nontrivial.add((stype, "beside-silent", i))
                        inp = {"server": stype, "scenario": "3 connected clients stay silent", "request": forms[picks2[i]][0], "tls": bool(forms[picks2[i]][1])}
                        if not isinstance(got[i], bytes):
                            res.violation("C14:blocked-by-silent-client:" + stype, "a client was not served while another connected client stayed silent", inp,
                                          observed=repr(got[i]), required="a response within 12 s", replay={"server": stype, "scenario": "silent"})
                        elif got[i] != seq[picks2[i]]:
                            res.violation("C14:response-differs:" + stype, "a response differs from the response the client would get alone", inp,
                                          observed=got[i][:200], required=seq[picks2[i]][:200], replay={"server": stype, "scenario": "silent"})
                        res.count(f"{stype}:beside-silent:{'same' if got[i] == seq[picks2[i]] else 'DIFF'}")
                    # ... and the silent ones are cut off once the configured timeout (5 s here) has passed: their workers end
                    t_end = t_silent + 5 + 4
                    still_open = 0
                    for x in silent:
                        x.settimeout(max(0.2, t_end - time.time()))
                        try:
                            if x.recv(16) != b"":
                                pass
                        except socket.timeout:
                            still_open += 1
                        except OSError:
                            pass
                    res.evaluations += 1
                    res.count(f"{stype}:silent-cut-off:{3 - still_open}/3")
                    if still_open:
                        res.violation("C14:silent-client-not-cut-off:" + stype, "a client that stays silent keeps its worker beyond the configured timeout",
                                      {"server": stype, "configured_timeout_s": 5, "silent_clients": 3}, observed=f"{still_open} connection(s) still open after 9 s",
                                      required="closed by the server after 5 s", replay={"server": stype, "scenario": "silent-timeout"})
                finally:
                    for x in silent:
                        x.close()
                # (b) TLS handshakes that fail: garbage after the 0x16 byte, a disconnect in mid-handshake, a verifying client that
                #     rejects the self-signed certificate
                strict = ssl.create_default_context()
                for k in range(6):
                    try:
                        c = socket.create_connection(("127.0.0.1", port), timeout=5)
                        if k % 3 == 0:
                            c.sendall(b"\x16\x03\x01\x00\x05garbage-that-is-no-client-hello")
                            try:
                                c.recv(100)
                            except OSError:
                                pass
                        elif k % 3 == 1:
                            c.sendall(b"\x16\x03\x01")
                        else:
                            try:
                                strict.wrap_socket(c, server_hostname="localhost")
                            except (ssl.SSLError, OSError):
                                pass
                        c.close()
                    except OSError:
                        pass
                    res.count(f"{stype}:failed-handshake")
                time.sleep(0.3)
                for f in (forms[0], forms[4]):
                    res.evaluations += 1
                    try:
                        a2 = mask(ask(port, f[0], f[1], cctx, timeout=12))
                    except Exception as e:  # noqa
                        a2 = e
                    if a2 != mask(seq[forms.index(f)]):
                        res.violation("C14:after-failed-handshake:" + stype, "after failed TLS handshakes a client is not served as if alone",
                                      {"server": stype, "request": f[0]}, observed=repr(a2)[:200], required=seq[forms.index(f)][:200],
                                      replay={"server": stype, "scenario": "failed-handshake"})
                # still accepting
                alive = ask(port, b"/testfile.txt\r\n", 0, cctx)
                res.evaluations += 1
                if not alive:
                    res.violation("C14:not-accepting:" + stype, "the server stopped answering after a burst", {"server": stype}, observed=alive, required="response", replay={"server": stype, "burst": 0})
                # finished workers are reaped (after a few poll intervals)
                if stype == "ForkingTCPServer":
                    deadline = time.time() + 10
                    left = None
                    while time.time() < deadline:
                        ask(port, b"/nope\r\n", 0, cctx)       # each accept loop iteration reaps
                        time.sleep(0.15)
                        left = len(children(proc.pid))
                        if left <= 1:
                            break
                    res.extra["forking_children_left"] = left
                    if left is not None and left > 1:
                        res.violation("C14:zombies", "finished worker processes are not reaped", {"server": stype}, observed=left, required="<= 1 (the last request's child)",
                                      replay={"server": stype, "burst": 0})
                else:
                    time.sleep(0.3)
                    res.extra["server_threads_alive"] = int(re.search(r"Threads:\s*(\d+)", open("/proc/%d/status" % proc.pid).read()).group(1))
                if proc.poll() is not None:
                    res.violation("C14:server-died:" + stype, "the server process exited", {"server": stype}, observed=proc.returncode, required="still serving", replay={"server": stype, "burst": 0})
            finally:
                try:
                    os.killpg(proc.pid, signal.SIGKILL)
                except ProcessLookupError:
                    pass
                proc.wait(10)
                proc.stdout.close()
                proc.stderr.close()
        res.sample({"server": "ThreadingTCPServer", "burst": 48, "forms": len(forms)})
        res.sample({"shared_state": sorted(f"{a}:{b}" for a, b in found)})
    finally:
        tree.close()
        pyg.reset_globals()
    res.degraded = list(pyg.degraded)
    return res


def replay(data):
    print(data["violation"]["replay"])
    return 0
