"""C08 — UMN link files, .cap overrides and abstracts have their documented effect.

Correspondence: real UMN listings (Gopher menu and Gopher+ '$' view, three extstrip modes) of
directories with generated link files / .cap files / sidecar abstracts vs Model/Umn.
Oracle: an independent reference reader of the documented UMN semantics (blocks, ./ merge,
Type=X, Host=+/Port=+, Numb ordering, .abstract sidecars).
"""
import os
import re

import dirmodel
import pyg
import reqs
from leanio import dec_str
from main import Result
from props.c05 import parse_gopher

SRV = ("srv.example", 7070)
FILES = ["apple.txt", "banana.txt", "cherry", "date.html", "elder.tar.gz", "fig.txt", "grape"]


def gen_block(rng, files, used_names):
    """-> (text, spec) ; spec = dict of what the block means"""
    kind = rng.choice(["new", "new", "merge", "merge", "hide", "rel"])
    keys = {}
    nm = rng.choice(["Zebra", "Alpha", "Mango", "Kiwi", "Lemon", "Olive", "Peach", "Quince", "Rhubarb", "Tomato", "Ugli", "Vanilla"]) + str(rng.randrange(100))
    while nm in used_names:
        nm += "x"
    used_names.add(nm)
    if kind == "new":
        if rng.random() < 0.9:
            keys["Name"] = nm        # (any subset of the lines is a block: one without Name= cannot be listed and adds nothing)
        keys["Type"] = rng.choice("0179gI")
        keys["Path"] = rng.choice(["/elsewhere", "/a/b c", "/", "URL:http://example.org/"]) + ("" if rng.random() < 0.7 else "/")
        if rng.random() < 0.6:
            keys["Host"] = rng.choice(["+", "example.org", "gopher.floodgap.com"])
            keys["Port"] = rng.choice(["+", "70", "7071"])
    elif kind == "rel":
        keys["Name"] = nm
        keys["Type"] = "0"
        keys["Path"] = rng.choice(["sub/thing", "x/../y", "plain"])
        if rng.random() < 0.4:
            # "this server", said explicitly: the relative path is still anchored to the directory
            if rng.random() < 0.7:
                keys["Host"] = "+"
            if rng.random() < 0.7:
                keys["Port"] = "+"
    elif kind == "merge":
        keys["Path"] = "./" + rng.choice(files)
        if rng.random() < 0.8:
            keys["Name"] = nm
        if rng.random() < 0.3:
            keys["Type"] = rng.choice("09")
    else:
        # hide a file; sometimes one that is not (or no longer) there: nothing to hide, nothing else changes
        keys["Path"] = "./" + (rng.choice(files) if rng.random() < 0.8 else rng.choice(["gone.txt", "backup~", "removed last week.txt"]))
        keys["Type"] = rng.choice(["X", "X", "-"])
    if rng.random() < 0.5 and kind != "hide":
        keys["Numb"] = str(rng.choice([1, 2, 3, 5, 10, -1, -2, -7, 0]))
    if rng.random() < 0.3 and kind != "hide":
        keys["Abstract"] = rng.choice(["one line abstract", "first \\\n  second line \\\nthird", "x"])
    order = list(keys)
    rng.shuffle(order)
    lines = []
    if rng.random() < 0.3:
        lines.append("# a comment line")
    for k in order:
        lines.append(f"{k}={keys[k]}")
    if rng.random() < 0.2:
        lines.insert(rng.randrange(len(lines) + 1), "Admin=Someone <a@b>")
    return "\n".join(lines) + "\n", keys


def reference(dirsel, present_files, blocks, caps, names_display, abstracts):
    """Documented effect -> ordered list of (type, name, selector, host, port).
    names_display: file -> (type, display name) as the plain handler would list it."""
    entries = {}
    order = []
    for f in sorted(present_files):
        t, disp = names_display[f]
        entries[f] = {"type": t, "name": disp, "sel": dirsel + "/" + f, "host": SRV[0], "port": SRV[1], "num": 0, "file": f}
        order.append(f)
    hidden = set()
    for f, keys in caps.items():
        if f not in entries:
            continue
        if keys.get("Type") in ("X", "-"):
            hidden.add(f)
            continue
        apply(entries[f], keys)
    new = []
    for keys in blocks:
        p = keys["Path"]
        if p.startswith("./") or p.startswith("~/"):
            f = p[2:]
            if f in entries and f not in hidden:
                if keys.get("Type") in ("X", "-"):
                    hidden.add(f)
                else:
                    apply(entries[f], keys)
            elif f not in entries and (keys.get("Type") in ("X", "-") or "Name" not in keys):
                pass        # a hide block for a file that is not listed hides nothing; a block without a name adds nothing
            elif f not in entries:
                e = {"type": None, "name": None, "sel": dirsel + "/" + f, "host": SRV[0], "port": SRV[1], "num": 0}
                apply(e, keys)
                new.append(e)
        elif "Name" not in keys:
            pass            # nothing to list
        else:
            sel = p[:-1] if p.endswith("/") and len(p) > 0 else p
            e = {"type": None, "name": None, "sel": sel, "host": SRV[0], "port": SRV[1], "num": 0}
            apply(e, keys)
            # 'Path=/' is the root menu: its selector is the empty string
            if sel and not sel.startswith("/") and not sel.startswith("URL:") and e["host"] == SRV[0] and e["port"] == SRV[1]:
                e["sel"] = os.path.normpath(dirsel + "/" + sel)
            new.append(e)
    allents = [entries[f] for f in order if f not in hidden] + new
    pos = sorted([e for e in allents if e["num"] > 0], key=lambda e: (e["num"], e["name"] or ""))
    zero = sorted([e for e in allents if e["num"] == 0], key=lambda e: e["name"] or "")
    neg = sorted([e for e in allents if e["num"] < 0], key=lambda e: (e["num"], e["name"] or ""))
    return [(e["type"] or "0", e["name"], e["sel"], e["host"], e["port"]) for e in pos + zero + neg]


def apply(e, keys):
    if "Name" in keys:
        e["name"] = keys["Name"]
    if "Type" in keys:
        e["type"] = keys["Type"][0]
    if "Host" in keys and keys["Host"] != "+":
        e["host"] = keys["Host"]
    if "Port" in keys and keys["Port"] != "+":
        e["port"] = int(keys["Port"])
    if "Numb" in keys:
        e["num"] = int(keys["Numb"])


def trailing_slash_blocks(res, keyprefix="C08"):
    """'./' blocks whose Path ends in a slash (as one writes a directory): they are blocks for that directory entry."""
    tree = pyg.Tree()
    try:
        for d_ in ("private", "docs", "open"):
            tree.write("menu/%s/inner.txt" % d_, b"i\n")
        tree.write("menu/plain.txt", b"p\n")
        tree.write("menu/.names", "Path=./private/\nType=X\n\nPath=./docs/\nName=Documents, renamed\nNumb=1\n\nPath=~/open/\nName=Open house\n")
        cfg = pyg.make_config(tree.root, **{"handlers.dir.DirHandler|cachetime": "0"})
        r = pyg.request(reqs.build("gopher", "/menu"), cfg)
        ents = [(e[1], e[2]) for e in parse_gopher(r.out) if e[0] != "i"]
        res.evaluations += 1
        res.nontrivial.add(("trailing-slash-blocks",))
        want = [("Documents, renamed", "/menu/docs"), ("Open house", "/menu/open"), ("plain", "/menu/plain.txt")]
        if ents != want:
            res.violation(keyprefix + ":trailing-slash-block", "a './' block whose Path ends in a slash does not act on that directory's entry",
                          {"link_file": "Path=./private/ Type=X; Path=./docs/ Name=...; Path=~/open/ Name=..."}, observed=ents, required=want,
                          replay={"trailing_slash_blocks": True})
    finally:
        tree.close()


def big_link_file(res, keyprefix="C08"):
    """A link file of several hundred blocks (beyond any 20 KiB read-ahead): every block has its effect, the last ones too."""
    tree = pyg.Tree()
    try:
        n = 300
        blocks = []
        for i in range(n):
            tree.write("lib/doc%03d.txt" % i, b"x\n")
            blocks.append("Path=./doc%03d.txt\nName=Document number %03d of the collection, with a descriptive title\nNumb=%d\n" % (i, i, n - i))
        for nm in ("draft-a.txt", "draft-b.txt", "zz-last-draft.txt"):
            tree.write("lib/" + nm, b"draft\n")
            blocks.append("Path=./%s\nType=X\n" % nm)
        blocks.append("Name=Link added by the very last block\nType=1\nPath=/elsewhere\nHost=example.org\nPort=70\n")
        text = "\n".join(blocks)
        tree.write("lib/.names", text)
        cfg = pyg.make_config(tree.root, **{"handlers.dir.DirHandler|cachetime": "0"})
        r = pyg.request(reqs.build("gopher", "/lib"), cfg)
        ents = [e for e in parse_gopher(r.out) if e[0] != "i"]
        res.evaluations += 1
        res.nontrivial.add(("big-link-file", len(text)))
        names = [e[1] for e in ents]
        want = ["Document number %03d of the collection, with a descriptive title" % i for i in range(n - 1, -1, -1)] + ["Link added by the very last block"]
        if names != want:
            k = next((i for i, (a, b) in enumerate(zip(names, want)) if a != b), min(len(names), len(want)))
            res.violation(keyprefix + ":big-link-file", "blocks late in a large link file do not have their documented effect",
                          {"link_file_bytes": len(text), "blocks": len(blocks)}, observed={"entries": len(names), "first_difference": names[k:k + 3]},
                          required={"entries": len(want), "there": want[k:k + 3]}, replay={"big_link_file": True})
    finally:
        tree.close()


def run(ctx):
    res = Result()
    res.rule = ("directories with 0-5 link blocks (every subset and order of Name/Type/Path/Host/Port/Numb/Abstract, comments, continuation "
                "abstracts, new / relative / ./ merge / Type=X blocks), .cap files, sidecar abstracts, three extstrip modes; Gopher and '$' views. "
                "non-trivial = directory with >= 2 blocks including >= 1 merge and >= 1 new entry, distinct by content")
    res.assumptions = ["well-formed link files: blocks separated by blank lines, comments before the first key, known keys, numeric Port/Numb, "
                       "a block that adds an entry has Name= and Path=; ties on (number, title) are avoided (the property excludes them)"]
    rng = ctx.rng
    model_lines, checks = [], []
    for mode in ("nonencoded", "full", "none"):
        tree = pyg.Tree()
        try:
            cfg = pyg.make_config(tree.root, **{"handlers.dir.DirHandler|cachetime": "0", "handlers.UMN.UMNDirHandler|extstrip": mode})
            cfg_plain = pyg.make_config(tree.root, pyg.DIR_HANDLERS, **{"handlers.dir.DirHandler|cachetime": "0"})
            nd = ctx.n(25, 300)
            for i in range(nd):
                d = "/u%d" % i
                present = rng.sample(FILES, rng.randint(2, 6))
                if i == 1:
                    # no link file, no .cap file: the order is still by title, and the titles are the stripped names
                    # ("notes" sorts after "notes 2" and "notes-old", though "notes.txt" sorts before "notes-old.txt" ...)
                    present = ["notes.txt", "notes-old.txt", "notes 2.txt", "report.txt", "report.final.txt", "alpha.txt", "zeta.txt", "Zeta2.txt"]
                for f in present:
                    tree.write(d + "/" + f, b"<html><head><title>Date  page</title></head></html>" if f.endswith("html") else b"x\n")
                used = set()
                blocks = []
                text = ""
                nb = rng.randint(0, 5) if i != 1 else 0
                targets = set()
                hidden_targets = set()
                for bi in range(nb):
                    t, keys = gen_block(rng, present, used)
                    if i % 5 == 0 and bi == nb - 1 and hidden_targets:
                        # a second block for a file an earlier block hides (another link file, a leftover): it stays hidden
                        p0 = sorted(hidden_targets)[0]
                        t, keys = (f"Path={p0}\nType=X\n", {"Path": p0, "Type": "X"}) if rng.random() < 0.6 else (f"Path={p0}\nName=Late name\n", {"Path": p0, "Name": "Late name"})
                    if keys["Path"].startswith("./"):
                        if keys["Path"] in targets and keys["Path"] not in hidden_targets:
                            continue   # two overriding blocks for one file: order of application is a tie-break the property leaves open
                        targets.add(keys["Path"])
                        if keys.get("Type") in ("X", "-"):
                            hidden_targets.add(keys["Path"])
                    blocks.append(keys)
                    text += t + rng.choice(["\n", "\n\n", "\n# between blocks\n\n" if False else "\n"])
                lf_name = rng.choice([".Links", ".names"])
                if blocks:
                    tree.write(d + "/" + lf_name, text)
                caps = {}
                if i % 7 == 3:
                    # a .cap file numbers a file, a later ./ block sets it back to unnumbered (Numb=0) or clears nothing else:
                    # the .cap file is applied first, link blocks afterwards, each overriding exactly the fields it sets
                    f0 = present[0]
                    if ("./" + f0) not in targets:
                        k0 = {"Path": "./" + f0, "Numb": "0"}
                        blocks.append(k0)
                        text += "Path=./%s\nNumb=0\n\n" % f0
                        targets.add("./" + f0)
                        caps[f0] = {"Numb": str(rng.choice([1, 4, 7])), "Name": "Cap numbered " + f0}
                        tree.write(d + "/.cap/" + f0, "".join(f"{k}={v}\n" for k, v in caps[f0].items()))
                        tree.write(d + "/" + lf_name, text)
                if i % 7 == 5:
                    # a .cap file numbers (and names) a file, a later ./ block only renames it: the number stays
                    f0 = present[0]
                    if ("./" + f0) not in targets:
                        k0 = {"Path": "./" + f0, "Name": "Renamed later " + f0}
                        blocks.append(k0)
                        text += "Path=./%s\nName=Renamed later %s\n\n" % (f0, f0)
                        targets.add("./" + f0)
                        caps[f0] = {"Numb": str(rng.choice([1, 4, 7]))}
                        if rng.random() < 0.5:
                            caps[f0]["Name"] = "Cap name " + f0
                        tree.write(d + "/.cap/" + f0, "".join(f"{k}={v}\n" for k, v in caps[f0].items()))
                        tree.write(d + "/" + lf_name, text)
                for f in present:
                    if i != 1 and rng.random() < 0.25 and ("./" + f) not in targets:
                        keys = {}
                        if rng.random() < 0.7:
                            nm = "Cap " + f + str(rng.randrange(50))
                            keys["Name"] = nm
                        if rng.random() < 0.4:
                            keys["Numb"] = str(rng.choice([1, 4, -3, 7]))
                        if rng.random() < 0.15:
                            keys["Type"] = rng.choice(["X", "-"])
                        if not keys:
                            keys["Name"] = "Cap only " + f
                        caps[f] = keys
                        tree.write(d + "/.cap/" + f, "".join(f"{k}={v}\n" for k, v in keys.items()))
                abstracts = {}
                for f in present:
                    if i != 1 and rng.random() < 0.2:
                        abstracts[f] = "Sidecar abstract of " + f + "\nline two"
                        tree.write(d + "/" + f + ".abstract", abstracts[f] + "\n")
                    elif rng.random() < 0.12:
                        # a side file that exists but cannot be read as a file (a directory of that name): the file is listed without it
                        tree.mkdir(d + "/" + f + ".abstract")
                        tree.write(d + "/" + f + ".abstract/x", b"x\n")
                if i % 4 == 2:
                    # side files that are symbolic links to regular files kept elsewhere in the tree (a shared link file,
                    # generated abstracts): they are read like the files they point to
                    k_ = 0
                    for rel in [d + "/" + lf_name] + [d + "/.cap/" + f for f in caps] + [d + "/" + f + ".abstract" for f in abstracts]:
                        p_ = tree.path(rel)
                        if os.path.isfile(p_) and not os.path.islink(p_):
                            store = tree.path("/_store%d/side%d" % (i, k_))
                            k_ += 1
                            os.makedirs(os.path.dirname(store), exist_ok=True)
                            os.rename(p_, store)
                            os.symlink(os.path.relpath(store, os.path.dirname(p_)), p_)
                # what the plain handler shows for each file (type, name) = the un-overridden entry
                rp0 = pyg.request(reqs.build("gopher", d), cfg_plain)
                plain = {e[2].split("/")[-1]: (e[0], e[1]) for e in parse_gopher(rp0.out) if e[0] != "i"}
                import pygopherd.fileext
                import mimetypes
                disp = {}
                for f in present:
                    t, n = plain.get(f, ("0", f))
                    gm, ge = mimetypes.guess_type(f, strict=False)
                    stripname = n
                    if mode != "none" and (mode == "full" or not ge) and not f.endswith(".html"):
                        stripname = pygopherd.fileext.extstrip(f, (gm or "application/octet-stream") if ge else (gm or "text/plain"))
                    elif mode != "none" and f.endswith(".html") and (mode == "full" or not ge):
                        stripname = pygopherd.fileext.extstrip(f, "text/html")
                    disp[f] = (t, stripname)
                r = pyg.request(reqs.build("gopher", d), cfg)
                res.evaluations += 1
                inp = {"dir": d, "extstrip": mode, "files": present, "linkfile": text, "caps": caps}
                rp = {"extstrip": mode, "files": present, "linkfile": text, "caps": caps, "abstracts": abstracts}
                cls, _ = reqs.classify("gopher", r.out)
                if cls == "notfound" or r.exc or (cls == "none" and r.exceptions()):      # an empty menu (everything hidden) is a listing
                    res.violation("C08:listing-failed", "a directory with well-formed link files is not listed", inp, observed=(r.out or b"")[:120], required="listing", replay=rp)
                    continue
                got = [(e[0], e[1], e[2], e[3], e[4]) for e in parse_gopher(r.out) if not (e[0] == "i" and e[2] == "fake")]
                exp = reference(d, present, blocks, caps, disp, abstracts)
                kinds = {("merge" if b["Path"].startswith("./") else "new") for b in blocks}
                if len(blocks) >= 2 and kinds == {"merge", "new"}:
                    res.nontrivial.add((text, tuple(sorted(caps)), mode))
                # html title handler sets the name from <title>: the reference cannot know; compare loosely there
                ok = len(got) == len(exp) and all(g[0] == e[0] and g[2] == e[2] and g[3] == e[3] and g[4] == e[4] and (g[1] == e[1] or g[2].endswith(".html"))
                                                   for g, e in zip(got, exp))
                res.count("reference:" + ("agree" if ok else "DIFF"))
                if not ok:
                    diff = next(((g, e) for g, e in zip(got, exp) if g != e), (len(got), len(exp)))
                    res.violation("C08:documented-effect", "the listing differs from the documented effect of the link / .cap files", inp,
                                  observed=str(diff[0]) + " ... " + str(got)[:300], required=str(diff[1]) + " ... " + str(exp)[:300], replay=rp)
                # sidecar abstracts appear as the entry's abstract (Gopher+ view)
                r2 = pyg.request(reqs.build("gopherp", d, gplus="$"), cfg)
                res.evaluations += 1
                for f, a in abstracts.items():
                    if f in caps and caps[f].get("Type") in ("X", "-"):
                        continue
                    if any(b["Path"] == "./" + f and (b.get("Type") in ("X", "-") or "Abstract" in b) for b in blocks):
                        continue
                    blk = ("+ABSTRACT:\r\n " + a.replace("\n", "\r\n ") + "\r\n").encode()
                    if blk not in r2.out:
                        res.violation("C08:sidecar-abstract", "a sidecar .abstract file is not the entry's abstract", inp, observed=r2.out[:300], required=blk, replay=rp)
                names = sorted(os.fsdecode(x) for x in os.listdir(tree.path(d)))
                if mode == "nonencoded":
                    model_lines.append(dirmodel.request(tree, cfg, d, names, view="gopher", umn=True))
                    checks.append((inp, r.out))
                    model_lines.append(dirmodel.request(tree, cfg, d, names, view="gplusdir", gplus=True, umn=True))
                    checks.append((inp, re.sub(rb" Mod-Date: [^\r\n]*\r\n", b"", r2.out[r2.out.find(b"\r\n") + 2:])))
        finally:
            tree.close()
    big_link_file(res)
    trailing_slash_blocks(res)
    outs = ctx.driver.run(model_lines)
    for (inp, impl), o in zip(checks, outs):
        res.evaluations += 1
        model = o if o.startswith(("CRASH", "REGEX")) else dec_str(o).encode("utf-8", "surrogateescape")
        if model != impl:
            res.disagree("C08.dirlisting", inp, str(model)[:600], str(impl)[:600])
    if checks:
        res.sample({"dir": checks[0][0]["dir"], "linkfile": checks[0][0]["linkfile"], "caps": checks[0][0]["caps"], "listing": checks[0][1][:300]})
        res.sample({"linkfile": checks[-1][0]["linkfile"]})
    res.degraded = list(pyg.degraded)
    return res


def replay(data):
    rp = data["violation"]["replay"]
    if rp.get("trailing_slash_blocks"):
        r = Result()
        trailing_slash_blocks(r)
        print(r.violations)
        return 0
    if rp.get("big_link_file"):
        r = Result()
        big_link_file(r)
        print(r.violations)
        return 0
    tree = pyg.Tree()
    try:
        cfg = pyg.make_config(tree.root, **{"handlers.dir.DirHandler|cachetime": "0", "handlers.UMN.UMNDirHandler|extstrip": rp["extstrip"]})
        for f in rp["files"]:
            tree.write("d/" + f, b"x\n")
        if rp["linkfile"]:
            tree.write("d/.Links", rp["linkfile"])
        for f, keys in rp["caps"].items():
            tree.write("d/.cap/" + f, "".join(f"{k}={v}\n" for k, v in keys.items()))
        print(pyg.request(reqs.build("gopher", "/d"), cfg).out.decode("latin-1"))
    finally:
        tree.close()
    return 0
