"""C04 — documents are delivered byte-for-byte with truthful length and type.

Correspondence: the blocks the real VFS_Real.copyto writes vs the model's `chunks copyBlock`;
whole Gopher+ / HTTP / Gemini / Spartan / WAP document responses vs the model's framing
(gplusDoc, httpResp, wmlBody, MIME adjustment over the guess the real mimetypes table gave).
Oracle: body == file bytes; +N == body length; HEAD == GET headers, no body; type == table;
WML inverse (html.unescape, independent of the model) recovers the right-stripped lines.
"""
import html
import mimetypes
import os
import re

import pyg
import reqs
from leanio import enc_str, enc_list, enc_opt, dec_str, dec_bytes, dec_list
from main import Result

WML_HEAD = None


def contents(rng, thorough):
    sizes = [0, 1, 2, 4095, 4096, 4097, 8191, 8192, 8193, 12288, 100, 5000]
    if thorough:
        sizes += [65535, 65536, 65537, 1 << 20, (1 << 20) + 1]
    out = []
    for n in sizes:
        kind = rng.choice(["bin", "text", "crlf", "badutf8"])
        if kind == "bin":
            b = bytes(rng.randrange(256) for _ in range(min(n, 4096))) * (n // 4096 + 1)
        elif kind == "text":
            b = (b"line of text \t \n\n  indented <b>&amp; 'q' \"d\"\n") * (n // 20 + 1)
        elif kind == "crlf":
            b = (b"crlf line\r\nbare cr\rlf\n\x0b\x0c\x1c\xc2\x85end \r\n") * (n // 20 + 1)
        else:
            b = (b"\xff\xfe bad \xc3\x28 utf8 \xe2\x82 \n\xa0\n") * (n // 16 + 1)
        out.append(b[:n])
    return out


NAMES = ["f%d.txt", "f%d.bin", "f%d.html", "f%d.gif", "f%d", "f%d.unknownext", "f%d.tar.gz", "f%d.TXT",
         "sp ace%d.txt", "q?&=%d.txt", "pct%%41%d.txt", b"\xae%d.txt", b"\xff\xfe%d.dat", "f%d.gz", "f%d.jpeg",
         "f%d.pdf", "f%d.css", "f%d.mp3", "#hash%d.txt", "plus+%d.txt", "semi;%d.txt",
         # names that begin like a URL scheme (a type guesser given the bare name takes `data:` for a data URL)
         "data:chart%d.png", "DATA:v%d,final.png", "mailto:notes%d.txt", "http:%d.html",
         # names that only end in the letters of a special name
         "site%dgophermap", "old-%d-gophermap", "x%d.GOPHERMAP", "notes%d.Gophermap"]


def expected_mime(name_str, cfg):
    m, enc = mimetypes.guess_type(name_str, strict=False)
    if enc:
        return "application/octet-stream", (m, enc)
    return (m or cfg.get("GopherEntry", "defaultmimetype")), (m, enc)


def wml_invert(body):
    """Independent client-side reading of the WML text card -> list of lines, or None."""
    m = re.search(rb'<card id="index" title="Text File" newcontext="true">\n<p>\n(.*)</p>\n</card>\n</wml>\n\Z', body, re.S)
    if not m:
        return None
    s = m.group(1).decode("utf-8", "surrogateescape")
    lines = []
    i = 0
    PB = "</p>\n<p>"
    while i < len(s):
        if s.startswith(PB, i):
            lines.append("")
            i += len(PB)
        else:
            j = s.find("\n", i)
            if j < 0:
                return None
            lines.append(html.unescape(s[i:j]))
            i = j + 1
    return lines


def file_lines(data):
    out = []
    for raw in data.split(b"\n"):
        out.append(raw)
    if out and out[-1] == b"":
        out.pop()
    return [x.decode("utf-8", "surrogateescape").rstrip() for x in out]


def type_histories(ctx, res):
    """The advertised type of a document does not depend on which documents were asked for before it (one server process):
    names whose extensions agree up to letter case but mean different things in the MIME tables (.Z / .z, .GZ / .gz)."""
    tree = pyg.Tree()
    try:
        names = ["manual.ps.Z", "errata.ps.z", "LISTING.GZ", "backup.gz", "A.TXT", "b.txt", "x.BZ2", "y.bz2", "p.HTML", "q.html", "r.Html", "data.TAR.gz", "data2.tar.GZ"]
        for n in names:
            tree.write("t/" + n, b"content of " + n.encode() + b"\n")
        cfg = pyg.make_config(tree.root, **{"handlers.dir.DirHandler|cachetime": "0"})
        views = [("http", "+"), ("gopherp", "!"), ("spartan", "+"), ("gemini", "+")]
        for first in names:
            for second in names:
                if first == second or first.lower().split(".", 1)[1] != second.lower().split(".", 1)[1]:
                    continue
                for p, g in views:
                    rq1, rq2 = reqs.build(p, "/t/" + first, gplus=g), reqs.build(p, "/t/" + second, gplus=g)
                    pyg.fresh_process_state()
                    alone = pyg.request(rq2, cfg, tls=reqs.TLS[p], reset=False).out
                    pyg.fresh_process_state()
                    pyg.request(rq1, cfg, tls=reqs.TLS[p], reset=False)
                    pyg.request(reqs.build("gopher", "/t"), cfg, reset=False)          # and a listing that builds every entry
                    after = pyg.request(rq2, cfg, tls=reqs.TLS[p], reset=False).out
                    res.evaluations += 2
                    res.nontrivial.add(("type-history", first, second, p))
                    mask_ = lambda b: re.sub(rb"(Last-Modified|Mod-Date):[^\r\n]*", b"T", b or b"")  # noqa
                    if mask_(after) != mask_(alone):
                        res.violation("C04:type-depends-on-history", "a document's advertised type or framing depends on documents requested before it",
                                      {"before": first, "document": second, "protocol": p}, observed=(after or b"")[:160], required=(alone or b"")[:160],
                                      replay={"type_history": True, "first": first, "second": second, "protocol": p, "gplus": g})
    finally:
        tree.close()
        pyg.fresh_process_state()


def same_second_rewrites(ctx, res):
    """A document replaced by another of a different length with the same modification time (two writes within a second,
    cp -p, rsync -t), one server process: each answer is framed for the bytes it carries."""
    tree = pyg.Tree()
    try:
        cfg = pyg.make_config(tree.root, **{"handlers.dir.DirHandler|cachetime": "0"})
        pyg.fresh_process_state()
        for name in ("doc.txt", "page.html", "data.bin", "sub/deep.txt"):
            versions = [b"first version\n" * 300, b"2nd\n", b"third version, the longest of them all\n" * 700, b""]
            for vi, body in enumerate(versions):
                tree.write("w/" + name, body)
                os.utime(tree.path("w/" + name), (1_600_000_000, 1_600_000_000))
                if vi == 0:
                    pyg.request(reqs.build("gopher", "/w"), cfg, reset=False)          # a listing builds (and may remember) every entry
                for p_, g in (("gopherp", "+"), ("gopherp", "!"), ("http", "+"), ("gopherp", "$")):
                    sel = "/w/" + name if g != "$" else "/w" + ("/sub" if "/" in name else "")
                    r = pyg.request(reqs.build(p_, sel, gplus=g), cfg, tls=reqs.TLS[p_], reset=False)
                    res.evaluations += 1
                    res.nontrivial.add(("same-second", name, vi, p_, g))
                    out = r.out or b""
                    bad = None
                    if g == "+" and p_ == "gopherp":
                        m = re.match(rb"\+(-?\d+)\r\n", out)
                        if not m or (int(m.group(1)) >= 0 and (int(m.group(1)) != len(body) or out[m.end():] != body)):
                            bad = "length header %r for %d bytes" % (out[:12], len(body))
                    elif p_ == "http":
                        if reqs.body_of("http", out) != body:
                            bad = "body of %d bytes for a file of %d" % (len(reqs.body_of("http", out) or b""), len(body))
                    else:
                        k = len(body) // 1024
                        m = re.search(rb": <(\d+)k>", out[out.find(name.split("/")[-1].encode()):] if g == "$" else out)
                        if m and int(m.group(1)) != k:
                            bad = "+VIEWS says <%sk> for a file of %d bytes" % (m.group(1).decode(), len(body))
                    if bad:
                        res.violation("C04:stale-after-same-second-rewrite", "a document rewritten within its modification second is framed for its old bytes",
                                      {"document": name, "version": vi, "protocol": p_, "form": g}, observed=bad, required="framing of the current bytes",
                                      replay={"type_history": True, "same_second": name, "version": vi})
    finally:
        tree.close()
        pyg.fresh_process_state()


def real_socket_transfers(ctx, res):
    """Documents of sizes around the block sizes, fetched from a real server process over real sockets, plain and TLS (what a
    descriptor-level shortcut -- sendfile, a child writing to the socket -- would bypass): the bytes are the file's."""
    import realsrv
    tree = pyg.Tree()
    try:
        sizes = [0, 100, 4096, 65535, 65536, 70001, 300000]
        files = {}
        for n in sizes:
            data = (b"%07d|" % n) + bytes((i * 7 + n) % 251 for i in range(max(0, n - 8)))
            data = data[:n]
            files["f%d.bin" % n] = data
            tree.write("f%d.bin" % n, data)
        cfg = pyg.make_config(tree.root, **dict({"handlers.dir.DirHandler|cachetime": "0", "pygopherd|servertype": "ThreadingTCPServer", "pygopherd|port": "0", "pygopherd|interface": "127.0.0.1"},
                                                 **realsrv.tls_options()))
        srv, err = None, None
        for attempt in range(3):
            try:
                srv = realsrv.RealServer(cfg, tree.tmp, "c04-%d" % attempt)
                break
            except Exception as e:  # noqa
                err = e
        if srv is None:
            res.degraded.append("real server for C04 did not start: " + str(err)[:200])
            return
        with srv:
            for name, data in files.items():
                for p_ in ("gopher", "gopherp", "http", "spartan", "sgopher", "https", "gemini"):
                    tls = reqs.TLS.get(p_, False)
                    rq = reqs.build(p_, "/" + name, gplus="+")
                    out = realsrv.ask(srv.port, rq, tls=tls, timeout=20)
                    res.evaluations += 1
                    res.nontrivial.add(("real-socket", name, p_))
                    if p_ in ("gopher", "sgopher"):
                        body = out
                    elif p_ == "gopherp":
                        k = out.find(b"\r\n")
                        body = out[k + 2:] if out.startswith(b"+") and k > 0 else None
                        if body is not None and out[:k] not in (b"+-2", b"+%d" % len(data)):
                            body = None
                    elif p_ in ("http", "https"):
                        k = out.find(b"\r\n\r\n")
                        body = out[k + 4:] if out.startswith(b"HTTP/1.0 200") and k > 0 else None
                    else:
                        k = out.find(b"\r\n")
                        body = out[k + 2:] if out[:1] == b"2" and k > 0 else None
                    if body != data:
                        res.violation("C04:real-socket-body:" + p_, "a document fetched over a real socket is not the file's bytes", 
                                      {"document": name, "size": len(data), "protocol": p_, "tls": tls},
                                      observed=(out[:60], len(out)), required="framing + %d bytes of the file" % len(data),
                                      replay={"type_history": True, "real_socket": name, "protocol": p_})
    finally:
        tree.close()


def encoding_option(ctx, res):
    """The `encoding` option as an administrator may write it -- a list that leaves out suffixes Python knows by itself
    (.gz, .xz, .Z, .br): it replaces the table, so those suffixes are content types again, in every protocol."""
    from pygopherd import initialization
    import pygopherd.gopherentry as ge_
    tree = pyg.Tree()
    cwd = os.getcwd()
    try:
        names = ["backup.tar.gz", "manual.ps.xz", "old.txt.Z", "page.html.br", "kept.txt.bz2", "plain.txt"]
        for n in names:
            tree.write("e/" + n, b"content of " + n.encode() + b"\n")
        cfg = pyg.make_config(tree.root, **{"handlers.dir.DirHandler|cachetime": "0", "pygopherd|encoding": "[('.bz2', 'bzip2')]"})
        os.chdir(pyg.REPO)
        initialization.init_mimetypes(cfg)
        pyg.reset_globals()
        ge_.mapping = None
        # the tables as configured, read independently: the MIME files of the configuration, the encoding list as written
        files = [x for x in cfg.get("pygopherd", "mimetypes").split(":") if os.path.isfile(x)]
        mt = mimetypes.MimeTypes(filenames=files, strict=False)
        mt.encodings_map = {".bz2": "bzip2"}
        for n in names:
            gm, enc = mt.guess_type("/e/" + n, strict=False)
            want = "application/octet-stream" if enc else (gm or cfg.get("GopherEntry", "defaultmimetype"))
            for p, g in (("http", "+"), ("gopherp", "!"), ("spartan", "+")):
                r = pyg.request(reqs.build(p, "/e/" + n, gplus=g), cfg, tls=reqs.TLS[p], reset=False)
                res.evaluations += 1
                out = r.out or b""
                if p == "http":
                    m_ = re.search(rb"Content-Type: ([^\r\n]*)", out)
                    got = m_.group(1).decode() if m_ else None
                elif p == "spartan":
                    got = out[:out.find(b"\r\n")].decode(errors="replace").split(" ", 1)[-1]
                else:
                    m_ = re.search(rb"\+VIEWS:\r\n ([^: ]+)", out)
                    got = m_.group(1).decode() if m_ else None
                res.nontrivial.add(("encoding-option", n, p))
                if got != want:
                    res.violation("C04:type-not-from-configured-tables", "with a shortened `encoding` option the advertised type is not the one the configured tables assign",
                                  {"encoding_option": "[('.bz2', 'bzip2')]", "name": n, "protocol": p}, observed=got, required=want,
                                  replay={"type_history": True, "encoding_option": True, "name": n, "protocol": p})
    finally:
        try:
            initialization.init_mimetypes(pyg.base_config())     # back to the shipped tables for everything that follows
        finally:
            os.chdir(cwd)
            ge_.mapping = None
            tree.close()
            pyg.reset_globals()


def overlapping_transfers(ctx, res):
    """Two documents on their way at once (as two threads of the threading server have them): while transfer A is handing
    its k-th block to the client, transfer B runs from start to finish; then A goes on.  The block is taken from A's writer
    only after B is done, as a client socket that was not ready takes it.  Each client gets its own document's bytes."""
    tree = pyg.Tree()
    try:
        rng = ctx.rng
        docs = {"/a.bin": bytes(rng.randrange(256) for _ in range(10000)), "/b.bin": bytes(rng.randrange(256) for _ in range(13000)),
                "/docs/t.txt": b"".join(b"line %d of the text\n" % i for i in range(700))}
        for sel, data in docs.items():
            tree.write(sel.lstrip("/"), data)
        cfg = pyg.make_config(tree.root, **{"handlers.dir.DirHandler|cachetime": "0"})
        pyg.reset_globals()
        for pa, pb in (("gopher", "gopher"), ("http", "gopher"), ("gopherp", "http"), ("gemini", "spartan")):
            for sa, sb in (("/a.bin", "/b.bin"), ("/b.bin", "/docs/t.txt")):
                rqa, rqb = reqs.build(pa, sa), reqs.build(pb, sb)
                alone_a = pyg.request(rqa, cfg, tls=reqs.TLS[pa], reset=False).out
                alone_b = pyg.request(rqb, cfg, tls=reqs.TLS[pb], reset=False).out
                for k in (1, 2, 3):
                    state = {"n": 0, "b": None}

                    class W:
                        def __init__(self):
                            self.parts = []

                        def write(self, data):
                            state["n"] += 1
                            if state["n"] == k and state["b"] is None:
                                state["b"] = pyg.request(rqb, cfg, tls=reqs.TLS[pb], reset=False)
                            self.parts.append(bytes(data))
                            return len(data)

                        def flush(self):
                            pass
                    w = W()
                    ra = pyg.request(rqa, cfg, tls=reqs.TLS[pa], wfile=w, reset=False)
                    out_a = b"".join(w.parts)
                    res.evaluations += 2
                    if state["b"] is None:
                        continue
                    res.nontrivial.add(("overlap", pa, pb, sa, k))
                    for who, got, want, rq in (("A (interrupted at block %d)" % k, out_a, alone_a, rqa), ("B (served in between)", state["b"].out, alone_b, rqb)):
                        if got != want or ra.exc is not None:
                            i_ = next((i for i, (x, y) in enumerate(zip(got or b"", want or b"")) if x != y), min(len(got or b""), len(want or b"")))
                            res.violation("C04:overlapping-transfers:" + who[:1], "a document delivered while another transfer was under way is not the file's bytes",
                                          {"A": rqa[:60], "B": rqb[:60], "who": who, "first_difference_at": i_},
                                          observed=(got or b"")[max(0, i_ - 8):i_ + 40], required=(want or b"")[max(0, i_ - 8):i_ + 40],
                                          replay={"overlap": True, "a": rqa.decode("latin-1"), "b": rqb.decode("latin-1"), "k": k, "pa": pa, "pb": pb})
    finally:
        tree.close()
        pyg.reset_globals()


def run(ctx):
    res = Result()
    res.rule = ("files of sizes around every multiple of the copy block (0,1,k*4096-1,k*4096,k*4096+1, 1 MiB in thorough) with "
                "binary / text / CR-LF-mix / invalid-UTF-8 contents and names with spaces, reserved characters and non-UTF-8 bytes, "
                "fetched through 9 protocol syntaxes (+HEAD, + Gopher+ '+'), shipped and full handler lists. "
                "non-trivial = distinct (size, name class, protocol) with a success response")
    res.assumptions = ["TOCTOU between stat and open is not modelled", "TLS record layer not modelled",
                       "mimetypes.guess_type is an oracle (its answer is fed to the model)"]
    tree = pyg.Tree()
    try:
        files = []
        datas = contents(ctx.rng, ctx.thorough or ctx.deepen)
        for i, data in enumerate(datas):
            nm = NAMES[i % len(NAMES)] if i < len(NAMES) else ctx.rng.choice(NAMES)
            if isinstance(nm, bytes):
                name = nm.replace(b"%d", str(i).encode())
            else:
                name = (nm % i).encode()
            tree.write(name, data)
            files.append((name, data))
        for i, nm in enumerate(NAMES):
            name = nm.replace(b"%d", b"x%d" % i) if isinstance(nm, bytes) else (nm % (1000 + i)).encode()
            data = datas[ctx.rng.randrange(len(datas))][:ctx.rng.choice([10, 300, 5000])]
            tree.write(name, data)
            files.append((name, data))
        # full-list content: a template and a compressed file (F12)
        tree.write("t.html.tal", b"<html><body><p tal:content=\"selector\">x</p> padding padding padding</body></html>\n")
        model_lines = []
        model_checks = []
        for listname in ("shipped", "full"):
            cfg = pyg.make_config(tree.root, pyg.FULL_HANDLERS if listname == "full" else None,
                                  **{"handlers.dir.DirHandler|cachetime": "0"})
            dflt = cfg.get("GopherEntry", "defaultmimetype")
            for name, data in files:
                sel = "/" + name.decode("utf-8", "surrogateescape")
                exp_mime, guess = expected_mime(sel, cfg)
                ishtml = guess[0] == "text/html" and not guess[1]
                for p in ["gopher", "gopherp", "http", "https", "wap", "gemini", "spartan", "sgopher", "sgopherp"]:
                    if listname == "full" and ctx.rng.random() < 0.6 and not (ctx.thorough or ctx.deepen):
                        continue
                    rq = reqs.build(p, sel)
                    r = pyg.request(rq, cfg, tls=reqs.TLS[p])
                    res.evaluations += 1
                    cls, det = reqs.classify(p, r.out)
                    inp = {"handlers": listname, "protocol": p, "selector": sel, "size": len(data)}
                    rp = {"handlers": listname, "protocol": p, "name": name.decode("latin-1"), "data_latin1": data[:20000].decode("latin-1"), "size": len(data)}
                    if p in ("gopher", "sgopher"):
                        body = r.out
                        if body != data:
                            res.violation(f"C04:body:{p}", "document body differs from the file's bytes", inp,
                                          observed=(len(body), body[:60]), required=(len(data), data[:60]), replay=rp)
                        res.nontrivial.add((len(data), NAMES[0] and name[:2], p))
                        continue
                    if cls != "ok":
                        res.violation(f"C04:not-served:{p}", "an existing regular file is not served", inp, observed=r.out[:100],
                                      required="success", replay=rp)
                        continue
                    body = reqs.body_of(p, r.out)
                    res.nontrivial.add((len(data), name[:2], p))
                    res.count(f"{listname}:{p}:{'empty' if not data else 'multi' if len(data) > 4096 else 'small'}")
                    if p in ("gopherp", "sgopherp"):
                        hdr = r.out[:r.out.find(b"\r\n")]
                        if body != data:
                            res.violation(f"C04:body:{p}", "document body differs from the file's bytes", inp,
                                          observed=(len(body), body[:60]), required=(len(data), data[:60]), replay=rp)
                        if hdr != b"+-2" and hdr != b"+%d" % len(body):
                            res.violation("C04:gplus-length", "Gopher+ length header differs from the number of body bytes", inp,
                                          observed=hdr, required=b"+%d" % len(body), replay=rp)
                        model_lines.append(f"gplusdoc\t{len(data)}\t{enc_str(data)}")
                        model_checks.append(("gplusdoc", inp, r.out))
                        continue
                    if p in ("http", "https", "wap"):
                        head = r.out[:r.out.find(b"\r\n\r\n") + 4]
                        m = re.search(rb"Content-Type: ([^\r]*)\r\n", head)
                        ctype = m.group(1).decode() if m else None
                        lm = re.search(rb"Last-Modified: ([^\r]*)\r\n", head)
                        rh = pyg.request(reqs.build(p, sel, head=True), cfg, tls=reqs.TLS[p])
                        res.evaluations += 1
                        if rh.out != head:
                            res.violation(f"C04:head:{p}", "HEAD is not exactly the GET headers with no body", inp,
                                          observed=rh.out[:200], required=head[:200], replay=rp)
                        if p == "wap":
                            want = "text/vnd.wap.wml" if exp_mime == "text/plain" else exp_mime
                        else:
                            want = exp_mime
                        if ctype != want:
                            res.violation(f"C04:mime:{p}", "advertised MIME type differs from the MIME table's answer", inp,
                                          observed=ctype, required=want, replay=rp)
                        if p == "wap" and exp_mime == "text/plain":
                            got = wml_invert(body)
                            want_lines = file_lines(data)
                            if got != want_lines:
                                res.violation("C04:wml-inverse", "WML text conversion is not invertible to the file's lines", inp,
                                              observed=str(got)[:200], required=str(want_lines)[:200], replay=rp)
                            raw_lines = []
                            pos = 0
                            while pos < len(data):
                                j = data.find(b"\n", pos)
                                j = len(data) if j < 0 else j + 1
                                raw_lines.append(data[pos:j].decode("utf-8", "surrogateescape"))
                                pos = j
                            if len(data) <= 20000:
                                model_lines.append(f"wmlbody\t{enc_list(raw_lines)}")
                                mm = re.search(rb'newcontext="true">\n<p>\n(.*)</p>\n</card>\n</wml>\n\Z', body, re.S)
                                model_checks.append(("wmlbody", inp, mm.group(1) if mm else None))
                        else:
                            if body != data:
                                res.violation(f"C04:body:{p}", "document body differs from the file's bytes", inp,
                                              observed=(len(body), body[:60]), required=(len(data), data[:60]), replay=rp)
                            if len(data) <= 20000:
                                model_lines.append("httpresp\tGET\t%s\t%s\t%s" % (
                                    enc_opt(lm.group(1).decode() if lm else None), enc_str(want), enc_str(data)))
                                model_checks.append(("httpresp", inp, r.out))
                        g0, g1 = guess
                        model_lines.append("entrymime\t%s\t%s\t%s" % (enc_opt(g0), enc_opt(g1), enc_str(dflt)))
                        model_checks.append(("entrymime", inp, exp_mime))
                        continue
                    # gemini / spartan
                    status = r.out[:r.out.find(b"\r\n")].decode()
                    want = ("20 " if p == "gemini" else "2 ") + exp_mime
                    if status != want:
                        res.violation(f"C04:mime:{p}", "advertised MIME type differs from the MIME table's answer", inp,
                                      observed=status, required=want, replay=rp)
                    if body != data:
                        res.violation(f"C04:body:{p}", "document body differs from the file's bytes", inp,
                                      observed=(len(body), body[:60]), required=(len(data), data[:60]), replay=rp)
            if listname == "full":
                # generated body: the length header must still be truthful (F12)
                r = pyg.request(reqs.build("gopherp", "/t.html.tal"), cfg)
                res.evaluations += 1
                hdr = r.out[:r.out.find(b"\r\n")]
                body = reqs.body_of("gopherp", r.out)
                if not (hdr == b"+-2" or hdr == b"+%d" % len(body)):
                    res.violation("C04:gplus-length:tal", "Gopher+ length header of a generated document differs from its body length",
                                  {"handlers": "full", "selector": "/t.html.tal"}, observed=hdr, required=b"+%d or +-2" % len(body),
                                  replay={"handlers": "full", "protocol": "gopherp", "name": "t.html.tal", "data_latin1": "", "size": 0})
        # a document that is replaced between two requests (same process, seconds apart): every answer is about the file as it is now
        cfg_h = pyg.make_config(tree.root, **{"handlers.dir.DirHandler|cachetime": "0"})
        for vi in range(ctx.n(3, 20)):
            nm = "versions/v%d.txt" % vi
            versions = [bytes(ctx.rng.randrange(256) for _ in range(ctx.rng.choice([0, 1, 11, 768, 4097, 8209]))) for _ in range(3)]
            for gen_i, data in enumerate(versions):
                tree.write(nm, data)
                os.utime(tree.path(nm), (1_700_000_000 + gen_i, 1_700_000_000 + gen_i))
                for p, gp in (("gopherp", "+"), ("gopherp", "$"), ("http", "+"), ("gopher", "+"), ("gopherp", "!")):
                    r = pyg.request(reqs.build(p, "/" + nm, gplus=gp), cfg_h, reset=False)
                    res.evaluations += 1
                    out = r.out or b""
                    inp = {"selector": "/" + nm, "protocol": p, "gplus": gp, "version": gen_i, "sizes": [len(v) for v in versions]}
                    rp = {"handlers": "shipped", "protocol": p, "name": "v.txt", "data_latin1": "", "size": len(data)}
                    res.nontrivial.add(("replaced", vi, gen_i, p, gp))
                    if p == "gopherp" and gp in "+$":
                        k = out.find(b"\r\n")
                        hdr, body = out[:k], out[k + 2:]
                        if body != data or not (hdr == b"+-2" or hdr == b"+%d" % len(body)):
                            res.violation("C04:gplus-length:replaced-file", "after a file was replaced, the Gopher+ length header or body is not the file's as it is now",
                                          inp, observed={"header": hdr, "body_len": len(body)}, required={"len": len(data)}, replay=rp)
                    elif p == "gopherp":
                        if (b"<%dk>" % (len(data) // 1024)) not in out:
                            res.violation("C04:views-size:replaced-file", "after a file was replaced, +VIEWS does not give its current size", inp,
                                          observed=out[-120:], required=b"<%dk>" % (len(data) // 1024), replay=rp)
                    elif p == "http":
                        if reqs.body_of("http", out) != data:
                            res.violation("C04:body:replaced-file", "after a file was replaced, the body is not the file's bytes as they are now", inp,
                                          observed=len(reqs.body_of("http", out)), required=len(data), replay=rp)
                    elif out != data:
                        res.violation("C04:body:replaced-file", "after a file was replaced, the body is not the file's bytes as they are now", inp,
                                      observed=len(out), required=len(data), replay=rp)
        # decompressed documents (decompressors configured): the body is the decompressed bytes in every protocol and the
        # Gopher+ header is truthful about THAT body (the subprocess writes to the descriptor, so the response goes to a real file)
        import gzip
        plain = (b"decompressed line one\n  second <line> & more\n" * 400)[:ctx.rng.choice([0, 1, 4096, 9000, 17000])]
        tree.write("doc.txt.gz", gzip.compress(plain, mtime=0))
        tree.write("blob.dat.gz", gzip.compress(bytes(range(256)) * 20, mtime=0))
        cfgz = pyg.make_config(tree.root, pyg.FULL_HANDLERS, **{"handlers.dir.DirHandler|cachetime": "0",
                                                                "handlers.file.CompressedFileHandler|decompressors": "{'gzip': 'zcat'}"})
        for zname, zdata in (("doc.txt.gz", plain), ("blob.dat.gz", bytes(range(256)) * 20)):
            for p in ["gopher", "gopherp", "http", "https", "wap", "gemini", "spartan", "sgopher", "sgopherp"]:
                wpath = os.path.join(tree.tmp, "w.out")
                with open(wpath, "wb", buffering=0) as wf:
                    r = pyg.request(reqs.build(p, "/" + zname), cfgz, tls=reqs.TLS[p], wfile=wf)
                out = open(wpath, "rb").read()
                os.unlink(wpath)
                res.evaluations += 1
                inp = {"handlers": "full+decompressors", "protocol": p, "selector": "/" + zname, "decompressed_size": len(zdata)}
                rp = {"handlers": "full+decompressors", "protocol": p, "name": zname, "data_latin1": "", "size": len(zdata)}
                if r.exc is not None or r.exceptions():
                    res.violation(f"C04:decompressed-not-served:{p}", "a compressed document is not served although its decompressor is configured", inp,
                                  observed={"exc": repr(r.exc), "log": r.log[-2:], "out": out[:80]}, required="the decompressed document", replay=rp)
                    continue
                if r.handler != "CompressedFileHandler":
                    res.count("decompress:other-handler:" + str(r.handler))
                    continue
                res.nontrivial.add((len(zdata), "gz", p))
                body = out if p in ("gopher", "sgopher") else reqs.body_of(p, out)
                if p == "wap" and zname.endswith(".txt.gz"):
                    if wml_invert(body) != file_lines(zdata):
                        res.violation("C04:decompressed-body:wap", "WML conversion of a decompressed text document lost lines", inp, observed=body[:120], required="the lines", replay=rp)
                elif body != zdata:
                    res.violation(f"C04:decompressed-body:{p}", "the body of a decompressed document is not the decompressed bytes", inp,
                                  observed=(len(body), body[:60]), required=(len(zdata), zdata[:60]), replay=rp)
                if p in ("gopherp", "sgopherp"):
                    hdr = out[:out.find(b"\r\n")]
                    if hdr != b"+-2" and hdr != b"+%d" % len(body):
                        res.violation("C04:gplus-length:decompressed", "Gopher+ length header of a decompressed document differs from its body length", inp,
                                      observed=hdr, required=b"+%d or +-2" % len(body), replay=rp)
        # the same documents through a REAL server with real TLS: what the client decrypts is the document
        import realsrv
        cfgr = pyg.make_config(tree.root, pyg.FULL_HANDLERS, **dict(realsrv.tls_options(), **{
            "handlers.dir.DirHandler|cachetime": "0", "handlers.file.CompressedFileHandler|decompressors": "{'gzip': 'zcat'}",
            "pygopherd|servertype": "ForkingTCPServer", "pygopherd|port": "0", "pygopherd|interface": "127.0.0.1", "pygopherd|servername": "localhost"}))
        real_docs = [("doc.txt.gz", plain), (files[3][0].decode("latin-1"), files[3][1]) if all(32 < c < 127 for c in files[3][0]) else ("doc.txt.gz", plain),
                     ("script.sh", None)]
        tree.write("script.sh", b"#!/bin/sh\necho script output $SELECTOR\n", mode=0o755)
        with realsrv.RealServer(cfgr, tree.tmp) as srv:
            for zname, zdata in real_docs:
                for p in ["gopher", "sgopher", "https", "gemini", "sgopherp", "http"]:
                    try:
                        out = realsrv.ask(srv.port, reqs.build(p, "/" + zname), tls=reqs.TLS[p], timeout=20)
                    except Exception as e:  # noqa
                        out = b"CLIENT-ERROR " + repr(e).encode()
                    res.evaluations += 1
                    if zdata is None:
                        zd = b"script output /script.sh\n"
                    else:
                        zd = zdata
                    body = out if p in ("gopher", "sgopher") else (reqs.body_of(p, out) if reqs.classify(p, out)[0] == "ok" else out)
                    inp = {"server": "real ForkingTCPServer", "tls": reqs.TLS[p], "protocol": p, "selector": "/" + zname}
                    if body != zd:
                        res.violation("C04:real-server-body:" + ("tls" if reqs.TLS[p] else "plain") + ":" + ("generated" if zdata is None or zname.endswith(".gz") else "file"),
                                      "the document a real client receives differs from the document", inp,
                                      observed=(len(body), body[:80]), required=(len(zd), zd[:80]),
                                      replay={"handlers": "real-server", "protocol": p, "name": zname, "data_latin1": "", "size": len(zd)})
                    else:
                        res.nontrivial.add(("real", zname[-6:], p))
        # copy loop: blocks written by the real copyto vs the model's chunks
        from pygopherd.handlers.base import VFS_Real

        class W:
            def __init__(self):
                self.sizes = []
                self.buf = bytearray()

            def write(self, b):
                self.sizes.append(len(b))
                self.buf += b
        vfs = VFS_Real(pyg.make_config(tree.root))
        pyg.reset_globals()
        for name, data in files:
            if len(data) > 70000:
                continue
            w = W()
            vfs.copyto("/" + name.decode("utf-8", "surrogateescape"), w)
            from extract import copy_block
            model_lines.append(f"copyto\t{copy_block({})}\t{enc_str(data)}")
            model_checks.append(("copyto", {"name": name, "size": len(data)}, (bytes(w.buf), w.sizes)))
        outs = ctx.driver.run(model_lines)
        for (kind, inp, impl), o in zip(model_checks, outs):
            res.evaluations += 1
            if kind == "copyto":
                a, b = o.split("\t")
                # block sizes are not part of the property (an extra empty write is harmless):
                # compare the bytes, and the sizes only up to empty blocks
                model = (dec_bytes(a), [int(x) for x in b.split() if int(x)] if b else [])
                impl = (impl[0], [x for x in impl[1] if x])
            elif kind in ("gplusdoc", "httpresp"):
                model = dec_bytes(o)
            elif kind == "wmlbody":
                model = dec_str(o).encode("utf-8", "surrogateescape")
            else:
                model = dec_str(o)
            if model != impl:
                res.disagree("C04." + kind, inp, str(model)[:300], str(impl)[:300])
        res.sample({"file": files[3][0], "size": len(files[3][1]), "protocols": 9})
        res.sample({"file": files[12][0], "size": len(files[12][1])})
    finally:
        tree.close()
    # end to end: Model/Serve.answer (request line -> whole response) vs the real server, byte for byte
    import sitecorr
    sitecorr.compare_answers(ctx, res, ctx.n(4, 40), "C04")
    overlapping_transfers(ctx, res)
    type_histories(ctx, res)
    same_second_rewrites(ctx, res)
    real_socket_transfers(ctx, res)
    encoding_option(ctx, res)
    res.degraded = list(pyg.degraded) + [d for d in res.degraded if d not in pyg.degraded]
    return res


def replay(data):
    if data["violation"]["replay"].get("type_history"):
        print("history check of harness/props/c04.py type_histories:", data["violation"]["replay"])
        return 0
    if data["violation"]["replay"].get("overlap"):
        print("overlapping transfers, forced as in harness/props/c04.py overlapping_transfers:", data["violation"]["replay"])
        return 0
    rp = data["violation"]["replay"]
    tree = pyg.Tree()
    try:
        name = rp["name"].encode("latin-1")
        tree.write(name, rp["data_latin1"].encode("latin-1"))
        cfg = pyg.make_config(tree.root, pyg.FULL_HANDLERS if rp["handlers"] == "full" else None)
        p = rp["protocol"]
        r = pyg.request(reqs.build(p, "/" + name.decode("utf-8", "surrogateescape")), cfg, tls=reqs.TLS[p])
        print(r.out[:500])
        print(r.log)
    finally:
        tree.close()
    return 0
