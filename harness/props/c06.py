"""C06 — the same site is seen through every protocol.

Oracle (model-free): for every directory of a generated site, the sequence of
(name, target) views parsed client-side from each protocol's listing is the same; trailing
slash makes no difference; a file has the same MIME type everywhere; a search string submitted
through each protocol's own mechanism reaches a recording handler as the same string.
Correspondence: parse of (selector, search) vs Model/Proto (shared with C01), and the
link/target each protocol renders vs Model/Render through gophermap listings (shared with C09).
"""
import html
import os
import re
import urllib.parse

import corr_parse
import pyg
import reqs
import trees
from main import Result
from props.c05 import parse_gopher, SRV, HOSTILE_NAMES

PROTOS = ["gopher", "gopherp+", "gopherp$", "http", "wap", "gemini", "spartan"]


def bsr(s):
    """what Gemini/Spartan show for a name: invalid bytes as \\xNN"""
    return s.encode("utf-8", "surrogateescape").decode("utf-8", "backslashreplace")


def norm_target(url, waptop=None):
    """client-side: a link as (scheme-ish, value)"""
    if waptop and url.startswith(waptop + "/"):
        url = url[len(waptop):]
    if url.startswith("/"):
        path = url
        if path.startswith("/GEMINI-QUERY/"):
            path = path[len("/GEMINI-QUERY"):]
        return ("local", urllib.parse.unquote(path, errors="surrogateescape"))
    m = re.match(r"gopher://([^:/]*):(\d+)/(.*)$", url, re.S)
    if m:
        return ("gopher", m.group(1), int(m.group(2)), urllib.parse.unquote(m.group(3), errors="surrogateescape"))
    return ("url", url)


def views(proto, cfg, sel, waptop):
    """-> (list of (name, target) or None, response)"""
    if proto == "gopher":
        r = pyg.request(reqs.build("gopher", sel), cfg)
        ents = parse_gopher(r.out)
    elif proto in ("gopherp+", "gopherp$"):
        r = pyg.request(reqs.build("gopherp", sel, gplus=proto[-1]), cfg)
        if not r.out.startswith(b"+"):
            return None, r
        body = r.out[r.out.find(b"\r\n") + 2:]
        if proto == "gopherp$":
            body = b"".join(l[7:] + b"\r\n" for l in body.split(b"\r\n") if l.startswith(b"+INFO: "))
        ents = parse_gopher(body)
    if proto.startswith("gopher"):
        if reqs.classify("gopher", r.out)[0] == "notfound":
            return None, r
        out = []
        for t, name, s, host, port in ents:
            if t == "i":
                out.append((name, ("info",)))
            elif re.match(r"(/|)URL:", s):
                out.append((name, ("url", re.match(r"(/|)URL:(.*)$", s, re.S).group(2))))
            elif host == SRV[0] and port == SRV[1]:
                out.append((name, ("local", s or "/")))       # (the empty selector is the root)
            else:
                out.append((name, ("gopher", host, port, t + s)))
        return out, r
    if proto in ("http", "wap"):
        r = pyg.request(reqs.build(proto, sel), cfg)
        if reqs.classify(proto, r.out)[0] != "ok":
            return None, r
        body = reqs.body_of(proto, r.out).decode("utf-8", "surrogateescape")
        out = []
        if proto == "http":
            i, j = body.find('CELLPADDING="0">'), body.rfind("</TABLE><HR>")
            for row in body[i:j].split("<TR>")[1:]:
                nm = html.unescape(re.search(r"<TT>(.*?)</TT>", row, re.S).group(1))
                m = re.search(r'<A HREF="([^"]*)">', row) or re.search(r'ACTION="([^"]*)"', row)
                out.append((nm, norm_target(html.unescape(m.group(1))) if m else ("info",)))
        else:
            i, j = body.find("</b><br/>\n") + len("</b><br/>\n"), body.rfind("</p>\n</card>")
            chunks = body[i:j].split("<br/>\n")
            if chunks and chunks[-1] == "":
                chunks.pop()
            for row in chunks:
                if row.startswith("  <input name="):
                    # the search form of the previous row: its go href is the target
                    m = re.search(r'<go method="get" href="([^"]*)">', row)
                    nm, _ = out[-1]
                    out[-1] = (nm, norm_target(html.unescape(m.group(1)), waptop))
                    continue
                m = re.match(r'(?:. )?<a (?:accesskey="[^"]*" )?href="([^"]*)">(.*)</a>\Z', row, re.S)
                if m:
                    out.append((html.unescape(m.group(2)), norm_target(html.unescape(m.group(1)), waptop)))
                else:
                    out.append((html.unescape(row), ("info",)))
        return out, r
    r = pyg.request(reqs.build(proto, sel), cfg, tls=reqs.TLS[proto])
    if reqs.classify(proto, r.out)[0] != "ok":
        return None, r
    body = reqs.body_of(proto, r.out).decode("utf-8", "surrogateescape")
    sec = "protocols.gemini.GeminiProtocol" if proto == "gemini" else "protocols.gemini.SpartanProtocol"
    if cfg.has_option(sec, "footer"):
        foot = "\n" + cfg.get(sec, "footer") + "\n"
        if body.endswith(foot):
            body = body[:-len(foot)]
    out = []
    for ln in body.split("\n")[:-1]:
        m = re.match(r"=[>:] (\S+) (.*)\Z", ln, re.S)
        if m:
            out.append((m.group(2), norm_target(m.group(1))))
        else:
            out.append((ln, ("info",)))
    return out, r


def site(tree):
    trees.standard(tree, hostile_content=False)
    for n in HOSTILE_NAMES:
        b = n.encode("utf-8", "surrogateescape") if isinstance(n, str) else n
        if b"\t" in b or b"\n" in b:
            continue
        tree.write(b"names/" + b, b"x\n")
    tree.write("mixed/gophermap", b"Title line\n0Doc\tdoc.txt\n1Dir\t/docs\n1Far\t/x y\texample.org\t7070\n1Mirror (host only)\t/pub/mirror\tgopher.example.net\n1Other port here\t/alt\t\t7071\nhWeb\tURL:http://example.org/a?b=c&d\nhMail the admin\tURL:mailto:admin@example.org\nhCall\tURL:tel:+15550100\n7Search\t/search here\n\n0caf\xc3\xa9 \xff\t/names/\xae.txt\n")
    tree.write("mixed/doc.txt", b"d\n")
    # link blocks to other servers: with a type, without one (a document, as in the Gopher menu), host only, port only
    tree.write("linked/.Links", b"Name=No type given\nPath=/arch\nHost=other.example\nPort=70\n\nName=Typed\nType=1\nPath=/pub\nHost=other.example\nPort=7070\n\n"
                                b"Name=Untyped, host only\nPath=/x y\nHost=third.example\n\n"
                                # this server's root, linked from a sub-directory
                                b"Name=Home\nType=1\nPath=/\n\n"
                                # searches that live elsewhere: another server's, and one given as a URL
                                b"Name=Search gopherspace\nType=7\nPath=/v2/vs\nHost=gopher.floodgap.example\nPort=70\n\n"
                                b"Name=Search the web\nType=7\nPath=URL:http://search.example/find\n\n"
                                b"Name=Local search\nType=7\nPath=/linked/file.txt\n")
    tree.write("linked/file.txt", b"f\n")
    tree.write("mixed/doc.txt.abstract", b"An abstract\nwith two lines\n")
    return ["/", "/docs", "/names", "/mixed", "/linked", "/map", "/pics", "/mail", "/mail/box.mbox", "/menu.gophermap", "/link-to-docs",
            "/names/dir with space", "/docs/sub"]


def run(ctx):
    res = Result()
    res.rule = ("every directory of a generated site (UMN directories with .cap/.names/abstracts, gophermaps with local/remote/URL:/search "
                "entries, mbox folders, hostile names) listed through 7 protocol views x 3 abstract settings; trailing-slash variants; MIME "
                "of every file through Gopher+/HTTP/Gemini/Spartan; search strings through 5 submission mechanisms. non-trivial = "
                "directories with >= 3 entries of >= 2 kinds, and search strings with a non-alphanumeric character")
    res.assumptions = ["entries whose names contain TAB/LF are not expressible in Gopher and are left out",
                       "Gemini/Spartan show invalid bytes of a display name as \\xNN (backslashreplace) by design; names are compared through that map"]
    tree = pyg.Tree()
    try:
        dirs = site(tree)
        for absopt in ("always", "unsupported", "never"):
            cfg = pyg.make_config(tree.root, **{"handlers.dir.DirHandler|cachetime": "0", "pygopherd|abstract_entries": absopt})
            waptop = cfg.get("protocols.wap.WAPProtocol", "waptop")
            for d in dirs:
                got = {}
                for p in PROTOS:
                    v, r = views(p, cfg, d, waptop)
                    res.evaluations += 1
                    if v is None:
                        res.violation(f"C06:not-listed:{p}", "a directory is not listed through one protocol", {"dir": d, "protocol": p},
                                      observed=(r.out or b"")[:100], required="a listing", replay={"dir": d, "abstract_entries": absopt})
                        continue
                    got[p] = v
                    # trailing slash
                    if d != "/":
                        v2, _ = views(p, cfg, d + "/", waptop)
                        res.evaluations += 1
                        if v2 != v:
                            res.violation(f"C06:trailing-slash:{p}", "a trailing slash changes the listing", {"dir": d, "protocol": p},
                                          observed=str(v2)[:200], required=str(v)[:200], replay={"dir": d, "abstract_entries": absopt})
                if "gopher" not in got:
                    continue
                base = got["gopher"]
                kinds = {t[0] for _, t in base}
                if len(base) >= 3 and len(kinds) >= 2:
                    res.nontrivial.add((d, absopt))
                for p, v in got.items():
                    if p == "gopher":
                        continue
                    a, b = base, v
                    if p in ("gopherp+", "gopherp$") and absopt == "unsupported":
                        # Gopher+ carries abstracts natively: it omits the per-entry abstract info lines
                        # (directory-header abstract lines are kept by every protocol)
                        pass
                    if p in ("gemini", "spartan"):
                        a = [(bsr(n), t) for n, t in a]
                    if p == "gemini":
                        pass
                    if p in ("gopherp+", "gopherp$") and absopt == "unsupported":
                        # compare link entries only; info lines may legitimately differ
                        a = [x for x in a if x[1] != ("info",)]
                        b2 = [x for x in b if x[1] != ("info",)]
                        ok = a == b2
                    else:
                        ok = a == b
                    res.count(f"compare:{p}:{'same' if ok else 'DIFF'}")
                    if not ok:
                        diff = next(((x, y) for x, y in zip(a, b) if x != y), (len(a), len(b)))
                        res.violation(f"C06:listing-differs:{p}", "a directory shows different entries / order / names / targets than through plain Gopher",
                                      {"dir": d, "protocol": p, "abstract_entries": absopt}, observed=str(diff[1])[:200], required=str(diff[0])[:200],
                                      replay={"dir": d, "abstract_entries": absopt})
        # MIME of files
        cfg = pyg.make_config(tree.root, **{"handlers.dir.DirHandler|cachetime": "0"})
        # (files named *.GOPHERMAP in other letter cases are documents like any other: one kind, one type, in every protocol)
        tree.write("menus/INDEX.GOPHERMAP", b"iwritten like a map\n0Readme\t/README\n")
        tree.write("menus/Autumn.GopherMap", b"0Readme\t/README\n")
        for sel in ["/README", "/page.html", "/data.bin", "/pics/img.gif", "/docs/a.txt", "/names/sp ace.txt", "/names/\udcae.txt", "/about.txt",
                    "/menus/INDEX.GOPHERMAP", "/menus/Autumn.GopherMap"]:
            mimes = {}
            r = pyg.request(reqs.build("gopherp", sel, gplus="!"), cfg)
            m = re.search(rb"\+VIEWS:\r\n ([^: ]+)", r.out)
            mimes["gopher+"] = m.group(1).decode() if m else None
            for p in ("http", "gemini", "spartan"):
                r = pyg.request(reqs.build(p, sel), cfg, tls=reqs.TLS[p])
                if p == "http":
                    m = re.search(rb"Content-Type: ([^\r]*)", r.out)
                    mimes[p] = m.group(1).decode() if m else None
                else:
                    mimes[p] = r.out[:r.out.find(b"\r\n")].decode().split(" ", 1)[1]
                # and with a trailing slash? a file selector with a trailing slash must resolve identically
                r2 = pyg.request(reqs.build(p, sel + "/"), cfg, tls=reqs.TLS[p])
                res.evaluations += 2
                if reqs.classify(p, r2.out)[0] != reqs.classify(p, r.out)[0]:
                    res.violation(f"C06:trailing-slash-file:{p}", "a trailing slash changes how a selector resolves", {"selector": sel},
                                  observed=r2.out[:60], required=r.out[:60], replay={"dir": sel, "abstract_entries": "always"})
            if len(set(mimes.values())) != 1:
                res.violation("C06:mime-differs", "a file has different MIME types in different protocols", {"selector": sel}, observed=mimes,
                              required="one type", replay={"dir": sel, "abstract_entries": "always"})
        # search strings through each mechanism (recording handler)
        rc = pyg.recorder_config()
        words = ["query", "two words", "a+b", "a&b=c", "100%", "caf\xe9", "\udcff\udcfe", "x?y#z", "q'q\"<>", "%41", "+", "a  b", "tab\there"]
        for _ in range(ctx.n(40, 600)):
            words.append("".join(ctx.rng.choice(["a", " ", "+", "%", "&", "=", "?", "#", "\xe9", "\udcff", "2", "0", "/", "\\", "'", '"', "<"]) for _ in range(ctx.rng.randint(1, 8))))
        segmented = [0, ctx.n(60, 600)]      # requests delivered in pieces: count, budget
        for w in words:
            if w != w.strip() or not w:
                continue   # outer blanks are stripped by Gopher's field handling (the property's NoOuterBlank)
            seen = {}
            for p in ("gopher", "gopherp", "http", "wap", "gemini", "spartan"):
                if p in ("gopher", "gopherp") and ("\t" in w or w[0] in "+$" or w == "!"):
                    continue   # not expressible: TAB separates fields; a last field + ! $ is Gopher+ syntax
                rq = reqs.build(p, "/s", search=w)
                sel, sr, r = pyg.parse_via_recorder(rq, rc, reqs.TLS[p])
                seen[p] = sr
                res.evaluations += 1
                if p == "gemini" and not any(c in w for c in "\r\n"):
                    # the same query with its sub-delimiters (+ & = ...) left literal, as RFC 3986 allows
                    sel, sr, r = pyg.parse_via_recorder(reqs.build(p, "/s", search=w, literal_query=True), rc, reqs.TLS[p])
                    seen["gemini(literal sub-delims)"] = sr
                    res.evaluations += 1
            # the same requests arriving in pieces (cut inside the request line, at its end, inside what follows it)
            if len(w.encode("utf-8", "surrogateescape")) >= 3 and segmented[0] < segmented[1]:
                for p in ("spartan", "http", "gopher"):
                    if p == "gopher" and ("\t" in w or w[0] in "+$" or w == "!"):
                        continue
                    rq = reqs.build(p, "/s", search=w)
                    eol = rq.find(b"\n") + 1
                    for cuts in ([[eol + max(1, (len(rq) - eol) // 2)]] if len(rq) > eol + 1 else []) + [[max(1, eol // 2)], [eol], [3, eol, len(rq) - 1]]:
                        cuts = sorted({c for c in cuts if 0 < c < len(rq)})
                        if not cuts:
                            continue
                        segmented[0] += 1
                        sel, sr, r = pyg.parse_via_recorder(rq, rc, reqs.TLS[p], cuts=cuts)
                        res.evaluations += 1
                        if sr != seen.get(p):
                            res.violation("C06:search-differs:segmented:" + p, "a search string reaches the handler differently when the request arrives in pieces",
                                          {"search": w, "protocol": p, "cuts": cuts, "request": rq[:120]}, observed=sr, required=seen.get(p),
                                          replay={"search": w, "cuts": cuts, "protocol": p})
            if re.search(r"[^A-Za-z0-9]", w):
                res.nontrivial.add(("search", w))
            bad = {p: v for p, v in seen.items() if v != w}
            if bad:
                res.violation("C06:search-differs:" + ",".join(sorted(bad)), "a search string reaches the handler differently through different protocols",
                              {"search": w}, observed=bad, required=w, replay={"search": w})
        # Gemini's three-step search (link with the query prefix -> prompt -> '?words' -> redirect -> the search itself) hands the
        # handler the selector and words that Gopher's one-step 'selector<TAB>words' hands it -- also for selectors that hold
        # '?', '#', '%XX' or blanks
        import urllib.parse as _up
        qp = "/GEMINI-QUERY"
        for sel_ in ("/s", "/cgi/find?db=music", "/s#frag", "/s%41x", "/s x/y", "/caf\xe9/s", "/a&b=c"):
            for words in ("miles davis", "a&b=c", "100%", "x?y#z"):
                g_sel, g_sr, _r = pyg.parse_via_recorder((sel_ + "\t" + words + "\r\n").encode("utf-8", "surrogateescape"), rc, False)
                quoted = _up.quote(sel_.encode("utf-8", "surrogateescape"))
                r1 = pyg.request(("gemini://h" + qp + quoted + "\r\n").encode(), rc, tls=True)
                r2 = pyg.request(("gemini://h" + qp + quoted + "?" + _up.quote(words) + "\r\n").encode(), rc, tls=True)
                res.evaluations += 3
                res.nontrivial.add(("gemini-flow", sel_, words))
                inp_ = {"selector": sel_, "search": words}
                if not (r1.out or b"").startswith(b"10 "):
                    res.violation("C06:gemini-search-flow:prompt", "the query-prefix link of a search item does not prompt for input", inp_, observed=(r1.out or b"")[:80],
                                  required="10 <prompt>", replay={"search": words, "gemini_flow": sel_})
                    continue
                m_ = re.match(rb"30 ([^\r\n]*)\r\n", r2.out or b"")
                if not m_:
                    res.violation("C06:gemini-search-flow:redirect", "a submitted query is not redirected to the search item", inp_, observed=(r2.out or b"")[:80],
                                  required="30 <selector>?<query>", replay={"search": words, "gemini_flow": sel_})
                    continue
                s3, sr3, _r3 = pyg.parse_via_recorder(b"gemini://h" + m_.group(1) + b"\r\n", rc, True)
                if (s3, sr3) != (g_sel, g_sr):
                    res.violation("C06:gemini-search-flow:differs", "a search made through Gemini's prompt-and-redirect reaches the handler with another selector or string than through Gopher",
                                  inp_, observed={"redirect": m_.group(1)[:120], "selector": s3, "search": sr3}, required={"selector": g_sel, "search": g_sr},
                                  replay={"search": words, "gemini_flow": sel_})
        corr_parse.run(ctx, res, ctx.n(1500, 30000), "C06")
        res.sample({"dir": "/mixed", "views": PROTOS})
        res.sample({"search": "a&b=c", "mechanisms": ["tab field", "searchrequest=", "URL query", "request body"]})
    finally:
        tree.close()
    res.degraded = list(pyg.degraded)
    return res


def replay(data):
    rp = data["violation"]["replay"]
    if "gemini_flow" in rp:
        print("Gemini search flow of harness/props/c06.py for selector", rp["gemini_flow"], "and words", rp["search"])
        return 0
    if "search" in rp and "cuts" in rp:
        rc = pyg.recorder_config()
        rq = reqs.build(rp["protocol"], "/s", search=rp["search"])
        print(rp["protocol"], "whole:", pyg.parse_via_recorder(rq, rc, reqs.TLS[rp["protocol"]])[:2])
        print(rp["protocol"], "in pieces", rp["cuts"], ":", pyg.parse_via_recorder(rq, rc, reqs.TLS[rp["protocol"]], cuts=rp["cuts"])[:2])
        return 0
    if "search" in rp:
        rc = pyg.recorder_config()
        for p in ("gopher", "gopherp", "http", "wap", "gemini", "spartan"):
            print(p, pyg.parse_via_recorder(reqs.build(p, "/s", search=rp["search"]), rc, reqs.TLS[p])[:2])
        return 0
    tree = pyg.Tree()
    try:
        site(tree)
        cfg = pyg.make_config(tree.root, **{"handlers.dir.DirHandler|cachetime": "0", "pygopherd|abstract_entries": rp["abstract_entries"]})
        for p in PROTOS:
            print(p, views(p, cfg, rp["dir"], cfg.get("protocols.wap.WAPProtocol", "waptop"))[0])
    finally:
        tree.close()
    return 0
