"""C11 — a cache file cut off at any byte is harmless.

For every cache file the server writes for the generated directories (and, thorough, for a
copy of the repository's own testdata), EVERY prefix length 0..size-1 and the zero-filled file
are replayed on the real code: the next request must return the complete, correct listing.
The same loop validates the model's only assumption on the unpickler (PrefixFails): no strict
prefix of a written pickle loads.
"""
import os
import pickle
import shutil

import listing
import pyg
import reqs
from main import Result


def build(tree, rng, k):
    n = [3, 9, 25][k % 3]
    for i in range(n):
        name = "file%02d.%s" % (i, rng.choice(["txt", "html", "gif", "tar.gz", "bin"]))
        tree.write("d%d/%s" % (k, name), b"<html><head><title>T%d</title></head></html>" % i if name.endswith("html") else b"x" * i)
        if rng.random() < 0.3:
            tree.write("d%d/%s.abstract" % (k, name), b"abstract %d\nline\n" % i)
    tree.write("d%d/.Links" % k, b"Name=Remote\nType=1\nPath=/r\nHost=example.org\nPort=70\n")
    tree.mkdir("d%d/sub" % k)
    return "/d%d" % k


def run(ctx):
    res = Result()
    res.rule = ("every prefix length 0..size-1 plus the zero-filled file of each cache file written for generated directories (3, 9, 25 "
                "entries; + a copy of /repo/testdata in thorough), each followed by a listing request through a seeded protocol view. "
                "complete enumeration per file. non-trivial = prefix lengths 1..size-1, distinct by (file, length)")
    res.assumptions = ["PrefixFails for pickle (no strict prefix of a written pickle loads) — validated here on every prefix",
                       "a reader racing a writer sees a prefix; two overlapping writers are C14's subject"]
    rng = ctx.rng
    tree = pyg.Tree()
    try:
        cfg = pyg.make_config(tree.root)   # shipped lifetime: a just-written file is fresh
        cachefile = cfg.get("handlers.dir.DirHandler", "cachefile")
        dirs = [build(tree, rng, k) for k in range(ctx.n(2, 3))]
        if ctx.thorough or ctx.deepen:
            shutil.copytree(os.path.join(pyg.REPO, "testdata"), tree.path("td").decode(), symlinks=True,
                            ignore=shutil.ignore_patterns(".cache*"))
            dirs.append("/td")
        prefix_loads = 0
        exhaustive = True
        for d in dirs:
            # reference listings per view, generated without any cache
            cpath = tree.path(d + "/" + cachefile)
            ref = {}
            for view, gplus in listing.VIEWS:
                if os.path.exists(cpath):
                    os.unlink(cpath)
                ref[(view, gplus)] = listing.real_rows(view, gplus, cfg, d)[0]
            written = open(cpath, "rb").read()
            # sanity: the complete file loads
            pickle.loads(written)
            size = len(written)
            lengths = list(range(size)) + ["zeros"]
            for k in lengths:
                data = bytes(size) if k == "zeros" else written[:k]
                with open(cpath, "wb") as f:
                    f.write(data)
                try:
                    pickle.loads(data)
                    prefix_loads += 1
                    res.violation("C11:prefix-loads", "a strict prefix of a written cache file unpickles (model assumption PrefixFails is false)",
                                  {"dir": d, "length": k}, observed="loads", required="raises", replay={"dir_entries": d, "length": k})
                except Exception:  # noqa
                    pass
                view, gplus = listing.VIEWS[rng.randrange(len(listing.VIEWS))]
                rows, r = listing.real_rows(view, gplus, cfg, d)
                res.evaluations += 1
                if k != "zeros" and k != 0:
                    res.nontrivial.add((d, k))
                inp = {"dir": d, "cache_size": size, "cut_at": k, "view": view}
                rp = {"dir": d, "cut_at": k, "view": view, "gplus": gplus}
                if rows != ref[(view, gplus)]:
                    what = "empty" if not r.out else "wrong"
                    res.violation(f"C11:truncated-cache:{what}", "a request after a truncated cache file does not return the correct, complete listing",
                                  inp, observed={"out": (r.out or b"")[:120], "exc": repr(r.exc), "log": r.log[-1:]},
                                  required=(ref[(view, gplus)] or b"")[:120], replay=rp)
                res.count("after:" + ("ok" if rows == ref[(view, gplus)] else "BAD"))
        res.extra["exhaustive"] = exhaustive
        res.extra["prefixes_that_unpickle"] = prefix_loads
        res.sample({"dir": dirs[0], "every_prefix_of": cachefile, "plus": "zero-filled file"})
        res.sample({"dirs": dirs})
    finally:
        tree.close()
    res.degraded = list(pyg.degraded)
    return res


def replay(data):
    print(data["violation"]["replay"])
    return 0
