"""C11 — a cache file cut off at any byte is harmless.

For every cache file the server writes for the generated directories (and, thorough, for a
copy of the repository's own testdata), EVERY prefix length 0..size-1 and the zero-filled file
are replayed on the real code: the next request must return the complete, correct listing.
The same loop validates the model's only assumption on the unpickler (PrefixFails): no strict
prefix of a written pickle loads.
"""
import os
import pickle
import shutil

import listing
import pyg
import reqs
from main import Result


def build(tree, rng, k):
    n = [3, 9, 25][k % 3]
    for i in range(n):
        name = "file%02d.%s" % (i, rng.choice(["txt", "html", "gif", "tar.gz", "bin"]))
        tree.write("d%d/%s" % (k, name), b"<html><head><title>T%d</title></head></html>" % i if name.endswith("html") else b"x" * i)
        if rng.random() < 0.3:
            tree.write("d%d/%s.abstract" % (k, name), b"abstract %d\nline\n" % i)
    tree.write("d%d/.Links" % k, b"Name=Remote\nType=1\nPath=/r\nHost=example.org\nPort=70\n")
    tree.mkdir("d%d/sub" % k)
    return "/d%d" % k


def run(ctx):
    res = Result()
    res.rule = ("every prefix length 0..size-1 plus the zero-filled file of each cache file written for generated directories (3, 9, 25 "
                "entries; + a copy of /repo/testdata in thorough), each followed by a listing request through a seeded protocol view. "
                "complete enumeration per file. non-trivial = prefix lengths 1..size-1, distinct by (file, length)")
    res.assumptions = ["PrefixFails for pickle (no strict prefix of a written pickle loads) — validated here on every prefix",
                       "a reader racing a writer sees a prefix; two overlapping writers are C14's subject"]
    rng = ctx.rng
    tree = pyg.Tree()
    try:
        cfg = pyg.make_config(tree.root)   # shipped lifetime: a just-written file is fresh
        cachefile = cfg.get("handlers.dir.DirHandler", "cachefile")
        dirs = [build(tree, rng, k) for k in range(ctx.n(2, 3))]
        if ctx.thorough or ctx.deepen:
            shutil.copytree(os.path.join(pyg.REPO, "testdata"), tree.path("td").decode(), symlinks=True,
                            ignore=shutil.ignore_patterns(".cache*"))
            dirs.append("/td")
        prefix_loads = 0
        exhaustive = True
        for d in dirs:
            # reference listings per view, generated without any cache
            cpath = tree.path(d + "/" + cachefile)
            ref = {}
            for view, gplus in listing.VIEWS:
                if os.path.exists(cpath):
                    os.unlink(cpath)
                ref[(view, gplus)] = listing.real_rows(view, gplus, cfg, d)[0]
            written = open(cpath, "rb").read()
            # sanity: the complete file loads
            pickle.loads(written)
            size = len(written)
            lengths = list(range(size)) + ["zeros"]
            for k in lengths:
                data = bytes(size) if k == "zeros" else written[:k]
                with open(cpath, "wb") as f:
                    f.write(data)
                try:
                    pickle.loads(data)
                    prefix_loads += 1
                    res.violation("C11:prefix-loads", "a strict prefix of a written cache file unpickles (model assumption PrefixFails is false)",
                                  {"dir": d, "length": k}, observed="loads", required="raises", replay={"dir_entries": d, "length": k})
                except Exception:  # noqa
                    pass
                view, gplus = listing.VIEWS[rng.randrange(len(listing.VIEWS))]
                rows, r = listing.real_rows(view, gplus, cfg, d)
                res.evaluations += 1
                if k != "zeros" and k != 0:
                    res.nontrivial.add((d, k))
                inp = {"dir": d, "cache_size": size, "cut_at": k, "view": view}
                rp = {"dir": d, "cut_at": k, "view": view, "gplus": gplus}
                if rows != ref[(view, gplus)]:
                    what = "empty" if not r.out else "wrong"
                    res.violation(f"C11:truncated-cache:{what}", "a request after a truncated cache file does not return the correct, complete listing",
                                  inp, observed={"out": (r.out or b"")[:120], "exc": repr(r.exc), "log": r.log[-1:]},
                                  required=(ref[(view, gplus)] or b"")[:120], replay=rp)
                res.count("after:" + ("ok" if rows == ref[(view, gplus)] else "BAD"))
        # ---- the request whose own cache write is cut off (full disk, file size limit): the cause of a cut-off file.  The kernel
        # refuses the bytes beyond k (a real RLIMIT_FSIZE around the request); that request and the next one still list.
        import resource
        import signal
        old_xfsz = signal.signal(signal.SIGXFSZ, signal.SIG_IGN)
        old_lim = resource.getrlimit(resource.RLIMIT_FSIZE)
        try:
            for d in dirs[:2]:
                cpath = tree.path(d + "/" + cachefile)
                for k in (0, 1, 64, 4096):
                    view, gplus = listing.VIEWS[rng.randrange(len(listing.VIEWS))]
                    if os.path.exists(cpath):
                        os.unlink(cpath)
                    want = listing.real_rows(view, gplus, cfg, d)[0]
                    full = os.path.getsize(cpath)
                    os.unlink(cpath)
                    if k >= full:
                        continue
                    resource.setrlimit(resource.RLIMIT_FSIZE, (k, old_lim[1]))
                    try:
                        rows, r = listing.real_rows(view, gplus, cfg, d)
                    finally:
                        resource.setrlimit(resource.RLIMIT_FSIZE, old_lim)
                    left = os.path.getsize(cpath) if os.path.exists(cpath) else None
                    rows2, r2 = listing.real_rows(view, gplus, cfg, d)
                    res.evaluations += 2
                    res.count("write-cut-off:" + ("file-left-short" if left is not None and left < full else "no-short-file"))
                    res.nontrivial.add((d, "write-cut", k))
                    for who, rw, rr in (("the request whose cache write was cut off", rows, r), ("the next request", rows2, r2)):
                        if rw != want:
                            res.violation("C11:cache-write-cut-off:" + ("writer" if rr is r else "next"), "a cache write cut off by the file system is not harmless",
                                          {"dir": d, "bytes_accepted": k, "cache_size": full, "view": view, "who": who},
                                          observed={"out": (rr.out or b"")[:160], "exc": repr(rr.exc), "log": rr.log[-1:]}, required=(want or b"")[:160],
                                          replay={"dir": d, "cut_at": k, "view": view, "gplus": gplus, "write_fault": True})
            # ... the same cut while an older, expired cache file of the directory's previous state is still there: what is left
            # behind must not read as that older listing
            for di, d in enumerate(dirs[:2]):
                cpath = tree.path(d + "/" + cachefile)
                for k in (1, 16, 64, 300):
                    view, gplus = listing.VIEWS[(di + k) % len(listing.VIEWS)]
                    if os.path.exists(cpath):
                        os.unlink(cpath)
                    listing.real_rows(view, gplus, cfg, d)
                    with open(cpath, "rb") as f_:
                        old_bytes = f_.read()
                    tree.write(d.strip("/") + "/zz-added-%d.txt" % k, b"new\n")
                    os.unlink(cpath)
                    want = listing.real_rows(view, gplus, cfg, d)[0]
                    with open(cpath, "wb") as f_:
                        f_.write(old_bytes)
                    os.utime(cpath, (1_000_000_000, 1_000_000_000))
                    if k >= len(old_bytes):
                        continue
                    resource.setrlimit(resource.RLIMIT_FSIZE, (k, old_lim[1]))
                    try:
                        rows, r = listing.real_rows(view, gplus, cfg, d)
                    finally:
                        resource.setrlimit(resource.RLIMIT_FSIZE, old_lim)
                    rows2, r2 = listing.real_rows(view, gplus, cfg, d)
                    res.evaluations += 2
                    res.nontrivial.add((d, "write-cut-over-old", k))
                    for who, rw, rr in (("the request whose cache write was cut off", rows, r), ("the next request", rows2, r2)):
                        if rw != want:
                            res.violation("C11:cache-write-cut-off:over-older-cache", "a cache write cut off over an older cache file leaves the older listing in use",
                                          {"dir": d, "bytes_accepted": k, "old_cache_size": len(old_bytes), "view": view, "who": who},
                                          observed={"out": (rr.out or b"")[:200], "exc": repr(rr.exc), "log": rr.log[-1:]}, required=(want or b"")[:200],
                                          replay={"dir": d, "cut_at": k, "view": view, "gplus": gplus, "write_fault": True})
        finally:
            resource.setrlimit(resource.RLIMIT_FSIZE, old_lim)
            signal.signal(signal.SIGXFSZ, old_xfsz)
        # ---- two readers racing on one damaged cache file: both have opened and failed to load it before either acts on that.
        # Forced with a barrier inside the load (no scheduler luck); each must still get the complete listing.
        import threading
        import pygopherd.handlers.dir as dirmod
        d = dirs[0]
        cpath = tree.path(d + "/" + cachefile)
        view, gplus = listing.VIEWS[0]
        if os.path.exists(cpath):
            os.unlink(cpath)
        ref0 = listing.real_rows(view, gplus, cfg, d)[0]
        written = open(cpath, "rb").read()
        for k in (0, 1, len(written) // 2, len(written) - 1, "zeros"):
            data = bytes(len(written)) if k == "zeros" else written[:k]
            with open(cpath, "wb") as f:
                f.write(data)
            barrier = threading.Barrier(2, timeout=3)
            barrier_failed = threading.Barrier(2, timeout=3)
            barrier_unlink = threading.Barrier(2, timeout=0.5)
            barrier_unlinked = threading.Barrier(2, timeout=0.5)
            real_unlink = os.unlink

            def synced_unlink(path, *a, **kw):
                # whatever a reader removes in reaction to the damaged file, the other reader is at the same point
                if os.fsencode(path).endswith(os.fsencode(cachefile)):
                    try:
                        barrier_unlink.wait()
                    except threading.BrokenBarrierError:
                        pass
                    try:
                        return real_unlink(path, *a, **kw)
                    finally:
                        try:
                            barrier_unlinked.wait()     # both have made their attempt before either goes on (and may recreate the file)
                        except threading.BrokenBarrierError:
                            pass
                return real_unlink(path, *a, **kw)

            class Shim:
                dump = staticmethod(pickle.dump)
                dumps = staticmethod(pickle.dumps)
                loads = staticmethod(pickle.loads)
                UnpicklingError = pickle.UnpicklingError
                PickleError = pickle.PickleError
                PicklingError = pickle.PicklingError
                HIGHEST_PROTOCOL = pickle.HIGHEST_PROTOCOL
                Pickler = pickle.Pickler
                Unpickler = pickle.Unpickler

                @staticmethod
                def load(fp, *a, **kw):
                    try:
                        barrier.wait()          # the other reader has the damaged file open as well
                    except threading.BrokenBarrierError:
                        pass
                    try:
                        return pickle.load(fp, *a, **kw)
                    except BaseException:
                        try:
                            barrier_failed.wait()       # ... and has failed to load it as well, before either goes on
                        except threading.BrokenBarrierError:
                            pass
                        raise
            outs2 = [None, None]

            def reader(i_):
                rq_, tls_ = listing.request_for(view, gplus, d)
                r_ = pyg.request(rq_, cfg, tls=tls_, reset=False)
                outs2[i_] = r_
            orig = dirmod.pickle
            dirmod.pickle = Shim
            os.unlink = synced_unlink
            try:
                ths = [threading.Thread(target=reader, args=(i_,)) for i_ in range(2)]
                for t_ in ths:
                    t_.start()
                for t_ in ths:
                    t_.join(20)
            finally:
                dirmod.pickle = orig
                os.unlink = real_unlink
            for i_, r_ in enumerate(outs2):
                res.evaluations += 1
                res.nontrivial.add(("two-readers", k, i_))
                rows_ = listing.rows_region(view, gplus, r_.out, cfg) if r_ is not None else None
                if rows_ != ref0:
                    res.violation("C11:truncated-cache:two-readers", "one of two requests that both met a cut-off cache file does not return the correct, complete listing",
                                  {"dir": d, "cut_at": k, "cache_size": len(written), "reader": i_},
                                  observed={"out": (r_.out or b"")[:120] if r_ is not None else None, "exc": repr(getattr(r_, "exc", None))},
                                  required=(ref0 or b"")[:120], replay={"dir": d, "cut_at": k, "view": view, "gplus": gplus})
        # ---- the ZIP index cache: every file the server wrote for it, at every prefix, and the cache name itself holding
        # each of those prefixes (what a dbm back end that keeps its data under the bare name would leave behind)
        import glob
        import zipfile
        ztree = pyg.Tree()
        try:
            with zipfile.ZipFile(os.fsdecode(ztree.path("arch.zip")), "w") as z:
                z.writestr("readme.txt", "read me\n")
                z.writestr("docs/guide.txt", "guide\n")
                z.writestr("docs/more/deep.txt", "deep\n")
            zcfg = pyg.make_config(ztree.root, pyg.FULL_HANDLERS, **{"handlers.ZIP.ZIPHandler|enabled": "true", "handlers.dir.DirHandler|cachetime": "0"})
            zreqs = [b"/arch.zip\r\n", b"/arch.zip/docs\r\n", b"/arch.zip/docs/guide.txt\r\n", b"/arch.zip/missing\r\n"]

            def answers():
                return [pyg.request(q, zcfg).out for q in zreqs]
            for f in glob.glob(os.fsdecode(ztree.path(".cache.pygopherd.zip*"))):
                os.unlink(f)
            zref = answers()
            wrote = sorted(glob.glob(os.fsdecode(ztree.path(".cache.pygopherd.zip*"))))
            base = os.fsdecode(ztree.path(".cache.pygopherd.zip3.arch.zip"))
            blobs = {f: open(f, "rb").read() for f in wrote}
            res.extra["zip_cache_files_written"] = [os.path.basename(f) for f in wrote]
            cases = []
            for f, blob in blobs.items():
                step = 1 if len(blob) <= 400 or ctx.thorough or ctx.deepen else max(1, len(blob) // 200)
                for k in list(range(0, min(len(blob), 64))) + list(range(64, len(blob), step)):
                    cases.append((f, blob[:k], k))
                    if f != base and k < 64:
                        cases.append((base, blob[:k], k))
                cases.append((f, bytes(len(blob)), "zeros"))
            cases += [(base, b"", 0), (base, b"\x00", 1), (base, b"GDBM", 4), (base, bytes(16), "zeros")]
            # the bare cache name alone (no other back-end files): headers of the dbm formats, cut at every byte
            for header in (b"\xce\x9a\x57\x13\x00\x10\x00\x00\x00\x00\x00\x00", b"\x13\x57\x9a\xce\x00\x00\x10\x00", b"\x00\x06\x15\x61\x00\x00\x00\x02\x00\x00\x04\xd2",
                           b"SQLite format 3\x00\x10\x00"):
                for k in range(len(header) + 1):
                    cases.append(("ALONE", header[:k], k))
            for f, data, k in cases:
                alone = f == "ALONE"
                if alone:
                    f = base
                    for g in glob.glob(os.fsdecode(ztree.path(".cache.pygopherd.zip*"))):
                        os.unlink(g)
                else:
                    for g, blob in blobs.items():     # restore everything, then damage one file
                        with open(g, "wb") as fh:
                            fh.write(blob)
                    if base not in blobs and os.path.exists(base):
                        os.unlink(base)
                with open(f, "wb") as fh:
                    fh.write(data)
                os.utime(f, None)
                got = []
                bad = None
                for q in zreqs:
                    r = pyg.request(q, zcfg)
                    got.append(r.out)
                    if r.exc is not None or [e for e in r.exceptions() if e != "FileNotFound"]:
                        bad = (q, r)
                        break
                res.evaluations += 1
                res.nontrivial.add(("zip", os.path.basename(f), k))
                inp = {"archive": "/arch.zip", "cache_file": os.path.basename(f), "cut_at": k, "other_cache_files_present": not alone}
                if bad or got != zref:
                    q, r = bad if bad else (zreqs[0], None)
                    res.violation("C11:truncated-zip-index", "a request into an archive after its index cache was cut off is not answered as before", inp,
                                  observed={"request": q, "exc": repr(r.exc) if r else None, "log": r.log[-1:] if r else None, "answers": [x[:60] for x in got]},
                                  required=[x[:60] for x in zref], replay={"dir": "/arch.zip", "cut_at": k, "cache_file": os.path.basename(f)})
                res.count("zip-after:" + ("BAD" if bad or got != zref else "ok"))
        finally:
            ztree.close()
        res.extra["exhaustive"] = exhaustive
        res.extra["prefixes_that_unpickle"] = prefix_loads
        res.sample({"dir": dirs[0], "every_prefix_of": cachefile, "plus": "zero-filled file"})
        res.sample({"dirs": dirs})
    finally:
        tree.close()
    res.degraded = list(pyg.degraded)
    return res


def replay(data):
    print(data["violation"]["replay"])
    return 0
