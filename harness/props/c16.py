"""C16 — ZIP archives are transparent.

Correspondence: answers of the real VFSZip (exists / isdir / isfile / listdir-as-set / which
member open() reads) for generated archives — nested members, explicit and implicit directory
members, dot files, UTF-8-flagged and CP437 names, relative / absolute / chained / dangling /
cyclic link members in seeded orders — vs Model/Zip (buildIndex, walk); os.path.normpath and
os.path.split vs the model's.  Oracle: responses for /T/<sel> (the same tree extracted on disk)
vs /T.zip/<sel>, prefix masked and timestamps removed; real-file-only handlers never act on
members.
"""
import os
import posixpath
import re
import stat
import zipfile

import pyg
import reqs
import trees
from leanio import enc_str, enc_list, dec_str, dec_list
from main import Result

FILES = ["a.txt", "b.html", "dir/file.txt", "dir/sub/deep.txt", "dir/.abstract", "dir/sub/.Links", ".hidden", "docs/readme", "docs/x y.txt",
         "docs/readme.abstract", "caf\xe9/\xfc.txt", "gm/gophermap", "gm/inner.txt", "e/mpty/",
         # member names that look like archives themselves (a directory, and a file that is no archive)
         "backups.zip/notes.txt", "broken.zip", "docs/old.zip/",
         # metadata that is not valid UTF-8 (Latin-1 names and abstracts)
         "dir/.names", "a.txt.abstract", ".cap/a.txt",
         # member paths that contain the archive's own file name
         "XTREEX.zip.txt", "dir/XTREEX.zip.txt", "mirror/XTREEX.zip.d/x.txt",
         # the tail of '/outside/data.txt' (an object of the site outside the archive) once the archive's selector length is cut off
         "ta.txt", "hing.txt",
         # text metadata with characters str.splitlines() breaks on and file reading does not; a side file longer than the
         # 20480-character read-ahead the side-file reader asks for
         "docs/.names", "docs/x y.txt.abstract", "docs/x y.txt.keywords"]


def gen_members(rng, long_chain=False):
    """-> list of (name str, kind 'F'|'D'|'L', data/target)"""
    ms = []
    for f in rng.sample(FILES, rng.randint(3, len(FILES))):
        if f.endswith("/"):
            ms.append((f, "D", b""))
        elif f.endswith("gophermap"):
            # absolute selectors in an archive's gophermap mean objects of the site, not members whose names happen to be their tails
            ms.append((f, "F", b"info line\n0Inner\tinner.txt\n1Up\t/\n0Out\t/outside/data.txt\n1OutDir\t/outside\n0Gone\t/outside/nothing.txt\n"))
        elif f.endswith(".Links"):
            ms.append((f, "F", b"Name=Remote\nType=1\nPath=/r\nHost=example.org\nPort=70\n"))
        elif f == "dir/.names":
            ms.append((f, "F", b"Path=./file.txt\nName=Caf\xe9 renamed \xff\n"))
        elif f == "docs/.names":
            ms.append((f, "F", "Path=./readme\nName=Read\x0cme \x1c first\u2028and \x85 last\nNumb=2\n\nPath=./x y.txt\nName=Form\x0bfeed\n".encode()))
        elif f == "docs/x y.txt.abstract":
            ms.append((f, "F", b"".join(b"abstract line %04d of a long side file\n" % i for i in range(900))))
        elif f == "docs/x y.txt.keywords":
            ms.append((f, "F", "one\x0ctwo \u2029 three\nfour \x1e five\r\nsix\n".encode()))
        elif f == "a.txt.abstract":
            ms.append((f, "F", b"R\xe9sum\xe9 of a.txt \xff\nsecond line\n"))
        elif f == ".cap/a.txt":
            ms.append((f, "F", b"Name=Capped \xe9\nNumb=1\n"))
        elif f == "broken.zip":
            ms.append((f, "F", b"this is not an archive\n"))
        elif f.endswith("html"):
            ms.append((f, "F", b"<html><head><title>Zip page</title></head></html>"))
        else:
            ms.append((f, "F", ("content of " + f + "\n").encode()))
    if rng.random() < 0.5:
        ms.append(("dir/", "D", b""))
    if rng.random() < 0.35:
        # members at and beyond the sizes where copy loops change their block size (4096, 65536)
        ms.append(("big/f65536.bin", "F", bytes(range(256)) * 256))
        ms.append(("big/f70001.txt", "F", (b"line of a long member\n" * 3200)[:70001]))
        ms.append(("big/f4096.bin", "F", b"\xfe" * 4096))
    nl = rng.randint(0, 4)
    targets = ["dir", "dir/file.txt", "a.txt", "docs", "sub", "../a.txt", "/dir/sub", "/docs/readme", "nowhere", "l1", "l2", "l1/file.txt",
               "l2/sub/deep.txt", "./dir/./sub", "dir/../docs", "../../etc/passwd", "/", "l3", "",
               # targets whose names are not ASCII, from links whose own names are
               "caf\xe9/\xfc.txt", "caf\xe9", "/caf\xe9/\xfc.txt", "caf\xe9/\xfc.txt"]
    for i in range(nl):
        loc = rng.choice(["l1", "l2", "l3", "dir/l1", "docs/l2", "newdir/l1"])
        t = rng.choice(targets)
        if "/../" in t and not any(m[0].startswith(t.split("/../")[0].lstrip("./") + "/") for m in ms):
            t = "docs"      # 'x/../y' with no directory x: the kernel says ENOENT where lexical normalisation says y (outside the domain)
        ms.append((loc, "L", t.encode()))
    # a link that climbs out of the archive (more '..' than it is deep) towards a name that exists at the archive top:
    # it dangles in the extracted tree, and must not be re-rooted inside the archive
    if rng.random() < 0.5:
        tops = [m[0] for m in ms if m[1] == "F" and "/" not in m[0]]
        if tops:
            ms.append((rng.choice(["dir/esc", "docs/deep/esc2", "esc0"]), "L", (rng.choice(["../../", "../../../", "../"]) + rng.choice(tops)).encode()))
    # link chains: a link whose target goes *through* another link (resolution order matters)
    if rng.random() < 0.6:
        base = rng.choice(["dir", "docs", "dir/sub"])
        child = {"dir": "file.txt", "docs": "readme", "dir/sub": "deep.txt"}[base]
        ms.append(("c1", "L", base.encode()))
        ms.append(("c2", "L", ("c1/" + child).encode()))
        if rng.random() < 0.5:
            ms.append(("c3", "L", b"c2"))
    rng.shuffle(ms)
    # keep one member per name (a later duplicate would overwrite; not part of the domain)
    seen = set()
    out = []
    for m in ms:
        if m[0].rstrip("/") in seen:
            continue
        seen.add(m[0].rstrip("/"))
        out.append(m)
    # conflict-free: no file or link name is a directory prefix of another member
    names = {m[0].rstrip("/") for m in out}
    ok = []
    for m in out:
        if m[1] in "FL" and any(n.startswith(m[0] + "/") for n in names):
            continue
        ok.append(m)
    if long_chain:
        # a chain of twelve links, each stored before the one it points to (the worst order for a resolver that makes passes)
        if not any(m[0].startswith("links/") for m in ok):
            for k in range(1, 13):
                ok.append(("links/hop%02d" % k, "L", ("hop%02d" % (k + 1)).encode() if k < 12 else b"target.txt"))
            ok.append(("links/target.txt", "F", b"end of the chain\n"))
    return ok


def write_zip(path, members, cp437):
    with zipfile.ZipFile(path, "w") as z:
        for name, kind, data in members:
            zi = zipfile.ZipInfo(name)
            if kind == "L":
                zi.external_attr = (stat.S_IFLNK | 0o777) << 16
            elif kind == "D":
                zi.external_attr = (stat.S_IFDIR | 0o755) << 16
            else:
                zi.external_attr = (stat.S_IFREG | 0o644) << 16
            zi.date_time = (2001, 2, 3, 4, 5, 6)
            if len(name) % 5 == 1:
                zi.date_time = (1980, 0, 0, 0, 0, 0)        # the all-zero DOS stamp of tools that write none
            elif len(name) % 7 == 2:
                zi.date_time = (2001, 2, 30, 24, 60, 60)    # not a calendar date (mktime normalises it)
            z.writestr(zi, data)


def extract(tree, base, members):
    """the same tree on disk; links that would leave the archive root or dangle are still created (they are then unservable)"""
    for name, kind, data in members:
        p = tree.path(base + "/" + name.rstrip("/"))
        os.makedirs(os.path.dirname(p), exist_ok=True)
        if kind == "D":
            os.makedirs(p, exist_ok=True)
        elif kind == "L":
            t = data.decode()
            if t == "":
                continue        # a link to nothing cannot be created on disk: it is absent, as a dangling link is unservable
            if t.startswith("/"):
                # an absolute link inside an archive is relative to the archive root
                rel = os.path.relpath(tree.path(base + t).decode(), os.path.dirname(p).decode())
                t = rel
            if os.path.lexists(p):
                continue
            os.symlink(t, p)
        else:
            with open(p, "wb") as f:
                f.write(data)


def shown_name(zi):
    if zi.flag_bits & 0x800:
        return zi.filename.encode("utf-8").decode("utf-8", "surrogateescape")
    return zi.filename.encode("cp437").decode("utf-8", "surrogateescape")


def run(ctx):
    res = Result()
    res.rule = ("seeded archives of 3-18 members (nested files, explicit/implicit directories, dot files, sidecars, gophermaps, non-ASCII names, "
                "0-4 link members: relative, absolute, chained, dangling, cyclic, climbing) in shuffled member order; every member path, every "
                "prefix, paths through links and bogus paths queried. non-trivial = archive with >= 1 link and >= 1 implicit directory")
    res.assumptions = ["the ZIP byte format and decompression are zipfile's (members enter the model as a list)",
                       "archives are conflict-free (no member is both a file and a directory prefix) and have one member per name",
                       "timestamps differ by construction (ZIP directories have mtime 0) and are removed before comparing"]
    rng = ctx.rng
    from pygopherd.handlers.ZIP import VFSZip
    from pygopherd.handlers.base import VFS_Real
    model_lines, checks = [], []
    # unit: normpath / split
    for _ in range(ctx.n(400, 5000)):
        s = "".join(rng.choice(["a", "b", "/", ".", "..", "/", "./", "../", "x/"]) for _ in range(rng.randint(0, 7)))
        model_lines.append("normpath\t" + enc_str(s))
        checks.append(("normpath", s, posixpath.normpath(s)))
        model_lines.append("pathsplit\t" + enc_str(s))
        checks.append(("pathsplit", s, posixpath.split(s)))
    narch = ctx.n(30, 400)
    for ai in range(narch):
        members = gen_members(rng, long_chain=(ai % 5 == 1))
        tree = pyg.Tree()
        try:
            zpath = os.fsdecode(tree.path("XTREEX.zip"))
            write_zip(zpath, members, False)
            tree.write("outside/data.txt", b"o" * 3000)
            cfg = pyg.make_config(tree.root, pyg.FULL_HANDLERS, **{"handlers.dir.DirHandler|cachetime": "0", "handlers.ZIP.ZIPHandler|enabled": "true"})
            pyg.reset_globals()
            try:
                vfs = VFSZip(cfg, VFS_Real(cfg), "/XTREEX.zip")
            except Exception as e:  # noqa
                res.violation("C16:index-build-raises:" + type(e).__name__, "building the archive index raised", {"members": members}, observed=repr(e),
                              required="an index", replay={"members": [(n, k, d.decode("latin-1")) for n, k, d in members]})
                continue
            with zipfile.ZipFile(zpath) as z:
                infos = z.infolist()
                mm = []
                for zi in infos:
                    islink = stat.S_ISLNK(zi.external_attr >> 16)
                    dest = z.read(zi.filename).decode("utf-8", "surrogateescape") if islink else ""
                    mm.append(";".join([enc_str(shown_name(zi)), enc_str(zi.filename), "L" if islink else "F", enc_str(dest)]))
            # queries
            qs = set([""])
            for name, kind, data in members:
                parts = name.rstrip("/").split("/")
                for i in range(1, len(parts) + 1):
                    qs.add("/".join(parts[:i]))
                if kind == "L":
                    for suffix in ("file.txt", "sub", "sub/deep.txt", "readme", "deep.txt", "l1", "nothing"):
                        qs.add(name + "/" + suffix)
            # ("dir//file.txt" is not queried: selectors with '//' never pass the security filter, and
            #  for such paths the answer of VFSZip depends on its entrycache memo)
            qs.update(["nope", "dir/nope", "a.txt/x", "l1/l1/l1"])
            qs = sorted(qs)
            impl = []
            for q in qs:
                sel = "/XTREEX.zip/" + q if q else "/XTREEX.zip"
                try:
                    if vfs.isdir(sel):
                        k = "d"
                    elif vfs.isfile(sel):
                        with vfs.open(sel, "rb") as f:
                            fname = getattr(f, "name", None)
                        k = "f:" + (fname or "")
                    else:
                        k = "-"
                    ex = vfs.exists(sel)
                    if ex != (k != "-"):
                        res.violation("C16:exists-inconsistent", "exists() disagrees with isdir()/isfile()", {"members": members, "path": q}, observed=(ex, k),
                                      required="consistent", replay={"members": [(n, kk, d.decode("latin-1")) for n, kk, d in members]})
                    try:
                        ld = sorted(vfs.listdir(sel))
                    except OSError:
                        ld = None
                except Exception as e:  # noqa
                    k, ld = "EXC:" + type(e).__name__, None
                impl.append((k, ld))
            # selectors that are not below the archive are the underlying file system's
            for osel, want in (("/outside/data.txt", "f"), ("/outside", "d"), ("/outside/nothing.txt", "-"), ("/XTREEX.zipper/a.txt", "-"), ("/a.txt", "-")):
                try:
                    got = "d" if vfs.isdir(osel) else "f" if vfs.isfile(osel) else "-"
                    if vfs.exists(osel) != (got != "-"):
                        got += "?"
                    if got == "f" and vfs.stat(osel)[6] != 3000:
                        got += ":size"
                except Exception as e:  # noqa
                    got = "EXC:" + type(e).__name__
                res.evaluations += 1
                if got != want:
                    res.violation("C16:outside-selector-answered-by-member", "a selector outside the archive was answered from the archive's members",
                                  {"members": members, "selector": osel}, observed=got, required=want,
                                  replay={"members": [(n, kk, d.decode("latin-1")) for n, kk, d in members], "path": "gm", "gplus": "$", "protocol": "gopherp"})
            model_lines.append("zipindex\t" + (" ".join(mm) or "~") + "\t" + enc_list(qs))
            checks.append(("zipindex", {"members": members, "queries": qs}, impl))
            # the same answers read off the tree the index stands for (Model/ZipTree.toTree; theorem archive_answers_as_extracted_tree)
            model_lines.append("ziptree\t" + (" ".join(mm) or "~") + "\t" + enc_list(qs))
            checks.append(("ziptree", {"members": members, "queries": qs}, impl))
            for osel in ("/XTREEX.zip", "/XTREEX.zip/", "/XTREEX.zip/a", "/XTREEX.zipper/a.txt", "/XTREEX.zi", "/outside/data.txt", "", "/", "XTREEX.zip/a"):
                model_lines.append("inarchive\t" + enc_str("/XTREEX.zip") + "\t" + enc_str(osel))
                checks.append(("inarchive", osel, vfs._inarchive(osel) if hasattr(vfs, "_inarchive") else None))
            res.evaluations += len(qs)
            implicit = any("/" in n.rstrip("/") and (n.rsplit("/", 1)[0] + "/") not in [m[0] for m in members] for n, k, d in members)
            if any(k == "L" for n, k, d in members) and implicit:
                res.nontrivial.add(tuple((n, k) for n, k, d in members))
            # ---- oracle: extracted tree vs archive, through the server --------------------
            extract(tree, "XTREEX", members)
            sels = [""] + [q for q in qs if q and "//" not in q]
            # a final '/.' names the same object on disk: the archive must answer alike
            sels += [".", "dir/.", "docs/.", "a.txt/.", "gm/."]
            for q in sels:
                for p in (["gopher", "gopherp"] if rng.random() < 0.7 else ["http", "gemini"]):
                    gp = rng.choice(["+", "$", "!"]) if p == "gopherp" else "+"
                    a = _ask(cfg, tree, p, "/XTREEX" + ("/" + q if q else ""), gp)
                    b = _ask(cfg, tree, p, "/XTREEX.zip" + ("/" + q if q else ""), gp)
                    res.evaluations += 2
                    na, nb = _norm(a, "/XTREEX"), _norm(b, "/XTREEX.zip")
                    if na != nb:
                        ca, cb = reqs.classify(p, a)[0], reqs.classify(p, b)[0]
                        key = "C16:differs:" + ca + "-vs-" + cb
                        res.violation(key, "browsing into the archive differs from browsing the extracted tree",
                                      {"members": members, "path": q, "protocol": p, "gplus": gp}, observed=nb[:300], required=na[:300],
                                      replay={"members": [(n, kk, d.decode("latin-1")) for n, kk, d in members], "path": q, "protocol": p, "gplus": gp})
            # ---- history: the archive is replaced by another one with the same time stamp (cp -p, rsync -t, a rebuild within the
            # same second); one server process throughout.  The next request sees the new archive.
            if ai < ctx.n(6, 40):
                gone = next((n for n, k, d_ in members if k == "F" and "/" not in n and not n.endswith(".abstract")), None)
                before = os.stat(zpath)
                pyg.request(reqs.build("gopher", "/XTREEX.zip"), cfg, reset=False)
                new_members = [m for m in members if m[0] != gone and m[1] != "L"] + [("fresh-member.txt", "F", b"only in the second archive\n")]
                os.unlink(zpath)
                write_zip(zpath, new_members, False)
                os.utime(zpath, ns=(before.st_atime_ns, before.st_mtime_ns))
                r_new = pyg.request(reqs.build("gopher", "/XTREEX.zip/fresh-member.txt"), cfg, reset=False)
                r_top = pyg.request(reqs.build("gopher", "/XTREEX.zip"), cfg, reset=False)
                res.evaluations += 2
                rp_ = {"members": [(n, kk, d_.decode("latin-1")) for n, kk, d_ in members], "path": "fresh-member.txt", "protocol": "gopher", "gplus": "+", "replaced": True}
                if r_new.out != b"only in the second archive\n" or b"/XTREEX.zip/fresh-member.txt\t" not in (r_top.out or b""):
                    res.violation("C16:replaced-archive-stale", "after the archive was replaced (same time stamp) the server does not serve the new archive's member",
                                  {"members_before": members, "added": "fresh-member.txt"}, observed={"member": (r_new.out or b"")[:120], "listing": (r_top.out or b"")[:200]},
                                  required="the new member's bytes, and a listing that has it", replay=rp_)
                if gone is not None:
                    r_old = pyg.request(reqs.build("gopher", "/XTREEX.zip/" + gone), cfg, reset=False)
                    res.evaluations += 1
                    if reqs.classify("gopher", r_old.out)[0] != "notfound":
                        res.violation("C16:replaced-archive-stale", "after the archive was replaced (same time stamp) the server still serves a member of the old archive",
                                      {"members_before": members, "removed": gone}, observed=(r_old.out or b"")[:120], required="not found", replay=rp_)
        finally:
            tree.close()
    # real-file-only handlers never act on members
    tree = pyg.Tree()
    try:
        trees.standard(tree, hostile_content=False)
        trees.add_full_list_content(tree)
        cfg = pyg.make_config(tree.root, pyg.FULL_HANDLERS, **{"handlers.dir.DirHandler|cachetime": "0", "handlers.ZIP.ZIPHandler|enabled": "true"})
        # (members recorded with Unix mode 0755 included; run from a working directory that has programs at the members' relative paths)
        decoy = os.path.join(tree.tmp, "cwd-decoy")
        os.makedirs(os.path.join(decoy, "tools"))
        for nm, body in (("tools/report.sh", b"#!/bin/sh\necho DECOY\n"), ("tools/gen.pyg", trees.PYG_SRC.replace('"pyg:"', '"DECOY:"').encode())):
            with open(os.path.join(decoy, nm), "wb") as f:
                f.write(body)
            os.chmod(os.path.join(decoy, nm), 0o755)
        for sel, want in (("/arch.zip/box.mbox", trees.MBOX), ("/arch.zip/run.pyg", trees.PYG_SRC.encode()),
                          ("/arch.zip/tools/report.sh", trees.ZIP_SCRIPT), ("/arch.zip/tools/gen.pyg", trees.PYG_SRC.encode())):
            r = pyg.request(reqs.build("gopher", sel), cfg, cwd=decoy)
            res.evaluations += 1
            if r.out != want:
                res.violation("C16:real-only-handler-acted", "a handler that needs a real file acted on an archive member", {"selector": sel},
                              observed=(r.out or b"")[:200], required="the member's bytes served as a plain file", replay={"members": [], "path": sel})
    finally:
        tree.close()
    outs = ctx.driver.run(model_lines)
    for (kind, inp, impl), o in zip(checks, outs):
        res.evaluations += 1
        if kind == "normpath":
            model = dec_str(o)
        elif kind == "pathsplit":
            a, b = o.split("\t")
            model = (dec_str(a), dec_str(b))
        elif kind == "inarchive":
            model = (o == "T")
        elif o == "CRASH":
            model = "CRASH"
        else:
            # zipindex / ziptree.  ziptree skips queries with an empty or '.' component ('~': the implementation's answer
            # stands); a file's data in the tree is the member's original name (the data function of the run is the identity)
            model = []
            for item, i_ in zip(o.split(" "), impl):
                if item == "~":
                    model.append(i_)
                    continue
                k, l = item.split("|")
                if k.startswith("f:"):
                    k = "f:" + dec_str(k[2:])
                model.append((k, None if l == "!" else sorted(dec_list(l))))
        if model != impl:
            if kind in ("zipindex", "ziptree") and model != "CRASH":
                diffs = [(q, m, i) for q, m, i in zip(inp["queries"], model, impl) if m != i]
                res.disagree("C16." + kind, {"members": inp["members"], "first_diffs(query, model, impl)": diffs[:4]}, "see input", "see input")
            else:
                res.disagree("C16." + kind, inp, model, impl)
    res.sample({"archive_members": [c for c in checks if c[0] == "zipindex"][0][1]["members"]})
    res.sample({"queries": [c for c in checks if c[0] == "zipindex"][0][1]["queries"][:12]})
    res.degraded = list(pyg.degraded)
    return res


def _ask(cfg, tree, p, sel, gp):
    wpath = os.path.join(tree.tmp, "w.out")
    wf = open(wpath, "wb", buffering=0)
    try:
        r = pyg.request(reqs.build(p, sel, gplus=gp), cfg, tls=reqs.TLS[p], wfile=wf)
    finally:
        wf.close()
    out = open(wpath, "rb").read()
    os.unlink(wpath)
    return out


def _norm(out, prefix):
    out = re.sub(rb"[ \t]*(Last-Modified|Mod-Date):[^\r\n]*\r\n", b"", out)
    # the selector prefix is masked where a selector or URL path *starts* (not preceded by a path character): member names may
    # themselves contain the archive's file name
    for pb in (prefix.encode(), urllib_quote(prefix).encode()):
        out = re.sub(rb"(?<![A-Za-z0-9_.%@/-])" + re.escape(pb) + rb"(?![A-Za-z0-9_.-])", b"/@", out)
    # a directory title / name derived from the archive's own name
    out = out.replace(b"XTREEX.zip", b"XTREEX")
    return out


def urllib_quote(s):
    import urllib.parse
    return urllib.parse.quote(s)


def replay(data):
    rp = data["violation"]["replay"]
    if rp.get("replaced"):
        print("history check of harness/props/c16.py (archive replaced under an unchanged time stamp); first archive:", rp["members"])
        return 0
    tree = pyg.Tree()
    try:
        members = [(n, k, d.encode("latin-1")) for n, k, d in rp["members"]]
        write_zip(os.fsdecode(tree.path("XTREEX.zip")), members, False)
        extract(tree, "XTREEX", members)
        tree.write("outside/data.txt", b"o" * 3000)
        cfg = pyg.make_config(tree.root, pyg.FULL_HANDLERS, **{"handlers.dir.DirHandler|cachetime": "0", "handlers.ZIP.ZIPHandler|enabled": "true"})
        for pre in ("/XTREEX", "/XTREEX.zip"):
            print(pre, _ask(cfg, tree, rp.get("protocol", "gopher"), pre + ("/" + rp["path"] if rp.get("path") else ""), rp.get("gplus", "+")))
    finally:
        tree.close()
    return 0
