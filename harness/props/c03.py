"""C03 — every request is answered with one well-formed response, whatever came before.

Oracle: malformed and mostly-valid requests in every syntax, shipped and full handler lists,
trees with every content kind: exactly one response accepted by an independent per-protocol
validator, no unhandled internal error (no exception leaves the connection handler and no
EXCEPTION log line of a class other than the handled not-found / I-O classes), within a time
bound; and the response after a history of read-only requests == the response on a fresh copy
of the tree (times masked).  Correspondence: not-found / error framing of every protocol and
status-line sanitising vs Model/Frame.respond.
"""
import os
import re
import shutil
import time

import corr_parse
import pyg
import reqs
import trees
from leanio import enc_str, enc_opt, dec_str
from main import Result
from props.c02 import gen_line

HANDLED = {"FileNotFound"}


def handled(cls):
    """not-found and the I/O error family are answered by the protocols' own except clauses"""
    if cls in HANDLED:
        return True
    import builtins
    c = getattr(builtins, cls, None)
    return isinstance(c, type) and issubclass(c, OSError)


def validate(proto, out, r):
    """-> None if valid, else a reason"""
    if proto in ("gopher", "sgopher"):
        if not out and not r.handler:
            return "no bytes and no handler"
        if not r.handler and out[:1] == b"3":
            # an error answer is one menu line: type 3, four fields, one CR LF at the end and no line break before it
            body = out[:-2] if out.endswith(b"\r\n") else out
            if not out.endswith(b"\r\n") or b"\r" in body or b"\n" in body or body.count(b"\t") != 3:
                return "error line is not one menu line"
        return None
    if proto in ("gopherp", "sgopherp"):
        m = re.match(rb"(\+-?\d+|--\d+)\r\n", out)
        if not m:
            # a '+' request may fall through to plain Gopher when the last field is not a Gopher+ string
            return "no Gopher+ status line"
        if m.group(1).startswith(b"+-") and re.match(rb"--\d+\r\n", out[m.end():]):
            return "two status lines: a success status followed by an error status"
        if m.group(1).startswith(b"+") and not m.group(1).startswith(b"+-"):
            n = int(m.group(1)[1:])
            if len(out) - m.end() != n:
                return f"length header {n} but {len(out) - m.end()} body bytes"
        return None
    if proto in ("http", "https", "wap"):
        i = out.find(b"\r\n\r\n")
        if i < 0:
            return "no header terminator"
        lines = out[:i].split(b"\r\n")
        if not re.match(rb"HTTP/1\.0 \d{3} \S", lines[0]):
            return "bad status line"
        for h in lines[1:]:
            if not re.match(rb"[A-Za-z-]+: [^\r\n]*\Z", h):
                return "bad header line"
        return None
    if proto == "gemini":
        m = re.match(rb"(\d\d) ([^\r\n]*)\r\n", out)
        if not m:
            return "no gemini status line"
        if m.group(1)[:1] in b"456" and len(out) != m.end():
            return "error status with a body"
        if m.group(1)[:1] in b"13" and len(out) != m.end():
            return "input/redirect status with a body"
        return None
    if proto == "spartan":
        m = re.match(rb"(\d) ([^\r\n]*)\r\n", out)
        if not m:
            return "no spartan status line"
        if m.group(1) in (b"4", b"5", b"3") and len(out) != m.end():
            return "error status with a body"
        return None
    return "unknown protocol"


SHORT2P = {"GopherProtocol": "gopher", "SecureGopherProtocol": "sgopher", "GopherPlusProtocol": "gopherp", "SecureGopherPlusProtocol": "sgopherp",
           "HTTPProtocol": "http", "HTTPSProtocol": "https", "WAPProtocol": "wap", "GeminiProtocol": "gemini", "SpartanProtocol": "spartan"}


def gen_requests(rng, objs, n):
    out = []
    sels = [s for s, _ in objs]
    for _ in range(n):
        k = rng.random()
        if k < 0.25:
            line, rest = gen_line(rng)
            out.append((line + rest, rng.random() < 0.4))
            continue
        if k < 0.45:
            for rq, tls in corr_parse.gen_requests(rng, 1):
                out.append((rq, tls))
            continue
        s = rng.choice(sels)
        m = rng.random()
        if m < 0.25:
            s = s + rng.choice(["|/MBOX-MESSAGE/1", "|/MBOX-MESSAGE/9999", "|/MAILDIR-MESSAGE/1", "|/MAILDIR-MESSAGE/99", "?x", "|", "/.cap/x", ".abstract",
                                "/", "//", "/..", "\x00", "/gophermap", "/no such"])
        elif m < 0.35:
            i = rng.randrange(len(s) + 1)
            s = s[:i] + rng.choice(["%", "\r", "\x0b", " ", "\udcff", " ", "%0d%0a", "[", "]", "#", "?"]) + s[i:]
        p = rng.choice(reqs.PROTOS)
        search = None
        if rng.random() < 0.15:
            search = rng.choice(["q", "a b", "", "x\ty", "%", "\udcfe"])
        try:
            rq = reqs.build(p, s, search=search, layers=rng.choice([0, 1, 1, 2]), gplus=rng.choice(["+", "!", "$", "+x", ""]),
                            head=rng.random() < 0.15)
        except UnicodeError:
            continue
        if b"\n" in rq.split(b"\r\n")[0]:
            continue
        out.append((rq, reqs.TLS[p]))
    return out


def mask(b):
    b = re.sub(rb"(Last-Modified|Mod-Date):[^\r\n]*", b"T", b)
    return b


def ask(cfg, tree, rq, tls, full):
    if full:
        wpath = os.path.join(tree.tmp, "w.out")
        wf = open(wpath, "wb", buffering=0)
        t0 = time.time()
        try:
            r = pyg.request(rq, cfg, tls=tls, wfile=wf)
        finally:
            wf.close()
        r.out = open(wpath, "rb").read()
        os.unlink(wpath)
    else:
        t0 = time.time()
        r = pyg.request(rq, cfg, tls=tls)
    return r, time.time() - t0


def run(ctx):
    res = Result()
    res.rule = ("seeded requests: near-miss protocol lines, arbitrary selectors in 9 syntaxes with 0-2 encoding layers, existing objects with hostile "
                "suffixes (message numbers out of range, NUL, control characters, brackets, CR LF), shipped and full handler lists; then a history run: "
                "the same requests in sequence on one tree vs each on a fresh copy. non-trivial = distinct (protocol, handler, outcome kind)")
    res.assumptions = ["wall-clock bound: only a 60 s hang fails the check; times are reported", "socketserver.handle_error is not modelled",
                       "content is well-formed in the sense of C08/C09 (e.g. link blocks that add entries carry Name=)"]
    rng = ctx.rng
    slowest = 0.0
    model_lines, checks = [], []
    for listname in ("shipped", "full"):
        tree = pyg.Tree()
        try:
            objs = trees.standard(tree, hostile_content=False)
            tree.write("maild/new/1", b"Subject: maildir one\n\nbody\n")
            tree.write("maild/cur/2:2,S", b"Subject: maildir two\n\nbody\n")
            tree.mkdir("maild/tmp")
            tree.write("mail/noheaders.mbox", b"From a@b Sat Jan  5 09:43:01 2002\n\nbody only\n\n")
            objs += [("/maild", "dir"), ("/maild/new", "dir"), ("/mail/noheaders.mbox", "dir"), ("/maild|/MAILDIR-MESSAGE/1", "file"),
                     ("/mail/noheaders.mbox|/MBOX-MESSAGE/1", "file")]
            # files whose guessed type is in no strict MIME table (image/pict is a non-strict entry), and one with no type at all
            tree.write("pics/old.pict", b"PICT\0\1")
            tree.write("pics/older.pct", b"PICT\0\2")
            tree.write("pics/noext", b"no extension\n")
            objs += [("/pics/old.pict", "file"), ("/pics/older.pct", "file"), ("/pics/noext", "file")]
            kw = {}
            if listname == "full":
                # ... and a default type an administrator made up
                kw["GopherEntry|defaultmimetype"] = "application/x-unknown"
                objs += trees.add_full_list_content(tree)
                os.chmod(tree.path("hello.pyg"), 0o755)
                tree.write("docs/two.pyg", trees.PYG_SRC.replace("pyg:", "second-script:").replace("pyg out", "second pyg"), mode=0o755)
                for pp in ("hello.pyg", "docs/two.pyg"):
                    os.utime(tree.path(pp), (1_700_000_000, 1_700_000_000))        # written within the same second
                objs += [("/docs/two.pyg", "file")]
                # executable by its mode only: the kernel refuses to run it (ENOEXEC) when the script handler tries
                tree.write("docs/notaprogram", b"data with the x bit set, not a program\n", mode=0o755)
                # a program whose answer is its search request (what one client asked must not reach the next)
                tree.write("find.sh", b"#!/bin/sh\necho \"query: ${SEARCHREQUEST:-none given}\"\n", mode=0o755)
                objs += [("/find.sh", "file")]
                kw["handlers.ZIP.ZIPHandler|enabled"] = "true"
            cfg = pyg.make_config(tree.root, pyg.FULL_HANDLERS if listname == "full" else None, **kw)
            pristine = tree.tmp + "-pristine"
            shutil.copytree(tree.root, pristine, symlinks=True)
            try:
                requests = gen_requests(rng, objs, ctx.n(500, 8000))
                fixed = [(b"/README\t\r\n", False), (b"\t\r\n", False), (b"/a\x00b\r\n", False), (b"gemini://[::1/\r\n", True),
                         (b"/mail/box.mbox|/MBOX-MESSAGE/9999\r\n", False), (b"/README|/MBOX-MESSAGE/1\r\n", False),
                         (b"/nonexist|/MBOX-MESSAGE/1\r\n", False), (b"/maild|/MAILDIR-MESSAGE/99\r\n", False), (b"/maild/new\r\n", False),
                         (b"/maild\r\n", False), (b"/mail/noheaders.mbox\r\n", False), (b"/menu.gophermap\t+\r\n", False),
                         (b"gemini://h/a%0d%0ab\r\n", True), (b"gemini://h/a%0Ab\r\n", True), (b"gemini://h/a%0Db%0A%0Ac\r\n", True), (b"h /a%0Ab 0\r\n", False),
                         (b"h /a%0D2%20text/gemini%0Dinjected 0\r\n", False), (b"h /a%0d%0a2%20text/gemini%0d%0ainjected 0\r\n", False), (b"\r\n", False), (b"", False),
                         # a Maildir's own sub-directories listed as plain directories (cache files are left in them), then its messages by number
                         (b"/maild/cur\r\n", False), (b"/maild/new\r\n", False), (b"/maild|/MAILDIR-MESSAGE/1\r\n", False), (b"/maild|/MAILDIR-MESSAGE/2\r\n", False),
                         (b"/maild|/MAILDIR-MESSAGE/3\r\n", False), (b"/maild|/MAILDIR-MESSAGE/4\r\n", False), (b"/maild\t$\r\n", False),
                         # message numbers far beyond any mailbox
                         (b"/mail/box.mbox|/MBOX-MESSAGE/1000000000000000\r\n", False), (b"/maild|/MAILDIR-MESSAGE/99999999999999999999\r\n", False),
                         (b"GET /mail/box.mbox%7C/MBOX-MESSAGE/123456789012345678 HTTP/1.0\r\n\r\n", False), (b"/mail/box.mbox|/MBOX-MESSAGE/0\r\n", False),
                         (b"/mail/box.mbox|/MBOX-MESSAGE/-1\r\n", False),
                         # the directory cache file itself, by its selector, after listings have written it
                         (b"/.cache.pygopherd.dir\r\n", False), (b"GET /docs/.cache.pygopherd.dir HTTP/1.0\r\n\r\n", False),
                         # a bare CR in a selector that is not found; a Spartan length no read() can take
                         (b"/no\rsuch\r\n", False), (b"/docs/a\rb\t+\r\n", False), (b"localhost / 99999999999999999999999999\r\n", False),
                         (b"localhost /README 18446744073709551616\r\n", False),
                         # more digits than int() converts (CPython refuses beyond 4300), and digits that are not ASCII
                         (b"/mail/box.mbox|/MBOX-MESSAGE/" + b"9" * 5000 + b"\r\n", False), (b"GET /maild%7C/MAILDIR-MESSAGE/" + b"1" * 4301 + b" HTTP/1.0\r\n\r\n", False),
                         ("/mail/box.mbox|/MBOX-MESSAGE/\u0661\r\n".encode(), False), ("/mail/box.mbox|/MBOX-MESSAGE/\u00b2\r\n".encode(), False),
                         ("/maild|/MAILDIR-MESSAGE/\u2460\t+\r\n".encode(), False),
                         # Gopher+ information and directory requests for objects the handler only finds missing late
                         (b"/mail/box.mbox|/MBOX-MESSAGE/9999\t!\r\n", False), (b"/maild|/MAILDIR-MESSAGE/77\t!\r\n", False),
                         (b"/mail/box.mbox|/MBOX-MESSAGE/9999\t$\r\n", False), (b"/mail/box.mbox|/MBOX-MESSAGE/3\t+\r\n", False),
                         (b"/nonexist|/MBOX-MESSAGE/1\t!\r\n", False), (b"/arch.zip/no-such-member\t!\r\n", False),
                         # one directory through one protocol after another (the later ones are served from the cache file the first one wrote)
                         (b"/docs\r\n", False), (b"/docs\t$\r\n", False), (b"GET /docs HTTP/1.0\r\n\r\n", False), (b"GET /wap/docs HTTP/1.0\r\n\r\n", False),
                         (b"/docs\t+\r\n", False), (b"gemini://h/docs\r\n", True), (b"h /docs 0\r\n", False), (b"/docs\r\n", False),
                         (b"\t$\r\n", False), (b"GET / HTTP/1.0\r\n\r\n", False), (b"\r\n", False),
                         # a file the script handler claims (mode) and the kernel will not run
                         (b"/docs/notaprogram\r\n", False), (b"/docs/notaprogram\t+\r\n", False), (b"GET /docs/notaprogram HTTP/1.0\r\n\r\n", False),
                         (b"gemini://h/docs/notaprogram\r\n", True), (b"h /docs/notaprogram 0\r\n", False), (b"GET /wap/docs/notaprogram HTTP/1.0\r\n\r\n", False),
                         # a NUL in the selector or in the search string (the shipped log method is syslog, which takes no NUL;
                         # neither does an argument vector)
                         (b"/a\0b\r\n", False), (b"/a\0b\t+\r\n", False), (b"GET /a%00b HTTP/1.0\r\n\r\n", False), (b"gemini://h/a%00b\r\n", True),
                         (b"h /a%00b 0\r\n", False), (b"/docs/a\0.txt\t!\r\n", False), (b"/script.sh\ta\0b\r\n", False),
                         (b"GET /script.sh?searchrequest=a%00b HTTP/1.0\r\n\r\n", False), (b"h /script.sh 3\r\na\0b", False),
                         # a program asked without a query, with one, and without again
                         (b"/find.sh\r\n", False), (b"/find.sh\tsecret words of another client\r\n", False), (b"/find.sh\r\n", False),
                         (b"GET /find.sh?searchrequest=over+http HTTP/1.0\r\n\r\n", False), (b"GET /find.sh HTTP/1.0\r\n\r\n", False),
                         (b"h /find.sh 7\r\nspartan", False), (b"h /find.sh 0\r\n", False),
                         # lines of three parts that are not separated by single blanks (they are not Spartan requests)
                         (b"localhost  / 0\r\n", False), (b"localhost\t/\t0\r\n", False), (b"localhost /  0\r\n", False), (b"localhost\x0b/ 0\r\n", False),
                         (b" localhost / 0\r\n", False), (b"localhost /docs 0 \r\n", False),
                         # a Spartan length with more digits than int() converts; the ZIP handler's own index files by name
                         (b"localhost / " + b"9" * 5000 + b"\r\n", False), (b"localhost /README " + b"1" * 4301 + b"\r\n", False),
                         (b"/.cache.pygopherd.zip3.arch.zip.dat\r\n", False), (b"GET /.cache.pygopherd.zip3.arch.zip.dir HTTP/1.0\r\n\r\n", False),
                         # two scripts with the same modification second, one after the other
                         (b"/hello.pyg\r\n", False), (b"/docs/two.pyg\r\n", False), (b"/hello.pyg\t!\r\n", False), (b"/docs/two.pyg\t+\r\n", False)]
                requests = fixed + requests
                seq_out = []
                # the shipped handler list logs the way the shipped configuration does (syslog); the full list to a file
                pyg.LOG_THROUGH = "syslog" if listname == "shipped" else "file"
                for rq, tls in requests:
                    r, dt = ask(cfg, tree, rq, tls, listname == "full")
                    slowest = max(slowest, dt)
                    res.evaluations += 1
                    line = rq.split(b"\n")[0][:80]
                    inp = {"handlers": listname, "request": rq[:200], "tls": tls}
                    rp = {"handlers": listname, "request_latin1": rq.decode("latin-1"), "tls": tls}
                    name, _ = pyg.get_protocol(rq[:rq.find(b"\n") + 1 if b"\n" in rq else len(rq)].decode("utf-8", "surrogateescape"), cfg, tls,
                                               rq[rq.find(b"\n") + 1:] if b"\n" in rq else b"")
                    proto = SHORT2P.get(name)
                    excs = r.exceptions()
                    unhandled = [c for c in excs if not handled(c)]
                    cls = reqs.classify(proto, r.out)[0] if proto else "none"
                    res.nontrivial.add((proto, r.handler, cls))
                    res.count(f"{listname}:{proto}:{cls}")
                    if dt > 60:
                        res.violation("C03:hang", "a request took longer than the hang limit", inp, observed=dt, required="< 60 s", replay=rp)
                    if r.exc is not None:
                        res.violation("C03:escaped:" + type(r.exc).__name__, "an exception left the connection handler: no response", inp,
                                      observed=repr(r.exc), required="one response", replay=rp)
                        seq_out.append(None)
                        continue
                    if proto is None:
                        res.violation("C03:no-protocol", "no protocol claimed the request", inp, observed=name, required="a protocol", replay=rp)
                        seq_out.append(None)
                        continue
                    if unhandled:
                        res.violation("C03:internal-error:" + unhandled[0] + ":" + (r.handler or proto), "an unhandled internal error was logged instead of a response",
                                      inp, observed={"log": r.log[-2:], "out": r.out[:80]}, required="a well-formed response", replay=rp)
                    why = validate(proto, r.out, r)
                    if not why and excs and r.out:
                        # a success status went out and an error was handled afterwards: whatever follows the status is the
                        # error's answer (a second status line), not the document
                        ok_status = {"http": rb"HTTP/1\.0 200 OK\r\n", "https": rb"HTTP/1\.0 200 OK\r\n", "wap": rb"HTTP/1\.0 200 OK\r\n",
                                     "gemini": rb"2\d ", "spartan": rb"2 "}.get(proto)
                        # (FileNotFound is also logged for every member a listing skips: that is not an answer to an error.
                        #  A not-found raised late shows as a second HTTP status line at the start of the body.)
                        late = [c for c in excs if c != "FileNotFound"]
                        body_ = r.out[r.out.find(b"\r\n\r\n") + 4:] if proto in ("http", "https", "wap") else b""
                        if ok_status and re.match(ok_status, r.out) and (late or re.match(rb"HTTP/1\.0 \d{3} ", body_)):
                            why = "two status lines: a success status, then the answer to an error (" + (late or excs)[0] + ")"
                    if why and not unhandled:
                        # (the cause, where the log names one the kernel reports, is part of the key: one finding per cause)
                        cause = ":exec-format-error" if any("Exec format error" in ln for ln in r.log) else ""
                        res.violation("C03:malformed:" + proto + ":" + why.split(" ")[0] + cause, "the response is not syntactically valid for the detected protocol", inp,
                                      observed={"why": why, "out": r.out[:120]}, required="valid response", replay=rp)
                    seq_out.append(mask(r.out))
                    # correspondence: not-found framing
                    if cls == "notfound" and proto in ("gopher", "gopherp", "http", "wap", "gemini", "spartan") and len(model_lines) < 600:
                        m = None
                        for ln in r.log:
                            k = ln.find("EXCEPTION FileNotFound: ")
                            if k >= 0:
                                m = ln[k + len("EXCEPTION FileNotFound: "):]
                        if m is not None and ("\n" not in m or proto in ("gemini", "spartan")):
                            model_lines.append("\t".join(["respond", proto, "F", "notfound", enc_str(m), "!", "!"]))
                            checks.append((dict(inp, proto=proto), r.out))
                # ---- history independence: each request again on a fresh copy -------------
                nh = ctx.n(120, 1200)
                idxs = sorted(set(rng.sample(range(len(requests)), min(nh, len(requests)))) | set(range(len(fixed))))     # the fixed histories always
                for i in idxs:
                    if seq_out[i] is None:
                        continue
                    shutil.rmtree(tree.root)
                    shutil.copytree(pristine, tree.root, symlinks=True)
                    pyg.fresh_process_state()      # ... and a server process that has served nothing yet
                    rq, tls = requests[i]
                    r, dt = ask(cfg, tree, rq, tls, listname == "full")
                    res.evaluations += 1
                    if mask(r.out or b"") != seq_out[i]:
                        res.violation("C03:history-dependent:" + (r.handler or "nohandler") + (":cache-file" if b".cache.pygopherd.dir" in rq else ":zip-index-file" if b".cache.pygopherd.zip3." in rq else ""),
                                      "the response depends on read-only requests served before it",
                                      {"handlers": listname, "request": rq[:200], "tls": tls, "position_in_history": i},
                                      observed=seq_out[i][:200], required=mask(r.out or b"")[:200],
                                      replay={"handlers": listname, "request_latin1": rq.decode("latin-1"), "tls": tls})
            finally:
                pyg.LOG_THROUGH = None
                shutil.rmtree(pristine, ignore_errors=True)
        finally:
            tree.close()
    # status-line sanitising
    for s in ["a\r\nb", "\r\n\r\nx", "plain", "x\ry\nz", "\n", "tab\there", "é\r\n"]:
        model_lines.append("statusline\t" + enc_str("51") + "\t" + enc_str(s))
        checks.append(({"statusline": s}, ("51 " + re.sub(r"[\r\n]+", " ", s) + "\r\n").encode("utf-8", "backslashreplace")))
    outs = ctx.driver.run(model_lines)
    for (inp, impl), o in zip(checks, outs):
        res.evaluations += 1
        model = dec_str(o).encode("utf-8", "surrogateescape")
        if "statusline" in inp or inp.get("proto") in ("gemini", "spartan"):
            model = dec_str(o).encode("utf-8", "backslashreplace")   # f"{code} {meta}".encode(errors="backslashreplace")
        if model != impl:
            res.disagree("C03.respond", inp, model[:300], impl[:300])
    res.extra["slowest_request_s"] = round(slowest, 3)
    res.sample({"request": b"/mail/box.mbox|/MBOX-MESSAGE/9999\r\n", "expect": "not-found in the protocol's form"})
    res.sample({"request": b"gemini://h/a%0d%0ab\r\n", "expect": "one status line"})
    # ---- a client that keeps its sending side open while it waits (netcat, a browser): complete requests are answered at
    # once, whatever they lack (no header lines at all, lines without a colon, no blank line needed by the protocol)
    tree = pyg.Tree()
    try:
        trees.standard(tree, hostile_content=False)
        cfg = pyg.make_config(tree.root)
        for rq, tls in ((b"GET / HTTP/1.0\r\n\r\n", False), (b"GET /README HTTP/1.0\r\n\r\n", False), (b"HEAD /docs HTTP/1.0\r\n\r\n", False),
                        (b"GET /README HTTP/1.0\r\nno colon here\r\n\r\n", False), (b"GET /README HTTP/1.0\r\nHost: h\r\n\r\n", False),
                        (b"GET /wap/README HTTP/1.0\r\n\r\n", False), (b"GET /README HTTP/1.0\n\n", False),
                        (b"/README\r\n", False), (b"/docs\t$\r\n", False), (b"h /README 0\r\n", False), (b"gemini://h/README\r\n", True),
                        # a Spartan body length that a C ssize_t holds and no memory does (a socket file allocates before it reads)
                        (b"localhost / 1000000000000000\r\n", False), (b"localhost /README 4611686018427387904\r\n", False)):
            r, in_time = pyg.request_live(rq, cfg, tls=tls)
            res.evaluations += 1
            res.nontrivial.add(("live", rq))
            if not in_time or r is None or not r.out:
                res.violation("C03:hang:live-client" if not in_time else "C03:no-response:live-client",
                              "a complete request from a client that keeps its sending side open is not answered in bounded time" if not in_time else
                              "a complete request over a real socket got no response",
                              {"request": rq, "tls": tls}, observed={"answered_within_limit": in_time, "out": (r.out[:80] if r is not None and r.out else None)},
                              required="the response, at once", replay={"handlers": "shipped", "request_latin1": rq.decode("latin-1"), "tls": tls, "live": True})
    finally:
        tree.close()
    # end to end: Model/Serve.answer (request line -> whole response) vs the real server, byte for byte
    import sitecorr
    sitecorr.compare_answers(ctx, res, ctx.n(3, 30), "C03")
    # requests that overlap (another request served, start to finish, while this one is in the middle of rewriting a cache
    # file): each still gets the one complete response it gets alone.  The forcing machinery is C14's.
    from props import c14
    sub = Result()
    c14.forced_interleavings(ctx, sub)
    res.evaluations += sub.evaluations
    res.nontrivial |= {("overlap",) + tuple(x) for x in sub.nontrivial}
    for k_, n_ in sub.distribution.items():
        res.count("overlap:" + k_, n_)
    for v_ in sub.violations:
        res.violation("C03:overlapping-requests:" + v_["key"].split(":")[-1], "a request overlapping another one is not answered with the response it gets alone",
                      v_["input"], observed=v_["observed"], required=v_["required"], replay=dict(v_["replay"] or {}, handlers="shipped"))
    log_functions(ctx, res)
    type_prefixed_selectors(ctx, res)
    res.degraded = list(pyg.degraded) + [d for d in res.degraded if d not in pyg.degraded]
    return res


def type_prefixed_selectors(ctx, res):
    """The documented full list ends with url.URLTypeRewriter (selectors written /0/README, /1/docs as old clients send them):
    in one server process the n-th such request is answered like the first."""
    tree = pyg.Tree()
    try:
        trees.standard(tree, hostile_content=False)
        handlers = pyg.FULL_HANDLERS.rstrip("]") + ", url.URLTypeRewriter]"
        cfg = pyg.make_config(tree.root, handlers, **{"handlers.dir.DirHandler|cachetime": "0"})
        pyg.fresh_process_state()
        rqs = [b"/0/README\r\n", b"/1/docs\r\n", b"GET /0/README HTTP/1.0\r\n\r\n", b"/0/README\t+\r\n", b"/9/data.bin\r\n", b"/0/nothing-here\r\n"]
        rounds = []
        for _ in range(3):
            rounds.append([mask(pyg.request(rq, cfg, reset=False).out or b"") for rq in rqs])
        for k, rq in enumerate(rqs):
            res.evaluations += 1
            res.nontrivial.add(("type-prefixed", rq))
            if not (rounds[0][k] == rounds[1][k] == rounds[2][k]) or (k == 0 and b"does not exist" in rounds[0][k]):
                res.violation("C03:history-dependent:URLTypeRewriter", "the answer to a type-prefixed selector depends on the requests served before it",
                              {"handlers": "full + URLTypeRewriter", "request": rq}, observed=[r_[k][:80] for r_ in rounds], required="the same answer every time",
                              replay={"handlers": "full", "request_latin1": rq.decode("latin-1"), "tls": False})
    finally:
        tree.close()
        pyg.fresh_process_state()


def log_functions(ctx, res):
    """The two logging functions on text decoded from arbitrary bytes: what log_syslog hands to syslog.syslog() (which takes
    no NUL and nothing UTF-8 cannot encode) and what log_file writes, against Model/Log; neither may raise."""
    import io as _io
    import sys as _sys
    from pygopherd import logger
    rng = ctx.rng
    corpus = [b"plain", b"", b"'/caf\xe9-dangling.txt' does not exist", b"/a\x00b", b"\x00", b"\xe2\x82", b"\xf0\x9f\x98", b"\xc0\xaf", b"\xed\xa0\x80",
              "\u00e9\u20ac\U0001f600 ok".encode(), b"\xff\xfe\x00\x01", b"tab\there\r\nnext", b"100% %s %d {0}", b"\x80" * 5, b"a\xe9\x00\xe9b"]
    corpus += [bytes([b]) for b in range(256)]
    for _ in range(ctx.n(150, 3000)):
        corpus.append(bytes(rng.choice([0, 9, 10, 37, 65, 92, 0x80, 0xbf, 0xc2, 0xe2, 0x82, 0xac, 0xed, 0xa0, 0xf0, 0x9f, 0xff, rng.randrange(256)])
                            for _ in range(rng.randint(1, 12))))
    lines, impl = [], []
    saved = (getattr(logger, "syslogfunc", None), getattr(logger, "priority", None))
    try:
        for bs in corpus:
            m = bs.decode("utf-8", "surrogateescape")
            got = []
            logger.syslogfunc = lambda prio, t: (pyg._syslog_standin(prio, t), got.append(t))
            logger.priority = 0
            try:
                logger.log_syslog(m)
                sy = got[0] if got else None
            except Exception as e:  # noqa
                sy = e
            class _Out:      # noqa
                buffer = _io.BytesIO()
            old = _sys.stdout
            _sys.stdout = _Out
            try:
                logger.log_file(m)
                fl = _Out.buffer.getvalue()
            except Exception as e:  # noqa
                fl = e
            finally:
                _sys.stdout = old
            res.evaluations += 2
            if bs and (max(bs) > 127 or 0 in bs):
                res.nontrivial.add(("log", bs))
            for which, val in (("syslog", sy), ("file", fl)):
                if isinstance(val, Exception) or val is None:
                    res.violation("C03:logging-raises:" + which, "a logging function raised on text decoded from request bytes (the request is left without a response)",
                                  {"bytes": bs, "function": "log_" + which}, observed=repr(val), required="a log line", replay={"log_bytes_latin1": bs.decode("latin-1")})
            lines.append("syslogtext\t" + enc_str(m))
            impl.append(("syslog", bs, sy))
            lines.append("logfilebytes\t" + enc_str(m))
            impl.append(("file", bs, fl))
    finally:
        if saved[0] is not None:
            logger.syslogfunc, logger.priority = saved
    outs = ctx.driver.run(lines)
    from leanio import dec_opt
    for (which, bs, val), o in zip(impl, outs):
        if isinstance(val, Exception) or val is None:
            continue
        if which == "syslog":
            model = dec_str(o)
            if model != val:
                res.disagree("C03.syslogtext", {"bytes": bs}, model[:200], val[:200])
        else:
            mo = dec_opt(o)
            model = None if mo is None else mo.encode("latin-1") if all(ord(c) < 256 for c in mo) else mo
            if model != val:
                res.disagree("C03.logfilebytes", {"bytes": bs}, str(model)[:200], str(val)[:200])


def replay(data):
    if "log_bytes_latin1" in (data["violation"].get("replay") or {}):
        from pygopherd import logger
        m = data["violation"]["replay"]["log_bytes_latin1"].encode("latin-1").decode("utf-8", "surrogateescape")
        logger.syslogfunc, logger.priority = (lambda p, t: (pyg._syslog_standin(p, t), print(repr(t)))), 0
        logger.log_syslog(m)
        return 0
    rp = data["violation"]["replay"]
    if rp.get("forced"):
        print("overlapping requests, forced as in harness/props/c14.py forced_interleavings:", rp)
        return 0
    tree = pyg.Tree()
    try:
        trees.standard(tree, hostile_content=False)
        tree.write("maild/new/1", b"Subject: maildir one\n\nbody\n")
        tree.write("maild/cur/2:2,S", b"Subject: maildir two\n\nbody\n")
        tree.write("mail/noheaders.mbox", b"From a@b Sat Jan  5 09:43:01 2002\n\nbody only\n\n")
        kw = {}
        if rp["handlers"] == "full":
            trees.add_full_list_content(tree)
            kw["handlers.ZIP.ZIPHandler|enabled"] = "true"
        cfg = pyg.make_config(tree.root, pyg.FULL_HANDLERS if rp["handlers"] == "full" else None, **kw)
        r = pyg.request(rp["request_latin1"].encode("latin-1"), cfg, tls=rp["tls"])
        print("out:", r.out)
        print("exc:", repr(r.exc))
        print("log:", r.log)
    finally:
        tree.close()
    return 0
