"""C09 — gophermap files are rendered line for line as documented.

Correspondence: real listings (seven views) of generated gophermaps vs Model/Gophermap +
Model/Listing, with the file-system answers (stat, MIME guess, sidecars) of existing local
targets fed to the model.  Oracle: an independent reader written from
doc/standards/gophermap.txt, compared with the entries parsed back from the real Gopher menu.
"""
import os

import listing
import pyg
import reqs
from leanio import dec_str
from main import Result

WORDS = ["Readme", "Lots of stuff", "a b", "src", "x", "Data & more", "caf\xe9", "\udcff\udcfe", "q?x", "#tag", "50%", "a|b"]
LOCAL = ["README", "docs", "docs/a.txt", "inner.txt", "pics", "page.html", "data.tar.gz", "nothere", "sub/deep.txt"]


def gen_map(rng, depth_dir, big=False):
    """-> (bytes of the gophermap, list of (kind, fields) describing each line for the reference reader)
    big: several hundred lines, well beyond any 20 KiB read-ahead"""
    lines = []
    n = rng.randint(1, 9) if not big else rng.randint(1400, 1800)
    for _ in range(n):
        k = rng.random()
        if k < 0.2:
            txt = rng.choice(["Welcome to the map", "", "   indented text  ", "1looks like a link but no tab", "i info", "-----",
                              # the classic fully specified info and error lines (port 0 written out)
                              "iA fully specified info line\tfake\t(NULL)\t0", "3An error line\t\terror.host\t0"])
            lines.append(txt)
        else:
            t = rng.choice("01579gIhis")
            desc = rng.choice(WORDS)
            form = rng.randrange(7)
            if rng.random() < 0.12:
                # characters that end a line for str.splitlines() and not for readline(): part of the description
                desc = desc + rng.choice(["\x0c", "\x0b", "\x1c", "\x1e", "\u0085", "\u2028", "\u2029"]) + "tail"
            if form == 0:      # description + explicit empty selector
                lines.append(f"{t}{desc}\t")
            elif form == 1:    # absolute local
                lines.append(f"{t}{desc}\t/{rng.choice(LOCAL)}")
            elif form == 2:    # relative (some look like URLs, fragments or queries: they are file names)
                lines.append(f"{t}{desc}\t{rng.choice(LOCAL + ['Re:answer.txt', 'C#', 'what-now?', 'a//b', 'x y', 'mailto:me'])}")
            elif form == 3:    # remote with host and port
                lines.append(f"{t}{desc}\t{rng.choice(['/', '/x y', '', 'rel'])}\t{rng.choice(['example.org', 'gopher.floodgap.com', '(NULL)'])}\t{rng.choice(['70', '7070', ' 70 ', '0', '0'])}")
            elif form == 4:    # host only / port only / empty host
                lines.append(f"{t}{desc}\t/{rng.choice(LOCAL)}\t{rng.choice(['', 'example.org'])}\t{rng.choice(['', '70'])}")     # (port 0 only with a host: 0 is no port)
            elif form == 5:    # URL:
                lines.append(f"h{desc}\t{rng.choice(['URL:http://example.org/', 'URL:https://a.b/c?d=e', '/URL:http://x/', 'URL:mailto:admin@example.org', 'URL:news:comp.infosystems.gopher', 'URL:tel:+15550100'])}")
            elif rng.random() < 0.15:   # degenerate: no type character / neither description nor selector
                lines.append(rng.choice([f"\t/{rng.choice(LOCAL)}", f"{t}\t", "\t", f"{t}\t\t\t"]))
            else:              # extra fields, padding
                lines.append(f"{t}{desc} \t /{rng.choice(LOCAL)} \t\t\t+")
    eol = rng.choice(["\n", "\r\n"])
    body = eol.join(lines) + (eol if rng.random() < 0.85 else "")
    return body.encode("utf-8", "surrogateescape")


def reference(data, base, srv):
    """Reading of a gophermap per doc/standards/gophermap.txt -> [(type, display, selector, host, port)]"""
    out = []
    text = data.decode("utf-8", "surrogateescape")
    raw = text.split("\n")
    if raw and raw[-1] == "":
        raw.pop()
    for ln in raw:
        if "\t" not in ln:
            out.append(("i", ln.strip(), None, None, None))
            continue
        f = [x.strip() for x in ln.split("\t")]
        if not f[0]:
            # no type character: not a link; the line is shown as the text it carries
            out.append(("i", ln.strip(), None, None, None))
            continue
        itemtype, display = f[0][0], f[0][1:]
        sel = f[1] if len(f) > 1 and f[1] else display
        if not sel.startswith("/") and not sel.startswith("URL:"):
            sel = base + "/" + sel
        host = f[2] if len(f) > 2 and f[2] else srv[0]
        port = int(f[3]) if len(f) > 3 and f[3] else srv[1]
        out.append((itemtype, display, sel, host, port))
    return out


def parse_menu(out):
    res = []
    for ln in out.split(b"\r\n"):
        if not ln:
            continue
        f = ln.decode("utf-8", "surrogateescape").split("\t")
        if len(f) < 4:
            res.append(("?", ln, None, None, None))
            continue
        res.append((f[0][:1], f[0][1:], f[1], f[2], int(f[3]) if f[3].lstrip("-").isdigit() else f[3]))
    return res


def run(ctx):
    res = Result()
    res.rule = ("seeded gophermaps (info/blank lines, 1-5 fields, absolute/relative/URL: selectors, remote hosts, padding, CRLF or LF, "
                "with and without final newline) at directory depth 0-3, local targets existing or not (population from the file "
                "system), seven views. non-trivial = map with >= 1 info, >= 1 relative and >= 1 remote line, distinct by content")
    res.assumptions = ["port fields are ASCII decimal (int() accepts more; outside the well-formed domain)",
                       "time formatting of Mod-Date is masked"]
    rng = ctx.rng
    tree = pyg.Tree()
    try:
        cfg = pyg.make_config(tree.root, **{"handlers.dir.DirHandler|cachetime": "0"})
        dirs = ["", "m1", "m1/m2", "m1/m2/m3"]
        for d in dirs:
            for f in ("README", "inner.txt", "page.html", "data.tar.gz", "docs/a.txt", "sub/deep.txt"):
                tree.write(os.path.join(d, f), b"<html><head><title>T</title></head></html>\n" if f.endswith("html") else b"content\n")
            tree.write(os.path.join(d, "README.abstract"), b"abstract of readme\nsecond\n")
            tree.mkdir(os.path.join(d, "pics"))
            tree.write(os.path.join(d, "pics/.abstract"), b"pictures\n")
        model_lines, checks = [], []
        nmaps = ctx.n(60, 1200)
        for i in range(nmaps):
            d = rng.choice(dirs)
            data = gen_map(rng, d, big=(i == 1))
            tree.write(os.path.join(d, "gophermap"), data)
            has_abs = rng.random() < 0.3
            abs_path = tree.path(os.path.join(d, ".abstract"))
            if has_abs:
                with open(abs_path, "wb") as f:
                    f.write(b"Directory abstract\nline 2  \n")
            elif os.path.exists(abs_path):
                os.unlink(abs_path)
            sel = "/" + d if d else "/"
            base = "/" + d if d else ""
            lines = listing.gm_lines(data)
            # library answers for local targets
            pops = []
            seen = set()
            for ent in reference(data, base, listing.SRV):
                s = ent[2]
                if s and s not in seen and not s.startswith("URL:") and not s.startswith("/URL:"):
                    seen.add(s)
                    pi = listing.pop_info(tree, cfg, s)
                    if pi:
                        pops.append(pi)
            ref = reference(data, base, listing.SRV)
            kinds = {("info" if e[0] == "i" and e[2] is None else "remote" if e[3] != listing.SRV[0] else "link") for e in ref}
            text = data.decode("utf-8", "surrogateescape")
            if "info" in kinds and "remote" in kinds and any(("\t" in ln and not ln.split("\t")[1].strip().startswith(("/", "URL:")) and ln.split("\t")[1].strip()) for ln in text.split("\n")):
                res.nontrivial.add(data)
            # the same gophermap drives the listing in every protocol: names and link targets as a client reads them
            try:
                from props import c06 as _c06
                waptop = cfg.get("protocols.wap.WAPProtocol", "waptop")
                base_v, _r0 = _c06.views("gopher", cfg, sel, waptop)
                for p_ in ("http", "wap", "gemini", "spartan"):
                    v_, _r1 = _c06.views(p_, cfg, sel, waptop)
                    res.evaluations += 1
                    if base_v is None or v_ is None:
                        continue
                    a_ = base_v if p_ in ("http", "wap") else [(_c06.bsr(n), t) for n, t in base_v]
                    if a_ != v_:
                        diff = next(((x, y) for x, y in zip(a_, v_) if x != y), (len(a_), len(v_)))
                        res.violation(f"C09:protocols-differ:{p_}", "the same gophermap is rendered with different entries or link targets in another protocol",
                                      {"dir": sel, "gophermap": data, "protocol": p_}, observed=str(diff[1])[:200], required=str(diff[0])[:200],
                                      replay={"dir": d, "gophermap_latin1": data.decode("latin-1"), "view": p_, "gplus": False, "abstract": has_abs})
            except (AttributeError, IndexError, ValueError) as e_:      # a listing the client-side readers cannot read: left to the model comparison
                res.count("cross-protocol:unreadable:" + type(e_).__name__)
            for view, gplus in listing.VIEWS:
                rows, r = listing.real_rows(view, gplus, cfg, sel)
                res.evaluations += 1
                inp = {"dir": sel, "gophermap": data, "view": view, "gplus": gplus}
                rp = {"dir": d, "gophermap_latin1": data.decode("latin-1"), "view": view, "gplus": gplus, "abstract": has_abs}
                if rows is None:
                    res.violation(f"C09:listing-failed:{view}", "a well-formed gophermap is not rendered", inp,
                                  observed={"out": (r.out or b"")[:100], "exc": repr(r.exc), "log": r.log[-2:]}, required="a listing", replay=rp)
                    continue
                self_abs = "Directory abstract\nline 2" if has_abs else None
                model_lines.append(listing.model_request(view, gplus, base if base else "", cfg.getboolean("pygopherd", "abstract_headers"),
                                                         cfg.get("pygopherd", "abstract_entries"), self_abs, lines, pops))
                checks.append((inp, rows))
                if view == "gopher" and not gplus:
                    got = parse_menu(rows)
                    # drop abstract info lines (directory header and per-entry abstracts): compare link lines and gophermap info lines in order
                    exp = ref
                    gi = 0
                    ok = True
                    for e in exp:
                        # find next matching line at or after gi
                        found = False
                        while gi < len(got):
                            g = got[gi]
                            gi += 1
                            if e[0] == "i" and e[2] is None:
                                if g[0] == "i" and g[1] == e[1]:
                                    found = True
                                    break
                            elif g[0] == e[0] and g[2] == e[2] and g[3] == e[3] and g[4] == e[4] and (g[1] == e[1] or e[1] == ""):
                                found = True
                                break
                            elif g[0] != "i":
                                break
                        if not found:
                            ok = False
                            res.violation("C09:line-not-rendered", "a gophermap line is not rendered as documented (or out of order)", inp,
                                          observed=[x for x in got][:12], required=e, replay=rp)
                            break
                    extra = [g for g in got[gi:] if g[0] != "i"]
                    if ok and extra:
                        res.violation("C09:extra-entry", "the listing contains a link entry no gophermap line accounts for", inp,
                                      observed=extra[:3], required="one entry per line", replay=rp)
        outs = ctx.driver.run(model_lines)
        for (inp, impl), o in zip(checks, outs):
            res.evaluations += 1
            model = o if o.startswith("CRASH") else dec_str(o).encode("utf-8", "surrogateescape")
            res.count("model:" + ("crash" if o.startswith("CRASH") else "ok") + ":" + inp["view"])
            if model != impl:
                res.disagree("C09.listing", inp, str(model)[:400], str(impl)[:400])
        res.sample({"gophermap": checks[0][0]["gophermap"], "dir": checks[0][0]["dir"], "view": checks[0][0]["view"]})
        res.sample({"gophermap": checks[-1][0]["gophermap"], "dir": checks[-1][0]["dir"], "view": checks[-1][0]["view"]})
    finally:
        tree.close()
    map_histories(ctx, res)
    res.degraded = list(pyg.degraded)
    return res


def map_histories(ctx, res):
    """One server process: a directory first seen without a gophermap gets one (and the reverse; and a gophermap that is
    edited).  Each listing is what a server that has seen nothing before answers for the directory as it is now."""
    tree = pyg.Tree()
    try:
        cfg = pyg.make_config(tree.root, **{"handlers.dir.DirHandler|cachetime": "0"})
        maps = [None, b"iWelcome\n0First\tone.txt\n1Sub\tsub\n", b"0Only\tone.txt\n", None, b"iBack again\n0Two\t/late/two.txt\thost.example\t70\n"]
        bases = ("late", "deep/er/late")
        for base in bases:
            tree.write(base + "/one.txt", b"1\n")
            tree.write(base + "/two.txt", b"2\n")
            tree.write(base + "/sub/x.txt", b"x\n")

        def set_maps(gm):
            for base in bases:
                mp = tree.path(base + "/gophermap")
                if gm is None:
                    if os.path.exists(mp):
                        os.unlink(mp)
                else:
                    tree.write(base + "/gophermap", gm)

        def sweep(one_process):
            got = {}
            if one_process:
                pyg.fresh_process_state()
            for step, gm in enumerate(maps):
                set_maps(gm)
                for base in bases:
                    if one_process:
                        # the parent is listed too (a listing looks every child up)
                        pyg.request(reqs.build("gopher", "/" + os.path.dirname(base)), cfg, reset=False)
                    for view, gplus in listing.VIEWS:
                        if not one_process:
                            pyg.fresh_process_state()
                        rows, r = listing.real_rows(view, gplus, cfg, "/" + base, reset=not one_process)
                        got[(step, base, view, gplus)] = rows
            return got
        history, fresh = sweep(True), sweep(False)
        for key, rows in history.items():
            step, base, view, gplus = key
            res.evaluations += 1
            res.nontrivial.add(("map-history",) + key)
            if rows != fresh[key]:
                res.violation("C09:map-history:" + ("gained" if maps[step] is not None else "lost"),
                              "a directory is not rendered from the gophermap it has now (one server process, the gophermap came or went)",
                              {"dir": base, "step": step, "gophermap_now": maps[step], "view": view, "gplus": gplus},
                              observed=(rows or b"")[:300], required=(fresh[key] or b"")[:300],
                              replay={"map_history": True, "dir": base, "step": step, "view": view, "gplus": gplus})
    finally:
        tree.close()
        pyg.fresh_process_state()


def replay(data):
    rp = data["violation"]["replay"]
    if rp.get("map_history"):
        r = Result()
        map_histories(None, r)
        print(r.violations[:3])
        return 0
    tree = pyg.Tree()
    try:
        cfg = pyg.make_config(tree.root, **{"handlers.dir.DirHandler|cachetime": "0"})
        tree.write(os.path.join(rp["dir"], "gophermap"), rp["gophermap_latin1"].encode("latin-1"))
        rows, r = listing.real_rows(rp["view"], rp["gplus"], cfg, "/" + rp["dir"])
        print(r.out)
        print(r.log)
    finally:
        tree.close()
    return 0
